package main

// Family "benchstat" (C14): inputs and flag settings generated from
// Benchstat.tla are written to disk and given to the REBUILT benchstat binary,
// once with -format csv and once with -format text.  Both outputs are parsed
// back into tables / rows / columns / cells and compared with the model's
// declarative expectation: the sequence of tables with their key tuples and
// unit, column tuples and row labels in order, which cells exist, and the
// warnings of every cell and of the geomean row.  Numbers: the unit's
// assumption (benchmath.AssumeNothing / AssumeExact) is evaluated in-process on
// the MODEL's sample of each cell (and on the model's baseline cell = first
// column of the same row); the CSV centre, interval, delta, p / n and the
// library's own warnings must be exactly those.  The geomean row is compared
// with an independent evaluation over the model's membership.
//
// usage: vh benchstat replay <cases.ndjson> <verdicts.ndjson> <benchstat-binary>

import (
	"bytes"
	"context"
	"encoding/csv"
	"encoding/json"
	"fmt"
	"math"
	"math/rand"
	"os"
	"os/exec"
	"path/filepath"
	"regexp"
	"runtime"
	"sort"
	"strconv"
	"strings"
	"sync"
	"time"

	"golang.org/x/perf/benchmath"
)

func init() { register("benchstat", famBenchstat) }

type bsVal struct {
	U string `json:"u"`
	V int    `json:"v"`
}

type bsLine struct {
	Kind string  `json:"kind"`
	Key  string  `json:"key"`
	Val  string  `json:"val"`
	Base string  `json:"base"`
	X    string  `json:"x"`
	G    string  `json:"g"`
	Vals []bsVal `json:"vals"`
}

type bsArg struct {
	Path  string `json:"path"`
	Label string `json:"label"`
}

type bsKV struct {
	N string `json:"n"`
	V string `json:"v"`
}

type bsCell struct {
	R    int      `json:"r"`
	C    int      `json:"c"`
	S    []bsVal  `json:"s"`
	Vary []string `json:"vary"`
}

type bsTable struct {
	Key     []bsKV     `json:"key"`
	Unit    string     `json:"unit"`
	Exact   bool       `json:"exact"`
	ColF    []string   `json:"colf"`
	Cols    [][]string `json:"cols"`
	Rows    [][]string `json:"rows"`
	Cells   []bsCell   `json:"cells"`
	Differs []bool     `json:"differs"`
}

type bsCase struct {
	ID      json.RawMessage     `json:"id"`
	Args    []bsArg             `json:"args"`
	Content map[string][]bsLine `json:"content"`
	Flags   map[string]string   `json:"flags"`
	Expect  struct {
		Tables []bsTable `json:"tables"`
		Labels []string  `json:"labels"`
		NMeas  int       `json:"nmeas"`
		NCells int       `json:"ncells"`
	} `json:"expect"`
}

func famBenchstat(mode string, args []string) error {
	if mode != "replay" {
		return fmt.Errorf("benchstat: unknown mode %q", mode)
	}
	if len(args) < 3 {
		return fmt.Errorf("benchstat replay needs <cases> <verdicts> <benchstat-binary>")
	}
	bin := args[2]
	if _, err := os.Stat(bin); err != nil {
		return fmt.Errorf("benchstat binary: %v", err)
	}
	data, err := os.ReadFile(args[0])
	if err != nil {
		return err
	}
	var lines [][]byte
	for _, l := range bytes.Split(data, []byte("\n")) {
		if len(bytes.TrimSpace(l)) > 0 {
			lines = append(lines, l)
		}
	}
	verdicts := make([]Verdict, len(lines))
	nw := runtime.NumCPU()
	if nw > 16 {
		nw = 16
	}
	if !thorough() && nw > 8 {
		nw = 8
	}
	base, err := os.MkdirTemp(os.Getenv("VERIF_WORK"), "bsrun")
	if err != nil {
		return err
	}
	defer os.RemoveAll(base)
	var wg sync.WaitGroup
	next := make(chan int)
	for w := 0; w < nw; w++ {
		wg.Add(1)
		go func() {
			defer wg.Done()
			for i := range next {
				var hdr struct {
					ID json.RawMessage `json:"id"`
				}
				if err := json.Unmarshal(lines[i], &hdr); err != nil {
					verdicts[i] = fail("badcase", "bad case line: %v", err)
					continue
				}
				v := safeCall(func(raw json.RawMessage) Verdict { return bsReplay(raw, bin, base) }, lines[i])
				v.ID = hdr.ID
				v.Family = "benchstat"
				verdicts[i] = v
			}
		}()
	}
	for i := range lines {
		next <- i
	}
	close(next)
	wg.Wait()
	out, err := os.Create(args[1])
	if err != nil {
		return err
	}
	defer out.Close()
	enc := json.NewEncoder(out)
	for i := range verdicts {
		if err := enc.Encode(&verdicts[i]); err != nil {
			return err
		}
	}
	return nil
}

// ---------------------------------------------------------------- concretisation

var bsFileNames = [][6]string{
	{"old.txt", "new.txt", "third.txt", "fourth.txt", "fifth.txt", "sixth.txt"},
	{"before", "after", "later", "latest", "next", "last"},
	{"run-1.out", "run-2.out", "run-3.out", "run-4.out", "run-5.out", "run-6.out"},
	{"a.bench", "b.bench", "c.bench", "d.bench", "e.bench", "f.bench"},
	{"p1", "p2", "p3", "p4", "p5", "p6"},
}

var bsMults = []float64{1, 1, 10, 100, 2.5, 0.5, 1000, 7, 1e6, 0.001}

type bsConc struct {
	rng   *rand.Rand
	names *strings.Replacer
	file  map[string]string
	mult  float64
	zero  string
	negFrobs bool
}

func bsCaseNo(id json.RawMessage) int64 {
	var n int64
	if err := json.Unmarshal(id, &n); err == nil {
		return n
	}
	var h int64
	for _, b := range id {
		h = h*131 + int64(b)
	}
	return h
}

func newBsConc(id json.RawMessage) *bsConc {
	c := &bsConc{rng: rand.New(rand.NewSource(seed()*7919 + bsCaseNo(id)*104729 + 17))}
	fn := bsFileNames[c.rng.Intn(len(bsFileNames))]
	c.file = map[string]string{}
	var repl []string
	for i, f := range fn {
		tok := "p" + strconv.Itoa(i+1)
		c.file[tok] = f
		repl = append(repl, tok, f)
	}
	c.names = strings.NewReplacer(repl...)
	c.mult = bsMults[c.rng.Intn(len(bsMults))]
	c.zero = []string{"0", "0.0", "0.000", "0e0"}[c.rng.Intn(4)]
	c.negFrobs = c.rng.Intn(3) == 0
	return c
}

// value text as written in the file, and the float it denotes
func (c *bsConc) valueText(v int, unit string) (string, float64) {
	if v == 0 {
		return c.zero, 0
	}
	f := float64(v) * c.mult
	if c.negFrobs && unit == "frobs" {
		// a signed metric: every measurement of the custom unit is negative in this case
		f = -f
	}
	s := strconv.FormatFloat(f, 'g', -1, 64)
	g, err := strconv.ParseFloat(s, 64)
	if err != nil {
		panic(err)
	}
	return s, g
}

// the value in base units, as benchstat must see it (ns -> sec)
func bsBase(f float64, rawUnit string) float64 {
	if rawUnit == "ns/op" {
		return f * 1e-9
	}
	return f
}

func (c *bsConc) sep() string {
	return []string{" ", "\t", "  ", " \t", "\t\t"}[c.rng.Intn(5)]
}

func (c *bsConc) render(lines []bsLine) string {
	var b strings.Builder
	junk := []string{"", "PASS", "ok  \tgolang.org/x/perf/x\t1.234s", "--- BENCH: BenchmarkX", "goos linux", "# comment"}
	for _, l := range lines {
		if c.rng.Intn(6) == 0 {
			b.WriteString(junk[c.rng.Intn(len(junk))] + "\n")
		}
		switch l.Kind {
		case "set":
			b.WriteString(l.Key + ":" + []string{" ", "\t", "  "}[c.rng.Intn(3)] + l.Val + "\n")
		case "del":
			b.WriteString(l.Key + ":\n")
		case "meta":
			b.WriteString("Unit" + c.sep() + l.Key + c.sep() + "assume=" + l.Val + "\n")
		case "bench":
			name := "Benchmark" + l.Base
			if l.X != "" {
				name += "/x=" + l.X
			}
			if l.G != "" {
				name += "-" + l.G
			}
			b.WriteString(name + c.sep() + strconv.Itoa(1+c.rng.Intn(1000000)))
			for _, v := range l.Vals {
				t, _ := c.valueText(v.V, v.U)
				b.WriteString(c.sep() + t + c.sep() + v.U)
			}
			b.WriteString("\n")
		default:
			panic("unknown line kind " + l.Kind)
		}
	}
	if c.rng.Intn(4) == 0 {
		b.WriteString("PASS\n")
	}
	return b.String()
}

var bsDefaults = map[string]string{"table": ".config", "row": ".fullname", "col": ".file", "ignore": "", "filter": "*", "alpha": "0.05", "conf": "0.95"}
var bsFlagName = map[string]string{"table": "-table", "row": "-row", "col": "-col", "ignore": "-ignore", "filter": "-filter", "alpha": "-alpha", "conf": "-confidence"}

// ---------------------------------------------------------------- expectations with numbers

type bsExpCell struct {
	present bool
	sample  *benchmath.Sample
	sum     benchmath.Summary
	hasCmp  bool
	cmp     benchmath.Comparison
	base    *bsExpCell
	vary    map[string]bool
	n       int
}

type bsExpTable struct {
	t     *bsTable
	key   map[string]string
	cols  [][]string
	rows  []string
	cells [][]*bsExpCell // [row][col]
}

func bsLabel(vals []string) string {
	var parts []string
	for _, v := range vals {
		if v != "" {
			parts = append(parts, v)
		}
	}
	return strings.Join(parts, " ")
}

func errStrings(es []error) []string {
	var out []string
	for _, e := range es {
		out = append(out, e.Error())
	}
	sort.Strings(out)
	return out
}

func sameStrings(a, b []string) bool {
	if len(a) != len(b) {
		return false
	}
	for i := range a {
		if a[i] != b[i] {
			return false
		}
	}
	return true
}

func relClose(a, b, tol float64) bool {
	if a == b {
		return true
	}
	return math.Abs(a-b) <= tol*math.Max(math.Abs(a), math.Abs(b))
}

// ---------------------------------------------------------------- CSV side

type bsObsCell struct {
	center, ci, delta, p string
}

type bsObsTable struct {
	key     map[string]string
	unit    string
	ncols   int
	colVals [][]string // [col][header line]
	rows    []bsObsRow
	geo     *bsObsRow
}

type bsObsRow struct {
	label string
	line  int
	f     []string
}

func bsStartCol(exp int) int {
	if exp == 0 {
		return 1
	}
	return 1 + 2 + (exp-1)*4
}

func (r *bsObsRow) at(i int) string {
	if i < len(r.f) {
		return r.f[i]
	}
	return ""
}

var bsKeyLine = regexp.MustCompile(`^([^ :]+): (.*)$`)

func bsParseCSV(out string) ([]*bsObsTable, error) {
	var tables []*bsObsTable
	cur := map[string]string{}
	var t *bsObsTable
	var hdr [][]string
	inBody := false
	finish := func() error {
		if t == nil {
			return nil
		}
		if !inBody {
			return fmt.Errorf("table without unit line")
		}
		if len(t.rows) == 0 {
			return fmt.Errorf("table without rows")
		}
		g := t.rows[len(t.rows)-1]
		t.rows = t.rows[:len(t.rows)-1]
		t.geo = &g
		tables = append(tables, t)
		t, hdr, inBody = nil, nil, false
		return nil
	}
	if out == "" {
		return nil, nil
	}
	lines := strings.Split(strings.TrimSuffix(out, "\n"), "\n")
	for i, line := range lines {
		ln := i + 1
		if line == "" {
			if err := finish(); err != nil {
				return nil, fmt.Errorf("line %d: %v", ln, err)
			}
			continue
		}
		rd := csv.NewReader(strings.NewReader(line))
		rd.FieldsPerRecord = -1
		rec, err := rd.Read()
		if err != nil {
			return nil, fmt.Errorf("line %d: %v", ln, err)
		}
		if t == nil {
			t = &bsObsTable{}
		}
		if inBody {
			t.rows = append(t.rows, bsObsRow{label: rec[0], line: ln, f: rec})
			continue
		}
		if len(rec) == 1 {
			m := bsKeyLine.FindStringSubmatch(rec[0])
			if m == nil || len(hdr) > 0 {
				return nil, fmt.Errorf("line %d: unexpected single-field line %q", ln, rec[0])
			}
			cur[m[1]] = m[2]
			continue
		}
		if rec[0] != "" {
			return nil, fmt.Errorf("line %d: data row before the unit line: %q", ln, line)
		}
		if len(rec) >= 3 && rec[2] == "CI" {
			// unit line
			if (len(rec)-3)%4 != 0 {
				return nil, fmt.Errorf("line %d: malformed unit line %q", ln, line)
			}
			t.ncols = 1 + (len(rec)-3)/4
			t.unit = rec[1]
			for c := 0; c < t.ncols; c++ {
				s := bsStartCol(c)
				if rec[s] != t.unit || rec[s+1] != "CI" || (c > 0 && (rec[s+2] != "vs base" || rec[s+3] != "P")) {
					return nil, fmt.Errorf("line %d: malformed unit line %q", ln, line)
				}
			}
			t.colVals = make([][]string, t.ncols)
			for _, h := range hdr {
				for c := 0; c < t.ncols; c++ {
					v := ""
					if s := bsStartCol(c); s < len(h) {
						v = h[s]
					}
					t.colVals[c] = append(t.colVals[c], v)
				}
				for j, v := range h {
					ok := v == ""
					for c := 0; c < t.ncols; c++ {
						if bsStartCol(c) == j {
							ok = true
						}
					}
					if !ok {
						return nil, fmt.Errorf("line %d: column header value %q at an unexpected position", ln, v)
					}
				}
			}
			t.key = map[string]string{}
			for k, v := range cur {
				t.key[k] = v
			}
			inBody = true
			continue
		}
		hdr = append(hdr, rec)
	}
	if err := finish(); err != nil {
		return nil, fmt.Errorf("at end: %v", err)
	}
	return tables, nil
}

var bsRefLine = regexp.MustCompile(`^([A-Z]+)([0-9]+): (.*)$`)

type bsPos struct{ line, col int }

func bsParseWarnings(stderr string) (map[bsPos][]string, []string) {
	w := map[bsPos][]string{}
	var other []string
	for _, l := range strings.Split(stderr, "\n") {
		if l == "" {
			continue
		}
		m := bsRefLine.FindStringSubmatch(l)
		if m == nil {
			other = append(other, l)
			continue
		}
		// spreadsheet column names: A..Z, AA, AB, ... (bijective base 26)
		col := 0
		for _, ch := range m[1] {
			col = col*26 + int(ch-'A') + 1
		}
		col--
		line, _ := strconv.Atoi(m[2])
		p := bsPos{line, col}
		w[p] = append(w[p], m[3])
	}
	return w, other
}

const (
	bsWarnVary   = "benchmarks vary in "
	bsWarnDiff   = "benchmark set differs from baseline; geomeans may not be comparable"
	bsWarnSum    = "summaries must be >0 to compute geomean"
	bsWarnRatios = "ratios must be >0 to compute geomean"
)

// splitVary separates "benchmarks vary in a, b" messages from the rest.
func splitVary(msgs []string) (vary [][]string, rest []string) {
	for _, m := range msgs {
		if strings.HasPrefix(m, bsWarnVary) {
			vary = append(vary, strings.Split(strings.TrimPrefix(m, bsWarnVary), ", "))
		} else {
			rest = append(rest, m)
		}
	}
	sort.Strings(rest)
	return
}

func sameSet(names []string, want map[string]bool) bool {
	if len(names) != len(want) {
		return false
	}
	seen := map[string]bool{}
	for _, n := range names {
		if !want[n] || seen[n] {
			return false
		}
		seen[n] = true
	}
	return true
}

func keysOf(m map[string]bool) []string {
	var out []string
	for k := range m {
		out = append(out, k)
	}
	sort.Strings(out)
	return out
}

// geomean expectation of one column, evaluated independently over the model's membership
type bsGeo struct {
	hasSum    bool
	sum       float64
	hasRatio  bool
	ratio     float64
	ratioWarn int // 1 required, 0 forbidden, -1 free (no pairing at all, or a division by zero)
	differs   bool
	superset  bool // benchmark set strictly contains the baseline's
}

func bsGeoOf(et *bsExpTable, ci int) bsGeo {
	var g bsGeo
	g.differs = et.t.Differs[ci]
	var logs float64
	n := 0
	pos := true
	var ratios []float64
	bad := false
	sup := true
	extra := false
	for ri := range et.rows {
		c := et.cells[ri][ci]
		b := et.cells[ri][0]
		if b.present && !c.present {
			sup = false
		}
		if c.present && !b.present {
			extra = true
		}
		if !c.present {
			continue
		}
		n++
		if c.sum.Center > 0 {
			logs += math.Log(c.sum.Center)
		} else {
			pos = false
		}
		if ci > 0 && b.present {
			x, y := c.sum.Center, b.sum.Center
			switch {
			case x == y:
				ratios = append(ratios, 1)
			case y == 0:
				bad = true
			default:
				ratios = append(ratios, x/y)
			}
		}
	}
	g.superset = sup && extra
	if pos && n > 0 {
		g.hasSum = true
		g.sum = math.Exp(logs / float64(n))
	}
	if ci > 0 {
		switch {
		case bad || len(ratios) == 0:
			g.ratioWarn = -1
		default:
			allPos := true
			l := 0.0
			for _, r := range ratios {
				if r > 0 {
					l += math.Log(r)
				} else {
					allPos = false
				}
			}
			if allPos {
				g.hasRatio = true
				g.ratio = math.Exp(l / float64(len(ratios)))
			} else {
				g.ratioWarn = 1
			}
		}
	}
	return g
}

// ---------------------------------------------------------------- one case

type bsRun struct {
	stdout, stderr string
}

func bsExec(bin, dir string, argv []string) (bsRun, error) {
	ctx, cancel := context.WithTimeout(context.Background(), 60*time.Second)
	defer cancel()
	cmd := exec.CommandContext(ctx, bin, argv...)
	cmd.Dir = dir
	var so, se bytes.Buffer
	cmd.Stdout, cmd.Stderr = &so, &se
	err := cmd.Run()
	if ctx.Err() != nil {
		return bsRun{}, fmt.Errorf("hang")
	}
	if err != nil {
		return bsRun{so.String(), se.String()}, fmt.Errorf("exit: %v", err)
	}
	return bsRun{so.String(), se.String()}, nil
}

func bsReplay(raw json.RawMessage, bin, baseDir string) Verdict {
	var c bsCase
	if err := json.Unmarshal(raw, &c); err != nil {
		return fail("badcase", "%v", err)
	}
	cc := newBsConc(c.ID)
	dir, err := os.MkdirTemp(baseDir, "c")
	if err != nil {
		return fail("harness", "%v", err)
	}
	defer os.RemoveAll(dir)
	var concrete strings.Builder
	var paths []string
	for p := range c.Content {
		paths = append(paths, p)
	}
	sort.Strings(paths)
	for _, p := range paths {
		fn, ok := cc.file[p]
		if !ok {
			return fail("badcase", "unknown path token %q", p)
		}
		text := cc.render(c.Content[p])
		if err := os.WriteFile(filepath.Join(dir, fn), []byte(text), 0o644); err != nil {
			return fail("harness", "%v", err)
		}
		fmt.Fprintf(&concrete, "== %s ==\n%s", fn, text)
	}
	var argv []string
	for _, f := range []string{"table", "row", "col", "ignore", "filter", "alpha", "conf"} {
		v, ok := c.Flags[f]
		if !ok {
			return fail("badcase", "flag %s missing", f)
		}
		if v == bsDefaults[f] && cc.rng.Intn(2) == 0 {
			continue
		}
		argv = append(argv, bsFlagName[f], v)
	}
	alpha, err1 := strconv.ParseFloat(c.Flags["alpha"], 64)
	conf, err2 := strconv.ParseFloat(c.Flags["conf"], 64)
	if err1 != nil || err2 != nil {
		return fail("badcase", "alpha/conf not numeric")
	}
	var fileArgs []string
	for _, a := range c.Args {
		fn, ok := cc.file[a.Path]
		if !ok {
			return fail("badcase", "unknown path token %q", a.Path)
		}
		if a.Label != "" {
			fileArgs = append(fileArgs, a.Label+"="+fn)
		} else {
			fileArgs = append(fileArgs, fn)
		}
	}
	csvArgv := append(append(append([]string{}, argv...), "-format", "csv"), fileArgs...)
	txtArgv := append(append([]string{}, argv...), fileArgs...)
	if cc.rng.Intn(2) == 0 {
		txtArgv = append(append(append([]string{}, argv...), "-format", "text"), fileArgs...)
	}
	fmt.Fprintf(&concrete, "$ benchstat %s\n", strings.Join(quoteAll(csvArgv), " "))
	mk := func(sig, format string, a ...interface{}) Verdict {
		v := fail(sig, format, a...)
		v.Concrete = concrete.String()
		return v
	}
	// a deviation of a class that has its own signature is remembered, the remaining
	// comparisons still run, and it is reported only if nothing else fails
	var deferred *Verdict
	soft := func(sig, format string, a ...interface{}) {
		if deferred == nil {
			v := fail(sig, format, a...)
			deferred = &v
		}
	}

	// ---- expectation with numbers, from the model's samples
	thr := benchmath.DefaultThresholds
	thr.CompareAlpha = alpha
	var exp []*bsExpTable
	for ti := range c.Expect.Tables {
		t := &c.Expect.Tables[ti]
		et := &bsExpTable{t: t, key: map[string]string{}}
		for _, kv := range t.Key {
			et.key[kv.N] = cc.names.Replace(kv.V)
		}
		for _, col := range t.Cols {
			var cv []string
			for _, v := range col {
				cv = append(cv, cc.names.Replace(v))
			}
			et.cols = append(et.cols, cv)
		}
		for _, row := range t.Rows {
			var rv []string
			for _, v := range row {
				rv = append(rv, cc.names.Replace(v))
			}
			et.rows = append(et.rows, bsLabel(rv))
		}
		et.cells = make([][]*bsExpCell, len(t.Rows))
		for ri := range et.cells {
			et.cells[ri] = make([]*bsExpCell, len(t.Cols))
			for ci := range et.cells[ri] {
				et.cells[ri][ci] = &bsExpCell{}
			}
		}
		var assumption benchmath.Assumption = benchmath.AssumeNothing
		if t.Exact {
			assumption = benchmath.AssumeExact
		}
		for _, cell := range t.Cells {
			if cell.R < 1 || cell.R > len(t.Rows) || cell.C < 1 || cell.C > len(t.Cols) || len(cell.S) == 0 {
				return fail("badcase", "cell out of range")
			}
			ec := et.cells[cell.R-1][cell.C-1]
			var vals []float64
			for _, s := range cell.S {
				_, f := cc.valueText(s.V, s.U)
				vals = append(vals, bsBase(f, s.U))
			}
			ec.present = true
			ec.n = len(vals)
			ec.sample = benchmath.NewSample(vals, &thr)
			ec.sum = assumption.Summary(ec.sample, conf)
			ec.vary = map[string]bool{}
			for _, k := range cell.Vary {
				ec.vary[k] = true
			}
		}
		for ri := range et.cells {
			b := et.cells[ri][0]
			for ci := 1; ci < len(t.Cols); ci++ {
				ec := et.cells[ri][ci]
				if ec.present && b.present {
					ec.hasCmp = true
					ec.base = b
					ec.cmp = assumption.Compare(b.sample, ec.sample)
				}
			}
		}
		exp = append(exp, et)
	}

	// ---- CSV
	run, err := bsExec(bin, dir, csvArgv)
	if err != nil {
		if err.Error() == "hang" {
			return mk("hang", "benchstat -format csv did not finish")
		}
		return mk("benchstat-exit", "%v; stderr: %s", err, run.stderr)
	}
	fmt.Fprintf(&concrete, "-- stdout --\n%s-- stderr --\n%s", run.stdout, run.stderr)
	warns, other := bsParseWarnings(run.stderr)
	// a "benchstat: ..." line on stderr may be an error report or a mere diagnostic (the exit status
	// does not tell): it is judged by what it goes with - the tables must be the expected ones
	// either way, and the line is quoted when they are not
	for _, l := range other {
		if strings.HasPrefix(l, "benchstat:") && len(c.Expect.Tables) > 0 && strings.TrimSpace(run.stdout) == "" {
			return mk("benchstat-error", "%s (and no table on stdout, %d expected)", l, len(c.Expect.Tables))
		}
	}
	obs, err := bsParseCSV(run.stdout)
	if err != nil {
		return mk("csv-parse", "cannot parse CSV output: %v", err)
	}
	if v := bsCompareCSV(exp, obs, warns, mk, soft); !v.OK {
		return v
	}

	// ---- text
	run2, err := bsExec(bin, dir, txtArgv)
	if err != nil {
		if err.Error() == "hang" {
			return mk("hang", "benchstat -format text did not finish")
		}
		return mk("benchstat-exit", "%v; stderr: %s", err, run2.stderr)
	}
	fmt.Fprintf(&concrete, "$ benchstat %s\n-- stdout --\n%s-- stderr --\n%s", strings.Join(quoteAll(txtArgv), " "), run2.stdout, run2.stderr)
	for _, l := range strings.Split(run2.stderr, "\n") {
		if strings.HasPrefix(l, "benchstat:") && len(c.Expect.Tables) > 0 && strings.TrimSpace(run2.stdout) == "" {
			return mk("benchstat-error", "%s (and no table on stdout, %d expected)", l, len(c.Expect.Tables))
		}
	}
	tobs, err := bsParseText(run2.stdout)
	if err != nil {
		return mk("text-parse", "cannot parse text output: %v", err)
	}
	if v := bsCompareText(exp, tobs, mk, soft); !v.OK {
		return v
	}
	if deferred != nil {
		deferred.Concrete = concrete.String()
		return *deferred
	}
	return pass()
}

func quoteAll(a []string) []string {
	out := make([]string, len(a))
	for i, s := range a {
		if s == "" || strings.ContainsAny(s, " *()@\"'") {
			out[i] = "'" + s + "'"
		} else {
			out[i] = s
		}
	}
	return out
}

type bsMk func(sig, format string, a ...interface{}) Verdict
type bsSoft func(sig, format string, a ...interface{})

func samePerm(a, b []string) bool {
	x := append([]string(nil), a...)
	y := append([]string(nil), b...)
	sort.Strings(x)
	sort.Strings(y)
	return sameStrings(x, y)
}

// compare the table sequence (keys + unit), shared by both formats
func bsCompareTableSeq(exp []*bsExpTable, gotKeys []map[string]string, gotUnits []string, what string, mk bsMk) Verdict {
	var wantIDs, gotIDs []string
	id := func(k map[string]string, unit string) string {
		var parts []string
		var names []string
		for n, v := range k {
			if v != "" {
				names = append(names, n+"="+v)
			}
		}
		sort.Strings(names)
		parts = append(parts, names...)
		return strings.Join(parts, ",") + " [" + unit + "]"
	}
	for _, et := range exp {
		wantIDs = append(wantIDs, id(et.key, et.t.Unit))
	}
	for i := range gotKeys {
		gotIDs = append(gotIDs, id(gotKeys[i], gotUnits[i]))
	}
	if !sameStrings(wantIDs, gotIDs) {
		if samePerm(wantIDs, gotIDs) {
			return mk("table-order", "%s: tables in order %q, want %q", what, gotIDs, wantIDs)
		}
		return mk("tables", "%s: tables %q, want %q", what, gotIDs, wantIDs)
	}
	return pass()
}

func bsCompareCSV(exp []*bsExpTable, obs []*bsObsTable, warns map[bsPos][]string, mk bsMk, soft bsSoft) Verdict {
	var gk []map[string]string
	var gu []string
	for _, o := range obs {
		gk = append(gk, o.key)
		gu = append(gu, o.unit)
	}
	if v := bsCompareTableSeq(exp, gk, gu, "csv", mk); !v.OK {
		return v
	}
	used := map[bsPos]bool{}
	take := func(line, col int) []string {
		p := bsPos{line, col}
		used[p] = true
		return warns[p]
	}
	for ti, et := range exp {
		o := obs[ti]
		tn := fmt.Sprintf("csv table %d (%s)", ti+1, et.t.Unit)
		// columns
		var wantCols, gotCols []string
		for _, cv := range et.cols {
			wantCols = append(wantCols, strings.Join(cv, "|"))
		}
		for c := 0; c < o.ncols; c++ {
			gotCols = append(gotCols, strings.Join(o.colVals[c], "|"))
		}
		if len(et.t.ColF) == 0 {
			// a projection without fields has one (empty) key and prints no header line
			if o.ncols != 1 || len(o.colVals[0]) != 0 {
				return mk("columns", "%s: columns %q, want a single unlabelled column", tn, gotCols)
			}
		} else if !sameStrings(wantCols, gotCols) {
			if samePerm(wantCols, gotCols) {
				return mk("col-order", "%s: columns in order %q, want %q", tn, gotCols, wantCols)
			}
			return mk("columns", "%s: columns %q, want %q", tn, gotCols, wantCols)
		}
		// rows
		var gotRows []string
		for _, r := range o.rows {
			gotRows = append(gotRows, r.label)
		}
		if !sameStrings(et.rows, gotRows) {
			if samePerm(et.rows, gotRows) {
				return mk("row-order", "%s: rows in order %q, want %q", tn, gotRows, et.rows)
			}
			return mk("rows", "%s: rows %q, want %q", tn, gotRows, et.rows)
		}
		if o.geo.label != "geomean" {
			return mk("geomean-row", "%s: last row is %q, want the geomean row", tn, o.geo.label)
		}
		// cells
		for ri := range et.rows {
			row := &o.rows[ri]
			for ci := range et.cols {
				ec := et.cells[ri][ci]
				s := bsStartCol(ci)
				cn := fmt.Sprintf("%s row %q col %q", tn, et.rows[ri], strings.Join(et.cols[ci], "|"))
				got := bsObsCell{row.at(s), row.at(s + 1), "", ""}
				if ci > 0 {
					got.delta, got.p = row.at(s+2), row.at(s+3)
				}
				if !ec.present {
					if got.center != "" || got.ci != "" || got.delta != "" || got.p != "" {
						return mk("cell-presence", "%s: a cell is printed (%v) but no filtered measurement falls there", cn, got)
					}
					continue
				}
				if got.center == "" {
					return mk("cell-presence", "%s: no cell printed, want one with n=%d", cn, ec.n)
				}
				w1 := take(row.line, s)
				vary, rest := splitVary(w1)
				// sample: centre, interval
				x, err := strconv.ParseFloat(got.center, 64)
				if err != nil {
					return mk("csv-parse", "%s: centre %q", cn, got.center)
				}
				if !relClose(x, ec.sum.Center, 1e-9) {
					return mk("cell-centre", "%s: centre %v, want %v (model sample %v)", cn, x, ec.sum.Center, ec.sample.Values)
				}
				if want := ec.sum.PctRangeString(); got.ci != want {
					return mk("cell-interval", "%s: interval %q, want %q (model sample %v)", cn, got.ci, want, ec.sample.Values)
				}
				if want := errStrings(ec.sum.Warnings); !sameStrings(rest, want) {
					return mk("cell-summary-warnings", "%s: warnings %q, want %q (model sample %v)", cn, rest, want, ec.sample.Values)
				}
				// residue warning
				if len(ec.vary) == 0 {
					if len(vary) != 0 {
						return mk("vary-spurious", "%s: warning %q but the cell's results agree on every key that is neither projected nor ignored", cn, w1)
					}
				} else {
					if len(vary) != 1 || !sameSet(vary[0], ec.vary) {
						return mk("vary-keys", "%s: 'benchmarks vary in' names %v, want exactly %v", cn, vary, keysOf(ec.vary))
					}
				}
				// comparison against the first column's cell of the same row
				if !ec.hasCmp {
					if got.delta != "" || got.p != "" {
						sig := "delta-without-baseline"
						return mk(sig, "%s: comparison %q %q printed, but the first column has no cell in this row (or this is the first column)", cn, got.delta, got.p)
					}
					continue
				}
				wantDelta := ec.cmp.FormatDelta(ec.base.sum.Center, ec.sum.Center)
				wantP := ec.cmp.String()
				if got.p != wantP {
					return mk("cell-p-n", "%s: %q, want %q (model baseline %v, sample %v)", cn, got.p, wantP, ec.base.sample.Values, ec.sample.Values)
				}
				if got.delta != wantDelta {
					return mk("cell-delta", "%s: delta %q, want %q (model baseline %v, sample %v)", cn, got.delta, wantDelta, ec.base.sample.Values, ec.sample.Values)
				}
				w2 := take(row.line, s+2)
				sort.Strings(w2)
				if want := errStrings(ec.cmp.Warnings); !sameStrings(w2, want) {
					return mk("cell-comparison-warnings", "%s: comparison warnings %q, want %q", cn, w2, want)
				}
			}
		}
		// geomean row
		for ci := range et.cols {
			g := bsGeoOf(et, ci)
			s := bsStartCol(ci)
			cn := fmt.Sprintf("%s geomean col %q", tn, strings.Join(et.cols[ci], "|"))
			gotSum := o.geo.at(s)
			if g.hasSum {
				x, err := strconv.ParseFloat(gotSum, 64)
				if err != nil || !relClose(x, g.sum, 1e-9) {
					return mk("geomean-centre", "%s: %q, want %v", cn, gotSum, g.sum)
				}
			} else if gotSum != "" {
				return mk("geomean-centre", "%s: %q, want none (a centre is not positive)", cn, gotSum)
			}
			if o.geo.at(s+1) != "" {
				return mk("geomean-row", "%s: unexpected field %q", cn, o.geo.at(s+1))
			}
			w := append([]string(nil), take(o.geo.line, s)...)
			has := func(m string) bool {
				for _, x := range w {
					if x == m {
						return true
					}
				}
				return false
			}
			count := 0
			if has(bsWarnSum) != !g.hasSum {
				return mk("geomean-warning-positive", "%s: warnings %q, 'summaries must be >0' wanted=%v", cn, w, !g.hasSum)
			}
			if !g.hasSum {
				count++
			}
			if ci > 0 {
				gotRatio := o.geo.at(s + 2)
				if g.hasRatio {
					want := (g.ratio - 1) * 100
					y, err := strconv.ParseFloat(strings.TrimSuffix(gotRatio, "%"), 64)
					if err != nil || !strings.HasSuffix(gotRatio, "%") || math.Abs(y-want) > 0.0051 {
						return mk("geomean-ratio", "%s: ratio %q, want %+.2f%%", cn, gotRatio, want)
					}
				} else if gotRatio != "?" {
					return mk("geomean-ratio", "%s: ratio %q, want ?", cn, gotRatio)
				}
				switch g.ratioWarn {
				case 1:
					if !has(bsWarnRatios) {
						return mk("geomean-warning-positive", "%s: warnings %q, want 'ratios must be >0'", cn, w)
					}
					count++
				case 0:
					if has(bsWarnRatios) {
						return mk("geomean-warning-positive", "%s: warnings %q, but every ratio is positive", cn, w)
					}
				default:
					if has(bsWarnRatios) {
						count++
					}
				}
				if has(bsWarnDiff) != g.differs {
					if !(g.differs && g.superset) {
						return mk("geomean-differs", "%s: warnings %q, 'benchmark set differs' wanted=%v", cn, w, g.differs)
					}
					soft("geomean-superset-not-reported", "%s: the column's benchmark set strictly contains the baseline's (rows %q), but there is no 'benchmark set differs from baseline' warning; warnings %q", cn, et.rows, w)
				} else if g.differs {
					count++
				}
				if o.geo.at(s+3) != "" {
					return mk("geomean-row", "%s: unexpected field %q", cn, o.geo.at(s+3))
				}
			}
			if len(w) != count {
				return mk("geomean-warning-unexpected", "%s: warnings %q", cn, w)
			}
		}
	}
	for p, m := range warns {
		if !used[p] {
			return mk("warning-unexpected", "warning at line %d column %d that belongs to no cell of the model: %q", p.line, p.col, m)
		}
	}
	return pass()
}

// ---------------------------------------------------------------- text side

type bsTextTable struct {
	key    map[string]string
	unit   string
	cols   [][]string // [col][level]
	rows   []bsTextRow
	notes  map[int]string
	hasCmp []bool // unit line shows "vs base"
}

// A body row of the text format.  Which column a cell stands in is taken from the CSV
// output (exact positions); the text layout's column offsets are C16's business (and are
// not reliable: groups without any delta cell come out narrower in the header than in
// the body).  Here the row is the SEQUENCE of its printed cells.
type bsTextRow struct {
	label string
	toks  []string
}

// one printed cell: "<centre> ± <range> [marks]" optionally followed by "<delta> (<p n>) [marks]"
type bsTextCell struct {
	pct    string
	hasCmp bool
	delta  string
	paren  string
	marks  []int
	raw    string
}

func isSuper(tok string) bool {
	_, ok := superValue(tok)
	return ok
}

func bsTextCells(toks []string) ([]bsTextCell, error) {
	var out []bsTextCell
	i := 0
	marks := func(c *bsTextCell) {
		for i < len(toks) && isSuper(toks[i]) {
			n, _ := superValue(toks[i])
			c.marks = append(c.marks, n)
			i++
		}
	}
	for i < len(toks) {
		start := i
		if i+2 >= len(toks) || toks[i+1] != "±" {
			return nil, fmt.Errorf("expected '<centre> ± <range>' at %q", strings.Join(toks[i:], " "))
		}
		c := bsTextCell{pct: toks[i+2]}
		i += 3
		marks(&c)
		if i+1 < len(toks) && strings.HasPrefix(toks[i+1], "(") {
			c.hasCmp = true
			c.delta = toks[i]
			i++
			j := i
			for j < len(toks) && !strings.HasSuffix(toks[j], ")") {
				j++
			}
			if j >= len(toks) {
				return nil, fmt.Errorf("unclosed parenthesis in %q", strings.Join(toks, " "))
			}
			p := strings.Join(toks[i:j+1], " ")
			c.paren = p[1 : len(p)-1]
			i = j + 1
			marks(&c)
		}
		c.raw = strings.Join(toks[start:i], " ")
		out = append(out, c)
	}
	return out, nil
}

const bsSuper = "⁰¹²³⁴⁵⁶⁷⁸⁹"

func superValue(s string) (int, bool) {
	n := 0
	if s == "" {
		return 0, false
	}
	for _, r := range s {
		i := strings.IndexRune(bsSuper, r)
		if i < 0 {
			return 0, false
		}
		n = n*10 + len([]rune(bsSuper[:i]))
	}
	return n, true
}

func barPositions(r []rune) []int {
	var out []int
	for i, x := range r {
		if x == '│' {
			out = append(out, i)
		}
	}
	return out
}

func runeSlice(r []rune, a, b int) string {
	if a > len(r) {
		a = len(r)
	}
	if b > len(r) {
		b = len(r)
	}
	if a >= b {
		return ""
	}
	return string(r[a:b])
}

func bsParseText(out string) ([]*bsTextTable, error) {
	var tables []*bsTextTable
	if out == "" {
		return nil, nil
	}
	cur := map[string]string{}
	lines := strings.Split(strings.TrimSuffix(out, "\n"), "\n")
	i := 0
	for i < len(lines) {
		// key lines
		for i < len(lines) && !strings.ContainsRune(lines[i], '│') {
			if lines[i] == "" {
				i++
				continue
			}
			m := bsKeyLine.FindStringSubmatch(lines[i])
			if m == nil {
				return nil, fmt.Errorf("line %d: expected a key line or a table header: %q", i+1, lines[i])
			}
			cur[m[1]] = m[2]
			i++
		}
		if i >= len(lines) {
			return nil, fmt.Errorf("key lines without a table")
		}
		var hdr [][]rune
		for i < len(lines) && strings.ContainsRune(lines[i], '│') {
			hdr = append(hdr, []rune(lines[i]))
			i++
		}
		t := &bsTextTable{key: map[string]string{}, notes: map[int]string{}}
		for k, v := range cur {
			t.key[k] = v
		}
		// Only the LEFT bar of a column group is used: it is the left margin of the group's
		// first layout column and therefore lines up in every header line and with the body.
		// The closing bar at the right edge is a cell of its own (its alignment is C16's
		// business); the last group simply extends to the end of the line.
		ul := hdr[len(hdr)-1]
		bars := barPositions(ul)
		if len(bars) < 2 {
			return nil, fmt.Errorf("line %d: unit line has %d bars", i, len(bars))
		}
		ncols := len(bars) - 1
		bars = bars[:ncols]
		groupEnd := func(starts []int, k int, r []rune) int {
			if k+1 < len(starts) {
				return starts[k+1]
			}
			e := len(r)
			for e > 0 && (r[e-1] == ' ' || r[e-1] == '│') {
				e--
			}
			return e
		}
		t.cols = make([][]string, ncols)
		for c := 0; c < ncols; c++ {
			f := strings.Fields(runeSlice(ul, bars[c]+1, groupEnd(bars, c, ul)))
			if len(f) == 0 {
				return nil, fmt.Errorf("line %d: empty unit in column %d", i, c)
			}
			vs := false
			unit := strings.Join(f, " ")
			if len(f) >= 3 && f[len(f)-2] == "vs" && f[len(f)-1] == "base" {
				vs = true
				unit = strings.Join(f[:len(f)-2], " ")
			}
			if c == 0 {
				t.unit = unit
			} else if unit != t.unit {
				return nil, fmt.Errorf("line %d: units differ between columns", i)
			}
			t.hasCmp = append(t.hasCmp, vs)
			for _, lv := range hdr[:len(hdr)-1] {
				lb := barPositions(lv)
				if len(lb) < 2 {
					return nil, fmt.Errorf("line %d: header line with %d bars", i, len(lb))
				}
				lb = lb[:len(lb)-1]
				val, found := "", false
				for k := range lb {
					if lb[k] <= bars[c] && (k+1 == len(lb) || bars[c] < lb[k+1]) {
						val, found = strings.TrimSpace(runeSlice(lv, lb[k]+1, groupEnd(lb, k, lv))), true
						break
					}
				}
				if !found {
					return nil, fmt.Errorf("line %d: no header span covers column %d", i, c)
				}
				t.cols[c] = append(t.cols[c], val)
			}
		}
		// body
		for i < len(lines) && lines[i] != "" {
			r := []rune(lines[i])
			if _, ok := superValue(string(r[:1])); ok {
				break
			}
			// the label ends at the first run of two blanks (labels contain single blanks only;
			// the first cell is separated by a 3-wide margin); an empty label starts with a blank
			line := string(r)
			var row bsTextRow
			if !strings.HasPrefix(line, " ") {
				if k := strings.Index(line, "  "); k >= 0 {
					row.label, line = line[:k], line[k:]
				} else {
					row.label, line = line, ""
				}
			}
			row.toks = strings.Fields(line)
			t.rows = append(t.rows, row)
			i++
		}
		// footnotes
		for i < len(lines) && lines[i] != "" {
			sp := strings.IndexByte(lines[i], ' ')
			if sp < 0 {
				return nil, fmt.Errorf("line %d: malformed footnote %q", i+1, lines[i])
			}
			n, ok := superValue(lines[i][:sp])
			if !ok {
				return nil, fmt.Errorf("line %d: malformed footnote %q", i+1, lines[i])
			}
			t.notes[n] = lines[i][sp+1:]
			i++
		}
		tables = append(tables, t)
	}
	return tables, nil
}

func bsCompareText(exp []*bsExpTable, obs []*bsTextTable, mk bsMk, soft bsSoft) Verdict {
	var gk []map[string]string
	var gu []string
	for _, o := range obs {
		gk = append(gk, o.key)
		gu = append(gu, o.unit)
	}
	if v := bsCompareTableSeq(exp, gk, gu, "text", mk); !v.OK {
		return v
	}
	for ti, et := range exp {
		o := obs[ti]
		tn := fmt.Sprintf("text table %d (%s)", ti+1, et.t.Unit)
		var wantCols, gotCols []string
		for _, cv := range et.cols {
			wantCols = append(wantCols, strings.Join(cv, "|"))
		}
		for _, cv := range o.cols {
			gotCols = append(gotCols, strings.Join(cv, "|"))
		}
		if !sameStrings(wantCols, gotCols) {
			if samePerm(wantCols, gotCols) {
				return mk("col-order", "%s: columns in order %q, want %q", tn, gotCols, wantCols)
			}
			return mk("columns", "%s: columns %q, want %q", tn, gotCols, wantCols)
		}
		for c, vs := range o.hasCmp {
			if vs != (c > 0) {
				return mk("text-layout", "%s: 'vs base' header of column %d: %v", tn, c, vs)
			}
		}
		wantRows := append([]string(nil), et.rows...)
		if len(et.rows) > 1 {
			wantRows = append(wantRows, "geomean")
		}
		var gotRows []string
		for _, r := range o.rows {
			gotRows = append(gotRows, r.label)
		}
		if !sameStrings(wantRows, gotRows) {
			if samePerm(wantRows, gotRows) {
				return mk("row-order", "%s: rows in order %q, want %q", tn, gotRows, wantRows)
			}
			return mk("rows", "%s: rows %q, want %q", tn, gotRows, wantRows)
		}
		notesOf := func(marks []int) ([]string, error) {
			var out []string
			for _, n := range marks {
				msg, ok := o.notes[n]
				if !ok {
					return nil, fmt.Errorf("footnote %d is not defined", n)
				}
				out = append(out, msg)
			}
			return out, nil
		}
		for ri := range et.rows {
			cells, err := bsTextCells(o.rows[ri].toks)
			if err != nil {
				return mk("text-parse", "%s row %q: %v", tn, et.rows[ri], err)
			}
			var want []int
			for ci := range et.cols {
				if et.cells[ri][ci].present {
					want = append(want, ci)
				}
			}
			if len(cells) != len(want) {
				return mk("cell-presence", "%s row %q: %d cells printed (%q), want %d", tn, et.rows[ri], len(cells), strings.Join(o.rows[ri].toks, " "), len(want))
			}
			for k, ci := range want {
				ec := et.cells[ri][ci]
				tc := cells[k]
				cn := fmt.Sprintf("%s row %q col %q", tn, et.rows[ri], strings.Join(et.cols[ci], "|"))
				if tc.pct != ec.sum.PctRangeString() {
					return mk("cell-interval", "%s: text %q, want interval ± %s (model sample %v)", cn, tc.raw, ec.sum.PctRangeString(), ec.sample.Values)
				}
				notes, err := notesOf(tc.marks)
				if err != nil {
					return mk("text-parse", "%s: %v", cn, err)
				}
				vary, rest := splitVary(notes)
				wantNotes := append([]string(nil), errStrings(ec.sum.Warnings)...)
				if ec.hasCmp {
					wantNotes = append(wantNotes, errStrings(ec.cmp.Warnings)...)
					if !tc.hasCmp || tc.paren != ec.cmp.String() {
						return mk("cell-p-n", "%s: text %q, want (%s) (model baseline %v, sample %v)", cn, tc.raw, ec.cmp.String(), ec.base.sample.Values, ec.sample.Values)
					}
					if wantDelta := ec.cmp.FormatDelta(ec.base.sum.Center, ec.sum.Center); tc.delta != wantDelta {
						return mk("cell-delta", "%s: text %q, want delta %q", cn, tc.raw, wantDelta)
					}
				} else if tc.hasCmp {
					return mk("delta-without-baseline", "%s: comparison printed (%q), but the first column has no cell in this row (or this is the first column)", cn, tc.raw)
				}
				sort.Strings(wantNotes)
				if !sameStrings(rest, wantNotes) {
					return mk("cell-warnings", "%s: footnotes %q, want %q", cn, rest, wantNotes)
				}
				if len(ec.vary) == 0 {
					if len(vary) != 0 {
						return mk("vary-spurious", "%s: footnote %q but the cell's results agree on every key that is neither projected nor ignored", cn, notes)
					}
				} else if len(vary) != 1 || !sameSet(vary[0], ec.vary) {
					return mk("vary-keys", "%s: 'benchmarks vary in' names %v, want exactly %v", cn, vary, keysOf(ec.vary))
				}
			}
		}
		if len(et.rows) > 1 {
			toks := o.rows[len(o.rows)-1].toks
			i := 0
			isRatio := func(t string) bool { return t == "?" || strings.HasSuffix(t, "%") }
			for ci := range et.cols {
				g := bsGeoOf(et, ci)
				cn := fmt.Sprintf("%s geomean col %q", tn, strings.Join(et.cols[ci], "|"))
				bad := func() Verdict {
					return mk("geomean-row", "%s: geomean row %q does not have the expected fields", cn, strings.Join(toks, " "))
				}
				if g.hasSum {
					if i >= len(toks) || isRatio(toks[i]) || isSuper(toks[i]) {
						return bad()
					}
					i++
				}
				if ci > 0 {
					if i >= len(toks) || !isRatio(toks[i]) {
						return bad()
					}
					r := toks[i]
					i++
					if g.hasRatio {
						want := (g.ratio - 1) * 100
						y, err := strconv.ParseFloat(strings.TrimSuffix(r, "%"), 64)
						if err != nil || math.Abs(y-want) > 0.0051 {
							return mk("geomean-ratio", "%s: ratio %q, want %+.2f%%", cn, r, want)
						}
					} else if r != "?" {
						return mk("geomean-ratio", "%s: ratio %q, want ?", cn, r)
					}
				}
				var marks []int
				for i < len(toks) && isSuper(toks[i]) {
					n, _ := superValue(toks[i])
					marks = append(marks, n)
					i++
				}
				notes, err := notesOf(marks)
				if err != nil {
					return mk("text-parse", "%s: %v", cn, err)
				}
				has := func(m string) bool {
					for _, x := range notes {
						if x == m {
							return true
						}
					}
					return false
				}
				if ci > 0 {
					if has(bsWarnDiff) != g.differs {
						if !(g.differs && g.superset) {
							return mk("geomean-differs", "%s: footnotes %q, 'benchmark set differs' wanted=%v", cn, notes, g.differs)
						}
						soft("geomean-superset-not-reported", "%s: the column's benchmark set strictly contains the baseline's, but there is no 'benchmark set differs from baseline' footnote", cn)
					}
					if (g.ratioWarn == 1 && !has(bsWarnRatios)) || (g.ratioWarn == 0 && has(bsWarnRatios)) {
						return mk("geomean-warning-positive", "%s: footnotes %q", cn, notes)
					}
				}
				if has(bsWarnSum) != !g.hasSum {
					return mk("geomean-warning-positive", "%s: footnotes %q, 'summaries must be >0' wanted=%v", cn, notes, !g.hasSum)
				}
			}
			if i != len(toks) {
				return mk("geomean-row", "%s: geomean row %q has more fields than expected", tn, strings.Join(toks, " "))
			}
		}
	}
	return pass()
}
