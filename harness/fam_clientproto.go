package main

// Family "clientproto" (extension plan X05): the CLIENT side of the storage protocol.
//
//	replay, tag "case"  ClientProto_gen: a fault plan and a sequence of calls on one
//	    storage.Upload (new / create / wrec / wjunk / commit / abort / cancel) with the SET of
//	    (results, stored) the contract allows for it.  The calls are made on the real
//	    storage.Client against a real storage/app server (sqlite in memory + MemFS) reached
//	    through a TCP relay that breaks the connection where the plan says; after every
//	    step what was seen so far must be a prefix of an allowed history, and at the end
//	    (results, what the server can be queried for) must be a member of the set.
//	replay, tag "read"  ClientProtoRead_gen: calls on a *Query / *UploadList against an
//	    answer that is complete, an error status, refused, cancelled or cut after k items.
//	replay, tag "save"  ClientProtoSave_gen: one benchsave command line, run as a subprocess
//	    against the same kind of server.
//	replay, tag "equiv" (auxiliary) Client.Query / ListUploads return what DB.Query /
//	    DB.ListUploads return for the same arguments.
//	record <out> <n>    seeded random caller beyond TLC's bounds; events for ClientProto_trace.

import (
	"bufio"
	"bytes"
	"context"
	"encoding/json"
	"errors"
	"fmt"
	"io"
	"log"
	"mime/multipart"
	"net"
	"net/http"
	"net/http/httptest"
	"net/url"
	"os"
	"os/exec"
	"path/filepath"
	"regexp"
	"runtime"
	"sort"
	"strconv"
	"strings"
	"sync"
	"sync/atomic"
	"time"

	"golang.org/x/perf/storage"
	sapp "golang.org/x/perf/storage/app"
	sbenchfmt "golang.org/x/perf/storage/benchfmt"
	"golang.org/x/perf/storage/db"
	_ "golang.org/x/perf/storage/db/sqlite3"
	"golang.org/x/perf/storage/fs"
)

func init() { register("clientproto", famClientProto) }

// cpLog keeps the tail of what the server under test logs (it logs every failed request).
type cpLogBuf struct {
	mu    sync.Mutex
	lines []string
}

func (b *cpLogBuf) Write(p []byte) (int, error) {
	b.mu.Lock()
	b.lines = append(b.lines, strings.TrimSpace(string(p)))
	if len(b.lines) > 400 {
		b.lines = append([]string(nil), b.lines[200:]...)
	}
	b.mu.Unlock()
	return len(p), nil
}

func (b *cpLogBuf) tail(n int) string {
	b.mu.Lock()
	defer b.mu.Unlock()
	l := b.lines
	if len(l) > n {
		l = l[len(l)-n:]
	}
	return strings.Join(l, " | ")
}

var cpLog = &cpLogBuf{}

// ---------------------------------------------------------------- relay

// cpRelay forwards TCP connections to the storage server and breaks them on demand.
type cpRelay struct {
	ln      net.Listener
	backend string

	mu       sync.Mutex
	cutAt    int      // break client->server once markers[cutAt-1] has passed (0 = never)
	markers  []string // one per item of the request stream, in order
	replyCut int      // -1 never; 0 drop the response altogether; 1 headers and a few bytes of the body
	s2cMark  string   // break server->client once this text has been forwarded ("" = never)
	cuts     int      // connections broken since reset

	open   int64  // relayed connections still alive
	onDial func() // a connection to the server has been made
	seen   map[string]bool
}

func cpNewRelay(backend string) (*cpRelay, error) {
	ln, err := net.Listen("tcp", "127.0.0.1:0")
	if err != nil {
		return nil, err
	}
	r := &cpRelay{ln: ln, backend: backend, replyCut: -1, seen: map[string]bool{}}
	go func() {
		for {
			c, err := ln.Accept()
			if err != nil {
				return
			}
			// counted here, in accept order, so that a barrier connection (see cpEnv.waitIdle)
			// proves that every connection made before it has been counted
			atomic.AddInt64(&r.open, 1)
			r.mu.Lock()
			r.seen[c.RemoteAddr().String()] = true
			r.mu.Unlock()
			go r.handle(c)
		}
	}()
	return r, nil
}

// barrier returns once every connection made to the relay so far has been accepted by it.
func (r *cpRelay) barrier(d time.Duration) bool {
	c, err := net.DialTimeout("tcp", r.ln.Addr().String(), d)
	if err != nil {
		return false
	}
	defer c.Close()
	me := c.LocalAddr().String()
	deadline := time.Now().Add(d)
	for {
		r.mu.Lock()
		ok := r.seen[me]
		if ok {
			delete(r.seen, me)
		}
		if len(r.seen) > 4096 {
			r.seen = map[string]bool{}
		}
		r.mu.Unlock()
		if ok {
			return true
		}
		if time.Now().After(deadline) {
			return false
		}
		time.Sleep(100 * time.Microsecond)
	}
}

func (r *cpRelay) reset() {
	r.mu.Lock()
	r.cutAt, r.markers, r.replyCut, r.s2cMark, r.cuts = 0, nil, -1, "", 0
	r.mu.Unlock()
}

func (r *cpRelay) push(m ...string) {
	r.mu.Lock()
	r.markers = append(r.markers, m...)
	r.mu.Unlock()
}

func (r *cpRelay) pop(n int) {
	r.mu.Lock()
	if len(r.markers) >= n {
		r.markers = r.markers[:len(r.markers)-n]
	}
	r.mu.Unlock()
}

func (r *cpRelay) handle(c net.Conn) {
	// the server is dialled when the client has sent something (a connection that is opened
	// and dropped - an abandoned dial, a barrier - never reaches it)
	first := make([]byte, 64<<10)
	fn, ferr := c.Read(first)
	if fn == 0 {
		c.Close()
		atomic.AddInt64(&r.open, -1)
		return
	}
	b, err := net.Dial("tcp", r.backend)
	if err != nil {
		c.Close()
		atomic.AddInt64(&r.open, -1)
		return
	}
	if r.onDial != nil {
		r.onDial()
	}
	var once sync.Once
	cut := func(fault bool) {
		once.Do(func() {
			defer atomic.AddInt64(&r.open, -1)
			if fault {
				r.mu.Lock()
				r.cuts++
				r.mu.Unlock()
			}
			c.Close()
			b.Close()
		})
	}
	// client -> server
	go func() {
		var acc []byte
		buf := first
		n, err := fn, ferr
		for {
			if n > 0 {
				acc = append(acc, buf[:n]...)
				r.mu.Lock()
				mark := ""
				if r.cutAt > 0 && len(r.markers) >= r.cutAt {
					mark = r.markers[r.cutAt-1]
				}
				r.mu.Unlock()
				if _, werr := b.Write(buf[:n]); werr != nil {
					cut(false)
					return
				}
				if mark != "" && bytes.Contains(acc, []byte(mark)) {
					cut(true)
					return
				}
			}
			if err != nil {
				cut(false)
				return
			}
			n, err = c.Read(buf)
		}
	}()
	// server -> client
	go func() {
		var acc []byte
		sent := 0
		buf := make([]byte, 64<<10)
		for {
			n, err := b.Read(buf)
			if n > 0 {
				acc = append(acc, buf[:n]...)
				r.mu.Lock()
				rc, mark := r.replyCut, r.s2cMark
				r.mu.Unlock()
				switch {
				case rc == 0:
					cut(true)
					return
				case rc == 1:
					if i := bytes.Index(acc, []byte("\r\n\r\n")); i >= 0 {
						end := i + 4 + 8
						if end > len(acc) {
							end = len(acc)
						}
						if end > sent {
							c.Write(acc[sent:end])
						}
						cut(true)
						return
					}
					// headers not complete yet: hold the bytes back
					continue
				case mark != "":
					if i := bytes.Index(acc, []byte(mark)); i >= 0 {
						end := i + len(mark)
						if end > sent {
							c.Write(acc[sent:end])
						}
						cut(true)
						return
					}
				}
				if _, werr := c.Write(acc[sent:]); werr != nil {
					cut(false)
					return
				}
				sent = len(acc)
			}
			if err != nil {
				cut(false)
				return
			}
		}
	}()
}

// ---------------------------------------------------------------- server under test

var cpErrInjected = errors.New("injected storage fault")

type cpFS struct {
	env   *cpEnv
	inner fs.FS
}

func (f *cpFS) NewWriter(ctx context.Context, name string, meta map[string]string) (fs.Writer, error) {
	f.env.mu.Lock()
	f.env.creates++
	n, k := f.env.creates, f.env.failCreate
	f.env.mu.Unlock()
	if k > 0 && n == k {
		return nil, cpErrInjected
	}
	return f.inner.NewWriter(ctx, name, meta)
}

type cpEnv struct {
	id    int
	db    *db.DB
	app   *sapp.App
	mux   *http.ServeMux
	srv   *httptest.Server
	relay *cpRelay
	url   string // through the relay

	mu         sync.Mutex
	authReject bool
	failCreate int
	creates    int
	viewKind   string // "plain" | "html"
	lastURI    map[string]string
	active     int32
	seq        int
	equivDone  bool

	srvAddr     string
	dials       int64 // TCP connections made to the server (by the relay or directly)
	newConns    int64 // connections the server has accepted
	closedConns int64 // connections the server has closed
}

var cpEnvCounter int64

func cpNewEnv() (*cpEnv, error) {
	n := int(atomic.AddInt64(&cpEnvCounter, 1))
	e := &cpEnv{id: n, lastURI: map[string]string{}, viewKind: "plain"}
	d, err := db.OpenSQL("sqlite3", fmt.Sprintf("file:x05-%d-%d?mode=memory&cache=shared", os.Getpid(), n))
	if err != nil {
		return nil, err
	}
	e.db = d
	e.app = &sapp.App{DB: d, FS: &cpFS{env: e, inner: fs.NewMemFS()}, Auth: func(w http.ResponseWriter, r *http.Request) (string, error) {
		e.mu.Lock()
		rej := e.authReject
		e.mu.Unlock()
		if rej {
			http.Error(w, "forbidden", http.StatusForbidden)
			return "", sapp.ErrResponseWritten
		}
		return "user", nil
	}}
	e.mux = http.NewServeMux()
	e.app.RegisterOnMux(e.mux)
	e.mux.HandleFunc("/view", func(w http.ResponseWriter, r *http.Request) {
		e.mu.Lock()
		k := e.viewKind
		e.mu.Unlock()
		if k == "html" || r.Header.Get("X-Benchsave") != "1" {
			w.Header().Set("Content-Type", "text/html; charset=utf-8")
			fmt.Fprintf(w, "<html>HTMLPAGE %s</html>", r.URL.Query().Get("id"))
			return
		}
		w.Header().Set("Content-Type", "text/plain; charset=utf-8")
		fmt.Fprintf(w, "PLAINPAGE for %s", r.URL.Query().Get("id"))
	})
	e.srv = httptest.NewUnstartedServer(http.HandlerFunc(func(w http.ResponseWriter, r *http.Request) {
		atomic.AddInt32(&e.active, 1)
		defer atomic.AddInt32(&e.active, -1)
		e.mu.Lock()
		e.lastURI[r.URL.Path] = r.URL.RequestURI()
		e.mu.Unlock()
		e.mux.ServeHTTP(w, r)
	}))
	e.srv.Config.ConnState = func(c net.Conn, st http.ConnState) {
		switch st {
		case http.StateNew:
			atomic.AddInt64(&e.newConns, 1)
		case http.StateClosed, http.StateHijacked:
			atomic.AddInt64(&e.closedConns, 1)
		}
	}
	e.srv.Start()
	e.srvAddr = strings.TrimPrefix(e.srv.URL, "http://")
	e.relay, err = cpNewRelay(e.srvAddr)
	if err != nil {
		return nil, err
	}
	e.relay.onDial = func() { atomic.AddInt64(&e.dials, 1) }
	e.url = "http://" + e.relay.ln.Addr().String()
	return e, nil
}

func (e *cpEnv) close() {
	e.relay.ln.Close()
	e.srv.CloseClientConnections()
	done := make(chan struct{})
	go func() { e.srv.Close(); close(done) }()
	select {
	case <-done:
	case <-time.After(3 * time.Second):
	}
	e.db.Close()
}

func (e *cpEnv) reset() {
	e.mu.Lock()
	e.authReject, e.failCreate, e.creates, e.viewKind = false, 0, 0, "plain"
	e.app.ViewURLBase = e.url + "/view?id="
	e.mu.Unlock()
	e.relay.reset()
}

func (e *cpEnv) uniq(prefix string) string {
	e.mu.Lock()
	e.seq++
	s := fmt.Sprintf("%s%dx%d", prefix, e.id, e.seq)
	e.mu.Unlock()
	return s
}

// waitIdle waits until the server has nothing left to do: every connection made to it has been
// accepted and closed again, no relayed connection is alive, no handler is running.  (A request
// still on its way would otherwise start a handler in the middle of the next case.)
func (e *cpEnv) waitIdle(d time.Duration) bool {
	if !e.relay.barrier(d) {
		return false
	}
	deadline := time.Now().Add(d)
	calm := 0
	for time.Now().Before(deadline) {
		dl, nc, cc := atomic.LoadInt64(&e.dials), atomic.LoadInt64(&e.newConns), atomic.LoadInt64(&e.closedConns)
		if atomic.LoadInt32(&e.active) == 0 && atomic.LoadInt64(&e.relay.open) == 0 && nc == dl && cc == nc {
			calm++
			if calm >= 2 {
				return true
			}
		} else {
			calm = 0
		}
		time.Sleep(200 * time.Microsecond)
	}
	return false
}

type cpRec struct {
	Upload, Part, File, Name string
	Labels                   map[string]string
}

// records returns everything the server can be queried for under label key:val.
func (e *cpEnv) records(key, val string) ([]cpRec, error) {
	var out []cpRec
	var err error
	for attempt := 0; attempt < 20; attempt++ {
		out = out[:0]
		q := e.db.Query(key + ":" + val)
		for q.Next() {
			r := q.Result()
			out = append(out, cpRec{r.Labels["upload"], r.Labels["upload-part"], r.Labels["upload-file"], r.NameLabels["name"], r.Labels})
		}
		err = q.Err()
		q.Close()
		if err == nil {
			break
		}
		time.Sleep(5 * time.Millisecond) // a handler still winding down holds the table
	}
	sort.Slice(out, func(i, j int) bool {
		if out[i].Part != out[j].Part {
			return out[i].Part < out[j].Part
		}
		return out[i].Name < out[j].Name
	})
	return out, err
}

// post sends a hand-made upload straight to the handler (no network).
func (e *cpEnv) post(files map[string]string, order []string) (string, error) {
	var buf bytes.Buffer
	mw := multipart.NewWriter(&buf)
	for _, n := range order {
		w, _ := mw.CreateFormFile("file", n)
		io.WriteString(w, files[n])
	}
	mw.Close()
	req := httptest.NewRequest("POST", "/upload", &buf)
	req.Header.Set("Content-Type", mw.FormDataContentType())
	rec := httptest.NewRecorder()
	e.mux.ServeHTTP(rec, req)
	if rec.Code != 200 {
		return "", fmt.Errorf("preload upload failed: %d %s", rec.Code, rec.Body.String())
	}
	var st struct {
		UploadID string `json:"uploadid"`
	}
	if err := json.Unmarshal(rec.Body.Bytes(), &st); err != nil {
		return "", err
	}
	return st.UploadID, nil
}

// ---------------------------------------------------------------- tracking transport

type cpTrackRT struct {
	base   http.RoundTripper
	mu     sync.Mutex
	opened int
	closed int
}

type cpTrackBody struct {
	io.ReadCloser
	rt   *cpTrackRT
	once sync.Once
}

func (b *cpTrackBody) Close() error {
	b.once.Do(func() {
		b.rt.mu.Lock()
		b.rt.closed++
		b.rt.mu.Unlock()
	})
	return b.ReadCloser.Close()
}

func (t *cpTrackRT) RoundTrip(r *http.Request) (*http.Response, error) {
	resp, err := t.base.RoundTrip(r)
	if err == nil && resp != nil {
		t.mu.Lock()
		t.opened++
		t.mu.Unlock()
		resp.Body = &cpTrackBody{ReadCloser: resp.Body, rt: t}
	}
	return resp, err
}

// settled waits until every response body handed out has been closed.
func (t *cpTrackRT) settled(d time.Duration) bool {
	deadline := time.Now().Add(d)
	for {
		t.mu.Lock()
		ok := t.opened == t.closed
		t.mu.Unlock()
		if ok {
			return true
		}
		if time.Now().After(deadline) {
			return false
		}
		time.Sleep(2 * time.Millisecond)
	}
}

// cpConns remembers the client's connections so that a case can end by closing them all.
type cpConns struct {
	mu sync.Mutex
	cs []net.Conn
}

func (cc *cpConns) closeAll() {
	cc.mu.Lock()
	for _, c := range cc.cs {
		c.Close()
	}
	cc.cs = nil
	cc.mu.Unlock()
}

func cpNewClient(env *cpEnv, base string) (*storage.Client, *cpTrackRT, *cpConns) {
	cc := &cpConns{}
	d := &net.Dialer{Timeout: 10 * time.Second}
	tr := &http.Transport{DisableKeepAlives: true}
	tr.DialContext = func(ctx context.Context, network, addr string) (net.Conn, error) {
		c, err := d.DialContext(ctx, network, addr)
		if err == nil {
			if addr == env.srvAddr {
				atomic.AddInt64(&env.dials, 1)
			}
			cc.mu.Lock()
			cc.cs = append(cc.cs, c)
			cc.mu.Unlock()
		}
		return c, err
	}
	trt := &cpTrackRT{base: tr}
	return &storage.Client{BaseURL: base, HTTPClient: &http.Client{Transport: trt}}, trt, cc
}

// ---------------------------------------------------------------- guarded calls

var cpGoIDRe = regexp.MustCompile(`^goroutine (\d+) `)

func cpGoID() string {
	var buf [64]byte
	n := runtime.Stack(buf[:], false)
	m := cpGoIDRe.FindSubmatch(buf[:n])
	if m == nil {
		return ""
	}
	return string(m[1])
}

var cpStackMu sync.Mutex

// cpBlockedForever reports whether goroutine id is parked on a nil channel (it can never wake up).
func cpBlockedForever(id string) bool {
	cpStackMu.Lock()
	defer cpStackMu.Unlock()
	buf := make([]byte, 8<<20)
	n := runtime.Stack(buf, true)
	s := string(buf[:n])
	i := strings.Index(s, "goroutine "+id+" [")
	if i < 0 {
		return false
	}
	hdr := s[i:]
	if j := strings.IndexByte(hdr, '\n'); j >= 0 {
		hdr = hdr[:j]
	}
	return strings.Contains(hdr, "(nil chan)") || strings.Contains(hdr, "select (no cases)")
}

// cpCallTimeout bounds a call that does not return although it is not parked on a nil channel.
// The first such hang waits long (the machine may just be busy); once calls have hung that way the
// limit drops, and after cpMaxHangs of them the remaining upload cases are skipped - the deviation
// is reported from the ones that ran, and the run ends in minutes instead of hours.
var cpTimeoutHangs int64

const cpMaxHangs = 12

func cpCallTimeout() time.Duration {
	if atomic.LoadInt64(&cpTimeoutHangs) == 0 {
		return 20 * time.Second
	}
	return 4 * time.Second
}

// cpGuard runs f; a panic gives "panic", a call that cannot return any more (or has not
// returned after cpCallTimeout) gives "hang".
func cpGuard(f func() string) (res string, detail string) {
	done := make(chan [2]string, 1)
	gid := make(chan string, 1)
	go func() {
		defer func() {
			if r := recover(); r != nil {
				done <- [2]string{"panic", fmt.Sprint(r)}
			}
		}()
		gid <- cpGoID()
		done <- [2]string{f(), ""}
	}()
	id := <-gid
	start := time.Now()
	wait := 100 * time.Millisecond
	for {
		select {
		case r := <-done:
			return r[0], r[1]
		case <-time.After(wait):
		}
		if id != "" && cpBlockedForever(id) {
			return "hang", "the call is waiting on a nil channel"
		}
		if lim := cpCallTimeout(); time.Since(start) > lim {
			atomic.AddInt64(&cpTimeoutHangs, 1)
			return "hang", fmt.Sprintf("no return after %v", lim)
		}
		if wait < time.Second {
			wait *= 2
		}
	}
}

func cpErrRes(err error) string {
	if err != nil {
		return "err"
	}
	return "ok"
}

// ---------------------------------------------------------------- upload cases

type cpPlan struct {
	Kind string `json:"kind"`
	At   int    `json:"at"`
}

type cpAllowed struct {
	Res    []string `json:"res"`
	Stored bool     `json:"stored"`
}

type cpCase struct {
	ID  json.RawMessage `json:"id"`
	Tag string          `json:"tag"`
	// upload
	Plan    cpPlan      `json:"plan"`
	Ops     []string    `json:"ops"`
	Allowed []cpAllowed `json:"allowed"`
	Paces   []int       `json:"paces"`
	// read
	Kind string `json:"kind"`
	Ans  struct {
		T    string `json:"t"`
		N    int    `json:"n"`
		K    int    `json:"k"`
		Torn bool   `json:"torn"`
	} `json:"ans"`
	AllowedRes [][]string `json:"allowedres"`
	// save
	Args    []string `json:"args"`
	Header  string   `json:"header"`
	Server  string   `json:"server"`
	Verbose bool     `json:"verbose"`
	Expect  struct {
		Exit0   bool     `json:"exit0"`
		Stored  []string `json:"stored"`
		WithHdr bool     `json:"withHdr"`
		URL     bool     `json:"url"`
		Page    bool     `json:"page"`
		Vline   bool     `json:"vline"`
		Diag    bool     `json:"diag"`
	} `json:"expect"`
	// equiv
	Q      string   `json:"q"`
	Labels []string `json:"labels"`
	Limit  int      `json:"limit"`
}

const cpBadURL = "http://bad host:1"

var cpIDRe = regexp.MustCompile(`^[0-9]{8}\.[0-9]+$`)

func cpPrefixOK(allowed []cpAllowed, obs []string) bool {
	for _, a := range allowed {
		if len(a.Res) < len(obs) {
			continue
		}
		ok := true
		for i, o := range obs {
			if a.Res[i] != o && a.Res[i] != "-" && o != "-" {
				ok = false
				break
			}
		}
		if ok {
			return true
		}
	}
	return false
}

func cpFinalOK(allowed []cpAllowed, obs []string, stored bool) (member bool, resOK bool) {
	for _, a := range allowed {
		if len(a.Res) != len(obs) {
			continue
		}
		ok := true
		for i, o := range obs {
			if a.Res[i] != o && a.Res[i] != "-" && o != "-" {
				ok = false
				break
			}
		}
		if ok {
			resOK = true
			if a.Stored == stored {
				return true, true
			}
		}
	}
	return false, resOK
}

type cpUpResult struct {
	obs     []string
	stored  bool
	variant string // index of the allowed member that was seen
	events  []map[string]interface{}
}

// cpRunUpload makes the calls of one case on the real client. pace: pause in 100us units after each call.
func cpRunUpload(env *cpEnv, plan cpPlan, ops []string, allowed []cpAllowed, pace int, rec bool) (cpUpResult, Verdict, bool) {
	var res cpUpResult
	if !env.waitIdle(10 * time.Second) {
		// a handler of an earlier case is still running (it would hold the database)
		return res, fail("harness", "the server is still busy with an earlier case"), true
	}
	env.reset()
	uniq := env.uniq("u")
	env.mu.Lock()
	env.authReject = plan.Kind == "auth"
	if plan.Kind == "fsfail" {
		env.failCreate = plan.At
	}
	env.mu.Unlock()
	env.relay.mu.Lock()
	if plan.Kind == "cut" {
		env.relay.cutAt = plan.At
	}
	if plan.Kind == "cutreply" {
		env.relay.replyCut = plan.At
	}
	env.relay.mu.Unlock()
	base := env.url
	if plan.Kind == "badurl" {
		base = cpBadURL
	}
	cl, trt, conns := cpNewClient(env, base)
	defer conns.closeAll()
	ctx, cancel := context.WithCancel(context.Background())
	defer cancel()
	ev := func(m map[string]interface{}) {
		if rec {
			res.events = append(res.events, m)
		}
	}
	ev(map[string]interface{}{"ev": "reset", "plan": map[string]interface{}{"kind": plan.Kind, "at": plan.At}})

	var u *storage.Upload
	var w io.Writer
	var status *storage.UploadStatus
	nfile, nwr := 0, 0
	finished := plan.Kind == "badurl" // the upload is over for the caller
	committedOK := false
	type fileRec struct {
		name string
		recs []string
	}
	var files []fileRec
	pause := func() {
		if pace > 0 {
			time.Sleep(time.Duration(pace) * 100 * time.Microsecond)
		}
	}
	dirty := false
	failAt := func(i int, op, got, detail string) Verdict {
		sig := fmt.Sprintf("%s-%s-not-allowed", op, got)
		switch {
		case got == "hang" && op == "abort" && finished:
			sig = "abort-blocks-when-upload-finished"
		case got == "hang":
			sig = "hang-" + op
		case got == "panic" && committedOK:
			sig = "panic-" + op + "-after-commit"
		case got == "panic":
			sig = "panic-" + op
		}
		return Verdict{OK: false, Signature: sig, Detail: fmt.Sprintf("plan %+v calls %v: step %d (%s) gave %q %s; seen so far %v; allowed histories %s; server log: %s",
			plan, ops, i+1, op, got, detail, res.obs, jsonStr(allowed), cpLog.tail(4)), Got: res.obs}
	}
	for i := 0; i < len(ops); i++ {
		op := ops[i]
		got, detail := "-", ""
		during := (op == "commit" || op == "abort") && i+1 < len(ops) && ops[i+1] == "cancel"
		switch op {
		case "new":
			got, detail = cpGuard(func() string { u = cl.NewUpload(ctx); return "-" })
			ev(map[string]interface{}{"ev": "new"})
		case "create":
			nfile++
			nwr = 0
			name := fmt.Sprintf("%sf%d.txt", uniq, nfile)
			env.relay.push(`filename="` + name + `"`)
			var nw io.Writer
			got, detail = cpGuard(func() string {
				ww, err := u.CreateFile(name)
				nw = ww
				return cpErrRes(err)
			})
			if got == "ok" {
				w = nw
				files = append(files, fileRec{name: name})
			} else {
				env.relay.pop(1)
			}
			ev(map[string]interface{}{"ev": "create", "res": got})
		case "wrec", "wjunk":
			nwr++
			tok := fmt.Sprintf("F%dW%d", len(files), nwr)
			text := fmt.Sprintf("case: %s\nBenchmark%s 1 %d ns/op\n", uniq, tok, nwr)
			mark := "Benchmark" + tok + " "
			if op == "wjunk" {
				text = fmt.Sprintf("case: %s\njunk%s: x\n", uniq, strings.ToLower(tok))
				mark = "junk" + strings.ToLower(tok) + ":"
			}
			if w == nil {
				if rec {
					nwr--
					continue // the random caller has no writer to write to
				}
				// every CreateFile so far failed: there is no writer to call
				res.obs = append(res.obs, "nw")
				if allowed != nil && !cpPrefixOK(allowed, res.obs) {
					return res, failAt(i, op, "nw", ""), dirty
				}
				continue
			}
			env.relay.push(mark)
			got, detail = cpGuard(func() string {
				_, err := io.WriteString(w, text)
				return cpErrRes(err)
			})
			if got == "ok" {
				if op == "wrec" && !finished {
					files[len(files)-1].recs = append(files[len(files)-1].recs, tok)
				}
			} else {
				env.relay.pop(1)
			}
			ev(map[string]interface{}{"ev": "w", "kind": op[1:], "res": got})
		case "cancel":
			cancel()
			ev(map[string]interface{}{"ev": "cancel"})
		case "commit", "abort":
			env.relay.push(`name="`+op+`"`, "--\r\n")
			ev(map[string]interface{}{"ev": op + ".call"})
			call := func() string {
				if op == "commit" {
					st, err := u.Commit()
					if err == nil {
						status = st
					}
					return cpErrRes(err)
				}
				u.Abort()
				return "-"
			}
			if during {
				type gr struct{ a, b string }
				ch := make(chan gr, 1)
				go func() { a, b := cpGuard(call); ch <- gr{a, b} }()
				pause()
				cancel()
				r := <-ch
				got, detail = r.a, r.b
			} else {
				got, detail = cpGuard(call)
			}
		default:
			return res, fail("badcase", "unknown op %q", op), dirty
		}
		res.obs = append(res.obs, got)
		if got == "hang" || got == "panic" {
			dirty = got == "hang" && !finished
			return res, failAt(i, op, got, detail), dirty
		}
		if op == "commit" || op == "abort" {
			if during {
				ev(map[string]interface{}{"ev": "cancel"})
			}
			m := map[string]interface{}{"ev": op + ".ret"}
			if op == "commit" {
				m["res"] = got
			}
			ev(m)
			if op == "commit" && got == "ok" && !finished {
				committedOK = true
			}
			finished = true
			if during {
				res.obs = append(res.obs, "-")
				i++
			}
		}
		if allowed != nil && !cpPrefixOK(allowed, res.obs) {
			return res, failAt(i, op, got, detail), dirty
		}
		pause()
	}
	// everything settles: the goroutine ends (it closes the response body on its way out), the
	// client's connections are closed, the server's handler returns
	leaked := finished && !trt.settled(3*time.Second)
	conns.closeAll()
	if !env.waitIdle(10 * time.Second) {
		return res, fail("harness", "the server did not become idle after %v under plan %+v", ops, plan), true
	}
	recs, err := env.records("case", uniq)
	if err != nil {
		return res, fail("harness", "query after the upload: %v", err), true
	}
	res.stored = len(recs) > 0
	ev(map[string]interface{}{"ev": "end", "stored": res.stored})
	if allowed != nil {
		member, resOK := cpFinalOK(allowed, res.obs, res.stored)
		if !member {
			if !resOK {
				return res, Verdict{OK: false, Signature: "history-not-allowed", Detail: fmt.Sprintf("plan %+v calls %v gave %v; allowed %s", plan, ops, res.obs, jsonStr(allowed))}, dirty
			}
			sig := "stored-although-not-allowed"
			switch {
			case !res.stored:
				sig = "commit-ok-but-nothing-stored"
			case cpAbortFirst(ops):
				sig = "stored-after-abort"
			case !committedOK:
				sig = "stored-after-failed-commit"
			}
			return res, Verdict{OK: false, Signature: sig, Detail: fmt.Sprintf("plan %+v calls %v gave %v and the server shows %d records of it; allowed %s", plan, ops, res.obs, len(recs), jsonStr(allowed))}, dirty
		}
	}
	// what is stored is exactly what the caller wrote, under the ID the caller was given
	if res.stored {
		var want, have []string
		for _, f := range files {
			for _, r := range f.recs {
				want = append(want, f.name+"|"+r)
			}
		}
		ids := map[string]bool{}
		for _, r := range recs {
			have = append(have, r.File+"|"+r.Name)
			ids[r.Upload] = true
		}
		sort.Strings(want)
		sort.Strings(have)
		if strings.Join(want, ",") != strings.Join(have, ",") || len(ids) != 1 {
			return res, Verdict{OK: false, Signature: "stored-content-differs", Detail: fmt.Sprintf("plan %+v calls %v: stored %v in uploads %v, the caller wrote %v", plan, ops, have, ids, want)}, dirty
		}
		if committedOK {
			if status == nil || !cpIDRe.MatchString(status.UploadID) || !ids[status.UploadID] {
				return res, Verdict{OK: false, Signature: "status-upload-id", Detail: fmt.Sprintf("Commit returned status %+v, the data is stored under %v", status, ids)}, dirty
			}
			if wantURL := env.url + "/view?id=" + url.QueryEscape(status.UploadID); status.ViewURL != wantURL {
				return res, Verdict{OK: false, Signature: "status-view-url", Detail: fmt.Sprintf("ViewURL %q, want %q", status.ViewURL, wantURL)}, dirty
			}
			if len(status.FileIDs) != len(files) {
				return res, Verdict{OK: false, Signature: "status-file-ids", Detail: fmt.Sprintf("FileIDs %v for %d files", status.FileIDs, len(files))}, dirty
			}
			// queryable through the client with the returned ID
			qc, _, qconns := cpNewClient(env, env.srv.URL)
			q := qc.Query(context.Background(), "upload:"+status.UploadID)
			var viaClient []string
			for q.Next() {
				viaClient = append(viaClient, q.Result().Labels["upload-file"]+"|"+q.Result().NameLabels["name"])
			}
			qerr := q.Err()
			q.Close()
			qconns.closeAll()
			sort.Strings(viaClient)
			if qerr != nil || strings.Join(viaClient, ",") != strings.Join(want, ",") {
				return res, Verdict{OK: false, Signature: "not-queryable-by-returned-id", Detail: fmt.Sprintf("Query(upload:%s) = %v, %v; want %v", status.UploadID, viaClient, qerr, want)}, dirty
			}
		}
	} else if committedOK {
		return res, Verdict{OK: false, Signature: "commit-ok-but-nothing-stored", Detail: fmt.Sprintf("plan %+v calls %v", plan, ops)}, dirty
	}
	// the goroutine of NewUpload has ended: it closes the response body on its way out
	if leaked {
		sig := "goroutine-leak"
		if plan.Kind == "cutreply" && plan.At == 1 {
			sig = "goroutine-leak-after-undecodable-reply"
		}
		return res, Verdict{OK: false, Signature: sig, Detail: fmt.Sprintf("plan %+v calls %v gave %v: the upload is over but the response body was never closed (the NewUpload goroutine is still there)", plan, ops, res.obs)}, dirty
	}
	for k, a := range allowed {
		if m, _ := cpFinalOK([]cpAllowed{a}, res.obs, res.stored); m {
			res.variant = strconv.Itoa(k)
			break
		}
	}
	return res, pass(), dirty
}

func cpAbortFirst(ops []string) bool {
	for _, o := range ops {
		if o == "abort" {
			return true
		}
		if o == "commit" {
			return false
		}
	}
	return false
}

func cpReplayUpload(env *cpEnv, c *cpCase) (Verdict, bool) {
	if atomic.LoadInt64(&cpTimeoutHangs) >= cpMaxHangs {
		v := pass()
		v.Detail = "skipped: calls of earlier cases did not return (reported there)"
		return v, false
	}
	paces := c.Paces
	if len(paces) == 0 {
		paces = []int{0, 30}
	}
	seen := map[string]bool{}
	for _, p := range paces {
		r, v, dirty := cpRunUpload(env, c.Plan, c.Ops, c.Allowed, p, false)
		if !v.OK {
			v.Detail = fmt.Sprintf("pace %d: %s", p, v.Detail)
			return v, dirty
		}
		seen[r.variant] = true
	}
	var ks []string
	for k := range seen {
		ks = append(ks, k)
	}
	sort.Strings(ks)
	v := pass()
	v.Detail = "variants " + strings.Join(ks, ",")
	return v, false
}

// ---------------------------------------------------------------- reader cases

func cpClosedPortURL() string {
	ln, err := net.Listen("tcp", "127.0.0.1:0")
	if err != nil {
		return "http://127.0.0.1:1"
	}
	a := ln.Addr().String()
	ln.Close()
	return "http://" + a
}

type cpReader interface {
	Next() bool
	Err() error
	Close() error
}

func cpReplayRead(env *cpEnv, c *cpCase) (Verdict, bool) {
	env.reset()
	uniq := env.uniq("r")
	n := c.Ans.N
	for j := 1; j <= n; j++ {
		name := fmt.Sprintf("%si%d.txt", uniq, j)
		if _, err := env.post(map[string]string{name: fmt.Sprintf("rcase: %s\nitem: i%d\nBenchmarkR%d 1 %d ns/op\n", uniq, j, j, j)}, []string{name}); err != nil {
			return fail("harness", "%v", err), true
		}
	}
	qstr := "rcase:" + uniq
	if c.Ans.T == "status" {
		qstr = "rcase" + uniq // no operator: the server answers 500
	}
	path := "/search"
	if c.Kind == "list" {
		path = "/uploads"
	}
	open := func(cl *storage.Client, ctx context.Context) cpReader {
		if c.Kind == "list" {
			return cl.ListUploads(ctx, qstr, []string{"item"}, 0)
		}
		return cl.Query(ctx, qstr)
	}
	itemOf := func(r cpReader) string {
		switch x := r.(type) {
		case *storage.Query:
			return x.Result().Content
		case *storage.UploadList:
			return x.Info().UploadID
		}
		return ""
	}
	// what the server sends for this request, parsed here (the oracle for the items)
	var items []string
	var full string
	if c.Ans.T == "ok" || c.Ans.T == "cut" {
		cl0, _, conns0 := cpNewClient(env, env.srv.URL)
		r0 := open(cl0, context.Background())
		for r0.Next() {
		}
		r0.Close()
		conns0.closeAll()
		env.mu.Lock()
		uri := env.lastURI[path]
		env.mu.Unlock()
		rec := httptest.NewRecorder()
		env.mux.ServeHTTP(rec, httptest.NewRequest("GET", uri, nil))
		if rec.Code != 200 {
			return fail("harness", "GET %s: %d %s", uri, rec.Code, rec.Body.String()), false
		}
		full = rec.Body.String()
		// the request carries the arguments
		pu, _ := url.Parse(uri)
		qv := pu.Query()
		if qv.Get("q") != qstr || (c.Kind == "list" && (strings.Join(qv["extra_label"], ",") != "item" || qv.Get("limit") != "")) {
			return Verdict{OK: false, Signature: "request-encoding-" + c.Kind, Detail: fmt.Sprintf("request %q for q=%q extra_label=[item] limit=0", uri, qstr)}, false
		}
		off := 0
		var ends, starts []int
		for _, line := range strings.SplitAfter(full, "\n") {
			if c.Kind == "query" && strings.HasPrefix(line, "Benchmark") {
				items = append(items, strings.TrimSuffix(line, "\n"))
				starts = append(starts, off)
				ends = append(ends, off+len(line))
			}
			if c.Kind == "list" && strings.HasPrefix(line, "{") {
				var ui storage.UploadInfo
				if err := json.Unmarshal([]byte(line), &ui); err != nil {
					return fail("harness", "listing line %q: %v", line, err), false
				}
				items = append(items, ui.UploadID)
				starts = append(starts, off)
				ends = append(ends, off+len(line))
			}
			off += len(line)
		}
		if len(items) != n {
			return fail("harness", "the server sends %d items for %d uploads: %q", len(items), n, full), false
		}
		if c.Ans.T == "cut" {
			k := c.Ans.K
			var cutOff int
			if c.Ans.Torn {
				cutOff = ends[k] - 4 // inside item k+1 (0-based k): the line loses its tail
				if cutOff <= starts[k]+12 {
					cutOff = starts[k] + 13
				}
			} else if k == 0 {
				cutOff = starts[0] // everything before the first item, nothing of it
			} else {
				cutOff = ends[k-1]
			}
			mark := "\r\n\r\n"
			if cutOff > 0 {
				from := cutOff - 24
				if from < 0 {
					from = 0
				}
				mark = full[from:cutOff]
				if strings.Count(full, mark) != 1 {
					v := pass()
					v.Detail = "skipped: cut marker not unique"
					return v, false
				}
			}
			env.relay.mu.Lock()
			env.relay.s2cMark = mark
			env.relay.mu.Unlock()
		}
	}
	base := env.url
	if c.Ans.T == "refused" {
		base = cpClosedPortURL()
	}
	cl, trt, conns := cpNewClient(env, base)
	defer conns.closeAll()
	ctx, cancel := context.WithCancel(context.Background())
	defer cancel()
	if c.Ans.T == "cancelled" {
		cancel()
	}
	var r cpReader
	var obs []string
	pos := 0
	closed := false
	allowed := make([]cpAllowed, len(c.AllowedRes))
	for i, a := range c.AllowedRes {
		allowed[i] = cpAllowed{Res: a}
	}
	for i, op := range c.Ops {
		var got, detail string
		switch op {
		case "open":
			got, detail = cpGuard(func() string { r = open(cl, ctx); return "-" })
		case "next":
			got, detail = cpGuard(func() string {
				if !r.Next() {
					return "false"
				}
				it := itemOf(r)
				if pos < len(items) && it == items[pos] {
					pos++
					return "item"
				}
				if pos < len(items) && strings.HasPrefix(items[pos], it) {
					return "torn"
				}
				return "foreign:" + it
			})
		case "err":
			got, detail = cpGuard(func() string {
				if r.Err() != nil {
					return "err"
				}
				return "nil"
			})
		case "close":
			got, detail = cpGuard(func() string { r.Close(); return "-" })
			closed = true
		default:
			return fail("badcase", "unknown op %q", op), false
		}
		obs = append(obs, got)
		if !cpPrefixOK(allowed, obs) {
			sig := fmt.Sprintf("%s-%s-%s-not-allowed", c.Kind, op, got)
			switch {
			case got == "torn":
				sig = c.Kind + "-hands-out-torn-item"
			case got == "hang" || got == "panic":
				sig = got + "-" + c.Kind + "-" + op
			case strings.HasPrefix(got, "foreign:"):
				sig = c.Kind + "-hands-out-foreign-item"
			}
			return Verdict{OK: false, Signature: sig, Detail: fmt.Sprintf("%s against answer %+v, calls %v: step %d gave %q %s; seen %v; allowed %s; items %q",
				c.Kind, c.Ans, c.Ops, i+1, got, detail, obs, jsonStr(c.AllowedRes), items), Got: obs}, got == "hang"
		}
	}
	failedOpen := c.Ans.T == "status" || c.Ans.T == "refused" || c.Ans.T == "cancelled"
	if (closed || failedOpen) && !trt.settled(500*time.Millisecond) {
		return Verdict{OK: false, Signature: "response-body-left-open-" + c.Kind + "-" + c.Ans.T, Detail: fmt.Sprintf("%s against answer %+v, calls %v: %d response bodies handed out by the transport, %d closed",
			c.Kind, c.Ans, c.Ops, trt.opened, trt.closed)}, false
	}
	return pass(), false
}

// cpReplayEquiv: the client returns what the database returns (auxiliary).
func cpReplayEquiv(env *cpEnv, c *cpCase) (Verdict, bool) {
	env.reset()
	if err := cpEquivLoad(env); err != nil {
		return fail("harness", "%v", err), true
	}
	cl, _, conns := cpNewClient(env, env.url)
	defer conns.closeAll()
	ctx := context.Background()
	if c.Kind == "query" {
		var want, have []string
		dq := env.db.Query(c.Q)
		for dq.Next() {
			r := dq.Result()
			want = append(want, r.Content+" "+cpLabels(r.Labels))
		}
		werr := dq.Err()
		dq.Close()
		q := cl.Query(ctx, c.Q)
		for q.Next() {
			r := q.Result()
			have = append(have, r.Content+" "+cpLabels(r.Labels))
		}
		herr := q.Err()
		q.Close()
		if c.Q == "" {
			werr = errors.New("missing q") // the server insists on a query
			want = nil
		}
		if (werr == nil) != (herr == nil) || (werr == nil && strings.Join(want, "\n") != strings.Join(have, "\n")) {
			return Verdict{OK: false, Signature: "query-differs-from-database", Detail: fmt.Sprintf("Query(%q): client %q err=%v, database %q err=%v", c.Q, have, herr, want, werr)}, false
		}
		return pass(), false
	}
	lim := c.Limit
	if lim == 0 {
		lim = 1000 // the server's default
	}
	var want, have []string
	dl := env.db.ListUploads(c.Q, c.Labels, lim)
	for dl.Next() {
		i := dl.Info()
		want = append(want, fmt.Sprintf("%s %d %s", i.UploadID, i.Count, cpLabels(i.LabelValues)))
	}
	werr := dl.Err()
	dl.Close()
	ul := cl.ListUploads(ctx, c.Q, c.Labels, c.Limit)
	for ul.Next() {
		i := ul.Info()
		have = append(have, fmt.Sprintf("%s %d %s", i.UploadID, i.Count, cpLabels(i.LabelValues)))
	}
	herr := ul.Err()
	ul.Close()
	if (werr == nil) != (herr == nil) || (werr == nil && strings.Join(want, "\n") != strings.Join(have, "\n")) {
		return Verdict{OK: false, Signature: "listing-differs-from-database", Detail: fmt.Sprintf("ListUploads(%q, %q, %d): client %q err=%v, database %q err=%v", c.Q, c.Labels, c.Limit, have, herr, want, werr)}, false
	}
	// the request itself
	env.mu.Lock()
	uri := env.lastURI["/uploads"]
	env.mu.Unlock()
	pu, _ := url.Parse(uri)
	qv := pu.Query()
	wantLimit := ""
	if c.Limit != 0 {
		wantLimit = strconv.Itoa(c.Limit)
	}
	if qv.Get("q") != c.Q || strings.Join(qv["extra_label"], "\x00") != strings.Join(c.Labels, "\x00") || qv.Get("limit") != wantLimit || (c.Q == "" && len(qv["q"]) > 0) {
		return Verdict{OK: false, Signature: "request-encoding-list", Detail: fmt.Sprintf("request %q for q=%q extra_label=%q limit=%d", uri, c.Q, c.Labels, c.Limit)}, false
	}
	return pass(), false
}

func cpLabels(l sbenchfmt.Labels) string {
	var ks []string
	for k := range l {
		if k == "upload-time" {
			continue
		}
		ks = append(ks, k)
	}
	sort.Strings(ks)
	var b strings.Builder
	for _, k := range ks {
		fmt.Fprintf(&b, "%s=%q;", k, l[k])
	}
	return b.String()
}

// cpEquivLoad stores a small fixed data set (once per server).
func cpEquivLoad(env *cpEnv) error {
	env.mu.Lock()
	done := env.equivDone
	env.equivDone = true
	env.mu.Unlock()
	if done {
		return nil
	}
	for u := 1; u <= 4; u++ {
		files := map[string]string{}
		var order []string
		for f := 1; f <= 1+u%2; f++ {
			name := fmt.Sprintf("eq%df%d.txt", u, f)
			var b strings.Builder
			fmt.Fprintf(&b, "eq: yes\ngroup: g%d\nbranch: b%d\n", u%2, u)
			for r := 1; r <= u; r++ {
				fmt.Fprintf(&b, "iter: %d\nBenchmarkEq%d/sub=%d-8 %d %d ns/op\n", r, f, r, 10*r, u*r)
			}
			files[name] = b.String()
			order = append(order, name)
		}
		if _, err := env.post(files, order); err != nil {
			return err
		}
	}
	return nil
}

// ---------------------------------------------------------------- benchsave

var cpBenchsave = os.Getenv("X05_BENCHSAVE")

// benchsave runs that had to be killed, per kind of server (same idea as cpTimeoutHangs)
var cpSaveHangs sync.Map

const cpMaxSaveHangs = 24

func cpReplaySave(env *cpEnv, c *cpCase) (Verdict, bool) {
	if cpBenchsave == "" {
		return fail("harness", "X05_BENCHSAVE is not set"), false
	}
	if n, ok := cpSaveHangs.Load(c.Server); ok && atomic.LoadInt64(n.(*int64)) >= cpMaxSaveHangs {
		v := pass()
		v.Detail = "skipped: benchsave did not terminate in earlier cases with this kind of server (reported there)"
		return v, false
	}
	env.reset()
	uniq := env.uniq("s")
	work := os.Getenv("VERIF_WORK")
	if work == "" {
		work = os.TempDir()
	}
	dir, err := os.MkdirTemp(work, "x05save")
	if err != nil {
		return fail("harness", "%v", err), false
	}
	defer os.RemoveAll(dir)
	os.MkdirAll(filepath.Join(dir, "d"), 0755)
	os.MkdirAll(filepath.Join(dir, "cfg", "benchsave"), 0755)
	// a cached token that never expires: benchsave neither prompts nor talks to Google
	os.WriteFile(filepath.Join(dir, "cfg", "benchsave", "token.json"), []byte(`{"access_token":"verif","token_type":"Bearer"}`), 0600)
	content := map[string]string{
		"plain":  "case: " + uniq + "\nfrom: plain\nBenchmarkPlain 1 5 ns/op\n",
		"subdir": "case: " + uniq + "\nfrom: subdir\nBenchmarkSub 1 6 ns/op\n",
		"other":  "case: " + uniq + "\nfrom: other\nBenchmarkOther 1 7 ns/op\n",
		"junk":   "case: " + uniq + "\njust: text\n",
	}
	pathOf := map[string]string{"plain": "a.txt", "subdir": filepath.Join("d", "a.txt"), "other": "b.txt", "junk": "j.txt", "missing": "nothere.txt"}
	for k, t := range content {
		os.WriteFile(filepath.Join(dir, pathOf[k]), []byte(t), 0644)
	}
	var argv []string
	if c.Verbose {
		argv = append(argv, "-v")
	}
	hdrText := map[string]string{"nl0": "hdrkey: hv", "nl1": "hdrkey: hv\n", "nl3": "hdrkey: hv\n\n\n", "empty": ""}
	switch c.Header {
	case "none":
	case "missing":
		argv = append(argv, "-header", filepath.Join(dir, "nohdr.txt"))
	default:
		os.WriteFile(filepath.Join(dir, "hdr.txt"), []byte(hdrText[c.Header]), 0644)
		argv = append(argv, "-header", filepath.Join(dir, "hdr.txt"))
	}
	surl := env.url
	env.mu.Lock()
	switch c.Server {
	case "html":
		env.viewKind = "html"
	case "noview":
		env.app.ViewURLBase = ""
	case "refuse":
		env.authReject = true
	}
	env.mu.Unlock()
	switch c.Server {
	case "down":
		surl = cpClosedPortURL()
	case "badurl":
		surl = cpBadURL
	}
	argv = append(argv, "-server", surl)
	for _, a := range c.Args {
		argv = append(argv, pathOf[a])
	}
	ctx, cancel := context.WithTimeout(context.Background(), 8*time.Second)
	defer cancel()
	cmd := exec.CommandContext(ctx, cpBenchsave, argv...)
	cmd.Dir = dir
	cmd.Env = []string{"XDG_CONFIG_HOME=" + filepath.Join(dir, "cfg"), "HOME=" + dir, "PATH=" + os.Getenv("PATH")}
	cmd.Stdin = strings.NewReader("")
	var so, se bytes.Buffer
	cmd.Stdout, cmd.Stderr = &so, &se
	rerr := cmd.Run()
	desc := fmt.Sprintf("benchsave %s (files %v, header %s, server %s)", strings.Join(argv, " "), c.Args, c.Header, c.Server)
	if ctx.Err() != nil {
		n, _ := cpSaveHangs.LoadOrStore(c.Server, new(int64))
		atomic.AddInt64(n.(*int64), 1)
		sig := "benchsave-hangs"
		if c.Server == "badurl" {
			sig = "benchsave-hangs-on-unparsable-server-url"
		}
		return Verdict{OK: false, Signature: sig, Detail: desc + ": still running after 8s; stderr " + strconv.Quote(se.String())}, true
	}
	code := 0
	if rerr != nil {
		if ee, ok := rerr.(*exec.ExitError); ok {
			code = ee.ExitCode()
		} else {
			return fail("harness", "%s: %v", desc, rerr), false
		}
	}
	if !env.waitIdle(10 * time.Second) {
		return fail("harness", "%s: the server did not become idle", desc), true
	}
	recs, err := env.records("case", uniq)
	if err != nil {
		return fail("harness", "%v", err), true
	}
	out := fmt.Sprintf("exit %d stdout %q stderr %q", code, so.String(), se.String())
	// nothing of a failed run may be stored
	if !c.Expect.Exit0 && len(recs) > 0 {
		return Verdict{OK: false, Signature: "benchsave-stores-on-failure", Detail: desc + ": " + out + fmt.Sprintf("; %d records stored", len(recs))}, false
	}
	if (code == 0) != c.Expect.Exit0 {
		sig := "benchsave-fails-on-good-input"
		if code == 0 {
			sig = "benchsave-exit-0-on-failure"
		}
		return Verdict{OK: false, Signature: sig, Detail: desc + ": " + out + fmt.Sprintf("; want success=%v; %d records stored", c.Expect.Exit0, len(recs))}, false
	}
	if c.Expect.Diag && strings.TrimSpace(se.String()) == "" {
		return Verdict{OK: false, Signature: "benchsave-silent-failure", Detail: desc + ": " + out}, false
	}
	if c.Expect.Vline != strings.Contains(se.String(), "uploaded in") {
		return Verdict{OK: false, Signature: "benchsave-verbose-line", Detail: desc + ": " + out}, false
	}
	// stored files: one upload, argument order, base names, header in front of each
	var names []string
	ids := map[string]bool{}
	seenPart := map[string]bool{}
	for _, r := range recs {
		ids[r.Upload] = true
		if !seenPart[r.Part] {
			seenPart[r.Part] = true
			names = append(names, r.File)
		}
		if (r.Labels["hdrkey"] == "hv") != c.Expect.WithHdr {
			return Verdict{OK: false, Signature: "benchsave-header-merge", Detail: desc + fmt.Sprintf(": record %s of %s has labels %v, header expected=%v", r.Name, r.File, r.Labels, c.Expect.WithHdr)}, false
		}
		if r.Labels["from"] == "" || r.Labels["case"] != uniq {
			return Verdict{OK: false, Signature: "benchsave-header-merge", Detail: desc + fmt.Sprintf(": record %s of %s lost the file's own configuration: %v", r.Name, r.File, r.Labels)}, false
		}
	}
	if strings.Join(names, ",") != strings.Join(c.Expect.Stored, ",") || len(recs) != len(c.Expect.Stored) || (len(recs) > 0 && len(ids) != 1) {
		return Verdict{OK: false, Signature: "benchsave-stored-files", Detail: desc + fmt.Sprintf(": stored parts %v in uploads %v (%d records), want %v in one upload", names, ids, len(recs), c.Expect.Stored)}, false
	}
	for i, r := range recs {
		wantFrom := c.Args[i]
		if r.Labels["from"] != wantFrom {
			return Verdict{OK: false, Signature: "benchsave-stored-files", Detail: desc + fmt.Sprintf(": part %d holds the content of %q, want %q", i, r.Labels["from"], wantFrom)}, false
		}
	}
	// standard output
	lines := strings.Split(strings.TrimRight(so.String(), "\n"), "\n")
	last := lines[len(lines)-1]
	if c.Expect.URL {
		id := ""
		for k := range ids {
			id = k
		}
		want := env.url + "/view?id=" + url.QueryEscape(id)
		if last != want {
			return Verdict{OK: false, Signature: "benchsave-view-url", Detail: desc + ": " + out + "; want last line " + want}, false
		}
		if c.Expect.Page != strings.Contains(so.String(), "PLAINPAGE for "+id) || strings.Contains(so.String(), "HTMLPAGE") {
			return Verdict{OK: false, Signature: "benchsave-view-page", Detail: desc + ": " + out}, false
		}
	} else if strings.TrimSpace(so.String()) != "" {
		return Verdict{OK: false, Signature: "benchsave-output-on-failure", Detail: desc + ": " + out}, false
	}
	return pass(), false
}

// ---------------------------------------------------------------- replay driver (parallel)

func cpReplayAll(args []string) error {
	if len(args) < 2 {
		return fmt.Errorf("replay needs <cases> <verdicts>")
	}
	in, err := os.Open(args[0])
	if err != nil {
		return err
	}
	defer in.Close()
	var lines [][]byte
	sc := bufio.NewScanner(in)
	sc.Buffer(make([]byte, 1<<20), 1<<28)
	for sc.Scan() {
		if len(sc.Bytes()) > 0 {
			lines = append(lines, append([]byte(nil), sc.Bytes()...))
		}
	}
	if err := sc.Err(); err != nil {
		return err
	}
	nw := 8
	if s := os.Getenv("X05_WORKERS"); s != "" {
		if v, err := strconv.Atoi(s); err == nil && v > 0 {
			nw = v
		}
	}
	if nw > len(lines) {
		nw = len(lines)
	}
	if nw < 1 {
		nw = 1
	}
	verdicts := make([]Verdict, len(lines))
	var next int64 = -1
	var wg sync.WaitGroup
	var envErr atomic.Value
	for k := 0; k < nw; k++ {
		wg.Add(1)
		go func() {
			defer wg.Done()
			var env *cpEnv
			defer func() {
				if env != nil {
					env.close()
				}
			}()
			for {
				i := int(atomic.AddInt64(&next, 1))
				if i >= len(lines) {
					return
				}
				var c cpCase
				if err := json.Unmarshal(lines[i], &c); err != nil {
					verdicts[i] = fail("badcase", "%v", err)
					continue
				}
				if env != nil && !env.waitIdle(10*time.Second) {
					env.close() // a handler of an earlier case never returned
					env = nil
				}
				if env == nil {
					e, err := cpNewEnv()
					if err != nil {
						envErr.Store(err)
						return
					}
					env = e
				}
				var v Verdict
				dirty := false
				func() {
					defer func() {
						if r := recover(); r != nil {
							v = Verdict{OK: false, Signature: "harness", Detail: fmt.Sprint("harness panic: ", r)}
							dirty = true
						}
					}()
					switch c.Tag {
					case "case":
						v, dirty = cpReplayUpload(env, &c)
					case "read":
						v, dirty = cpReplayRead(env, &c)
					case "save":
						v, dirty = cpReplaySave(env, &c)
					case "equiv":
						v, dirty = cpReplayEquiv(env, &c)
					default:
						v = fail("badcase", "unknown tag %q", c.Tag)
					}
				}()
				v.ID = c.ID
				v.Family = "clientproto"
				verdicts[i] = v
				if dirty {
					env.close()
					env = nil
				}
			}
		}()
	}
	wg.Wait()
	if e := envErr.Load(); e != nil {
		return e.(error)
	}
	out, err := os.Create(args[1])
	if err != nil {
		return err
	}
	defer out.Close()
	bw := bufio.NewWriterSize(out, 1<<20)
	defer bw.Flush()
	enc := json.NewEncoder(bw)
	for i := range verdicts {
		if err := enc.Encode(&verdicts[i]); err != nil {
			return err
		}
	}
	return nil
}

// ---------------------------------------------------------------- record (mode T)

// cpRecord drives the real client with a seeded random caller and logs the events.
func cpRecord(args []string) error {
	if len(args) < 2 {
		return fmt.Errorf("record <out.ndjson> <n>")
	}
	n, _ := strconv.Atoi(args[1])
	ew, err := newEventWriter(args[0])
	if err != nil {
		return err
	}
	env, err := cpNewEnv()
	if err != nil {
		return err
	}
	defer func() {
		if env != nil {
			env.close()
		}
	}()
	var bad []string
	for t := 0; t < n; t++ {
		rng := newRand(int64(50500 + t))
		// the fault plan
		plan := cpPlan{Kind: "none"}
		switch x := rng.Intn(20); {
		case x < 6:
		case x < 7:
			plan = cpPlan{Kind: "badurl"}
		case x < 9:
			plan = cpPlan{Kind: "auth"}
		case x < 12:
			plan = cpPlan{Kind: "fsfail", At: 1 + rng.Intn(4)}
		case x < 18:
			plan = cpPlan{Kind: "cut", At: 1 + rng.Intn(24)}
		default:
			plan = cpPlan{Kind: "cutreply", At: 0} // at=1 (a 200 whose body cannot be decoded) is left to mode G
		}
		// the calls: proper use with faults and cancellation, then calls on the finished upload
		ops := []string{"new"}
		nf := rng.Intn(6)
		for f := 0; f < nf; f++ {
			ops = append(ops, "create")
			nw := rng.Intn(5)
			for w := 0; w < nw; w++ {
				if rng.Intn(5) == 0 {
					ops = append(ops, "wjunk")
				} else {
					ops = append(ops, "wrec")
				}
			}
		}
		if plan.Kind != "badurl" && rng.Intn(6) == 0 {
			at := 1 + rng.Intn(len(ops))
			ops = append(ops[:at], append([]string{"cancel"}, ops[at:]...)...)
		}
		end := "commit"
		if rng.Intn(10) < 3 {
			end = "abort"
		}
		if plan.Kind == "badurl" {
			end = "commit" // Abort on an upload that never started is covered (and fails) in mode G
		}
		ops = append(ops, end)
		if plan.Kind != "badurl" && rng.Intn(8) == 0 && !cpHas(ops, "cancel") {
			ops = append(ops, "cancel") // while the call is waiting
		}
		// calls on the finished upload: Abort (any outcome) and Commit / CreateFile after a
		// successful Commit are the deviations mode G reports - the random caller stays clear
		// of them so that the rest of the trace can be validated
		surelyFails := plan.Kind == "badurl" || plan.Kind == "auth" || end == "abort"
		for k := rng.Intn(4); k > 0; k-- {
			switch x := rng.Intn(3); {
			case x == 0 && surelyFails:
				ops = append(ops, "create")
			case x == 1 && surelyFails:
				ops = append(ops, "commit")
			default:
				ops = append(ops, "wrec")
			}
		}
		pace := []int{0, 0, 3, 10, 40}[rng.Intn(5)]
		r, v, dirty := cpRunUpload(env, plan, ops, nil, pace, true)
		if !v.OK {
			bad = append(bad, fmt.Sprintf("trace %d: %s %s", t, v.Signature, v.Detail))
		}
		for _, e := range r.events {
			e["t"] = t
			ew.emit(e)
		}
		if dirty {
			env.close()
			env, err = cpNewEnv()
			if err != nil {
				return err
			}
		}
	}
	ew.emit(map[string]interface{}{"ev": "reset", "plan": map[string]interface{}{"kind": "none", "at": 0}, "t": -1})
	if err := ew.close(); err != nil {
		return err
	}
	if len(bad) > 0 {
		// content / status checks of the run itself (the history is judged by the trace spec)
		fmt.Println(jsonStr(map[string]interface{}{"tag": "recordfail", "fails": bad}))
	}
	return nil
}

func cpHas(ops []string, x string) bool {
	for _, o := range ops {
		if o == x {
			return true
		}
	}
	return false
}

func famClientProto(mode string, args []string) error {
	log.SetOutput(cpLog)
	switch mode {
	case "replay":
		return cpReplayAll(args)
	case "record":
		return cpRecord(args)
	}
	return fmt.Errorf("clientproto: unknown mode %q", mode)
}
