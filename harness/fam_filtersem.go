package main

// Family "filtersem" (C06): filter semantics of benchproc.
//
// replay  every case printed by FilterSem_gen.tla is an expression tree plus, for
//         each result of the generator's fixed result list, the answers the
//         DECLARATIVE side of the specification demands (test bits of the model
//         measurements, the bit of a filler measurement, All, Any).  The tree is
//         printed as filter text in several equivalent spellings, compiled with
//         benchproc.NewFilter (fixed lists at the top go through
//         ProjectionParser.Parse(expr, filter)) and evaluated with Filter.Match /
//         Filter.Apply on real benchfmt.Results.
//
//         How a model result becomes a real one (the specification fixes this map,
//         see FilterSem_gen.tla): the model has mask words of 2 bits, the code of
//         32.  Model measurement i (0-based) is placed at real position
//             32*(i div 2) + (0 if i even, 31 if i odd)
//         (0,1,2,3,4 -> 0,31,32,63,64; the generator prints the positions and the
//         real length N = position of the last model measurement + 1).  All other
//         positions carry the filler unit, which no term mentions.  Layout "B"
//         additionally overwrites a few fillers (never all) with copies of model
//         measurements of the same result; a copy has the expected bit of its
//         original, a filler the expected filler bit.  Expected All/Any are the
//         generator's (they already account for fillers); the expected outcome of
//         Apply is "exactly the positions whose expected bit is true, in order".
//
// record  random expressions (depth <= 6) on random results with 1..70 measurements
//         in plain and rescaled units, half of them obtained from benchfmt.Reader;
//         one event per evaluation for FilterSem_trace.tla, which judges it with
//         the specification's Holds.

import (
	"os/exec"
	"bufio"
	"bytes"
	"encoding/json"
	"fmt"
	"math"
	"math/rand"
	"os"
	"regexp"
	"runtime"
	"sort"
	"strings"
	"sync"
	"sync/atomic"
	"unicode"

	"golang.org/x/perf/benchfmt"
	"golang.org/x/perf/benchproc"
	"golang.org/x/perf/benchunit"
)

func init() { register("filtersem", famFilterSem) }

// ---------------------------------------------------------------- JSON shapes

type fltExpr struct {
	Op   string     `json:"op"`
	Kind string     `json:"kind"`
	K    string     `json:"k"`
	V    string     `json:"v"`
	Vs   []string   `json:"vs"`
	Args []*fltExpr `json:"args"`
}

// fltMap accepts TLC's "[]" for the empty function.
type fltMap map[string]string

func (m *fltMap) UnmarshalJSON(b []byte) error {
	s := strings.TrimSpace(string(b))
	*m = fltMap{}
	if s == "[]" || s == "null" || s == "" {
		return nil
	}
	mm := map[string]string{}
	if err := json.Unmarshal(b, &mm); err != nil {
		return err
	}
	*m = mm
	return nil
}

type fltMeas struct {
	Unit string `json:"unit"`
	Orig string `json:"orig"`
	ID   int    `json:"id"`
}

type fltRes struct {
	Cfg  fltMap    `json:"cfg"`
	Name string    `json:"name"`
	Sub  fltMap    `json:"sub"`
	Meas []fltMeas `json:"meas"`
}

type fltLayout struct {
	N   int   `json:"N"`
	Pos []int `json:"pos"`
}

type fltHeader struct {
	Filler   string      `json:"filler"`
	Universe []string    `json:"universe"`
	Rs       []fltRes    `json:"rs"`
	Layout   []fltLayout `json:"layout"`
}

type fltOut struct {
	B []bool `json:"b"`
	F bool   `json:"f"`
	A bool   `json:"a"`
	Y bool   `json:"y"`
}

type fltCase struct {
	E *fltExpr `json:"e"`
	O []fltOut `json:"o"`
}

func (e *fltExpr) isOp() bool { return e.Op == "not" || e.Op == "and" || e.Op == "or" }

func (e *fltExpr) normalise() {
	if e.Vs == nil {
		e.Vs = []string{}
	}
	if e.Args == nil {
		e.Args = []*fltExpr{}
	}
	for _, a := range e.Args {
		a.normalise()
	}
}

// ---------------------------------------------------------------- concretisation of model tokens

type fltConc struct {
	cfgKey  map[string]string
	cfgVal  map[string]string
	name    map[string]string
	subKey  map[string]string
	subVal  map[string]string
	unit    map[string]string
	gomaxp  bool // sub key s1 is /gomaxprocs, written as the -N suffix
	extraAt int  // 0 none, 1 an unrelated name part before, 2 after
}

var fltCfgKeyRows = [][2]string{{"goos", "pkg"}, {"k", "kk"}, {"a.b", "x_y"}, {"key with space", "é"}, {"odd:key", "(par)"}, {"cpu", "-dash"}}
var fltCfgValRows = [][5]string{ // v1 v2 v3 v8 v9
	{"linux", "darwin", "plan9", "js", "wasm"},
	{"a b", "a  b", "a", "b a", "ab"},
	{"x:y", "x: y", "(z)", "-lead", "*"},
	{"AND", "OR", "and", "or", "A"},
	{"é", "ü", "/slash/", "\"q\"", "back\\slash"},
	{"v1", "v2", "v3", "v8", "v9"},
	{"1", "01", "1.0", "1e0", "+1"},
}
var fltNameRows = [][2]string{{"Copy", "Move"}, {"A", "AA"}, {"É", "E"}, {"N1", "N2"}}
var fltSubKeyRows = []string{"size", "n", "gomaxprocs", "s1", "k"}
var fltSubValRows = [][2]string{{"4k", "1M"}, {"x", "xx"}, {"8", "16"}, {"a=b", "c"}}
var fltUnitRows = []map[string]string{
	{},
	{"sec/op": "sec/GC", "ns/op": "ns/GC", "B/op": "allocs/op", "zz/op": "zz/GC"},
	{"B/op": "B/frame", "B/s": "B/sec", "MB/s": "MB/sec", "widgets": "widgets/op"},
}

func fltNewConc(salt int) *fltConc {
	s := int(seed()) + salt
	if s < 0 {
		s = -s
	}
	c := &fltConc{cfgKey: map[string]string{}, cfgVal: map[string]string{}, name: map[string]string{},
		subKey: map[string]string{}, subVal: map[string]string{}, unit: map[string]string{}}
	kr := fltCfgKeyRows[s%len(fltCfgKeyRows)]
	c.cfgKey["k1"], c.cfgKey["k2"] = kr[0], kr[1]
	vr := fltCfgValRows[(s/2)%len(fltCfgValRows)]
	for i, t := range []string{"v1", "v2", "v3", "v8", "v9"} {
		c.cfgVal[t] = vr[i]
	}
	c.cfgVal[""] = ""
	nr := fltNameRows[(s/3)%len(fltNameRows)]
	c.name["N1"], c.name["N2"] = nr[0], nr[1]
	c.subKey["s1"] = fltSubKeyRows[(s/5)%len(fltSubKeyRows)]
	sv := fltSubValRows[(s/7)%len(fltSubValRows)]
	if c.subKey["s1"] == "gomaxprocs" {
		sv = fltSubValRows[2]
		c.gomaxp = s%2 == 0
	}
	c.subVal["x"], c.subVal["y"], c.subVal[""] = sv[0], sv[1], ""
	c.unit = fltUnitRows[(s/11)%len(fltUnitRows)]
	c.extraAt = (s / 13) % 3
	return c
}

func fltLookup(m map[string]string, t string) string {
	if v, ok := m[t]; ok {
		return v
	}
	return t
}

func (c *fltConc) u(t string) string { return fltLookup(c.unit, t) }

// concrete expression: same tree with concrete keys / values / units
func (c *fltConc) expr(e *fltExpr) *fltExpr {
	n := &fltExpr{Op: e.Op, Kind: e.Kind, K: e.K, V: e.V}
	switch e.Op {
	case "cfg":
		n.K, n.V = fltLookup(c.cfgKey, e.K), fltLookup(c.cfgVal, e.V)
	case "name":
		n.V = fltLookup(c.name, e.V)
	case "sub":
		n.K, n.V = fltLookup(c.subKey, e.K), fltLookup(c.subVal, e.V)
	case "unit":
		n.V = c.u(e.V)
	case "unitre":
		for _, v := range e.Vs {
			n.Vs = append(n.Vs, c.u(v))
		}
	case "in":
		switch e.Kind {
		case "cfg":
			n.K = fltLookup(c.cfgKey, e.K)
			for _, v := range e.Vs {
				n.Vs = append(n.Vs, fltLookup(c.cfgVal, v))
			}
		case "name":
			for _, v := range e.Vs {
				n.Vs = append(n.Vs, fltLookup(c.name, v))
			}
		case "sub":
			n.K = fltLookup(c.subKey, e.K)
			for _, v := range e.Vs {
				n.Vs = append(n.Vs, fltLookup(c.subVal, v))
			}
		}
	}
	for _, a := range e.Args {
		n.Args = append(n.Args, c.expr(a))
	}
	return n
}

// fltPlaced is a real measurement: which model measurement it carries (-1 = filler)
type fltPlaced struct {
	src  int
	unit string
	orig string
}

// fltBuild makes the real result.  Every Value carries its position in Value so that
// the outcome of Apply can be read back.
func (c *fltConc) build(r *fltRes, placed []fltPlaced, parsed bool) (*benchfmt.Result, bool) {
	name := fltLookup(c.name, r.Name)
	extra := "/unrelated=1"
	if c.extraAt == 1 {
		name += extra
	}
	suffix := ""
	for _, k := range fltSortedKeys(r.Sub) {
		ck, cv := fltLookup(c.subKey, k), fltLookup(c.subVal, r.Sub[k])
		if ck == "gomaxprocs" && c.gomaxp {
			suffix = "-" + cv
		} else {
			name += "/" + ck + "=" + cv
		}
	}
	if c.extraAt == 2 {
		name += extra
	}
	name += suffix
	var res *benchfmt.Result
	if parsed {
		var txt bytes.Buffer
		fmt.Fprintf(&txt, "Benchmark%s 1", name)
		for p, pl := range placed {
			written := pl.unit
			val := float64(p) + 0.5
			if pl.orig != "" {
				written = pl.orig
			}
			fmt.Fprintf(&txt, " %v %s", val, written)
		}
		txt.WriteString("\n")
		rd := benchfmt.NewReader(&txt, "gen")
		if !rd.Scan() {
			return nil, false
		}
		pr, ok := rd.Result().(*benchfmt.Result)
		if !ok {
			return nil, false
		}
		res = pr.Clone()
		if len(res.Values) != len(placed) || string(res.Name) != name {
			return nil, false
		}
		for p, pl := range placed {
			// the reader must have produced exactly the abstraction the model result has
			if res.Values[p].Unit != pl.unit || res.Values[p].OrigUnit != pl.orig {
				return nil, false
			}
			// identity tag
			if pl.orig == "" {
				res.Values[p].Value = float64(p) + 0.5
			} else {
				res.Values[p].OrigValue = float64(p) + 0.5
				res.Values[p].Value = float64(p) + 0.25
			}
		}
	} else {
		res = &benchfmt.Result{Name: benchfmt.Name(name), Iters: 1}
		for p, pl := range placed {
			v := benchfmt.Value{Value: float64(p) + 0.5, Unit: pl.unit}
			if pl.orig != "" {
				v = benchfmt.Value{Value: float64(p) + 0.25, Unit: pl.unit, OrigValue: float64(p) + 0.5, OrigUnit: pl.orig}
			}
			res.Values = append(res.Values, v)
		}
	}
	// configuration: as a struct literal (the empty value cannot be given to SetConfig)
	cfg := []benchfmt.Config{{Key: "unrelated", Value: []byte("1"), File: true}}
	for i, k := range fltSortedKeys(r.Cfg) {
		cfg = append(cfg, benchfmt.Config{Key: fltLookup(c.cfgKey, k), Value: []byte(fltLookup(c.cfgVal, r.Cfg[k])), File: i%2 == 0})
	}
	res2 := &benchfmt.Result{Config: cfg, Name: res.Name, Iters: res.Iters, Values: res.Values}
	return res2, true
}

func fltSortedKeys(m map[string]string) []string {
	var ks []string
	for k := range m {
		ks = append(ks, k)
	}
	sort.Strings(ks)
	return ks
}

// fltPlace computes the real layout of a model result.
func fltPlace(c *fltConc, r *fltRes, lay fltLayout, filler string, copies bool, rng *rand.Rand) []fltPlaced {
	pl := make([]fltPlaced, lay.N)
	for p := range pl {
		pl[p] = fltPlaced{src: -1, unit: c.u(filler)}
	}
	for i, p := range lay.Pos {
		pl[p] = fltPlaced{src: i, unit: c.u(r.Meas[i].Unit), orig: c.u(r.Meas[i].Orig)}
		if r.Meas[i].Orig == "" {
			pl[p].orig = ""
		}
	}
	if copies && lay.N > len(lay.Pos)+4 {
		// a few more positions carry model measurements: neighbours of the word borders and random ones
		cand := []int{1, 30, 33, 62}
		for k := 0; k < 4; k++ {
			cand = append(cand, rng.Intn(lay.N))
		}
		for _, p := range cand {
			if p < lay.N && pl[p].src == -1 {
				i := rng.Intn(len(lay.Pos))
				pl[p] = pl[lay.Pos[i]]
			}
		}
	}
	return pl
}

// ---------------------------------------------------------------- printing filter text

type fltStyle struct {
	andWord   int // 0 juxtaposition, 1 AND, 2 mixed
	parens    int // 0 faithful minimal, 1 redundant, 2 flattening (semantically equivalent, different tree)
	valueForm int // 0 bare where possible, 1 quoted, 2 anchored regexp, 3 mixed
	keyQuoted int // 0 bare where possible, 1 quoted, 2 mixed
	orList    int // 0 never, 1 key:(a OR b) wherever possible, 2 mixed
	reForm    int // for unitre: 0 alternation regexp, 1 prefix if possible, 2 list of literals, 3 mixed
	space     int // 0 single blank, 1 extra blanks / tabs
	rng       *rand.Rand
}

func (s *fltStyle) pick(mode, n int) int {
	if mode < n {
		return mode
	}
	return s.rng.Intn(n)
}

func fltBareOK(w string, isValue bool) bool {
	if w == "" || w == "AND" || w == "OR" {
		return false
	}
	for i, r := range w {
		if unicode.IsSpace(r) || strings.ContainsRune("():@,\"\\", r) || r < 0x20 || r == 0x7f {
			return false
		}
		if i == 0 && (r == '-' || r == '*' || (isValue && r == '/')) {
			return false
		}
	}
	return true
}

func fltQuote(w string) string {
	// Go string syntax; strconv.Quote would escape non-ASCII printable runes only if
	// not printable, which is fine.
	var b strings.Builder
	b.WriteByte('"')
	for _, r := range w {
		switch r {
		case '"':
			b.WriteString(`\"`)
		case '\\':
			b.WriteString(`\\`)
		case '\t':
			b.WriteString(`\t`)
		case '\n':
			b.WriteString(`\n`)
		default:
			b.WriteRune(r)
		}
	}
	b.WriteByte('"')
	return b.String()
}

func (s *fltStyle) word(w string, isValue bool, mode int) string {
	m := s.pick(mode, 2)
	if m == 0 && fltBareOK(w, isValue) {
		return w
	}
	return fltQuote(w)
}

func (s *fltStyle) sp() string {
	if s.space == 0 {
		return " "
	}
	return []string{" ", "  ", "\t", " \t "}[s.rng.Intn(4)]
}

func fltLitRe(v string) string { return "/^(?:" + regexp.QuoteMeta(v) + ")$/" }

func (s *fltStyle) value(v string) string {
	m := s.pick(s.valueForm, 3)
	if m == 2 {
		return fltLitRe(v)
	}
	return s.word(v, true, m)
}

func fltKeyOf(e *fltExpr) (string, bool) {
	switch e.Op {
	case "cfg":
		return e.K, true
	case "name":
		return ".name", true
	case "full":
		return ".fullname", true
	case "sub":
		return "/" + e.K, true
	case "unit", "unitre":
		return ".unit", true
	case "in":
		switch e.Kind {
		case "cfg":
			return e.K, true
		case "name":
			return ".name", true
		case "full":
			return ".fullname", true
		case "sub":
			return "/" + e.K, true
		}
	}
	return "", false
}

// universe of concrete unit strings, for the regexp side condition
type fltPrinter struct {
	st       *fltStyle
	universe []string
	bad      string // set when a regexp does not have the language the tree says
}

func fltAltRe(vs []string) string {
	var q []string
	for _, v := range vs {
		q = append(q, regexp.QuoteMeta(v))
	}
	return "^(?:" + strings.Join(q, "|") + ")$"
}

func (p *fltPrinter) checkLang(re string, vs []string) bool {
	rx, err := regexp.Compile(re)
	if err != nil {
		return false
	}
	want := map[string]bool{}
	for _, v := range vs {
		want[v] = true
	}
	for _, u := range p.universe {
		if rx.MatchString(u) != want[u] {
			return false
		}
	}
	for _, v := range vs {
		if !rx.MatchString(v) {
			return false
		}
	}
	return true
}

// a prefix q such that exactly the members of vs, among the universe, begin with q
func (p *fltPrinter) prefixFor(vs []string) (string, bool) {
	if len(vs) == 0 {
		return "", false
	}
	q := vs[0]
	for _, v := range vs[1:] {
		for !strings.HasPrefix(v, q) {
			q = q[:len(q)-1]
		}
	}
	if q == "" {
		return "", false
	}
	re := "^" + regexp.QuoteMeta(q)
	if p.checkLang(re, vs) {
		return re, true
	}
	return "", false
}

func (p *fltPrinter) unitReValue(vs []string) string {
	re := fltAltRe(vs)
	if p.st.pick(p.st.reForm, 2) == 1 {
		if pre, ok := p.prefixFor(vs); ok {
			re = pre
		}
	}
	if !p.checkLang(re, vs) {
		p.bad = "regexp " + re + " does not have the language " + strings.Join(vs, ",")
	}
	if strings.Contains(re, "/") && !strings.Contains(re, "(") {
		// a "/" outside a group would end the regexp token
		re = "(?:" + re + ")"
	}
	return "/" + re + "/"
}

// term prints a leaf as key:value (or key:(a OR b) for lists).
func (p *fltPrinter) leaf(e *fltExpr) string {
	s := p.st
	key, _ := fltKeyOf(e)
	k := s.word(key, false, s.keyQuoted)
	switch e.Op {
	case "cfg", "name", "sub", "unit":
		return k + ":" + s.value(e.V)
	case "unitre":
		if s.pick(s.reForm, 3) == 2 && len(e.Vs) > 0 {
			return k + ":" + p.list(e.Vs)
		}
		return k + ":" + p.unitReValue(e.Vs)
	case "in":
		return k + ":" + p.list(e.Vs)
	}
	panic("not a leaf: " + e.Op)
}

func (p *fltPrinter) list(vs []string) string {
	var parts []string
	for _, v := range vs {
		parts = append(parts, p.st.value(v))
	}
	return "(" + strings.Join(parts, p.st.sp()+"OR"+p.st.sp()) + ")"
}

// sameKeyLeaves reports whether all operands are literal/regexp leaves on one key.
func fltSameKeyLeaves(args []*fltExpr) (string, bool) {
	key := ""
	for i, a := range args {
		if a.Op != "cfg" && a.Op != "name" && a.Op != "sub" && a.Op != "unit" && a.Op != "unitre" {
			return "", false
		}
		k, _ := fltKeyOf(a)
		if i > 0 && k != key {
			return "", false
		}
		key = k
	}
	return key, len(args) > 0
}

const (
	fltCtxTop = iota // expr
	fltCtxOr         // operand of OR: an andExpr
	fltCtxAnd        // operand of AND: a match
	fltCtxNot        // operand of "-": a match
)

func (p *fltPrinter) print(e *fltExpr, ctx int) string {
	s := p.st
	wrap := func(t string) string { return "(" + t + ")" }
	var out string
	switch e.Op {
	case "true":
		out = "*"
	case "not":
		out = "-" + p.print(e.Args[0], fltCtxNot)
	case "and":
		switch len(e.Args) {
		case 0:
			out = "*"
		case 1:
			return p.print(e.Args[0], ctx)
		default:
			var parts []string
			for _, a := range e.Args {
				parts = append(parts, p.print(a, fltCtxAnd))
			}
			sep := func() string {
				if s.pick(s.andWord, 2) == 1 {
					return s.sp() + "AND" + s.sp()
				}
				return s.sp()
			}
			out = parts[0]
			for _, t := range parts[1:] {
				out += sep() + t
			}
			// an AND inside an AND needs parentheses to keep the tree; inside "-" always
			if ctx == fltCtxNot || (ctx == fltCtxAnd && s.parens != 2) {
				out = wrap(out)
			}
		}
	case "or":
		if key, ok := fltSameKeyLeaves(e.Args); ok && (len(e.Args) == 1 || s.pick(s.orList, 2) == 1) {
			// key:(a OR b)
			var parts []string
			for _, a := range e.Args {
				if a.Op == "unitre" {
					parts = append(parts, p.unitReValue(a.Vs))
				} else {
					parts = append(parts, s.value(a.V))
				}
			}
			out = s.word(key, false, s.keyQuoted) + ":(" + strings.Join(parts, s.sp()+"OR"+s.sp()) + ")"
			break
		}
		if len(e.Args) == 1 {
			return p.print(e.Args[0], ctx)
		}
		var parts []string
		for _, a := range e.Args {
			parts = append(parts, p.print(a, fltCtxOr))
		}
		out = strings.Join(parts, s.sp()+"OR"+s.sp())
		if ctx == fltCtxAnd || ctx == fltCtxNot || (ctx == fltCtxOr && s.parens != 2) {
			out = wrap(out)
		}
	default:
		out = p.leaf(e)
	}
	if s.parens == 1 && s.rng.Intn(3) == 0 {
		out = wrap(out)
	}
	return out
}

// fltProjSplit peels fixed lists off the top: AND(in.., g) -> Parse calls (innermost first)
// and the filter expression that remains.
func fltProjSplit(e *fltExpr) (calls [][]*fltExpr, rest *fltExpr) {
	if e.Op != "and" || len(e.Args) < 2 {
		return nil, e
	}
	n := len(e.Args)
	for _, a := range e.Args[:n-1] {
		if a.Op != "in" {
			return nil, e
		}
	}
	if e.Args[n-1].Op == "in" {
		return nil, e
	}
	calls, rest = fltProjSplit(e.Args[n-1])
	return append(calls, e.Args[:n-1]), rest
}

func (p *fltPrinter) projection(ins []*fltExpr) string {
	var parts []string
	for _, in := range ins {
		key, _ := fltKeyOf(in)
		var ws []string
		for _, v := range in.Vs {
			ws = append(ws, p.st.word(v, false, p.st.pick(p.st.valueForm, 2)))
		}
		parts = append(parts, p.st.word(key, false, p.st.keyQuoted)+"@("+strings.Join(ws, p.st.sp())+")")
	}
	sep := ","
	if p.st.rng.Intn(2) == 0 {
		sep = " "
	}
	return strings.Join(parts, sep)
}

// fltCompiled is a filter ready to run plus the text it was made from.
type fltCompiled struct {
	f    *benchproc.Filter
	text string
}

func fltCompile(p *fltPrinter, e *fltExpr, useProj bool) (*fltCompiled, error) {
	calls, rest := [][]*fltExpr(nil), e
	if useProj {
		calls, rest = fltProjSplit(e)
	}
	q := p.print(rest, fltCtxTop)
	text := "filter " + fmt.Sprintf("%q", q)
	f, err := benchproc.NewFilter(q)
	if err != nil {
		return &fltCompiled{nil, text}, err
	}
	if h := len(q) + len(text); h%3 == 0 {
		// an expression that is refused as a whole must leave the caller's filter as it was: a fixed
		// list no result satisfies, followed by a field the parser rejects (unknown order, a fixed
		// order on .config, .unit in a projection, an empty key)
		bad := []string{`zz-absent@(nope),.name@bogus`, `zz-absent@(nope),.config@(a b)`, `zz-absent@(nope),.unit`, `.name@(nope),""`}[(h/3)%4]
		var pp benchproc.ProjectionParser
		if _, err := pp.Parse(bad, f); err == nil {
			return &fltCompiled{nil, text + " + refused projection " + fmt.Sprintf("%q", bad)}, fmt.Errorf("projection %q was accepted", bad)
		}
		text += " + refused projection " + fmt.Sprintf("%q", bad)
	}
	for _, ins := range calls {
		ps := p.projection(ins)
		text += " + projection " + fmt.Sprintf("%q", ps)
		var pp benchproc.ProjectionParser
		if _, err := pp.Parse(ps, f); err != nil {
			return &fltCompiled{nil, text}, err
		}
	}
	return &fltCompiled{f, text}, nil
}

// ---------------------------------------------------------------- evaluating and comparing

func fltSameValue(a, b benchfmt.Value) bool {
	return math.Float64bits(a.Value) == math.Float64bits(b.Value) && a.Unit == b.Unit &&
		math.Float64bits(a.OrigValue) == math.Float64bits(b.OrigValue) && a.OrigUnit == b.OrigUnit
}

func fltSameHeader(a, b *benchfmt.Result) bool {
	if !bytes.Equal(a.Name, b.Name) || a.Iters != b.Iters || len(a.Config) != len(b.Config) {
		return false
	}
	for i := range a.Config {
		if a.Config[i].Key != b.Config[i].Key || !bytes.Equal(a.Config[i].Value, b.Config[i].Value) || a.Config[i].File != b.Config[i].File {
			return false
		}
	}
	return true
}

func fltSameResult(a, b *benchfmt.Result) bool {
	if !fltSameHeader(a, b) || len(a.Values) != len(b.Values) {
		return false
	}
	for i := range a.Values {
		if !fltSameValue(a.Values[i], b.Values[i]) {
			return false
		}
	}
	return true
}

func fltPosOf(v benchfmt.Value) int {
	x := v.Value
	if v.OrigUnit != "" {
		x = v.OrigValue
	}
	p := x - 0.5
	if p < 0 || p != math.Floor(p) || p > 1e6 {
		return -1
	}
	return int(p)
}

// fltObs is what one evaluation of a filter on a result showed.
type fltObs struct {
	bits  []bool
	all   bool
	any   bool
	outer bool  // Test(-1) || Test(n)
	pure  bool  // Match left the result untouched
	again bool  // second Match and re-reading the first Match give the same answers
	kept  []int // positions of the measurements left by Apply (-1: not an original measurement)
	ok    bool  // Apply's return value
	hdr   bool  // Apply left name / configuration / iterations alone
	err   string
}

func fltBitsOf(m *benchproc.Match, n int) []bool {
	b := make([]bool, n)
	for i := range b {
		b[i] = m.Test(i)
	}
	return b
}

func fltSameBits(a, b []bool) bool {
	if len(a) != len(b) {
		return false
	}
	for i := range a {
		if a[i] != b[i] {
			return false
		}
	}
	return true
}

func fltObserve(f *benchproc.Filter, pristine *benchfmt.Result, viaMatchApply bool) (o fltObs) {
	defer func() {
		if r := recover(); r != nil {
			o.err = fmt.Sprint("panic: ", r)
		}
	}()
	n := len(pristine.Values)
	work := pristine.Clone()
	m1, err := f.Match(work)
	if err != nil {
		o.err = "Match: " + err.Error()
		return o
	}
	o.bits = fltBitsOf(&m1, n)
	o.all, o.any = m1.All(), m1.Any()
	o.outer = m1.Test(-1) || m1.Test(n) || m1.Test(n+31)
	o.pure = fltSameResult(work, pristine)
	m2, err := f.Match(work)
	if err != nil {
		o.err = "Match: " + err.Error()
		return o
	}
	o.again = fltSameBits(fltBitsOf(&m2, n), o.bits) && m2.All() == o.all && m2.Any() == o.any &&
		fltSameBits(fltBitsOf(&m1, n), o.bits) && m1.All() == o.all && m1.Any() == o.any
	o.pure = o.pure && fltSameResult(work, pristine)
	if viaMatchApply {
		o.ok = m2.Apply(work)
	} else {
		o.ok, err = f.Apply(work)
		if err != nil {
			o.err = "Apply: " + err.Error()
			return o
		}
	}
	o.hdr = fltSameHeader(work, pristine)
	for _, v := range work.Values {
		p := fltPosOf(v)
		if p < 0 || p >= n || !fltSameValue(v, pristine.Values[p]) {
			p = -1
		}
		o.kept = append(o.kept, p)
	}
	// and once more on a fresh copy, after Apply ran on the same Filter
	fresh := pristine.Clone()
	m3, _ := f.Match(fresh)
	if !fltSameBits(fltBitsOf(&m3, n), o.bits) || m3.All() != o.all || m3.Any() != o.any {
		o.again = false
	}
	return o
}

func fltWordClass(p int) string {
	switch {
	case p < 32:
		return "w0"
	case p < 64:
		return "w1"
	}
	return "w2+"
}

// fltJudge compares an observation with the expected per-position bits, All and Any.
func fltJudge(o *fltObs, exp []bool, all, any bool) (sig, detail string) {
	if strings.HasPrefix(o.err, "panic") {
		return "panic", o.err
	}
	if o.err != "" {
		return "eval-error", o.err
	}
	for p := range exp {
		if o.bits[p] != exp[p] {
			return "test-mismatch:" + fltWordClass(p), fmt.Sprintf("Test(%d)=%v, want %v", p, o.bits[p], exp[p])
		}
	}
	if o.outer {
		return "test-out-of-range", "Test(-1) or Test(n) is true"
	}
	if o.all != all {
		return "all-mismatch:" + fltWordClass(len(exp)-1), fmt.Sprintf("All()=%v, want %v (n=%d)", o.all, all, len(exp))
	}
	if o.any != any {
		return "any-mismatch:" + fltWordClass(len(exp)-1), fmt.Sprintf("Any()=%v, want %v (n=%d)", o.any, any, len(exp))
	}
	if !o.pure {
		return "match-mutates-result", "the result differs from its copy after Match"
	}
	if !o.again {
		return "not-repeatable", "evaluating the same filter on the same result again gave a different answer"
	}
	var want []int
	for p, b := range exp {
		if b {
			want = append(want, p)
		}
	}
	if len(want) != len(o.kept) {
		return "apply-kept-mismatch", fmt.Sprintf("Apply left %d measurements %v, want %d %v", len(o.kept), fltShort(o.kept), len(want), fltShort(want))
	}
	for i := range want {
		if want[i] != o.kept[i] {
			return "apply-kept-mismatch", fmt.Sprintf("Apply left %v, want %v", fltShort(o.kept), fltShort(want))
		}
	}
	if o.ok != any {
		return "apply-return-mismatch", fmt.Sprintf("Apply returned %v with %d measurements left", o.ok, len(o.kept))
	}
	if !o.hdr {
		return "apply-touches-header", "Apply changed name, iterations or configuration"
	}
	return "", ""
}

func fltShort(a []int) string {
	if len(a) <= 12 {
		return fmt.Sprint(a)
	}
	return fmt.Sprint(a[:12]) + "..."
}

// ---------------------------------------------------------------- replay

var fltStyles = []fltStyle{
	{andWord: 0, parens: 0, valueForm: 0, keyQuoted: 0, orList: 0, reForm: 0, space: 0}, // plain juxtaposition
	{andWord: 1, parens: 1, valueForm: 1, keyQuoted: 1, orList: 0, reForm: 0, space: 0}, // AND, redundant parentheses, quoted
	{andWord: 0, parens: 0, valueForm: 2, keyQuoted: 0, orList: 1, reForm: 1, space: 0}, // key:(a OR b), regexps
	{andWord: 2, parens: 2, valueForm: 3, keyQuoted: 2, orList: 2, reForm: 3, space: 1}, // flattened, mixed
	{andWord: 2, parens: 1, valueForm: 3, keyQuoted: 2, orList: 2, reForm: 2, space: 1}, // mixed
}

func famFilterSem(mode string, args []string) error {
	switch mode {
	case "replay":
		if len(args) < 3 {
			return fmt.Errorf("filtersem replay needs <cases> <verdicts> <results-header>")
		}
		hb, err := os.ReadFile(args[2])
		if err != nil {
			return err
		}
		var hdr fltHeader
		if err := json.Unmarshal(hb, &hdr); err != nil {
			return fmt.Errorf("results header: %v", err)
		}
		if len(hdr.Rs) == 0 || len(hdr.Rs) != len(hdr.Layout) {
			return fmt.Errorf("results header: %d results, %d layouts", len(hdr.Rs), len(hdr.Layout))
		}
		stats := &fltStats{m: map[string]int{}}
		err = fltReplayLoop("filtersem", args, func(raw json.RawMessage) Verdict {
			var c fltCase
			if err := json.Unmarshal(raw, &c); err != nil {
				return fail("badcase", "%v", err)
			}
			if c.E == nil || len(c.O) != len(hdr.Rs) {
				return fail("badcase", "case has %d outcomes for %d results", len(c.O), len(hdr.Rs))
			}
			var idv struct {
				ID int `json:"id"`
			}
			json.Unmarshal(raw, &idv)
			return fltReplay(&hdr, &c, idv.ID, stats)
		})
		if err == nil {
			b, _ := json.Marshal(stats.m)
			fmt.Println("FILTERSEM-STATS " + string(b))
			if w := os.Getenv("VERIF_WORK"); w != "" && !strings.Contains(args[0], "confirm") {
				os.WriteFile(w+"/filtersem-stats.json", b, 0o644)
			}
		}
		return err
	case "record":
		return fltRecord(args)
	}
	return fmt.Errorf("filtersem: unknown mode %q", mode)
}

// fltStats counts what was run (several workers).
type fltStats struct {
	mu sync.Mutex
	m  map[string]int
}

func (s *fltStats) add(local map[string]int) {
	s.mu.Lock()
	for k, v := range local {
		s.m[k] += v
	}
	s.mu.Unlock()
}

// fltReplayLoop is replayLoop with a pool of workers; verdicts are written in case order.
// Cases are independent (each compiles its own filters and builds its own results).
func fltReplayLoop(family string, args []string, f func(raw json.RawMessage) Verdict) error {
	in, err := os.Open(args[0])
	if err != nil {
		return err
	}
	defer in.Close()
	var lines [][]byte
	sc := bufio.NewScanner(in)
	sc.Buffer(make([]byte, 1<<20), 1<<28)
	for sc.Scan() {
		if len(sc.Bytes()) > 0 {
			lines = append(lines, append([]byte(nil), sc.Bytes()...))
		}
	}
	if err := sc.Err(); err != nil {
		return err
	}
	verdicts := make([]Verdict, len(lines))
	workers := runtime.NumCPU()
	if workers > 8 {
		workers = 8
	}
	var wg sync.WaitGroup
	next := int64(-1)
	var bad atomic.Value
	for w := 0; w < workers; w++ {
		wg.Add(1)
		go func() {
			defer wg.Done()
			for {
				i := int(atomic.AddInt64(&next, 1))
				if i >= len(lines) {
					return
				}
				var hdr struct {
					ID json.RawMessage `json:"id"`
				}
				if err := json.Unmarshal(lines[i], &hdr); err != nil {
					bad.Store(fmt.Errorf("bad case line %d: %v", i, err))
					return
				}
				v := safeCall(f, lines[i])
				v.ID = hdr.ID
				v.Family = family
				verdicts[i] = v
			}
		}()
	}
	wg.Wait()
	if e := bad.Load(); e != nil {
		return e.(error)
	}
	out, err := os.Create(args[1])
	if err != nil {
		return err
	}
	defer out.Close()
	bw := bufio.NewWriterSize(out, 1<<20)
	defer bw.Flush()
	enc := json.NewEncoder(bw)
	for i := range verdicts {
		if err := enc.Encode(&verdicts[i]); err != nil {
			return err
		}
	}
	return nil
}

func fltReplay(hdr *fltHeader, c *fltCase, id int, shared *fltStats) Verdict {
	stats := map[string]int{}
	defer shared.add(stats)
	conc := fltNewConc(id)
	ce := conc.expr(c.E)
	rng := newRand(int64(id)*7919 + 17)
	var universe []string
	for _, u := range hdr.Universe {
		universe = append(universe, conc.u(u))
	}
	// real results: layout A (the specification's), layout B (a few more positions), both
	// as struct literals; the specification's layout also through benchfmt.Reader
	type built struct {
		res *benchfmt.Result
		exp []bool
		j   int
		how string
	}
	var results []built
	for j := range hdr.Rs {
		r := &hdr.Rs[j]
		o := &c.O[j]
		if len(o.B) != len(r.Meas) || len(hdr.Layout[j].Pos) != len(r.Meas) {
			return fail("badcase", "result %d: %d bits for %d measurements", j, len(o.B), len(r.Meas))
		}
		for _, variant := range []string{"A", "B", "A-parsed"} {
			if variant == "B" && hdr.Layout[j].N <= len(r.Meas)+4 {
				continue
			}
			if variant == "A-parsed" && (id+j)%3 != 0 {
				continue
			}
			pl := fltPlace(conc, r, hdr.Layout[j], hdr.Filler, variant == "B", rng)
			res, ok := conc.build(r, pl, variant == "A-parsed")
			if !ok {
				if variant == "A-parsed" {
					stats["parsed-not-representable"]++
					continue // this abstraction cannot come from the reader (e.g. an untidied plain unit)
				}
				return fail("harness", "could not build result %d", j)
			}
			exp := make([]bool, len(pl))
			allExp, anyExp := true, false
			for p := range pl {
				if pl[p].src < 0 {
					exp[p] = o.F
				} else {
					exp[p] = o.B[pl[p].src]
				}
				allExp = allExp && exp[p]
				anyExp = anyExp || exp[p]
			}
			if allExp != o.A || anyExp != o.Y {
				return fail("badcase", "result %d layout %s: expected All/Any %v/%v inconsistent with the expected bits (%v/%v)", j, variant, o.A, o.Y, allExp, anyExp)
			}
			results = append(results, built{res, exp, j, variant})
			stats["results-"+variant]++
		}
	}
	calls, _ := fltProjSplit(ce)
	for si := range fltStyles {
		st := fltStyles[si]
		st.rng = rng
		for _, useProj := range []bool{false, true} {
			if useProj && len(calls) == 0 {
				continue
			}
			p := &fltPrinter{st: &st, universe: universe}
			cf, err := fltCompile(p, ce, useProj)
			if p.bad != "" {
				return fail("harness", "%s", p.bad)
			}
			if err != nil {
				v := fail("parse-error", "%s: %v", cf.text, err)
				v.Concrete = cf.text
				return v
			}
			stats["spellings"]++
			if useProj {
				stats["projection-spellings"]++
			}
			// two-pass use: a Match handed out for one result keeps describing that result while the
			// same Filter is asked about other results
			var held *benchproc.Match
			var heldBits []bool
			var heldAll, heldAny bool
			heldOf := -1
			for ri := range results {
				b := &results[ri]
				o := &c.O[b.j]
				if si > 0 && b.how != "A" && (si+ri)%3 != 0 {
					continue // respellings: the specification's layout always, the others in rotation
				}
				obs := fltObserve(cf.f, b.res, (si+ri)%2 == 1)
				stats["evaluations"]++
				if held != nil {
					n := len(heldBits)
					if !fltSameBits(fltBitsOf(held, n), heldBits) || held.All() != heldAll || held.Any() != heldAny {
						v := fail("match-overwritten-by-later-call", "%s: the Match obtained for result %d changed after the same Filter was asked about result %d: bits %v, were %v", cf.text, heldOf, b.j, fltBitsOf(held, n), heldBits)
						v.Concrete = cf.text
						return v
					}
				}
				if hm, err := cf.f.Match(b.res.Clone()); err == nil {
					held, heldOf = &hm, b.j
					heldBits = fltBitsOf(held, len(b.res.Values))
					heldAll, heldAny = held.All(), held.Any()
				}
				if sig, detail := fltJudge(&obs, b.exp, o.A, o.Y); sig != "" {
					if useProj {
						sig = "projection/" + sig
					}
					v := fail(sig, "%s on result %d (layout %s, %d measurements, name %q): %s", cf.text, b.j, b.how, len(b.exp), b.res.Name, detail)
					v.Concrete = cf.text
					return v
				}
			}
		}
	}
	return pass()
}

// ---------------------------------------------------------------- record

type fltEvent struct {
	Ev    string   `json:"ev"`
	T     int      `json:"t"`
	Q     string   `json:"q"`
	Expr  *fltExpr `json:"expr"`
	Res   fltEvRes `json:"res"`
	Bits  []bool   `json:"bits"`
	All   bool     `json:"all"`
	Any   bool     `json:"any"`
	Outer bool     `json:"outer"`
	Pure  bool     `json:"pure"`
	Again bool     `json:"again"`
	Kept  []int    `json:"kept"`
	Ok    bool     `json:"ok"`
	Err   string   `json:"err"`
}

type fltEvRes struct {
	Cfg  map[string]string `json:"cfg"`
	Name string            `json:"name"`
	Sub  map[string]string `json:"sub"`
	Full string            `json:"full"`
	Meas []fltMeas         `json:"meas"`
}

// pools the recorder draws from; the regexp languages are taken over these
var fltRecUnits = []fltMeas{
	{Unit: "sec/op", Orig: "ns/op"}, {Unit: "B/op"}, {Unit: "allocs/op"}, {Unit: "B/s", Orig: "MB/s"},
	{Unit: "ns/op"}, {Unit: "sec/op"}, {Unit: "widgets"}, {Unit: "sec/GC", Orig: "ns/GC"},
	{Unit: "X-bytes"}, {Unit: "B/sec", Orig: "MB/sec"}, {Unit: "p99-sec", Orig: "p99-ns"}, {Unit: "%util"},
}
var fltRecCfgKeys = []string{"goos", "goarch", "pkg", "cpu", "note", "key with space", "odd:key"}
var fltRecCfgVals = []string{"linux", "darwin", "amd64", "arm64", "a b", "x:y", "(z)", "-lead", "*", "AND", "OR", "golang.org/x/perf", "v1", "v10", "V1"}
var fltRecNames = []string{"Copy", "Move", "Enc", "EncLong", "A", "AA"}
var fltRecSubKeys = []string{"size", "n", "gomaxprocs", "mode"}
var fltRecSubVals = []string{"4k", "1M", "8", "16", "fast", "a=b", "x"}
var fltRecRegexps = map[string][]string{
	"unit": {"op$", "^B/", "^sec|^ns", "/GC", "^(?:ns/op|B/op)$", "sec", "^[a-z]+/", ".", "^$", "M", "p99", "^[^/]+$", "(?i)^b/", "^(?:sec|ns)/(?:op|GC)$", "s$"},
	"cfg":  {"^lin", "64$", "a", "^(?:linux|darwin)$", "^[a-z]+$", "^v1", ".", "^$", "x", "^A", "(?i)v1", " ", "^[^a-z]", "\\*|\\(", "^.{2,3}$"},
	"full": {"Enc", "^[A-Z][a-z]+$", "size=", "-[0-9]+$", "/", ".", "^$", "^Copy", "=4k"},
	"name": {"Enc", "^A+$", "^[A-Z][a-z]+$", "o", ".", "^$", "ov", "^(?:Copy|Move)$", "g$"},
	"sub":  {"^[48]", "k|M", "M$", "=", "^$", ".", "1", "^[a-z]+$", "^(?:8|16)$"},
}

func fltUnitUniverse() []string {
	seen := map[string]bool{}
	var us []string
	for _, m := range fltRecUnits {
		for _, u := range []string{m.Unit, m.Orig} {
			if u != "" && !seen[u] {
				seen[u] = true
				us = append(us, u)
			}
		}
	}
	return us
}

func fltLanguage(re string, universe []string) []string {
	rx := regexp.MustCompile(re)
	vs := []string{}
	for _, u := range universe {
		if rx.MatchString(u) {
			vs = append(vs, u)
		}
	}
	return vs
}

// fltRecLeaf is a leaf of a recorded expression: what is printed and what it means.
type fltRecNode struct {
	op    string
	args  []*fltRecNode
	text  string   // for leaves: the key:value text
	model *fltExpr // for leaves: the abstract term
}

func fltRecWord(rng *rand.Rand, w string, isValue bool) string {
	if fltBareOK(w, isValue) && rng.Intn(4) != 0 {
		return w
	}
	return fltQuote(w)
}

func fltRecReTok(re string) string {
	if strings.Contains(re, "/") && !strings.HasPrefix(re, "(?:") {
		re = "(?:" + re + ")"
	}
	return "/" + re + "/"
}

func fltRecLeaf(rng *rand.Rand, hint *fltEvRes) *fltRecNode {
	unitUniverse := fltUnitUniverse()
	// terms are biased towards values the result really has, so that expressions are not mostly false
	like := func(actual, other string) string {
		if rng.Intn(5) < 3 {
			return actual
		}
		return other
	}
	someUnit := func() string {
		m := hint.Meas[rng.Intn(len(hint.Meas))]
		if m.Orig != "" && rng.Intn(2) == 0 {
			return like(m.Orig, unitUniverse[rng.Intn(len(unitUniverse))])
		}
		return like(m.Unit, unitUniverse[rng.Intn(len(unitUniverse))])
	}
	pickRe := func(kind string, universe []string) (string, []string) {
		pool := fltRecRegexps[kind]
		re := pool[rng.Intn(len(pool))]
		return re, fltLanguage(re, universe)
	}
	withEmpty := func(vals []string) []string { return append([]string{""}, vals...) }
	switch k := rng.Intn(12); {
	case k == 11: // .fullname
		universe := append([]string{hint.Full, hint.Full + "x", "Copy/size=4k"}, fltRecNames...)
		if rng.Intn(3) == 0 {
			re, lang := pickRe("full", universe)
			return &fltRecNode{op: "leaf", text: ".fullname:" + fltRecReTok(re), model: &fltExpr{Op: "in", Kind: "full", Vs: lang}}
		}
		v := like(hint.Full, universe[rng.Intn(len(universe))])
		return &fltRecNode{op: "leaf", text: ".fullname:" + fltRecWord(rng, v, true), model: &fltExpr{Op: "full", V: v}}
	case k == 10:
		return &fltRecNode{op: "true", text: "*", model: &fltExpr{Op: "true"}}
	case k < 4: // .unit literal / regexp / list
		switch rng.Intn(3) {
		case 0:
			u := someUnit()
			if rng.Intn(8) == 0 {
				u = "nosuch/unit"
			}
			return &fltRecNode{op: "leaf", text: ".unit:" + fltRecWord(rng, u, true), model: &fltExpr{Op: "unit", V: u}}
		case 1:
			re, lang := pickRe("unit", unitUniverse)
			return &fltRecNode{op: "leaf", text: ".unit:" + fltRecReTok(re), model: &fltExpr{Op: "unitre", Vs: lang}}
		default:
			a, b := someUnit(), unitUniverse[rng.Intn(len(unitUniverse))]
			re, lang := pickRe("unit", unitUniverse)
			vs := append([]string{a, b}, lang...)
			return &fltRecNode{op: "leaf", text: ".unit:(" + fltRecWord(rng, a, true) + " OR " + fltRecWord(rng, b, true) + " OR " + fltRecReTok(re) + ")",
				model: &fltExpr{Op: "unitre", Vs: vs}}
		}
	case k < 7: // file configuration
		key := fltRecCfgKeys[rng.Intn(len(fltRecCfgKeys))]
		kw := fltRecWord(rng, key, false)
		switch rng.Intn(4) {
		case 0:
			re, lang := pickRe("cfg", withEmpty(fltRecCfgVals))
			return &fltRecNode{op: "leaf", text: kw + ":" + fltRecReTok(re), model: &fltExpr{Op: "in", Kind: "cfg", K: key, Vs: lang}}
		case 1:
			a, b := like(hint.Cfg[key], fltRecCfgVals[rng.Intn(len(fltRecCfgVals))]), fltRecCfgVals[rng.Intn(len(fltRecCfgVals))]
			return &fltRecNode{op: "leaf", text: kw + ":(" + fltRecWord(rng, a, true) + " OR " + fltRecWord(rng, b, true) + ")",
				model: &fltExpr{Op: "in", Kind: "cfg", K: key, Vs: []string{a, b}}}
		default:
			v := like(hint.Cfg[key], fltRecCfgVals[rng.Intn(len(fltRecCfgVals))])
			if rng.Intn(8) == 0 {
				v = ""
			}
			return &fltRecNode{op: "leaf", text: kw + ":" + fltRecWord(rng, v, true), model: &fltExpr{Op: "cfg", K: key, V: v}}
		}
	case k < 9: // .name
		if rng.Intn(3) == 0 {
			re, lang := pickRe("name", fltRecNames)
			return &fltRecNode{op: "leaf", text: ".name:" + fltRecReTok(re), model: &fltExpr{Op: "in", Kind: "name", Vs: lang}}
		}
		v := like(hint.Name, fltRecNames[rng.Intn(len(fltRecNames))])
		return &fltRecNode{op: "leaf", text: ".name:" + fltRecWord(rng, v, true), model: &fltExpr{Op: "name", V: v}}
	default: // sub-name key
		key := fltRecSubKeys[rng.Intn(len(fltRecSubKeys))]
		if rng.Intn(3) == 0 {
			re, lang := pickRe("sub", withEmpty(fltRecSubVals))
			return &fltRecNode{op: "leaf", text: "/" + key + ":" + fltRecReTok(re), model: &fltExpr{Op: "in", Kind: "sub", K: key, Vs: lang}}
		}
		v := like(hint.Sub[key], fltRecSubVals[rng.Intn(len(fltRecSubVals))])
		if rng.Intn(8) == 0 {
			v = ""
		}
		return &fltRecNode{op: "leaf", text: "/" + key + ":" + fltRecWord(rng, v, true), model: &fltExpr{Op: "sub", K: key, V: v}}
	}
}

func fltRecTree(rng *rand.Rand, depth int, budget *int, hint *fltEvRes) *fltRecNode {
	*budget--
	if depth == 0 || *budget <= 0 || rng.Intn(10) < 2 {
		return fltRecLeaf(rng, hint)
	}
	switch rng.Intn(5) {
	case 0, 1:
		return &fltRecNode{op: "not", args: []*fltRecNode{fltRecTree(rng, depth-1, budget, hint)}}
	case 2:
		n := 2 + rng.Intn(2)
		nd := &fltRecNode{op: "and"}
		for i := 0; i < n; i++ {
			nd.args = append(nd.args, fltRecTree(rng, depth-1, budget, hint))
		}
		return nd
	default:
		n := 2 + rng.Intn(3)
		nd := &fltRecNode{op: "or"}
		for i := 0; i < n; i++ {
			nd.args = append(nd.args, fltRecTree(rng, depth-1, budget, hint))
		}
		return nd
	}
}

func (n *fltRecNode) modelTree() *fltExpr {
	if n.model != nil {
		m := *n.model
		return &m
	}
	e := &fltExpr{Op: n.op}
	for _, a := range n.args {
		e.Args = append(e.Args, a.modelTree())
	}
	return e
}

// faithful printing with random redundant parentheses and AND / juxtaposition
func (n *fltRecNode) print(rng *rand.Rand, ctx int) string {
	var out string
	switch n.op {
	case "leaf", "true":
		out = n.text
	case "not":
		out = "-" + n.args[0].print(rng, fltCtxNot)
	case "and":
		for i, a := range n.args {
			if i > 0 {
				if rng.Intn(2) == 0 {
					out += " AND "
				} else {
					out += " "
				}
			}
			out += a.print(rng, fltCtxAnd)
		}
		if ctx == fltCtxAnd || ctx == fltCtxNot {
			out = "(" + out + ")"
		}
	case "or":
		for i, a := range n.args {
			if i > 0 {
				out += " OR "
			}
			out += a.print(rng, fltCtxOr)
		}
		if ctx != fltCtxTop {
			out = "(" + out + ")"
		}
	}
	if rng.Intn(8) == 0 {
		out = "(" + out + ")"
	}
	return out
}

var fltRecSizes = []int{1, 2, 31, 32, 33, 63, 64, 65, 70, 5, 16, 48}

func fltRecResult(rng *rand.Rand) (*benchfmt.Result, fltEvRes, bool) {
	ev := fltEvRes{Cfg: map[string]string{}, Sub: map[string]string{}}
	n := 1 + rng.Intn(70)
	if rng.Intn(2) == 0 {
		n = fltRecSizes[rng.Intn(len(fltRecSizes))]
	}
	ev.Name = fltRecNames[rng.Intn(len(fltRecNames))]
	full := ev.Name
	suffix := ""
	for _, k := range fltRecSubKeys {
		if rng.Intn(3) != 0 {
			continue
		}
		v := fltRecSubVals[rng.Intn(len(fltRecSubVals))]
		if k == "gomaxprocs" {
			v = []string{"8", "16"}[rng.Intn(2)]
			if rng.Intn(2) == 0 {
				suffix = "-" + v
				ev.Sub[k] = v
				continue
			}
		}
		ev.Sub[k] = v
		full += "/" + k + "=" + v
	}
	full += suffix
	ev.Full = full
	// units: few kinds per result so that terms hit several positions
	kinds := make([]fltMeas, 2+rng.Intn(4))
	for i := range kinds {
		kinds[i] = fltRecUnits[rng.Intn(len(fltRecUnits))]
	}
	for i := 0; i < n; i++ {
		m := kinds[rng.Intn(len(kinds))]
		m.ID = i + 1
		ev.Meas = append(ev.Meas, m)
	}
	parsed := rng.Intn(2) == 0
	var res *benchfmt.Result
	if parsed {
		var txt bytes.Buffer
		fmt.Fprintf(&txt, "Benchmark%s 1", full)
		for i, m := range ev.Meas {
			w := m.Unit
			if m.Orig != "" {
				w = m.Orig
			}
			fmt.Fprintf(&txt, " %v %s", float64(i)+0.5, w)
		}
		txt.WriteString("\n")
		rd := benchfmt.NewReader(&txt, "rec")
		if !rd.Scan() {
			return nil, ev, false
		}
		pr, ok := rd.Result().(*benchfmt.Result)
		if !ok || len(pr.Values) != n {
			return nil, ev, false
		}
		res = pr.Clone()
		// the abstraction is taken from what the reader really produced
		for i := range res.Values {
			ev.Meas[i].Unit, ev.Meas[i].Orig = res.Values[i].Unit, res.Values[i].OrigUnit
			if res.Values[i].OrigUnit == "" {
				res.Values[i].Value = float64(i) + 0.5
			} else {
				res.Values[i].OrigValue = float64(i) + 0.5
			}
		}
	} else {
		res = &benchfmt.Result{Name: benchfmt.Name(full), Iters: 1}
		for i, m := range ev.Meas {
			v := benchfmt.Value{Value: float64(i) + 0.5, Unit: m.Unit}
			if m.Orig != "" {
				v = benchfmt.Value{Value: float64(i) + 0.25, Unit: m.Unit, OrigValue: float64(i) + 0.5, OrigUnit: m.Orig}
			}
			res.Values = append(res.Values, v)
		}
	}
	for _, k := range fltRecCfgKeys {
		if rng.Intn(2) == 0 {
			continue
		}
		v := fltRecCfgVals[rng.Intn(len(fltRecCfgVals))]
		ev.Cfg[k] = v
		res.Config = append(res.Config, benchfmt.Config{Key: k, Value: []byte(v), File: rng.Intn(3) != 0})
	}
	return res, ev, true
}

func fltRecord(args []string) error {
	if len(args) < 2 {
		return fmt.Errorf("filtersem record needs <out> <n>")
	}
	var n int
	fmt.Sscan(args[1], &n)
	ew, err := newEventWriter(args[0])
	if err != nil {
		return err
	}
	rng := newRand(606)
	projections := 0
	binaryEvents := 0
	filterBin := ""
	if len(args) > 2 {
		filterBin = args[2]
	}
	var rejected []map[string]string
	defer func() {
		if len(rejected) > 0 {
			if b, err := json.Marshal(rejected); err == nil {
				os.WriteFile(args[0]+".rejected", b, 0o644)
			}
		}
	}()
	for t := 0; t < n; t++ {
		res, evres, ok := fltRecResult(rng)
		if !ok {
			return fmt.Errorf("recorder could not build a result")
		}
		budget := 40
		tree := fltRecTree(rng, 1+rng.Intn(6), &budget, &evres)
		q := tree.print(rng, fltCtxTop)
		model := tree.modelTree()
		f, err := benchproc.NewFilter(q)
		if err != nil {
			// the recorder prints expressions from the documented grammar only: a rejection is the
			// parser's deviation, reported by the plan (file <out>.rejected), not a harness failure
			if _, err2 := benchproc.NewFilter(q); err2 != nil {
				rejected = append(rejected, map[string]string{"q": q, "err": err.Error()})
				if len(rejected) > 5000 {
					return fmt.Errorf("recorder: more than 5000 well-formed filters rejected, e.g. %q: %v", q, err)
				}
				t--
				continue
			}
		}
		// now and then a fixed-list projection on top
		if rng.Intn(5) == 0 {
			var pp benchproc.ProjectionParser
			var ps string
			var in *fltExpr
			switch rng.Intn(4) {
			case 3: // .fullname alone in its parser: nothing is excluded from it
				a, b := fltRecNames[rng.Intn(len(fltRecNames))], "Copy/size=4k"
				ps = ".fullname@(" + fltQuote(a) + " " + fltQuote(b) + ")"
				in = &fltExpr{Op: "in", Kind: "full", Vs: []string{a, b}}
			case 0:
				k := fltRecCfgKeys[rng.Intn(len(fltRecCfgKeys))]
				a, b := fltRecCfgVals[rng.Intn(len(fltRecCfgVals))], fltRecCfgVals[rng.Intn(len(fltRecCfgVals))]
				ps = fltQuote(k) + "@(" + fltQuote(a) + " " + fltQuote(b) + ")"
				in = &fltExpr{Op: "in", Kind: "cfg", K: k, Vs: []string{a, b}}
			case 1:
				a, b := fltRecNames[rng.Intn(len(fltRecNames))], fltRecNames[rng.Intn(len(fltRecNames))]
				ps = ".name@(" + a + " " + b + ")"
				in = &fltExpr{Op: "in", Kind: "name", Vs: []string{a, b}}
			default:
				k := fltRecSubKeys[rng.Intn(len(fltRecSubKeys))]
				a, b := fltRecSubVals[rng.Intn(len(fltRecSubVals))], fltRecSubVals[rng.Intn(len(fltRecSubVals))]
				ps = "/" + k + "@(" + fltQuote(a) + " " + fltQuote(b) + ")"
				in = &fltExpr{Op: "in", Kind: "sub", K: k, Vs: []string{a, b}}
			}
			if _, err := pp.Parse(ps, f); err != nil {
				return fmt.Errorf("recorder produced a projection that does not parse: %q: %v", ps, err)
			}
			q = q + "  WITH PROJECTION  " + ps
			model = &fltExpr{Op: "and", Args: []*fltExpr{in, model}}
			projections++
		}
		obs := fltObserve(f, res, rng.Intn(2) == 0)
		model.normalise()
		if obs.bits == nil {
			obs.bits = []bool{}
		}
		ev := fltEvent{Ev: "eval", T: t, Q: q, Expr: model, Res: evres, Bits: obs.bits, All: obs.all, Any: obs.any,
			Outer: obs.outer, Pure: obs.pure && obs.hdr, Again: obs.again, Kept: []int{}, Ok: obs.ok, Err: obs.err}
		for _, p := range obs.kept {
			ev.Kept = append(ev.Kept, p+1) // ids are 1-based; -1 (foreign measurement) becomes 0
		}
		ew.emit(&ev)
		// the same expression through the benchfilter BINARY: the result is written to its
		// stdin (all configuration as file configuration), its output read back
		fileable := true // can the configuration be carried by a file? (keys without blank or colon)
		for k := range evres.Cfg {
			if strings.ContainsAny(k, " :") {
				fileable = false
			}
		}
		// ... and the measurements: what the reader of the binary makes of the written pair must be the
		// pair of the model (a unit the reader would normalise, given without an original, is not)
		for _, v := range res.Values {
			wu, wv := v.Unit, v.Value
			if v.OrigUnit != "" {
				wu, wv = v.OrigUnit, v.OrigValue
			}
			_, tu := benchunit.Tidy(wv, wu)
			if tu != v.Unit || (v.OrigUnit == "" && tu != wu) {
				fileable = false
			}
		}
		if filterBin != "" && fileable && !strings.Contains(q, "WITH PROJECTION") && t%2 == 1 {
			r2 := res.Clone()
			for i := range r2.Config {
				r2.Config[i].File = true
			}
			var in bytes.Buffer
			if err := benchfmt.NewWriter(&in).Write(r2); err != nil {
				return err
			}
			cmd := exec.Command(filterBin, "--", q) // "--": a query may start with "-"
			cmd.Stdin = &in
			var stderr bytes.Buffer
			cmd.Stderr = &stderr
			outb, err := cmd.Output()
			av := fltEvent{Ev: "apply", T: t, Q: q, Expr: model, Res: evres, Bits: []bool{}, Kept: []int{}}
			if err != nil {
				av.Err = "benchfilter: " + err.Error() + " " + stderr.String()
			} else {
				rd := benchfmt.NewReader(bytes.NewReader(outb), "out")
				nres := 0
				for rd.Scan() {
					pr, ok := rd.Result().(*benchfmt.Result)
					if !ok {
						av.Err = fmt.Sprintf("benchfilter output has a non-result record: %v", rd.Result())
						continue
					}
					nres++
					if string(pr.Name) != string(res.Name) {
						av.Err = "benchfilter changed the name"
					}
					for _, v := range pr.Values {
						x := v.Value
						if v.OrigUnit != "" {
							x = v.OrigValue
						}
						id := int(x-0.5) + 1
						if float64(id-1)+0.5 != x || id < 1 || id > len(res.Values) {
							id = 0
						}
						av.Kept = append(av.Kept, id)
					}
				}
				av.Ok = nres > 0
				if nres > 1 {
					av.Err = "benchfilter wrote several results for one"
				}
			}
			ew.emit(&av)
			binaryEvents++
		}
	}
	fmt.Printf("FILTERSEM-RECORD events=%d projections=%d binary=%d\n", n, projections, binaryEvents)
	return ew.close()
}
