package main

// Family "fmtline" (C02, character-level half): every short line enumerated by
// FmtLine_gen.tla, with the specification's classification, is fed to the real
// benchfmt.Reader between a configuration line and a probe benchmark line.
// Compared: the records the line produces (kind, fields, position), and its
// effect on the configuration seen by the probe.

import (
	"encoding/json"
	"fmt"
	"strings"

	"golang.org/x/perf/benchfmt"
)

func init() { register("fmtline", famFmtLine) }

type flPair struct {
	V []string `json:"v"`
	U []string `json:"u"`
}
type flRec struct {
	Kind string   `json:"kind"`
	Key  []string `json:"key"`
	Val  []string `json:"val"`
}
type flCase struct {
	ID    int      `json:"id"`
	Toks  []string `json:"toks"`
	Kind  string   `json:"kind"`
	Name  []string `json:"name"`
	Iters []string `json:"iters"`
	Vals  []flPair `json:"vals"`
	Unit  []string `json:"unit"`
	Recs  []flRec  `json:"recs"`
	Key   []string `json:"key"`
	Val   []string `json:"val"`
}

// placeholder characters of FmtLine.tla -> concrete strings, chosen per seed/case
var flLower = []string{"é", "ß", "я", "ā"}
var flSpace = []string{" ", "\u0085", " ", "　", "\v", "\f", "\r"}
var flBad = []string{"\xff", "\xc0", "\xe2\x82"}
var flAsciiLower = []string{"a", "b", "z", "q"}
var flUpperSet = []string{"Z", "A", "É"}

type flConc struct {
	lower, space, bad, a, up string
}

func (c flConc) str(chars []string) string {
	var sb strings.Builder
	for _, ch := range chars {
		switch ch {
		case "@":
			sb.WriteString(c.lower)
		case "~":
			sb.WriteString(c.space)
		case "#":
			sb.WriteString(c.bad)
		case ">":
			sb.WriteString("\t")
		case "a":
			sb.WriteString(c.a)
		case "a0":
			sb.WriteString("a")
		case "Z":
			sb.WriteString(c.up)
		case "Benchmark", "Unit":
			sb.WriteString(ch)
		default:
			sb.WriteString(ch)
		}
	}
	return sb.String()
}

func famFmtLine(mode string, args []string) error {
	if mode != "replay" {
		return fmt.Errorf("fmtline: unknown mode %q", mode)
	}
	n := 0
	return replayLoop("fmtline", args, func(raw json.RawMessage) Verdict {
		n++
		var c flCase
		if err := json.Unmarshal(raw, &c); err != nil {
			return fail("badcase", "%v", err)
		}
		s := int(seed()) + c.ID
		conc := flConc{
			lower: flLower[s%len(flLower)], space: flSpace[(s/3)%len(flSpace)], bad: flBad[(s/5)%len(flBad)],
			a: flAsciiLower[(s/7)%len(flAsciiLower)], up: flUpperSet[(s/11)%len(flUpperSet)],
		}
		// "\r" as the blank: a line cannot END in \r without the scanner eating it as
		// part of CRLF; use it only when the line does not end with that placeholder.
		if conc.space == "\r" && len(c.Toks) > 0 && c.Toks[len(c.Toks)-1] == "~" {
			conc.space = "\v"
		}
		return flReplay(&c, conc)
	})
}

func flReplay(c *flCase, conc flConc) Verdict {
	line := conc.str(c.Toks)
	var in strings.Builder
	in.WriteString("pk: 1\n")
	lineNo := 2
	key := conc.str(c.Key)
	if c.Kind == "del" {
		in.WriteString(key + ": preset\n")
		lineNo = 3
	}
	in.WriteString(line + "\n")
	in.WriteString("BenchmarkProbe 1 1 probeunit\n")
	probeLine := lineNo + 1

	rd := benchfmt.NewReader(strings.NewReader(in.String()), "f")
	var recs []benchfmt.Record
	for rd.Scan() {
		r := rd.Result()
		if res, ok := r.(*benchfmt.Result); ok {
			r = res.Clone()
		}
		recs = append(recs, r)
	}
	if err := rd.Err(); err != nil {
		return fail("read-error", "%v", err)
	}
	if len(recs) == 0 {
		return fail("probe-missing", "no records at all for %q", in.String())
	}
	probe, ok := recs[len(recs)-1].(*benchfmt.Result)
	if !ok || string(probe.Name) != "Probe" {
		return fail("probe-missing", "last record is not the probe for line %q: %v", line, recs[len(recs)-1])
	}
	if _, l := probe.Pos(); l != probeLine {
		return fail("position", "probe at line %d, want %d (line %q)", l, probeLine, line)
	}
	got := recs[:len(recs)-1]

	// expected configuration at the probe
	wantCfg := map[string]string{"pk": "1"}
	if c.Kind == "set" {
		wantCfg[key] = conc.str(c.Val)
	}
	gotCfg := map[string]string{}
	for _, cf := range probe.Config {
		if !cf.File {
			return fail("config", "internal key %q from a file line %q", cf.Key, line)
		}
		gotCfg[cf.Key] = string(cf.Value)
	}
	if len(gotCfg) != len(wantCfg) {
		return Verdict{OK: false, Signature: "config-effect-" + c.Kind, Detail: fmt.Sprintf("line %q (%s): probe config %v, want %v", line, c.Kind, gotCfg, wantCfg)}
	}
	for k, v := range wantCfg {
		if gotCfg[k] != v {
			return Verdict{OK: false, Signature: "config-effect-" + c.Kind, Detail: fmt.Sprintf("line %q (%s): probe config %v, want %v", line, c.Kind, gotCfg, wantCfg)}
		}
	}

	switch c.Kind {
	case "ignored", "set", "del":
		if len(got) != 0 {
			return fail("unexpected-record-"+c.Kind, "line %q (%s) produced records: %v", line, c.Kind, got)
		}
	case "error":
		if len(got) != 1 {
			return fail("error-count", "line %q: %d records, want one error", line, len(got))
		}
		e, ok := got[0].(*benchfmt.SyntaxError)
		if !ok {
			return fail("error-expected", "line %q: got %T %v, want a syntax error", line, got[0], got[0])
		}
		if f, l := e.Pos(); f != "f" || l != lineNo {
			return fail("position", "line %q: error at %s:%d, want f:%d", line, f, l, lineNo)
		}
	case "result":
		if len(got) != 1 {
			return fail("result-count", "line %q: %d records, want one result", line, len(got))
		}
		r, ok := got[0].(*benchfmt.Result)
		if !ok {
			return fail("result-expected", "line %q: got %T %v, want a result", line, got[0], got[0])
		}
		if f, l := r.Pos(); f != "f" || l != lineNo {
			return fail("position", "line %q: result at %s:%d, want f:%d", line, f, l, lineNo)
		}
		if string(r.Name) != conc.str(c.Name) {
			return fail("name", "line %q: name %q, want %q", line, r.Name, conc.str(c.Name))
		}
		// digits are "1": iters = 1, 11, 111, ...
		wantIters := 0
		for range c.Iters {
			wantIters = wantIters*10 + 1
		}
		if r.Iters != wantIters {
			return fail("iters", "line %q: iters %d, want %d", line, r.Iters, wantIters)
		}
		if len(r.Values) != len(c.Vals) {
			return fail("values", "line %q: %d values, want %d", line, len(r.Values), len(c.Vals))
		}
		for i, p := range c.Vals {
			wv := 0.0
			for range p.V {
				wv = wv*10 + 1
			}
			v := r.Values[i]
			gu, gv := v.Unit, v.Value
			if v.OrigUnit != "" {
				gu, gv = v.OrigUnit, v.OrigValue
			}
			if gu != conc.str(p.U) || gv != wv {
				return fail("values", "line %q: value %d = %v %q, want %v %q", line, i, gv, gu, wv, conc.str(p.U))
			}
		}
		if len(r.Config) != 1 || r.Config[0].Key != "pk" {
			return fail("snapshot", "line %q: result config %v, want pk only", line, r.Config)
		}
	case "unitline":
		if len(got) != len(c.Recs) {
			return fail("unit-records", "line %q: %d records, want %d: %v", line, len(got), len(c.Recs), got)
		}
		for i, e := range c.Recs {
			if f, l := got[i].Pos(); f != "f" || l != lineNo {
				return fail("position", "line %q: record %d at %s:%d, want f:%d", line, i, f, l, lineNo)
			}
			switch g := got[i].(type) {
			case *benchfmt.UnitMetadata:
				if e.Kind != "unit" {
					return fail("unit-records", "line %q: record %d is metadata, want error", line, i)
				}
				if g.OrigUnit != conc.str(c.Unit) || g.Key != conc.str(e.Key) || g.Value != conc.str(e.Val) {
					return fail("unit-records", "line %q: record %d = %+v, want unit %q %q=%q", line, i, *g, conc.str(c.Unit), conc.str(e.Key), conc.str(e.Val))
				}
			case *benchfmt.SyntaxError:
				if e.Kind != "error" {
					return fail("unit-records", "line %q: record %d is an error (%v), want metadata", line, i, g)
				}
			default:
				return fail("unit-records", "line %q: record %d has type %T", line, i, g)
			}
		}
	default:
		return fail("badcase", "unknown kind %q", c.Kind)
	}
	return pass()
}
