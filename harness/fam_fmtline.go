package main

// Family "fmtline" (C02, character-level half): every short line enumerated by
// FmtLine_gen.tla, with the specification's classification, is fed to the real
// benchfmt.Reader between a configuration line and a probe benchmark line.
// Compared: the records the line produces (kind, fields, position), and its
// effect on the configuration seen by the probe.

import (
	"encoding/json"
	"fmt"
	"math/rand"
	"os"
	"path/filepath"
	"sort"
	"strconv"
	"strings"
	"unicode"
	"unicode/utf8"

	"golang.org/x/perf/benchfmt"
)

func init() { register("fmtline", famFmtLine) }

type flPair struct {
	V []string `json:"v"`
	U []string `json:"u"`
}
type flRec struct {
	Kind string   `json:"kind"`
	Key  []string `json:"key"`
	Val  []string `json:"val"`
}
type flCase struct {
	ID    int      `json:"id"`
	Toks  []string `json:"toks"`
	Kind  string   `json:"kind"`
	Name  []string `json:"name"`
	Iters []string `json:"iters"`
	Vals  []flPair `json:"vals"`
	Unit  []string `json:"unit"`
	Recs  []flRec  `json:"recs"`
	Key   []string `json:"key"`
	Val   []string `json:"val"`
}

// placeholder characters of FmtLine.tla -> concrete strings, chosen per seed/case
var flLower = []string{"é", "ß", "я", "ā"}
var flSpace = []string{" ", "\u0085", " ", "　", "\v", "\f", "\r"}
var flBad = []string{"\xff", "\xc0", "\xe2\x82"}
var flAsciiLower = []string{"a", "b", "z", "q"}
var flUpperSet = []string{"Z", "A", "É"}

type flConc struct {
	lower, space, bad, a, up string
}

func (c flConc) str(chars []string) string {
	var sb strings.Builder
	for _, ch := range chars {
		switch ch {
		case "@":
			sb.WriteString(c.lower)
		case "~":
			sb.WriteString(c.space)
		case "#":
			sb.WriteString(c.bad)
		case ">":
			sb.WriteString("\t")
		case "a":
			sb.WriteString(c.a)
		case "a0":
			sb.WriteString("a")
		case "Z":
			sb.WriteString(c.up)
		case "Benchmark", "Unit":
			sb.WriteString(ch)
		default:
			sb.WriteString(ch)
		}
	}
	return sb.String()
}

func famFmtLine(mode string, args []string) error {
	if mode == "record" {
		return flSoupRecord(args)
	}
	if mode != "replay" {
		return fmt.Errorf("fmtline: unknown mode %q", mode)
	}
	n := 0
	return replayLoop("fmtline", args, func(raw json.RawMessage) Verdict {
		n++
		var c flCase
		if err := json.Unmarshal(raw, &c); err != nil {
			return fail("badcase", "%v", err)
		}
		s := int(seed()) + c.ID
		conc := flConc{
			lower: flLower[s%len(flLower)], space: flSpace[(s/3)%len(flSpace)], bad: flBad[(s/5)%len(flBad)],
			a: flAsciiLower[(s/7)%len(flAsciiLower)], up: flUpperSet[(s/11)%len(flUpperSet)],
		}
		// "\r" as the blank: a line cannot END in \r without the scanner eating it as
		// part of CRLF; use it only when the line does not end with that placeholder.
		if conc.space == "\r" && len(c.Toks) > 0 && c.Toks[len(c.Toks)-1] == "~" {
			conc.space = "\v"
		}
		return flReplay(&c, conc)
	})
}

func flReplay(c *flCase, conc flConc) Verdict {
	line := conc.str(c.Toks)
	var in strings.Builder
	in.WriteString("pk: 1\n")
	lineNo := 2
	key := conc.str(c.Key)
	if c.Kind == "del" {
		in.WriteString(key + ": preset\n")
		lineNo = 3
	}
	in.WriteString(line + "\n")
	in.WriteString("BenchmarkProbe 1 1 probeunit\n")
	probeLine := lineNo + 1

	rd := benchfmt.NewReader(strings.NewReader(in.String()), "f")
	var recs []benchfmt.Record
	for rd.Scan() {
		r := rd.Result()
		if res, ok := r.(*benchfmt.Result); ok {
			r = res.Clone()
		}
		recs = append(recs, r)
	}
	if err := rd.Err(); err != nil {
		return fail("read-error", "%v", err)
	}
	if len(recs) == 0 {
		return fail("probe-missing", "no records at all for %q", in.String())
	}
	probe, ok := recs[len(recs)-1].(*benchfmt.Result)
	if !ok || string(probe.Name) != "Probe" {
		return fail("probe-missing", "last record is not the probe for line %q: %v", line, recs[len(recs)-1])
	}
	if _, l := probe.Pos(); l != probeLine {
		return fail("position", "probe at line %d, want %d (line %q)", l, probeLine, line)
	}
	got := recs[:len(recs)-1]

	// expected configuration at the probe
	wantCfg := map[string]string{"pk": "1"}
	if c.Kind == "set" {
		wantCfg[key] = conc.str(c.Val)
	}
	gotCfg := map[string]string{}
	for _, cf := range probe.Config {
		if !cf.File {
			return fail("config", "internal key %q from a file line %q", cf.Key, line)
		}
		gotCfg[cf.Key] = string(cf.Value)
	}
	if len(gotCfg) != len(wantCfg) {
		return Verdict{OK: false, Signature: "config-effect-" + c.Kind, Detail: fmt.Sprintf("line %q (%s): probe config %v, want %v", line, c.Kind, gotCfg, wantCfg)}
	}
	for k, v := range wantCfg {
		if gotCfg[k] != v {
			return Verdict{OK: false, Signature: "config-effect-" + c.Kind, Detail: fmt.Sprintf("line %q (%s): probe config %v, want %v", line, c.Kind, gotCfg, wantCfg)}
		}
	}

	switch c.Kind {
	case "ignored", "set", "del":
		if len(got) != 0 {
			return fail("unexpected-record-"+c.Kind, "line %q (%s) produced records: %v", line, c.Kind, got)
		}
	case "error":
		if len(got) != 1 {
			return fail("error-count", "line %q: %d records, want one error", line, len(got))
		}
		e, ok := got[0].(*benchfmt.SyntaxError)
		if !ok {
			return fail("error-expected", "line %q: got %T %v, want a syntax error", line, got[0], got[0])
		}
		if f, l := e.Pos(); f != "f" || l != lineNo {
			return fail("position", "line %q: error at %s:%d, want f:%d", line, f, l, lineNo)
		}
	case "result":
		if len(got) != 1 {
			return fail("result-count", "line %q: %d records, want one result", line, len(got))
		}
		r, ok := got[0].(*benchfmt.Result)
		if !ok {
			return fail("result-expected", "line %q: got %T %v, want a result", line, got[0], got[0])
		}
		if f, l := r.Pos(); f != "f" || l != lineNo {
			return fail("position", "line %q: result at %s:%d, want f:%d", line, f, l, lineNo)
		}
		if string(r.Name) != conc.str(c.Name) {
			return fail("name", "line %q: name %q, want %q", line, r.Name, conc.str(c.Name))
		}
		// digits are "1": iters = 1, 11, 111, ...
		wantIters := 0
		for range c.Iters {
			wantIters = wantIters*10 + 1
		}
		if r.Iters != wantIters {
			return fail("iters", "line %q: iters %d, want %d", line, r.Iters, wantIters)
		}
		if len(r.Values) != len(c.Vals) {
			return fail("values", "line %q: %d values, want %d", line, len(r.Values), len(c.Vals))
		}
		for i, p := range c.Vals {
			wv := 0.0
			for range p.V {
				wv = wv*10 + 1
			}
			v := r.Values[i]
			gu, gv := v.Unit, v.Value
			if v.OrigUnit != "" {
				gu, gv = v.OrigUnit, v.OrigValue
			}
			if gu != conc.str(p.U) || gv != wv {
				return fail("values", "line %q: value %d = %v %q, want %v %q", line, i, gv, gu, wv, conc.str(p.U))
			}
		}
		if len(r.Config) != 1 || r.Config[0].Key != "pk" {
			return fail("snapshot", "line %q: result config %v, want pk only", line, r.Config)
		}
	case "unitline":
		if len(got) != len(c.Recs) {
			return fail("unit-records", "line %q: %d records, want %d: %v", line, len(got), len(c.Recs), got)
		}
		for i, e := range c.Recs {
			if f, l := got[i].Pos(); f != "f" || l != lineNo {
				return fail("position", "line %q: record %d at %s:%d, want f:%d", line, i, f, l, lineNo)
			}
			switch g := got[i].(type) {
			case *benchfmt.UnitMetadata:
				if e.Kind != "unit" {
					return fail("unit-records", "line %q: record %d is metadata, want error", line, i)
				}
				if g.OrigUnit != conc.str(c.Unit) || g.Key != conc.str(e.Key) || g.Value != conc.str(e.Val) {
					return fail("unit-records", "line %q: record %d = %+v, want unit %q %q=%q", line, i, *g, conc.str(c.Unit), conc.str(e.Key), conc.str(e.Val))
				}
			case *benchfmt.SyntaxError:
				if e.Kind != "error" {
					return fail("unit-records", "line %q: record %d is an error (%v), want metadata", line, i, g)
				}
			default:
				return fail("unit-records", "line %q: record %d has type %T", line, i, g)
			}
		}
	default:
		return fail("badcase", "unknown kind %q", c.Kind)
	}
	return pass()
}

// ---------------------------------------------------------------------------
// record: "byte soups" for FmtSoup_trace.tla

type flSoupRec struct {
	Kind  string     `json:"kind"`
	Line  int        `json:"line"`
	File  int        `json:"file"`
	Name  []string   `json:"name"`
	Iters []string   `json:"iters"`
	NVals int        `json:"nvals"`
	Cfg   [][][]string `json:"cfg"`
	Unit  []string   `json:"unit"`
	Key   []string   `json:"key"`
	Val   []string   `json:"val"`
}

// flSoupMark is a record no specification accepts (all fields present for the JSON reader).
func flSoupMark(kind string) flSoupRec {
	return flSoupRec{Kind: kind, Name: []string{}, Iters: []string{}, Cfg: [][][]string{}, Unit: []string{}, Key: []string{}, Val: []string{}}
}

// flRunes splits s into one-rune strings; a byte that is not valid UTF-8 becomes
// U+FFFD (JSON cannot carry it), consistently for lines and for reported strings.
func flRunes(s string) []string {
	out := []string{}
	for len(s) > 0 {
		r, n := utf8.DecodeRuneInString(s)
		if r == utf8.RuneError && n == 1 {
			out = append(out, "�")
		} else {
			out = append(out, s[:n])
		}
		s = s[n:]
	}
	return out
}

var flSoupBlanks = []string{" ", "\t", "  ", " \t", " ", " ", "　", "\v", "\f", "\u0085"}
var flSoupJunk = []string{"q", "z", "w", "é", "ß", "Z", "Ω", ":", "=", "#", "-", "/", "\xff", "\xc3", "日", "k", "B", "U", "_"}
var flSoupUnits = []string{"widgets", "x/op", "B/op", "allocs/op", "é/s", "q-z", "sec/op", "u", "%"}

func flSoupWord(rng *rand.Rand, n int) string {
	var sb strings.Builder
	for i := 0; i < n; i++ {
		sb.WriteString(flSoupJunk[rng.Intn(len(flSoupJunk))])
	}
	return sb.String()
}

func flSoupKey(rng *rand.Rand, wide bool) string {
	first := []string{"k", "g", "p", "é", "ß", "z"}[rng.Intn(6)]
	if wide {
		return first + strconv.Itoa(rng.Intn(1500))
	}
	return first + []string{"", "os", "1", "-x", "é", "_y", "\xff"}[rng.Intn(7)]
}

func flSoupDigits(rng *rand.Rand) string {
	n := 1 + rng.Intn(9)
	var sb strings.Builder
	for i := 0; i < n; i++ {
		d := rng.Intn(10)
		if i == 0 && d == 0 {
			d = 1 // no leading zeros: the reader reports the number, the spec the digits
		}
		sb.WriteByte(byte('0' + d))
	}
	return sb.String()
}

// flSoupLine produces one line.  Numeric fields are pure digit strings or clearly
// not numbers (FmtLine models "number" as "all digits"; full number syntax is C03).
func flSoupLine(rng *rand.Rand, wide bool) string {
	b := func() string {
		if rng.Intn(3) == 0 {
			// a run of two to four blanks mixing ASCII and non-ASCII white space in any order
			one := []string{" ", "\t", "\u00a0", "\u2003", "\u0085", "\u3000"}
			var sb strings.Builder
			for i, n := 0, 2+rng.Intn(3); i < n; i++ {
				sb.WriteString(one[rng.Intn(len(one))])
			}
			return sb.String()
		}
		return flSoupBlanks[rng.Intn(len(flSoupBlanks))]
	}
	switch rng.Intn(16) {
	case 0, 1, 2:
		return flSoupKey(rng, wide) + ":" + []string{" ", "\t", "  "}[rng.Intn(3)] + flSoupWord(rng, 1+rng.Intn(4)) + []string{"", " ", " x y"}[rng.Intn(3)]
	case 3:
		return flSoupKey(rng, wide) + ":" + []string{"", " ", "\t "}[rng.Intn(3)]
	case 4:
		return flSoupKey(rng, wide) + []string{": ", ":", " :", ": v", ":  v"}[rng.Intn(5)] + flSoupWord(rng, rng.Intn(3))
	case 5, 6, 7, 8:
		// well-formed benchmark line
		s := "Benchmark" + flSoupWord(rng, rng.Intn(4)) + b() + flSoupDigits(rng)
		for i := 0; i < 1+rng.Intn(3); i++ {
			u := flSoupUnits[rng.Intn(len(flSoupUnits))]
			if wide {
				u += strconv.Itoa(rng.Intn(1500))
			}
			s += b() + flSoupDigits(rng) + b() + u
		}
		return s + []string{"", " ", "\t"}[rng.Intn(3)]
	case 9:
		// malformed benchmark lines
		return []string{
			"Benchmark" + flSoupWord(rng, 2),
			"Benchmark" + flSoupWord(rng, 2) + " ",
			"Benchmark" + flSoupWord(rng, 1) + " " + flSoupWord(rng, 2) + " 1 u",
			"BenchmarkX " + flSoupDigits(rng),
			"BenchmarkX " + flSoupDigits(rng) + " " + flSoupDigits(rng),
			"BenchmarkX " + flSoupDigits(rng) + " q7 u",
			"BenchmarkX " + flSoupDigits(rng) + " 5 u 6",
			"Benchmark",
			"Benchmark " + flSoupDigits(rng) + " 3 u",
		}[rng.Intn(9)]
	case 10, 11:
		u := flSoupUnits[rng.Intn(len(flSoupUnits))]
		if wide {
			u += strconv.Itoa(rng.Intn(1500))
		}
		s := "Unit" + b() + u
		for i := 0; i < rng.Intn(3); i++ {
			s += b() + []string{"better", "assume", "k", "=", "a=", "é", "x=y=z"}[rng.Intn(7)] + []string{"=higher", "=lower", "=", "", "=é"}[rng.Intn(5)]
		}
		return s
	case 12:
		return []string{"Unit", "Unit ", "Unita b=c", "Uni x y=z", "unit x y=z", "U", "Unit x y=z"}[rng.Intn(7)]
	default:
		return []string{"", "PASS", "ok  \tpkg\t0.1s", "--- BENCH: BenchmarkX", "Key: v", " k: v", "K", ":", "k", "1k: v", "k　x: v",
			"kK: v", "\xffk: v", "é: v", "É: v", "benchmarkX 1 1 u", flSoupWord(rng, 5)}[rng.Intn(17)]
	}
}

func flSoupRecord(args []string) error {
	if len(args) < 2 {
		return fmt.Errorf("record <out.ndjson> <ntraces>")
	}
	n, _ := strconv.Atoi(args[1])
	dir, err := os.MkdirTemp(os.Getenv("VERIF_WORK"), "soup")
	if err != nil {
		return err
	}
	defer os.RemoveAll(dir)
	type event = map[string]interface{}
	var events []event
	classes := map[string]map[string]bool{"lower": {}, "upper": {}, "digits": {}, "ws": {}}
	note := func(chars []string) {
		for _, c := range chars {
			r, _ := utf8.DecodeRuneInString(c)
			if unicode.IsLower(r) {
				classes["lower"][c] = true
			}
			if unicode.IsUpper(r) {
				classes["upper"][c] = true
			}
			if r >= '0' && r <= '9' {
				classes["digits"][c] = true
			}
			if unicode.IsSpace(r) {
				classes["ws"][c] = true
			}
		}
	}
	for t := 0; t < n; t++ {
		rng := newRand(int64(7000 + t))
		wide := t%4 == 3 // many distinct keys and units: more than the intern table holds
		nfiles := 1 + rng.Intn(3)
		var paths []string
		var texts [][]string
		for f := 0; f < nfiles; f++ {
			nl := 10 + rng.Intn(60)
			if wide {
				nl = 900 + rng.Intn(300)
			}
			var lines []string
			for i := 0; i < nl; i++ {
				lines = append(lines, flSoupLine(rng, wide))
			}
			if rng.Intn(5) == 0 {
				// one very long line
				lines = append(lines, "k:"+" "+strings.Repeat(flSoupWord(rng, 3), 3000))
				lines = append(lines, "BenchmarkLong 7 1 u")
			}
			p := filepath.Join(dir, fmt.Sprintf("t%d-f%d.txt", t, f))
			eol := []string{"\n", "\r\n"}[rng.Intn(2)]
			data := strings.Join(lines, eol)
			if rng.Intn(2) == 0 {
				data += eol
			}
			if err := os.WriteFile(p, []byte(data), 0o644); err != nil {
				return err
			}
			// a final empty line does not exist for the scanner
			if len(lines) > 0 && lines[len(lines)-1] == "" {
				lines = lines[:len(lines)-1]
			}
			paths = append(paths, p)
			texts = append(texts, lines)
		}
		// read through one reused reader
		files := benchfmt.Files{Paths: paths}
		byPos := map[[2]int][]flSoupRec{}
		fileIdx := map[string]int{}
		for i, p := range paths {
			fileIdx[p] = i + 1
		}
		var clones []*benchfmt.Result
		var snaps []string
		scan := func() (ok bool) {
			defer func() {
				if p := recover(); p != nil {
					// "never panics": make the trace unacceptable instead of dying
					byPos[[2]int{0, 0}] = append(byPos[[2]int{0, 0}], flSoupMark("panic"))
					ok = false
				}
			}()
			return files.Scan()
		}
		for scan() {
			rec := files.Result()
			fn, ln := rec.Pos()
			r := flSoupRec{Line: ln, File: fileIdx[fn], Name: []string{}, Iters: []string{}, Cfg: [][][]string{}, Unit: []string{}, Key: []string{}, Val: []string{}}
			switch rec := rec.(type) {
			case *benchfmt.Result:
				r.Kind = "result"
				r.Name = flRunes(string(rec.Name))
				r.Iters = flRunes(strconv.Itoa(rec.Iters))
				r.NVals = len(rec.Values)
				r.Cfg = [][][]string{}
				for _, c := range rec.Config {
					if c.File {
						r.Cfg = append(r.Cfg, [][]string{flRunes(c.Key), flRunes(string(c.Value))})
					} else if c.Key != ".file" {
						r.Kind = "result-with-internal-key"
					}
				}
				cl := rec.Clone()
				clones = append(clones, cl)
				snaps = append(snaps, fmt.Sprintf("%v|%s|%d|%v", cl.Config, cl.Name, cl.Iters, cl.Values))
			case *benchfmt.UnitMetadata:
				r.Kind = "unit"
				r.Unit, r.Key, r.Val = flRunes(rec.OrigUnit), flRunes(rec.Key), flRunes(rec.Value)
			case *benchfmt.SyntaxError:
				r.Kind = "error"
			}
			byPos[[2]int{r.File, r.Line}] = append(byPos[[2]int{r.File, r.Line}], r)
		}
		if err := files.Err(); err != nil {
			// the files are on disk and every generated line is far below the reader's
			// documented 64 KiB limit: stopping early loses records; make the trace unacceptable
			byPos[[2]int{0, 0}] = append(byPos[[2]int{0, 0}], flSoupMark("reader-stopped:"+err.Error()))
		}
		for i, cl := range clones {
			if got := fmt.Sprintf("%v|%s|%d|%v", cl.Config, cl.Name, cl.Iters, cl.Values); got != snaps[i] {
				// a clone changed while reading continued: make the trace unacceptable
				byPos[[2]int{0, 0}] = append(byPos[[2]int{0, 0}], flSoupMark("clone-changed"))
			}
		}
		events = append(events, event{"ev": "reset", "t": t})
		for f, lines := range texts {
			events = append(events, event{"ev": "file", "file": f + 1, "t": t})
			for i, l := range lines {
				chars := flRunes(l)
				// iteration counts are logged without leading zeros by the reader; the
				// generator's digit strings may have them: normalise the line's view
				note(chars)
				recs := byPos[[2]int{f + 1, i + 1}]
				if recs == nil {
					recs = []flSoupRec{}
				}
				delete(byPos, [2]int{f + 1, i + 1})
				events = append(events, event{"ev": "line", "t": t, "chars": chars, "recs": recs})
			}
		}
		if len(byPos) > 0 {
			// records positioned at lines that do not exist
			events = append(events, event{"ev": "line", "t": t, "chars": []string{}, "recs": []flSoupRec{flSoupMark("stray-record")}})
		}
	}
	ew, err := newEventWriter(args[0])
	if err != nil {
		return err
	}
	hdr := event{"ev": "classes"}
	for k, m := range classes {
		l := []string{}
		for c := range m {
			l = append(l, c)
		}
		sort.Strings(l)
		hdr[k] = l
	}
	ew.emit(hdr)
	for _, e := range events {
		ew.emit(e)
	}
	return ew.close()
}
