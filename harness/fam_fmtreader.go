package main

// Family "fmtreader" (C02, stateful half): TLC-generated sequences of abstract
// lines and file switches (FmtReader_gen.tla) are rendered to text files with
// seed-chosen spelling (blanks, line endings, concrete keys/values) and read
// through benchfmt.Files; the record stream must be exactly what the
// specification annotated on every step.  Every returned result is cloned and
// all clones are re-compared after reading has finished (ClonesFrozen).

import (
	"io"
	"encoding/json"
	"fmt"
	"math/rand"
	"os"
	"path/filepath"
	"strconv"
	"strings"

	"golang.org/x/perf/benchfmt"
)

func init() { register("fmtreader", famFmtReader) }

type frRec struct {
	Kind   string          `json:"kind"`
	File   int             `json:"file"`
	Line   int             `json:"line"`
	Cfg    json.RawMessage `json:"cfg"`
	Label  string          `json:"label"`
	LabelN int             `json:"labeln"`
	Unit   string          `json:"unit"`
	Val    string          `json:"val"`
}

type frStep struct {
	A   string  `json:"a"`
	K   string  `json:"k"`
	V   string  `json:"v"`
	W   string  `json:"w"`
	Out []frRec `json:"out"`
}

type frInput struct {
	Label string `json:"label"`
	Path  string `json:"path"`
}

type frCase struct {
	ID    int       `json:"id"`
	Files []frInput `json:"files"`
	Path  []frStep  `json:"path"`
}

var frKeySets = [][]string{
	{"goos", "pkg"}, {"k", "kk"}, {"é", "a.b-c"}, {"cpu", "commit-time"}, {"b", "unit"},
}
var frValSets = [][]string{
	{"v1", "v2"}, {"a b", "a  b"}, {"x: y", "Benchmark"}, {"é z", "1 ns/op"}, {"v\tw ", "Unit u x=y"},
}
var frUnits = []struct{ orig, tidy string }{
	{"ns/op", "sec/op"}, {"widgets", "widgets"}, {"MB/s", "B/s"}, {"B/op", "B/op"},
}
var frBenchErr = []string{
	"BenchmarkFoo ", "BenchmarkFoo x 1 ns/op", "BenchmarkFoo 1", "BenchmarkFoo 1 x ns/op", "BenchmarkFoo 1 1",
	"BenchmarkFoo 1 1 ns/op 2", "BenchmarkFoo 1.5 1 ns/op", "BenchmarkFoo\t", "BenchmarkFoo 99999999999999999999 1 ns/op",
	"BenchmarkFoo 1 1e999 ns/op",
}
var frIgnored = []string{
	"", "PASS", "Key: v", "key : v", "k:v", "ok  \tpkg\t1.0s", " k: v", "Unita x=y", "k x: v", "BenchmarkNameOnly",
	"Benchmark", "kK: v", ": v", "benchmarkFoo 1 1 ns/op", "--- BENCH: BenchmarkX", "Úpper: v", "k", "1k: v", "unit ns/op better=lower",
	"U", "Uni ns/op better=lower",
}

func famFmtReader(mode string, args []string) error {
	switch mode {
	case "replay":
		base := os.Getenv("VERIF_WORK")
		if base == "" {
			base = os.TempDir()
		}
		dir, err := os.MkdirTemp(base, "fr")
		if err != nil {
			return err
		}
		defer os.RemoveAll(dir)
		n := 0
		return replayLoop("fmtreader", args, func(raw json.RawMessage) Verdict {
			n++
			var c frCase
			if err := json.Unmarshal(raw, &c); err != nil {
				return fail("badcase", "%v", err)
			}
			return frReplay(&c, dir, c.ID)
		})
	}
	return fmt.Errorf("fmtreader: unknown mode %q", mode)
}

type frSnap struct {
	cfg   map[string]string
	label string
	file  string
	line  int
	name  string
	iters int
	nvals int
}

func frSnapOf(r *benchfmt.Result) (frSnap, string) {
	s := frSnap{cfg: map[string]string{}}
	seen := map[string]bool{}
	for _, c := range r.Config {
		if seen[c.Key] {
			return s, "duplicate key " + c.Key + " in Result.Config"
		}
		seen[c.Key] = true
		if c.File {
			s.cfg[c.Key] = string(c.Value)
		} else if c.Key == ".file" {
			s.label = string(c.Value)
		} else {
			return s, "unexpected internal key " + c.Key
		}
	}
	// the index must agree with the slice
	for _, c := range r.Config {
		if r.GetConfig(c.Key) != string(c.Value) {
			return s, "GetConfig(" + c.Key + ") disagrees with Config slice"
		}
	}
	s.file, s.line = r.Pos()
	s.name = string(r.Name)
	s.iters = r.Iters
	s.nvals = len(r.Values)
	return s, ""
}

func frSameSnap(a, b frSnap) bool {
	if a.label != b.label || a.file != b.file || a.line != b.line || a.name != b.name || a.iters != b.iters || a.nvals != b.nvals || len(a.cfg) != len(b.cfg) {
		return false
	}
	for k, v := range a.cfg {
		if w, ok := b.cfg[k]; !ok || w != v {
			return false
		}
	}
	return true
}

func frReplay(c *frCase, dir string, caseNo int) Verdict {
	rng := rand.New(rand.NewSource(seed()*7919 + int64(caseNo)))
	ks := frKeySets[rng.Intn(len(frKeySets))]
	vs := frValSets[rng.Intn(len(frValSets))]
	key := func(k string) string { i, _ := strconv.Atoi(k[1:]); return ks[(i-1)%len(ks)] }
	val := func(v string) string { i, _ := strconv.Atoi(v[1:]); return vs[(i-1)%len(vs)] }
	uoff := rng.Intn(len(frUnits))
	unit := func(u string) (string, string) {
		i, _ := strconv.Atoi(u[1:])
		x := frUnits[(i-1+uoff)%len(frUnits)]
		return x.orig, x.tidy
	}
	// concrete paths
	paths := map[string]string{
		"p": filepath.Join(dir, fmt.Sprintf("c%d-p.txt", caseNo)),
		"q": filepath.Join(dir, fmt.Sprintf("c%d-q.txt", caseNo)),
		"r": filepath.Join(dir, fmt.Sprintf("c%d-r.txt", caseNo)),
	}
	defer func() {
		for _, p := range paths {
			os.Remove(p)
		}
	}()
	// Per-input line lists.  Inputs naming the same path have the same lines
	// (FmtReader_gen's DupMode fixes the content), so content is per path.
	var texts [][]string // per input: rendered lines
	cur := 0
	texts = append(texts, nil)
	var flat []frRec
	for _, st := range c.Path {
		if st.A == "nextfile" {
			cur++
			texts = append(texts, nil)
			continue
		}
		// spelling depends only on (case, path, line index) so that inputs naming
		// the same path render identically
		li := len(texts[cur])
		lr := rand.New(rand.NewSource(seed()*104729 + int64(caseNo)*31 + int64(li)*7 + int64(len(c.Files[cur].Path))))
		var l string
		switch st.A {
		case "set":
			sep := []string{" ", "\t", "  ", " \t "}[lr.Intn(4)]
			l = key(st.K) + ":" + sep + val(st.V)
		case "del":
			l = key(st.K) + ":" + []string{"", " ", "\t", "  \t"}[lr.Intn(4)]
		case "bench":
			l = fmt.Sprintf("BenchmarkB%d/x=%d-4%s%d%s1.5 ns/op", li, li, []string{" ", "\t", "   "}[lr.Intn(3)], li+1, []string{" ", "\t"}[lr.Intn(2)])
			if lr.Intn(2) == 0 {
				l += " 3 B/op\t7 widgets"
			}
		case "bencherr":
			l = frBenchErr[lr.Intn(len(frBenchErr))]
		case "ignored":
			l = frIgnored[lr.Intn(len(frIgnored))]
		case "unit":
			o, _ := unit(st.K)
			l = "Unit " + o + " better=" + st.V
		case "unit2":
			o, _ := unit(st.K)
			l = "Unit" + []string{" ", "\t"}[lr.Intn(2)] + o + " better=" + st.V + " better=" + st.W
		default:
			return fail("badcase", "unknown step %q", st.A)
		}
		texts[cur] = append(texts[cur], l)
		flat = append(flat, st.Out...)
	}
	render := func(lines []string) string {
		var sb strings.Builder
		eol := []string{"\n", "\r\n"}[rng.Intn(2)]
		for i, l := range lines {
			sb.WriteString(l)
			if i == len(lines)-1 && rng.Intn(3) == 0 && l != "" {
				break // no final newline
			}
			sb.WriteString(eol)
		}
		return sb.String()
	}
	// Labels depend on ALL inputs (duplicate counting), so all are passed.  The
	// model path may stop before the last input: inputs it has not reached get an
	// empty file, unless they share a path with an earlier input, in which case
	// reading continues into them and the case is cut short (skipped).
	var args []string
	inputPath := make([]string, len(c.Files))
	byPath := map[string]string{}
	for i, f := range c.Files {
		p := paths[f.Path]
		inputPath[i] = p
		if f.Label != "" {
			args = append(args, f.Label+"="+p)
		} else {
			args = append(args, p)
		}
		if i < len(texts) {
			txt := strings.Join(texts[i], "\n")
			old, ok := byPath[p]
			if ok && !strings.HasPrefix(old, txt) {
				return fail("badcase", "inputs sharing a path have different content")
			}
			if ok && old != txt {
				// the path stops in the middle of a duplicate input: reading would go on
				return Verdict{OK: true, Detail: "skipped: path ends inside a duplicate input"}
			}
			if !ok {
				byPath[p] = txt
			}
		} else if _, ok := byPath[p]; ok && byPath[p] != "" {
			// an unreached input re-reads a file that has content: the expectation
			// for it is not part of this case
			return Verdict{OK: true, Detail: "skipped: unreached duplicate input"}
		}
	}
	written := map[string]bool{}
	datas := map[string]string{}
	for i := range c.Files {
		p := inputPath[i]
		if written[p] {
			continue
		}
		written[p] = true
		var data string
		if i < len(texts) {
			data = render(texts[i])
		}
		datas[p] = data
		if err := os.WriteFile(p, []byte(data), 0o644); err != nil {
			return fail("harness", "%v", err)
		}
	}
	files := benchfmt.Files{Paths: args, AllowLabels: true}
	type kept struct {
		clone *benchfmt.Result
		snap  frSnap
	}
	var clones []kept
	idx := 0
	var concrete strings.Builder
	for {
		if !files.Scan() {
			break
		}
		rec := files.Result()
		if idx >= len(flat) {
			// records from inputs beyond the model path cannot exist (empty files),
			// except when a later input re-reads a path already written
			return fail("extra-record", "record %d beyond the %d expected: %v", idx, len(flat), rec)
		}
		e := flat[idx]
		wantFile := inputPath[e.File-1]
		gf, gl := rec.Pos()
		switch rec := rec.(type) {
		case *benchfmt.Result:
			if e.Kind != "result" {
				return fail("kind", "record %d: got a result at %s:%d, want %s", idx, gf, gl, e.Kind)
			}
			s, bad := frSnapOf(rec)
			if bad != "" {
				return fail("result-structure", "record %d: %s", idx, bad)
			}
			want := frSnap{cfg: map[string]string{}, file: wantFile, line: e.Line, name: s.name, iters: s.iters, nvals: s.nvals}
			m, err := fsMapExpect(e.Cfg)
			if err != nil {
				return fail("badcase", "%v", err)
			}
			for k, v := range m {
				want.cfg[key(k)] = strings.TrimRight(val(v), "") // values are kept verbatim incl. trailing blanks
			}
			want.label = inputLabel(c.Files[e.File-1], inputPath[e.File-1], e.Label, e.LabelN)
			if !frSameSnap(s, want) {
				sig := "snapshot"
				if s.label != want.label {
					sig = "label"
				} else if s.file != want.file || s.line != want.line {
					sig = "position"
				}
				return Verdict{OK: false, Signature: sig, Detail: fmt.Sprintf("record %d: got %+v, want %+v", idx, s, want)}
			}
			clones = append(clones, kept{rec.Clone(), s})
		case *benchfmt.UnitMetadata:
			if e.Kind != "unit" {
				return fail("kind", "record %d: got unit metadata at %s:%d, want %s", idx, gf, gl, e.Kind)
			}
			o, t := unit(e.Unit)
			if rec.OrigUnit != o || rec.Unit != t || rec.Key != "better" || rec.Value != e.Val || gf != wantFile || gl != e.Line {
				return fail("unit-record", "record %d: got %+v at %s:%d, want unit %s/%s better=%s at %s:%d", idx, *rec, gf, gl, o, t, e.Val, wantFile, e.Line)
			}
		case *benchfmt.SyntaxError:
			if e.Kind != "error" {
				return fail("kind", "record %d: got syntax error %v, want %s", idx, rec, e.Kind)
			}
			if gf != wantFile || gl != e.Line {
				return fail("position", "record %d: error positioned %s:%d, want %s:%d", idx, gf, gl, wantFile, e.Line)
			}
		default:
			return fail("kind", "record %d: unknown record type %T", idx, rec)
		}
		idx++
	}
	if err := files.Err(); err != nil {
		return fail("read-error", "%v", err)
	}
	if idx != len(flat) {
		for i, t := range texts {
			fmt.Fprintf(&concrete, "--- input %d\n%s\n", i, strings.Join(t, "\n"))
		}
		return Verdict{OK: false, Signature: "missing-record", Detail: fmt.Sprintf("got %d records, want %d", idx, len(flat)), Concrete: concrete.String()}
	}
	// A reader reset in the middle of an input (after the k-th record, possibly between two
	// records of one line) behaves for the next input exactly like a reader that read the same
	// lines to the end: records are a function of the lines parsed, not of what the caller had
	// already fetched.
	if len(texts) >= 2 && len(texts[0]) > 0 {
		d0, d1 := datas[inputPath[0]], datas[inputPath[1]]
		if v := frAbandonCheck(d0, d1); !v.OK {
			return v
		}
	}
	// unit metadata accumulated across files
	// ClonesFrozen
	for i, k := range clones {
		s, bad := frSnapOf(k.clone)
		if bad != "" || !frSameSnap(s, k.snap) {
			return fail("clone-changed", "clone of result %d changed while reading continued: now %+v, was %+v %s", i, s, k.snap, bad)
		}
	}
	return pass()
}

func inputLabel(in frInput, path, base string, n int) string {
	var l string
	if in.Label != "" {
		l = in.Label
	} else {
		l = path
	}
	_ = base
	if n > 0 {
		l += fmt.Sprintf("#%d", n-1)
	}
	return l
}

// frDumpRec renders a record with everything a caller can see.
func frDumpRec(rec benchfmt.Record) string {
	f, l := rec.Pos()
	switch rec := rec.(type) {
	case *benchfmt.Result:
		var sb strings.Builder
		fmt.Fprintf(&sb, "result %s:%d %s %d", f, l, rec.Name, rec.Iters)
		for _, v := range rec.Values {
			fmt.Fprintf(&sb, " [%v %s %v %s]", v.Value, v.Unit, v.OrigValue, v.OrigUnit)
		}
		for _, c := range rec.Config {
			fmt.Fprintf(&sb, " {%s=%q %v}", c.Key, c.Value, c.File)
		}
		return sb.String()
	case *benchfmt.UnitMetadata:
		return fmt.Sprintf("unit %s:%d %s %s %s=%s", f, l, rec.OrigUnit, rec.Unit, rec.Key, rec.Value)
	case *benchfmt.SyntaxError:
		return fmt.Sprintf("error %s:%d %s", f, l, rec.Msg)
	}
	return fmt.Sprintf("%T %s:%d", rec, f, l)
}

// frFailingReader delivers data and then fails with a read error that is not EOF.
type frFailingReader struct {
	data string
	off  int
}

func (f *frFailingReader) Read(p []byte) (int, error) {
	if f.off >= len(f.data) {
		return 0, fmt.Errorf("disk on fire")
	}
	n := copy(p, f.data[f.off:])
	f.off += n
	return n, nil
}

// frAfterErrorCheck: a reader whose previous input ended in an I/O error (a failing io.Reader, or
// a line beyond the scanner's limit) and is then Reset onto d1 reads d1 like a reader whose
// previous input held the same complete lines and ended cleanly, and reports no error at the end.
func frAfterErrorCheck(d0, d1 string) Verdict {
	lines := strings.SplitAfter(d0, "\n")
	for _, k := range []int{0, len(lines) / 2, len(lines)} {
		prefix := strings.Join(lines[:k], "")
		if prefix != "" && !strings.HasSuffix(prefix, "\n") {
			prefix += "\n"
		}
		for _, how := range []string{"read error", "line beyond the scanner's limit"} {
			var first io.Reader = &frFailingReader{data: prefix}
			if how != "read error" {
				first = strings.NewReader(prefix + "note: " + strings.Repeat("x", 70000) + "\nBenchmarkNever 1 1 ns/op\n")
			}
			a := benchfmt.NewReader(first, "first")
			for a.Scan() {
			}
			if a.Err() == nil {
				// the premise (the previous input ended in an error) does not hold for this
				// reader, e.g. one without a line limit: nothing to check
				continue
			}
			a.Reset(strings.NewReader(d1), "second")
			var da []string
			for a.Scan() {
				da = append(da, frDumpRec(a.Result()))
			}
			errAfter := a.Err()
			b := benchfmt.NewReader(strings.NewReader(prefix), "first")
			for b.Scan() {
			}
			b.Reset(strings.NewReader(d1), "second")
			var db []string
			for b.Scan() {
				db = append(db, frDumpRec(b.Result()))
			}
			if strings.Join(da, "\n") != strings.Join(db, "\n") || errAfter != nil {
				return Verdict{OK: false, Signature: "reset-after-io-error",
					Detail: fmt.Sprintf("reader whose first input (%d complete lines) ended in a %s, then Reset onto the second input: records\n%s\nErr() = %v; a reader whose first input ended cleanly gives\n%s\nErr() = nil", k, how, strings.Join(da, "\n"), errAfter, strings.Join(db, "\n")),
					Concrete: "--- first\n" + prefix + "\n--- second\n" + d1}
			}
		}
	}
	return pass()
}

func frAbandonCheck(d0, d1 string) Verdict {
	if v := frAfterErrorCheck(d0, d1); !v.OK {
		return v
	}
	// number of records of the first input
	r := benchfmt.NewReader(strings.NewReader(d0), "first")
	n := 0
	for r.Scan() {
		n++
	}
	lines := strings.SplitAfter(d0, "\n")
	for k := 0; k <= n; k++ {
		a := benchfmt.NewReader(strings.NewReader(d0), "first")
		last := 0
		for i := 0; i < k && a.Scan(); i++ {
			_, last = a.Result().Pos()
		}
		a.Reset(strings.NewReader(d1), "second")
		var da []string
		for a.Scan() {
			da = append(da, frDumpRec(a.Result()))
		}
		if last > len(lines) {
			last = len(lines)
		}
		b := benchfmt.NewReader(strings.NewReader(strings.Join(lines[:last], "")), "first")
		for b.Scan() {
		}
		b.Reset(strings.NewReader(d1), "second")
		var db []string
		for b.Scan() {
			db = append(db, frDumpRec(b.Result()))
		}
		if strings.Join(da, "\n") != strings.Join(db, "\n") {
			return Verdict{OK: false, Signature: "reset-depends-on-records-fetched",
				Detail: fmt.Sprintf("reader reset after fetching %d of %d records of the first input (through line %d) gives, for the second input,\n%s\nbut a reader that read lines 1-%d of the first input to the end gives\n%s", k, n, last, strings.Join(da, "\n"), last, strings.Join(db, "\n")),
				Concrete: "--- first\n" + d0 + "\n--- second\n" + d1}
		}
	}
	return pass()
}
