package main

// Family "fmtstream" (C01): TLC-generated caller histories are replayed on the
// real benchfmt.Writer; after every write all bytes written so far are read back
// with a fresh benchfmt.Reader and compared with what the specification says a
// reader must see (FmtStream.tla: RoundTrip / NoInternalLeak / UnitsRoundTrip).
//
// Mode "record" drives the writer with larger random histories and with records
// obtained by parsing generated text, and logs (result, emitted lines, read-back)
// events that FmtStream_trace.tla validates.

import (
	"bytes"
	"encoding/json"
	"fmt"
	"math"
	"os"
	"os/exec"
	"path/filepath"
	"sort"
	"strconv"
	"strings"
	"unicode/utf8"

	"golang.org/x/perf/benchfmt"
	"golang.org/x/perf/benchunit"
)

func init() { register("fmtstream", famFmtStream) }

type fsStep struct {
	A      string          `json:"a"`
	K      string          `json:"k"`
	V      string          `json:"v"`
	File   bool            `json:"file"`
	M      string          `json:"m"`
	Perm   []string        `json:"perm"`
	U      string          `json:"u"`
	Expect json.RawMessage `json:"expect"`
}

type fsCase struct {
	ID   int      `json:"id"`
	Path []fsStep `json:"path"`
}

type fsUnit struct {
	Unit string `json:"unit"`
	Key  string `json:"key"`
	Orig string `json:"orig"`
	Val  string `json:"val"`
}

// concretisation tables, rotated by seed and case number
var fsKeySets = [][]string{
	{"goos", "pkg", "cpu"},
	{"k", "kk", "k-1"},
	{"é", "key/with=odd", "a.b"},
	{"note", "commit-time", "x_y"},
}
var fsValSets = [][]string{
	{"v1", "v2", "v3"},
	{"a b", "a  b", "a"},
	{"x:y", "x: y", "Benchmark"},
	{"é", "\xff", "1"},
	{"v\tw", "v", "Unit"},
}

var fsFloats = []float64{0, math.Copysign(0, -1), 1, 2.5, 5e-324, 1e308, math.Inf(1), math.Inf(-1), math.NaN(),
	123456789, 1e-9, 0.1, 1e21, 1e-7, 33, math.MaxFloat64, math.SmallestNonzeroFloat64 * 3, -17.25}

func fsMapExpect(raw json.RawMessage) (map[string]string, error) {
	m := map[string]string{}
	s := strings.TrimSpace(string(raw))
	if s == "" || s == "[]" || s == "null" {
		return m, nil
	}
	err := json.Unmarshal(raw, &m)
	return m, err
}

type fsWritten struct {
	cfg   map[string]string // expected file config (concrete keys/values)
	name  string
	iters int
	vals  []benchfmt.Value
}

type fsRec struct {
	isUnit bool
	res    fsWritten
	unit   fsUnit
}

func famFmtStream(mode string, args []string) error {
	switch mode {
	case "replay":
		n := 0
		return replayLoop("fmtstream", args, func(raw json.RawMessage) Verdict {
			n++
			var c fsCase
			if err := json.Unmarshal(raw, &c); err != nil {
				return fail("badcase", "%v", err)
			}
			// three ways of building/editing the caller's result
			for _, style := range []string{"inplace", "literal", "parsed"} {
				if v := fsReplay(&c, style, c.ID); !v.OK {
					v.Detail = "style=" + style + ": " + v.Detail
					return v
				}
			}
			return pass()
		})
	case "record":
		return fsRecord(args)
	}
	return fmt.Errorf("fmtstream: unknown mode %q", mode)
}

func fsMeasure(m string, i int) []benchfmt.Value {
	x := fsFloats[i%len(fsFloats)]
	y := fsFloats[(i*7+3)%len(fsFloats)]
	switch m {
	case "m1":
		// a unit nothing rewrites, and a rescaled pair as a reader produces it
		return []benchfmt.Value{
			{Value: x, Unit: "widgets/op"},
			{Value: y * 1e-9, Unit: "sec/op", OrigValue: y, OrigUnit: "ns/op"},
		}
	default:
		// built through the API in an untidied unit, no original recorded
		return []benchfmt.Value{
			{Value: x, Unit: "ns/op"},
			{Value: y * 1e6, Unit: "B/s", OrigValue: y, OrigUnit: "MB/s"},
			{Value: y, Unit: "B/op"},
		}
	}
}

func fsWrittenPair(v benchfmt.Value) (float64, string) {
	if v.OrigUnit != "" {
		return v.OrigValue, v.OrigUnit
	}
	return v.Value, v.Unit
}

func sameFloat(a, b float64) bool {
	if math.IsNaN(a) || math.IsNaN(b) {
		return math.IsNaN(a) && math.IsNaN(b)
	}
	return math.Float64bits(a) == math.Float64bits(b)
}

func fsReplay(c *fsCase, style string, caseNo int) Verdict {
	ks := fsKeySets[(int(seed())+caseNo)%len(fsKeySets)]
	vs := fsValSets[(int(seed())+caseNo/3)%len(fsValSets)]
	key := func(k string) string { i, _ := strconv.Atoi(k[1:]); return ks[(i-1)%len(ks)] }
	val := func(v string) string { i, _ := strconv.Atoi(v[1:]); return vs[(i-1)%len(vs)] }

	var buf bytes.Buffer
	w := benchfmt.NewWriter(&buf)
	// abstract caller state, in Config order
	type ent struct {
		k, v string
		file bool
	}
	var cur []ent
	find := func(k string) int {
		for i := range cur {
			if cur[i].k == k {
				return i
			}
		}
		return -1
	}
	res := &benchfmt.Result{} // persistent object for style "inplace"
	var written []fsRec
	nwrite := 0
	for si, st := range c.Path {
		switch st.A {
		case "set":
			k, v := key(st.K), val(st.V)
			if i := find(k); i >= 0 {
				cur[i].v, cur[i].file = v, st.File
			} else {
				cur = append(cur, ent{k, v, st.File})
			}
			if style == "inplace" {
				res.SetConfig(k, v)
				if st.File {
					idx, ok := res.ConfigIndex(k)
					if !ok {
						return fail("api", "SetConfig(%q) did not create the key", k)
					}
					res.Config[idx].File = true
				}
			}
		case "del":
			k := key(st.K)
			if i := find(k); i >= 0 {
				// swap-delete like the real Result so that order stays comparable
				cur[i] = cur[len(cur)-1]
				cur = cur[:len(cur)-1]
			}
			if style == "inplace" {
				res.SetConfig(k, "")
			}
		case "write":
			nwrite++
			exp, err := fsMapExpect(st.Expect)
			if err != nil {
				return fail("badcase", "expect: %v", err)
			}
			cexp := map[string]string{}
			for k, v := range exp {
				cexp[key(k)] = val(v)
			}
			name := fmt.Sprintf("Name%d/sub=%d-8", nwrite, si)
			vals := fsMeasure(st.M, caseNo+si)
			var r *benchfmt.Result
			switch style {
			case "inplace":
				r = res
			case "literal":
				// new keys in the order the model chose (perm), old ones as they are
				r = &benchfmt.Result{}
				for _, e := range cur {
					r.Config = append(r.Config, benchfmt.Config{Key: e.k, Value: []byte(e.v), File: e.file})
				}
				if len(st.Perm) > 1 {
					// reorder the tail so that new keys appear in perm order
					pos := map[string]int{}
					for i, p := range st.Perm {
						pos[key(p)] = i
					}
					sort.SliceStable(r.Config, func(i, j int) bool {
						pi, iok := pos[r.Config[i].Key]
						pj, jok := pos[r.Config[j].Key]
						if iok && jok {
							return pi < pj
						}
						return !iok && jok
					})
				}
			case "parsed":
				// file keys come from parsing text, internal ones through SetConfig
				var txt bytes.Buffer
				for _, e := range cur {
					if e.file {
						fmt.Fprintf(&txt, "%s: %s\n", e.k, e.v)
					}
				}
				txt.WriteString("BenchmarkX 1 1 ns/op\n")
				rd := benchfmt.NewReader(&txt, "in")
				if !rd.Scan() {
					return fail("harness", "could not parse generated text")
				}
				pr, ok := rd.Result().(*benchfmt.Result)
				if !ok {
					return fail("harness", "generated text did not parse: %v", rd.Result())
				}
				r = pr.Clone()
				for _, e := range cur {
					if !e.file {
						r.SetConfig(e.k, e.v)
					}
				}
			}
			r.Name = benchfmt.Name(name)
			r.Iters = nwrite * 7
			r.Values = vals
			if err := w.Write(r); err != nil {
				return fail("writer-error", "Write: %v", err)
			}
			written = append(written, fsRec{res: fsWritten{cfg: cexp, name: name, iters: r.Iters, vals: vals}})
		case "unit":
			var ul []fsUnit
			if err := json.Unmarshal(st.Expect, &ul); err != nil {
				return fail("badcase", "unit expect: %v", err)
			}
			orig := map[string]string{"ns": "ns/op", "x": "widgets/op"}[st.U]
			tidy := map[string]string{"ns": "sec/op", "x": "widgets/op"}[st.U]
			um := &benchfmt.UnitMetadata{UnitMetadataKey: benchfmt.UnitMetadataKey{Unit: tidy, Key: st.K}, OrigUnit: orig, Value: st.V}
			if err := w.Write(um); err != nil {
				return fail("writer-error", "Write unit: %v", err)
			}
			written = append(written, fsRec{isUnit: true, unit: fsUnit{Unit: tidy, Key: st.K, Orig: orig, Val: st.V}})
		default:
			return fail("badcase", "unknown step %q", st.A)
		}
		if st.A == "write" || st.A == "unit" {
			if v := fsReadBack(buf.Bytes(), written); !v.OK {
				v.Detail = fmt.Sprintf("after step %d (%s): %s", si+1, st.A, v.Detail)
				v.Concrete = buf.String()
				return v
			}
		}
	}
	return pass()
}

// fsReadBack parses text with a fresh Reader and compares the record stream
// with what was written.
func fsReadBack(text []byte, written []fsRec) Verdict {
	rd := benchfmt.NewReader(bytes.NewReader(text), "rb")
	i := 0
	for rd.Scan() {
		rec := rd.Result()
		if i >= len(written) {
			return fail("extra-record", "read back more records than written: %v", rec)
		}
		w := written[i]
		switch rec := rec.(type) {
		case *benchfmt.Result:
			if w.isUnit {
				return fail("order", "record %d: wrote unit metadata, read a result", i)
			}
			if string(rec.Name) != w.res.name {
				return fail("name", "record %d: name %q, want %q", i, rec.Name, w.res.name)
			}
			if rec.Iters != w.res.iters {
				return fail("iters", "record %d: iters %d, want %d", i, rec.Iters, w.res.iters)
			}
			got := map[string]string{}
			for _, c := range rec.Config {
				if !c.File {
					return fail("internal-in-readback", "record %d: key %q read back as internal config", i, c.Key)
				}
				got[c.Key] = string(c.Value)
			}
			if d := fsDiffCfg(got, w.res.cfg); d != "" {
				return Verdict{OK: false, Signature: d, Detail: fmt.Sprintf("record %d: file configuration read back %v, want %v", i, got, w.res.cfg), Want: w.res.cfg, Got: got}
			}
			if len(rec.Values) != len(w.res.vals) {
				return fail("values", "record %d: %d values, want %d", i, len(rec.Values), len(w.res.vals))
			}
			for j, v := range rec.Values {
				gv, gu := fsWrittenPair(v)
				wv, wu := fsWrittenPair(w.res.vals[j])
				if gu != wu || !sameFloat(gv, wv) {
					return fail("measurement", "record %d value %d: read back (%v %s), written (%v %s)", i, j, gv, gu, wv, wu)
				}
			}
		case *benchfmt.UnitMetadata:
			if !w.isUnit {
				return fail("order", "record %d: wrote a result, read unit metadata", i)
			}
			if rec.Unit != w.unit.Unit || rec.Key != w.unit.Key || rec.OrigUnit != w.unit.Orig || rec.Value != w.unit.Val {
				return fail("unit-metadata", "record %d: unit metadata %+v, want %+v", i, *rec, w.unit)
			}
		case *benchfmt.SyntaxError:
			return fail("syntax-error", "record %d: reading the writer's output gave %v", i, rec)
		}
		i++
	}
	if err := rd.Err(); err != nil {
		return fail("read-error", "%v", err)
	}
	if i != len(written) {
		return fail("missing-record", "read back %d records, wrote %d", i, len(written))
	}
	return pass()
}

// fsDiffCfg classifies a configuration mismatch; the class is the signature used
// for known-findings matching.
func fsDiffCfg(got, want map[string]string) string {
	for k, v := range want {
		g, ok := got[k]
		if !ok {
			return "cfg-missing-key"
		}
		if g != v {
			if strings.HasSuffix(v, "\r") && strings.TrimRight(v, "\r") == strings.TrimRight(g, "\r") {
				return "cfg-value-trailing-cr"
			}
			return "cfg-wrong-value"
		}
	}
	for k := range got {
		if _, ok := want[k]; !ok {
			return "cfg-stale-key"
		}
	}
	return ""
}

// ---------------------------------------------------------------------------
// record: events for FmtStream_trace.tla

type fsEvent struct {
	Ev    string            `json:"ev"`
	T     int               `json:"t"`
	Cfg   map[string]string `json:"cfg"`           // file part of the result handed to the writer
	Int   []string          `json:"internal"`      // keys that were internal in that result
	Lines []fsLine          `json:"lines"`         // what the writer emitted for it (abstracted)
	Got   map[string]string `json:"got"`           // file configuration of the record read back
	GotM  string            `json:"gotm"`          // measurement token read back
	M     string            `json:"m"`             // measurement token written
	Src   string            `json:"src,omitempty"` // how the result was obtained
	Raw   string            `json:"raw,omitempty"` // emitted text (diagnostics)
}

type fsLine struct {
	T  string `json:"t"`
	K  string `json:"k"`
	V  string `json:"v"`
	U  string `json:"u"`
	TU string `json:"tu"`
}

// fsAbstractLines turns emitted text into the wire vocabulary of FmtStream.tla.
// It is deliberately independent of benchfmt: a line is
//
//	blank | "Benchmark…" | "Unit u k=v" | "key:" | "key: value"
func fsAbstractLines(text string) ([]fsLine, error) {
	var out []fsLine
	if text == "" {
		return out, nil
	}
	if !strings.HasSuffix(text, "\n") {
		return nil, fmt.Errorf("writer output does not end in newline: %q", text)
	}
	for _, l := range strings.Split(strings.TrimSuffix(text, "\n"), "\n") {
		// a line of text ends in LF or CR LF
		l = strings.TrimSuffix(l, "\r")
		switch {
		case l == "":
			out = append(out, fsLine{T: "blank"})
		case strings.HasPrefix(l, "Benchmark"):
			out = append(out, fsLine{T: "bench", V: l})
		case strings.HasPrefix(l, "Unit "):
			f := strings.Fields(l)
			if len(f) != 3 || !strings.Contains(f[2], "=") {
				return nil, fmt.Errorf("odd unit line %q", l)
			}
			kv := strings.SplitN(f[2], "=", 2)
			_, tu := benchunit.Tidy(1, f[1])
			out = append(out, fsLine{T: "unit", U: f[1], K: kv[0], V: kv[1], TU: tu})
		default:
			i := strings.Index(l, ":")
			if i <= 0 {
				return nil, fmt.Errorf("writer emitted a line that is neither config nor benchmark: %q", l)
			}
			k, v := l[:i], l[i+1:]
			if v == "" {
				out = append(out, fsLine{T: "del", K: k})
			} else {
				out = append(out, fsLine{T: "set", K: k, V: strings.TrimLeft(v, " \t")})
			}
		}
	}
	return out, nil
}

func fsMeasToken(vals []benchfmt.Value) string {
	var sb strings.Builder
	for _, v := range vals {
		x, u := fsWrittenPair(v)
		if math.IsNaN(x) {
			fmt.Fprintf(&sb, "NaN %s;", u)
		} else {
			fmt.Fprintf(&sb, "%016x %s;", math.Float64bits(x), u)
		}
	}
	return sb.String()
}

func fsRecord(args []string) error {
	if len(args) < 2 {
		return fmt.Errorf("record <out.ndjson> <ntraces> [benchfilter-binary]")
	}
	n, _ := strconv.Atoi(args[1])
	ew, err := newEventWriter(args[0])
	if err != nil {
		return err
	}
	filterBin := ""
	if len(args) > 2 {
		filterBin = args[2]
	}
	for t := 0; t < n; t++ {
		rng := newRand(int64(t))
		ew.emit(map[string]interface{}{"ev": "reset", "t": t})
		fsNewValPool(rng)
		switch {
		case t%3 == 0:
			fsRecordAPI(ew, t, rng)
		case t%3 == 1 || filterBin == "":
			if err := fsRecordParsed(ew, t, rng, ""); err != nil {
				return err
			}
		default:
			if err := fsRecordParsed(ew, t, rng, filterBin); err != nil {
				return err
			}
		}
	}
	if len(fsToolFails) > 0 {
		b, _ := json.Marshal(fsToolFails)
		if err := os.WriteFile(args[0]+".toolfails", b, 0o644); err != nil {
			return err
		}
	}
	return ew.close()
}

// fsToolFails: a tool that fails on generated, well-formed text is a deviation of
// the code under test, not a failure of the harness; the plan reports these.
var fsToolFails []map[string]interface{}

func fsToolFail(t int, sig, detail string) {
	fsToolFails = append(fsToolFails, map[string]interface{}{"t": t, "signature": sig, "detail": detail})
}

func fsExitDetail(err error) string {
	if ee, ok := err.(*exec.ExitError); ok {
		st := string(ee.Stderr)
		if len(st) > 300 {
			st = st[:300]
		}
		return fmt.Sprintf("benchfilter '*': %v: %s", err, st)
	}
	return fmt.Sprintf("benchfilter '*': %v", err)
}

var fsBigKeys = []string{"goos", "goarch", "pkg", "cpu", "note", "k", "kk", "k-1", "é", "a.b", "commit", "x_y"}

// fsValPool: a few values per trace that keep coming back, so that a key returns
// to exactly an earlier value (A -> B -> A), with lengths on both sides of the
// allocator's size classes and of the scanner's first buffer.
var fsValPool []string

func fsNewValPool(rng interface{ Intn(int) int }) {
	fsValPool = fsValPool[:0]
	lens := []int{1, 3, 8, 9, 16, 17, 33, 70, 130, 600, 4100, 9000}
	huge := rng.Intn(6) == 0
	for i := 0; i < 5; i++ {
		n := lens[rng.Intn(len(lens)-2)]
		if huge && i == 4 {
			n = lens[len(lens)-2+rng.Intn(2)]
		}
		if i < 2 {
			n = lens[rng.Intn(4)]
		}
		frag := []string{"fmt", "encoding/json", "x y", "é-1", "a=b:c"}[rng.Intn(5)]
		v := strings.Repeat(frag, n/len(frag)+1)[:n]
		for !utf8.ValidString(v) {
			v = v[:len(v)-1]
		}
		fsValPool = append(fsValPool, strings.TrimSpace(v)+fmt.Sprint(i))
	}
}

func fsRandVal(rng interface{ Intn(int) int }) string {
	if len(fsValPool) > 0 && rng.Intn(2) == 0 {
		return fsValPool[rng.Intn(len(fsValPool))]
	}
	alphabet := []string{"a", "b", " ", "  ", ":", "é", "1", "-", "/", "=", "B", "\t", "x y", "#"}
	n := 1 + rng.Intn(4)
	var sb strings.Builder
	for i := 0; i < n; i++ {
		sb.WriteString(alphabet[rng.Intn(len(alphabet))])
	}
	s := strings.TrimLeft(sb.String(), " \t")
	if s == "" {
		s = "v"
	}
	return s
}

func fsRandValues(rng interface {
	Intn(int) int
	Float64() float64
}) []benchfmt.Value {
	n := 1 + rng.Intn(3)
	if rng.Intn(40) == 0 {
		// a line longer than the scanner's first buffer
		n = 300 + rng.Intn(300)
	}
	var vals []benchfmt.Value
	for i := 0; i < n; i++ {
		x := fsFloats[rng.Intn(len(fsFloats))]
		if rng.Intn(3) == 0 {
			x = math.Float64frombits(uint64(rng.Intn(1<<30))<<34 | uint64(rng.Intn(1<<30)))
		}
		switch rng.Intn(4) {
		case 0:
			vals = append(vals, benchfmt.Value{Value: x, Unit: []string{"widgets/op", "B/op", "allocs/op", "sec/op"}[rng.Intn(4)]})
		case 1:
			vals = append(vals, benchfmt.Value{Value: x * 1e-9, Unit: "sec/op", OrigValue: x, OrigUnit: "ns/op"})
		case 2:
			vals = append(vals, benchfmt.Value{Value: x * 1e6, Unit: "B/s", OrigValue: x, OrigUnit: "MB/s"})
		case 3:
			vals = append(vals, benchfmt.Value{Value: x, Unit: []string{"ns/op", "MB/s", "ns/MB"}[rng.Intn(3)]})
		}
	}
	return vals
}

// fsRecordAPI: random caller history over up to 12 keys through the API.
func fsRecordAPI(ew *eventWriter, t int, rng interface {
	Intn(int) int
	Float64() float64
}) {
	var buf bytes.Buffer
	w := benchfmt.NewWriter(&buf)
	res := &benchfmt.Result{}
	nk := 2 + rng.Intn(len(fsBigKeys)-1)
	steps := 5 + rng.Intn(25)
	nw := 0
	for s := 0; s < steps; s++ {
		nedit := rng.Intn(4)
		for e := 0; e < nedit; e++ {
			k := fsBigKeys[rng.Intn(nk)]
			switch rng.Intn(5) {
			case 0:
				res.SetConfig(k, "")
			case 1, 2:
				res.SetConfig(k, fsRandVal(rng))
			default:
				res.SetConfig(k, fsRandVal(rng))
				idx, _ := res.ConfigIndex(k)
				res.Config[idx].File = true
			}
		}
		if rng.Intn(6) == 0 {
			// in-place value edit, allowed by the API contract
			if len(res.Config) > 0 {
				i := rng.Intn(len(res.Config))
				res.Config[i].Value = append(res.Config[i].Value[:0], fsRandVal(rng)...)
			}
		}
		nw++
		res.Name = benchfmt.Name(fmt.Sprintf("T%d/w=%d", t, nw))
		if rng.Intn(5) == 0 {
			// names that begin with the format's own keywords
			res.Name = benchfmt.Name([]string{"Benchmark", "Benchmarks", "BenchmarkT", "Unit", "BenchmarkBenchmark"}[rng.Intn(5)] + fmt.Sprintf("%d/w=%d", t%3, nw))
			if rng.Intn(4) == 0 {
				res.Name = benchfmt.Name("Benchmark")
			}
		}
		res.Iters = nw
		res.Values = fsRandValues(rng)
		before := buf.Len()
		if err := w.Write(res); err != nil {
			panic(err)
		}
		fsEmitWrite(ew, t, res, buf.Bytes()[before:], buf.Bytes(), nw, "api")
	}
}

// fsEmitWrite logs one write event: the result given to the writer, the lines the
// writer emitted for it and the nw-th result read back from all bytes so far.
func fsEmitWrite(ew *eventWriter, t int, res *benchfmt.Result, emitted, all []byte, nw int, src string) {
	ev := fsEvent{Ev: "write", T: t, Cfg: map[string]string{}, Int: []string{}, Got: map[string]string{}, Src: src}
	for _, c := range res.Config {
		if c.File {
			ev.Cfg[c.Key] = string(c.Value)
		} else {
			ev.Int = append(ev.Int, c.Key)
		}
	}
	sort.Strings(ev.Int)
	ev.M = fsMeasToken(res.Values) + fmt.Sprintf("%s#%d", res.Name, res.Iters)
	lines, err := fsAbstractLines(string(emitted))
	if err != nil {
		ev.Lines = []fsLine{{T: "garbage", V: err.Error()}}
	} else {
		ev.Lines = lines
	}
	ev.Raw = string(emitted)
	// read back the nw-th result
	rd := benchfmt.NewReader(bytes.NewReader(all), "rb")
	i := 0
	ev.GotM = "missing"
	for rd.Scan() {
		r, ok := rd.Result().(*benchfmt.Result)
		if !ok {
			if _, isErr := rd.Result().(*benchfmt.SyntaxError); isErr {
				ev.GotM = "syntax-error: " + rd.Result().(*benchfmt.SyntaxError).Error()
				break
			}
			continue
		}
		i++
		if i == nw {
			for _, c := range r.Config {
				k := c.Key
				if !c.File {
					k = "internal!" + k
				}
				ev.Got[k] = string(c.Value)
			}
			ev.GotM = fsMeasToken(r.Values) + fmt.Sprintf("%s#%d", r.Name, r.Iters)
		}
	}
	ew.emit(ev)
}

// fsRecordParsed: generate text, parse it, write every record, read back.  With
// filterBin the writing is done by the benchfilter binary with filter "*".
func fsRecordParsed(ew *eventWriter, t int, rng interface {
	Intn(int) int
	Float64() float64
}, filterBin string) error {
	text := fsRandText(rng, t)
	var recs []benchfmt.Record
	collect := func(scan func() bool, result func() benchfmt.Record) {
		for scan() {
			switch r := result().(type) {
			case *benchfmt.Result:
				recs = append(recs, r.Clone())
			case *benchfmt.UnitMetadata:
				recs = append(recs, r)
			}
		}
	}
	var out []byte // everything written so far
	var w *benchfmt.Writer
	var buf bytes.Buffer
	src := "parsed"
	switch {
	case filterBin != "" && t%2 == 0:
		// several input files (one of them labelled) through the benchfilter binary: every file
		// starts with an empty configuration, so the writer has to retract the previous file's
		// keys; the tool-internal .file label must not be written
		src = "benchfilter-files"
		dir, err := os.MkdirTemp(os.Getenv("VERIF_WORK"), "bf")
		if err != nil {
			return err
		}
		defer os.RemoveAll(dir)
		var args []string
		nf := 2 + rng.Intn(2)
		for f := 0; f < nf; f++ {
			p := filepath.Join(dir, fmt.Sprintf("in%d.txt", f))
			txt := text
			if f > 0 {
				txt = fsRandText(rng, t*7+f)
			}
			if err := os.WriteFile(p, []byte(txt), 0o644); err != nil {
				return err
			}
			if f == 1 {
				p = "lab=" + p
			}
			args = append(args, p)
		}
		files := benchfmt.Files{Paths: args, AllowLabels: true}
		collect(files.Scan, files.Result)
		if err := files.Err(); err != nil {
			fsToolFail(t, "reader-fails-on-wellformed-input", fmt.Sprintf("benchfmt.Files over generated text: %v", err))
			return nil
		}
		cmd := exec.Command(filterBin, append([]string{"*"}, args...)...)
		o, err := cmd.Output()
		if err != nil {
			fsToolFail(t, "benchfilter-fails-on-wellformed-input", fsExitDetail(err))
			return nil
		}
		out = o
	case filterBin != "":
		src = "benchfilter"
		rd := benchfmt.NewReader(strings.NewReader(text), "in")
		collect(rd.Scan, rd.Result)
		cmd := exec.Command(filterBin, "*")
		cmd.Stdin = strings.NewReader(text)
		o, err := cmd.Output()
		if err != nil {
			fsToolFail(t, "benchfilter-fails-on-wellformed-input", fsExitDetail(err))
			return nil
		}
		out = o
	default:
		rd := benchfmt.NewReader(strings.NewReader(text), "in")
		collect(rd.Scan, rd.Result)
		w = benchfmt.NewWriter(&buf)
	}
	nw := 0
	start := 0
	for _, r := range recs {
		var chunk, all []byte
		_, isRes := r.(*benchfmt.Result)
		if w != nil {
			before := buf.Len()
			if err := w.Write(r); err != nil {
				return err
			}
			chunk, all = buf.Bytes()[before:], buf.Bytes()
		} else {
			// the chunk for this record ends with the line that completes it
			prefix := "Unit "
			if isRes {
				prefix = "Benchmark"
			}
			end := fsNextLineWith(out, start, prefix)
			chunk, all = out[start:end], out[:end]
			start = end
		}
		if res, ok := r.(*benchfmt.Result); ok {
			nw++
			fsEmitWrite(ew, t, res, chunk, all, nw, src)
			continue
		}
		um := r.(*benchfmt.UnitMetadata)
		lines, err := fsAbstractLines(string(chunk))
		if err != nil {
			lines = []fsLine{{T: "garbage", V: err.Error()}}
		}
		// read back all unit metadata so far
		rb := benchfmt.NewReader(bytes.NewReader(all), "rb")
		got := []fsUnit{}
		for rb.Scan() {
			if u, ok := rb.Result().(*benchfmt.UnitMetadata); ok {
				got = append(got, fsUnit{Unit: u.Unit, Key: u.Key, Orig: u.OrigUnit, Val: u.Value})
			}
		}
		ew.emit(map[string]interface{}{"ev": "unit", "t": t, "unit": um.Unit, "key": um.Key, "orig": um.OrigUnit, "val": um.Value,
			"lines": lines, "got": got, "src": src})
	}
	return nil
}

// fsNextLineWith returns the offset just after the first line at or after start
// that begins with prefix (len(out) if there is none).
func fsNextLineWith(out []byte, start int, prefix string) int {
	pos := start
	for pos < len(out) {
		nl := bytes.IndexByte(out[pos:], '\n')
		if nl < 0 {
			return len(out)
		}
		if bytes.HasPrefix(out[pos:], []byte(prefix)) {
			return pos + nl + 1
		}
		pos += nl + 1
	}
	return len(out)
}

// fsRandText generates benchmark-format text with interleaved configuration,
// deletions, unit metadata, benchmark lines (all value classes) and foreign lines.
func fsRandText(rng interface {
	Intn(int) int
	Float64() float64
}, t int) string {
	var sb strings.Builder
	nl := 5 + rng.Intn(40)
	nk := 2 + rng.Intn(len(fsBigKeys)-1)
	nums := []string{"0", "-0", "1", "2.5", "1e-9", "5e-324", "1e308", "+Inf", "-Inf", "NaN", "inf", "0x1p-2", "123456789", "1_000", "0.1", "17"}
	units := []string{"ns/op", "MB/s", "B/op", "allocs/op", "widgets", "ns/MB", "sec/op", "x-ns", "ns*ns"}
	ucount := 0
	if t%50 == 7 && t < 500 {
		// directed: the one input class of known finding C01-cr
		sb.WriteString("note: cr\r\r\nBenchmarkCR 1 1 ns/op\n")
	}
	for i := 0; i < nl; i++ {
		switch rng.Intn(10) {
		case 0, 1, 2:
			eol := "\n"
			switch rng.Intn(12) {
			case 0:
				eol = "\r\n" // CRLF input: the CR belongs to the line ending
			case 1:
				if t%50 == 7 && t < 500 {
					eol = "\r\r\n" // the value itself ends in CR (known finding C01-cr)
				}
			}
			fmt.Fprintf(&sb, "%s: %s%s", fsBigKeys[rng.Intn(nk)], fsRandVal(rng), eol)
		case 3:
			fmt.Fprintf(&sb, "%s:\n", fsBigKeys[rng.Intn(nk)])
		case 4:
			sb.WriteString([]string{"PASS\n", "ok  \tpkg\t1.2s\n", "\n", "--- BENCH: x\n", "Key: v\n", "key : v\n", "BenchmarkOnlyName\n", "Benchmark\n"}[rng.Intn(8)])
		case 5:
			if ucount < 6 {
				ucount++
				fmt.Fprintf(&sb, "Unit %s %s=%s\n", units[rng.Intn(len(units))], []string{"better", "assume"}[rng.Intn(2)], []string{"higher", "lower", "exact", "nothing"}[rng.Intn(4)])
			}
		default:
			kw := ""
			if rng.Intn(6) == 0 {
				kw = []string{"Benchmark", "Benchmarks", "Unit"}[rng.Intn(3)]
			}
			fmt.Fprintf(&sb, "Benchmark%sT%d/i=%d-%d %d", kw, t, i, 1+rng.Intn(16), 1+rng.Intn(1000))
			nv := 1 + rng.Intn(3)
			for j := 0; j < nv; j++ {
				fmt.Fprintf(&sb, " %s %s", nums[rng.Intn(len(nums))], units[rng.Intn(len(units))])
			}
			sb.WriteString("\n")
		}
	}
	return sb.String()
}
