package main

// Family "legacy" (C17): replay of the collections generated from spec/Legacy.tla
// (Legacy_gen.tla) on the legacy benchstat library (package benchstat).
//
// A case is a collection (configurations = sequences of benchmark lines over name,
// label and unit tokens with small integer values), the settings, and what the
// library must report according to the model: unit order, rows in first-appearance
// order, per cell the measured and the retained values (input order), min, max and
// the mean as a rational, for old/new rows the comparison (error class, exact
// U-test p as a rational where the library's value is exact, gate, delta as a
// rational, what is rendered if p < alpha and if not), the display order or the
// sort keys, and the geomean membership.
//
// The harness concretises the tokens (benchmark names in an order-preserving way,
// the custom unit, label key and values, file names, a scale factor, number
// spelling, ignorable lines, text vs Result API, explicit vs default test and
// alpha) from a generator seeded by VERIF_SEED and the case id, builds a
// benchstat.Collection, calls Tables() ONCE and FormatText / FormatCSV, and compares.
//
// AUXILIARY (outside the model, never the expected value of a modelled quantity):
//   - the t-test p-value and, for samples with ties and unequal sizes (known finding
//     of C11), the U-test p-value are obtained by calling the library's test on the
//     MODEL's retained samples; the model fixes what is tested, the error cases, the
//     gate p < alpha and what is rendered on either side of it;
//   - the numeric value of the geomean is exp(mean(log)) over the MODEL's membership
//     and means, compared at 1e-9.
//
// Free (not compared): rows the statement does not require (a side missing in an
// old/new table, rows without any value of the unit), the scaled mean text, the
// variation column, the geomean row's delta and position, header wording.

import (
	"bytes"
	"encoding/csv"
	"encoding/json"
	"fmt"
	"hash/fnv"
	"math"
	"math/big"
	"math/rand"
	"os"
	"regexp"
	"sort"
	"strconv"
	"strings"

	"golang.org/x/perf/benchstat"
	"golang.org/x/perf/internal/stats"
	"golang.org/x/perf/storage/benchfmt"
)

func init() { register("legacy", famLegacy) }

type lgLine struct {
	B  int      `json:"b"`
	G  int      `json:"g"`
	Ms [][2]int `json:"ms"`
}

type lgSet struct {
	Test  string `json:"test"`
	Alpha [2]int `json:"alpha"`
	Order string `json:"order"`
	Geo   bool   `json:"geo"`
	Split bool   `json:"split"`
}

type lgCell struct {
	Has  bool   `json:"has"`
	Vals []int  `json:"vals"`
	Rv   []int  `json:"rv"`
	Min  int    `json:"min"`
	Max  int    `json:"max"`
	Sum  int    `json:"sum"`
	N    int    `json:"n"`
	Haz  string `json:"haz"`
}

type lgRender struct {
	Delta  string `json:"delta"`
	Change int    `json:"change"`
	Note   string `json:"note"`
}

type lgCmp struct {
	K     string   `json:"k"`
	Err   string   `json:"err"`
	Sig   string   `json:"sig"`
	Pn    int      `json:"pn"`
	Pd    int      `json:"pd"`
	Pex   bool     `json:"pex"`
	Ora   bool     `json:"ora"`   // long runs: the harness evaluates the prescribed method on (tv, n1, u2)
	U2    int      `json:"u2"`    // 2U of the first (old) retained sample
	Tv    []int    `json:"tv"`    // tie vector of the pooled retained values
	Exact bool     `json:"exact"` // the exact distribution is prescribed (sizes within 50, 25 with ties)
	N1    int      `json:"n1"`
	N2    int      `json:"n2"`
	Cm    int      `json:"cm"`
	Dn    int      `json:"dn"`
	Dd    int      `json:"dd"`
	Dfree bool     `json:"dfree"`
	Yes   lgRender `json:"yes"`
	No    lgRender `json:"no"`
}

type lgRow struct {
	G     int      `json:"g"`
	B     int      `json:"b"`
	Req   bool     `json:"req"`
	Cells []lgCell `json:"cells"`
	Cmp   lgCmp    `json:"cmp"`
}

type lgTable struct {
	U        int      `json:"u"`
	Rows     []lgRow  `json:"rows"`
	Req      bool     `json:"req"`
	Keys     [][2]int `json:"keys"`
	Ordknown bool     `json:"ordknown"`
	Ordhaz   bool     `json:"ordhaz"`
	Order    []int    `json:"order"`
	Geo      [][]int  `json:"geo"`
}

type lgExp struct {
	Units  []int     `json:"units"`
	Groups []int     `json:"groups"`
	Tables []lgTable `json:"tables"`
}

type lgCase struct {
	ID    json.RawMessage `json:"id"`
	Fam   string          `json:"fam"`
	Cfgs  [][]lgLine      `json:"cfgs"`
	Set   lgSet           `json:"set"`
	Skip  string          `json:"skip"`
	Fence string          `json:"fence"`
	Exp   lgExp           `json:"exp"`
}

func famLegacy(mode string, args []string) error {
	switch mode {
	case "replay":
		return replayLoop("legacy", args, lgReplay)
	}
	return fmt.Errorf("legacy: unknown mode %q", mode)
}

// lgBad reports a defect of the harness or of a generated case: exit 2, never a verdict.
func lgBad(format string, a ...interface{}) {
	fmt.Fprintf(os.Stderr, "legacy harness: "+format+"\n", a...)
	os.Exit(2)
}

// ---------------------------------------------------------------- concretisation

// name schemes: five strings in increasing order of Go's string comparison
var lgNameSchemes = [][5]string{
	{"A", "B", "C", "D", "E"},
	{"Decode", "Encode", "Fib", "Gob", "Gzip"},
	{"Fib/n=10", "Fib/n=20", "Fib/n=9", "Fib/n=90", "Fib/n=91"},
	{"Zip", "alloc", "map", "mapiter", "select"},
	{"V-8", "W-8", "X-8", "Y-8", "Z-8"},
	{"Sort/1K-4", "Sort/1M-4", "Sort/2K-4", "Sort/2M-4", "Sort/4K-4"},
	{"Get", "GetParallel", "Put", "PutParallel", "Scan"},
}

var lgCustomUnits = []string{"allocs/op", "B/op", "widgets", "ns/GC", "req/s", "bytes/op", "pkg-ns/op", "disk-MB/s", "ns/frame-halfspeed", "stalls/overspeed"}
var lgLabelKeys = []string{"pkg", "goos", "cfg"}
var lgLabelVals = [][2]string{{"a", "b"}, {"x/y", "x/z"}, {"linux", "darwin"}}
var lgConfigNames = [][3]string{
	{"old.txt", "new.txt", "third.txt"},
	{"/tmp/run/before", "/tmp/run/after", "/tmp/run/later"},
	{"b", "a", "c"},
}
var lgScales = []float64{1, 1, 1000, 0.5, 0.001, 1e6, 4, 0.3}

// scales that keep the code's fence arithmetic exact (integers and powers of two)
var lgExactScales = []float64{1, 1, 1000, 0.5, 1e6, 4}

func init() {
	for _, s := range lgNameSchemes {
		for i := 1; i < len(s); i++ {
			if !(s[i-1] < s[i]) {
				panic("legacy harness: name scheme not increasing")
			}
		}
	}
}

type lgConc struct {
	names   [5]string
	units   [4]string // index 1..3
	key     string
	labvals [2]string
	configs []string
	scale   float64
	useAPI  bool // AddResults instead of AddConfig
	nameLab bool // (API only) the label is a name label of the result, not a file label
	arch    bool // every configuration carries "goarch: amd64"
	split2  bool // SplitBy names goarch as well (needs arch)
	nilTest bool // leave DeltaTest nil (documented default: U-test)
	// affine re-reading of the model's values (second passes of lgReplay): a model value v
	// stands for (v - shift) * scale * sgn; shift 0 and sgn 1 in the first pass
	shift int
	sgn   float64
	rng   *rand.Rand
}

func lgRandFor(id json.RawMessage) *rand.Rand {
	h := fnv.New64a()
	h.Write(id)
	return newRand(int64(h.Sum64() & 0x3fffffffffffffff))
}

func lgConcretise(c *lgCase) *lgConc {
	rng := lgRandFor(c.ID)
	k := &lgConc{rng: rng, sgn: 1}
	k.names = lgNameSchemes[rng.Intn(len(lgNameSchemes))]
	k.units[1], k.units[2] = "ns/op", "MB/s"
	k.units[3] = lgCustomUnits[rng.Intn(len(lgCustomUnits))]
	i := rng.Intn(len(lgLabelKeys))
	k.key, k.labvals = lgLabelKeys[i], lgLabelVals[i]
	cn := lgConfigNames[rng.Intn(len(lgConfigNames))]
	for i := range c.Cfgs {
		k.configs = append(k.configs, cn[i])
	}
	k.scale = lgScales[rng.Intn(len(lgScales))]
	if c.Fence == "flat" {
		// a value sits exactly on a fence whose quartiles are data values: the comparison
		// is exact as long as the values stay integers or dyadic
		k.scale = lgExactScales[rng.Intn(len(lgExactScales))]
	}
	k.useAPI = rng.Intn(3) == 0
	k.nameLab = k.useAPI && rng.Intn(2) == 0
	k.arch = rng.Intn(3) == 0
	k.split2 = k.arch && c.Set.Split && rng.Intn(2) == 0
	k.nilTest = rng.Intn(2) == 0
	return k
}

func (k *lgConc) val(v int) float64 {
	if k.shift == 0 && k.sgn == 1 {
		return float64(v) * k.scale
	}
	return float64(v-k.shift) * k.scale * k.sgn
}

// group is the group text the library derives for label value g (0 = label not set)
func (k *lgConc) group(g int) string {
	out := ""
	if g != 0 {
		out = k.key + ":" + k.labvals[g-1]
	}
	if k.split2 {
		if out != "" {
			out += " "
		}
		out += "goarch:amd64"
	}
	return out
}

// number spelling: the text must parse back to exactly val(v)
func (k *lgConc) numText(v int) string {
	x := k.val(v)
	var s string
	switch k.rng.Intn(4) {
	case 0:
		s = strconv.FormatFloat(x, 'e', -1, 64)
	case 1:
		s = strconv.FormatFloat(x, 'f', -1, 64)
	default:
		s = strconv.FormatFloat(x, 'g', -1, 64)
	}
	if y, err := strconv.ParseFloat(s, 64); err != nil || y != x {
		lgBad("number text %q does not round-trip to %v", s, x)
	}
	return s
}

var lgNoise = []string{
	"PASS",
	"ok  \tgolang.org/x/perf\t1.234s",
	"# a comment",
	"BenchmarkShort 100",         // fewer than four fields: ignored
	"BenchmarkNoRuns 0 12 ns/op", // zero iterations: ignored
	"Benchmarking is fun 1 2 3",  // iteration count does not parse: ignored
	"--- BENCH: BenchmarkX",
	"note: free text",
}

// lgBuild renders the configurations and feeds them to a Collection.
func lgBuild(c *lgCase, k *lgConc) (*benchstat.Collection, []string) {
	col := &benchstat.Collection{AddGeoMean: c.Set.Geo}
	switch c.Set.Test {
	case "u":
		if !k.nilTest {
			col.DeltaTest = benchstat.UTest
		}
	case "t":
		col.DeltaTest = benchstat.TTest
	case "none":
		col.DeltaTest = benchstat.NoDeltaTest
	default:
		lgBad("unknown test %q", c.Set.Test)
	}
	if c.Set.Alpha[0] != 0 {
		col.Alpha = float64(c.Set.Alpha[0]) / float64(c.Set.Alpha[1])
	}
	switch c.Set.Order {
	case "none":
	case "name":
		col.Order = benchstat.ByName
	case "delta":
		col.Order = benchstat.ByDelta
	case "rname":
		col.Order = benchstat.Reverse(benchstat.ByName)
	case "rdelta":
		col.Order = benchstat.Reverse(benchstat.ByDelta)
	default:
		lgBad("unknown order %q", c.Set.Order)
	}
	if c.Set.Split {
		col.SplitBy = []string{k.key}
		if k.split2 {
			col.SplitBy = append(col.SplitBy, "goarch")
		}
	}
	var texts []string
	for ci, cfg := range c.Cfgs {
		var buf bytes.Buffer
		var results []*benchfmt.Result
		cur := 0
		labels := benchfmt.Labels{}
		nameLabels := benchfmt.Labels{}
		if k.arch {
			buf.WriteString("goarch: amd64\n") // a constant label
			labels = labels.Copy()
			labels["goarch"] = "amd64"
		}
		for _, l := range cfg {
			if k.rng.Intn(6) == 0 {
				buf.WriteString(lgNoise[k.rng.Intn(len(lgNoise))] + "\n")
			}
			if l.G != cur {
				labels = labels.Copy()
				nameLabels = benchfmt.Labels{}
				if l.G == 0 {
					fmt.Fprintf(&buf, "%s:\n", k.key)
					delete(labels, k.key)
				} else {
					fmt.Fprintf(&buf, "%s: %s\n", k.key, k.labvals[l.G-1])
					if k.nameLab {
						delete(labels, k.key)
						nameLabels[k.key] = k.labvals[l.G-1]
					} else {
						labels[k.key] = k.labvals[l.G-1]
					}
				}
				cur = l.G
			}
			var line bytes.Buffer
			fmt.Fprintf(&line, "Benchmark%s", k.names[l.B-1])
			if k.rng.Intn(2) == 0 {
				line.WriteString("\t")
			} else {
				line.WriteString("   ")
			}
			fmt.Fprintf(&line, "%d", 1+k.rng.Intn(1000000))
			for _, m := range l.Ms {
				fmt.Fprintf(&line, "\t%s %s", k.numText(m[1]), k.units[m[0]])
				if k.rng.Intn(12) == 0 {
					line.WriteString("\t-- junk/op") // unparsable value: the pair is skipped
				}
			}
			buf.WriteString(line.String() + "\n")
			results = append(results, &benchfmt.Result{Labels: labels, NameLabels: nameLabels, Content: line.String(), LineNum: 1})
		}
		if k.rng.Intn(4) == 0 {
			buf.WriteString("PASS\n")
		}
		texts = append(texts, buf.String())
		if k.useAPI {
			col.AddResults(k.configs[ci], results)
		} else {
			col.AddConfig(k.configs[ci], buf.Bytes())
		}
	}
	return col, texts
}

// ---------------------------------------------------------------- comparison helpers

// lgRatEq: float x equals p/q (times scale) within 1e-12 relative (DESIGN.md section 3).
func lgRatEq(x float64, p, q int, scale, tol float64) bool {
	if math.IsNaN(x) || math.IsInf(x, 0) {
		return false
	}
	xq := x / scale * float64(q)
	fp := float64(p)
	return math.Abs(xq-fp) <= tol*math.Max(math.Abs(fp), math.Abs(xq))
}

func lgFloats(k *lgConc, vs []int) []float64 {
	out := make([]float64, len(vs))
	for i, v := range vs {
		out[i] = k.val(v)
	}
	return out
}

func lgSameSeq(a, b []float64) bool {
	if len(a) != len(b) {
		return false
	}
	for i := range a {
		if a[i] != b[i] {
			return false
		}
	}
	return true
}

func lgSameMultiset(a, b []float64) bool {
	x := append([]float64(nil), a...)
	y := append([]float64(nil), b...)
	sort.Float64s(x)
	sort.Float64s(y)
	return lgSameSeq(x, y)
}

type lgFail struct {
	sig    string
	detail string
}

func lgF(sig, format string, a ...interface{}) *lgFail {
	return &lgFail{sig, fmt.Sprintf(format, a...)}
}

var lgNoteRe = regexp.MustCompile(`^\(p=([0-9.]+) n=(\d+)\+(\d+)\)$`)

// ---------------------------------------------------------------- replay

func lgReplay(raw json.RawMessage) Verdict {
	var c lgCase
	if err := json.Unmarshal(raw, &c); err != nil {
		lgBad("cannot decode case: %v", err)
	}
	if c.Skip != "" {
		return Verdict{OK: true, Detail: "skipped: " + c.Skip}
	}
	k := lgConcretise(&c)
	col, texts := lgBuild(&c, k)
	tables := col.Tables() // ONCE: a second call appends the retained values again
	conc := fmt.Sprintf("configs=%q api=%v scale=%v split=%q test=%s(nil=%v) alpha=%v order=%s geo=%v texts=%q",
		k.configs, k.useAPI, k.scale, col.SplitBy, c.Set.Test, k.nilTest, col.Alpha, c.Set.Order, c.Set.Geo, texts)
	f, skipped := lgCompare(&c, k, col, tables)
	if f == nil {
		f = lgFormats(&c, k, tables)
	}
	if f == nil {
		for _, p := range lgAffinePlans(&c) {
			if f2, conc2 := lgAffine(&c, float64(p[0]), p[1]); f2 != nil {
				return Verdict{Signature: f2.sig, Detail: f2.detail, Concrete: conc2}
			}
		}
	}
	if f != nil {
		v := Verdict{Signature: f.sig, Detail: f.detail, Concrete: conc}
		v.Got = lgDump(tables)
		return v
	}
	if skipped != "" {
		return Verdict{OK: true, Detail: "skipped: " + skipped}
	}
	return pass()
}

type lgDumpRow struct {
	Name, Group, Delta, Note string
	Change                   int
	Pct                      string // as text: may be Inf or NaN, which JSON cannot carry
	Metrics                  []string
}

func lgDump(tables []*benchstat.Table) interface{} {
	var out []interface{}
	for _, t := range tables {
		var rows []lgDumpRow
		for _, r := range t.Rows {
			d := lgDumpRow{Name: r.Benchmark, Group: r.Group, Delta: r.Delta, Note: r.Note, Change: r.Change, Pct: fmt.Sprint(r.PctDelta)}
			for _, m := range r.Metrics {
				d.Metrics = append(d.Metrics, fmt.Sprintf("%s vals=%v r=%v min=%v mean=%v max=%v", m.Unit, m.Values, m.RValues, m.Min, m.Mean, m.Max))
			}
			rows = append(rows, d)
		}
		out = append(out, map[string]interface{}{"metric": t.Metric, "configs": t.Configs, "rows": rows})
	}
	return out
}

func lgTableUnit(t *benchstat.Table) string {
	for _, r := range t.Rows {
		for _, m := range r.Metrics {
			if m != nil && m.Unit != "" {
				return m.Unit
			}
		}
	}
	return ""
}

const lgGeoName = "[Geo mean]"

// lgCompare checks Tables() against the model. The second result names a float
// hazard met on the way (p on alpha for a library p-value), "" if none.
func lgCompare(c *lgCase, k *lgConc, col *benchstat.Collection, tables []*benchstat.Table) (*lgFail, string) {
	nc := len(c.Cfgs)
	skipped := ""
	// tables in unit order (first appearance); tables all of whose rows are free may be absent
	next := 0
	matched := make([]*benchstat.Table, len(c.Exp.Tables))
	for _, t := range tables {
		u := lgTableUnit(t)
		if u == "" {
			return lgF("table-without-unit", "a table (%s) has no cell with a unit", t.Metric), ""
		}
		found := -1
		for j := next; j < len(c.Exp.Tables); j++ {
			if k.units[c.Exp.Tables[j].U] == u {
				found = j
				break
			}
		}
		if found < 0 {
			for j := 0; j < next; j++ {
				if k.units[c.Exp.Tables[j].U] == u {
					return lgF("table-order", "table of unit %s is not in first-appearance order of the units", u), ""
				}
			}
			return lgF("table-unexpected", "table of unit %s: no such unit in the input", u), ""
		}
		matched[found] = t
		next = found + 1
		if len(t.Configs) != nc {
			return lgF("table-configs", "table %s has %d configurations, input has %d", u, len(t.Configs), nc), ""
		}
		for i := range t.Configs {
			if t.Configs[i] != k.configs[i] {
				return lgF("table-configs", "table %s: configurations %q, added as %q", u, t.Configs, k.configs), ""
			}
		}
	}
	for j, et := range c.Exp.Tables {
		if et.Req && matched[j] == nil {
			return lgF("table-missing", "no table for unit %s", k.units[et.U]), ""
		}
	}
	for j := range c.Exp.Tables {
		if matched[j] == nil {
			continue
		}
		f, sk := lgCompareTable(c, k, &c.Exp.Tables[j], matched[j])
		if f != nil {
			return f, ""
		}
		if sk != "" {
			skipped = sk
		}
	}
	return nil, skipped
}

func lgCompareTable(c *lgCase, k *lgConc, et *lgTable, t *benchstat.Table) (*lgFail, string) {
	nc := len(c.Cfgs)
	unit := k.units[et.U]
	multiGroup := len(c.Exp.Groups) > 1
	skipped := ""
	// index expected rows by (group text, name)
	type rk struct{ g, b string }
	idx := map[rk]int{}
	for i, r := range et.Rows {
		g := ""
		if multiGroup {
			g = k.group(r.G)
		}
		idx[rk{g, k.names[r.B-1]}] = i
	}
	var obs []int // expected-row index of each observed data row, in display order
	var obsRows []*benchstat.Row
	seen := map[int]bool{}
	var geo *benchstat.Row
	for _, r := range t.Rows {
		if r.Benchmark == lgGeoName {
			if geo != nil {
				return lgF("geomean-twice", "table %s has two geomean rows", unit), ""
			}
			geo = r
			continue
		}
		i, ok := idx[rk{r.Group, r.Benchmark}]
		if !ok {
			return lgF("row-unexpected", "table %s: row %q (group %q) is not a benchmark of the input", unit, r.Benchmark, r.Group), ""
		}
		if seen[i] {
			return lgF("row-twice", "table %s: row %q (group %q) appears twice", unit, r.Benchmark, r.Group), ""
		}
		seen[i] = true
		obs = append(obs, i)
		obsRows = append(obsRows, r)
		if len(r.Metrics) != nc {
			return lgF("row-cells", "table %s row %q: %d cells for %d configurations", unit, r.Benchmark, len(r.Metrics), nc), ""
		}
	}
	for i, r := range et.Rows {
		if r.Req && !seen[i] {
			return lgF("row-missing", "table %s: no row for benchmark %q group %q", unit, k.names[r.B-1], k.group(r.G)), ""
		}
	}

	// cells and comparison of every observed row
	sig := make([]bool, len(et.Rows)) // delta shown, by the model's gate (or the library p where the model says so)
	for pos, i := range obs {
		er := &et.Rows[i]
		or := obsRows[pos]
		for ci := 0; ci < nc; ci++ {
			if f := lgCompareCell(k, unit, er, ci, or.Metrics[ci]); f != nil {
				return f, ""
			}
		}
		if er.Cmp.K == "cmp" {
			s, f, sk := lgCompareCmp(c, k, unit, er, or)
			if f != nil {
				return f, ""
			}
			if sk != "" {
				skipped = sk
			}
			sig[i] = s
		}
	}

	// display order
	if !et.Ordhaz && skipped == "" {
		if et.Ordknown {
			// the observed rows must be a subsequence of the model's order
			p := 0
			for _, i := range obs {
				for p < len(et.Order) && et.Order[p]-1 != i {
					p++
				}
				if p == len(et.Order) {
					return lgF(lgOrderSig(c), "table %s: rows are displayed as %v, the model's order (%s) is %v (indices into first-appearance order)",
						unit, lgPlus1(obs), c.Set.Order, et.Order), ""
				}
				p++
			}
		} else {
			// some gate was decided by a library p-value: check the definition of the stable sort directly
			key := func(i int) [2]int {
				er := &et.Rows[i]
				if er.Cmp.K == "cmp" && sig[i] && er.Cmp.Yes.Delta == "pct" && !er.Cmp.Dfree {
					return et.Keys[i]
				}
				return [2]int{0, 1}
			}
			lt := func(a, b [2]int) bool { return int64(a[0])*int64(b[1]) < int64(b[0])*int64(a[1]) }
			rev := c.Set.Order == "rdelta"
			for a := 0; a < len(obs); a++ {
				for b := a + 1; b < len(obs); b++ {
					x, y := key(obs[a]), key(obs[b])
					yBeforeX := lt(y, x)
					if rev {
						yBeforeX = lt(x, y)
					}
					if yBeforeX || (!lt(x, y) && !lt(y, x) && obs[a] > obs[b]) {
						return lgF(lgOrderSig(c), "table %s: rows displayed as %v are not the stable sort by %s (rows %d, %d)",
							unit, lgPlus1(obs), c.Set.Order, obs[a]+1, obs[b]+1), ""
					}
				}
			}
		}
	}

	// geomean row
	if f := lgCompareGeo(c, k, unit, et, geo); f != nil {
		return f, ""
	}
	return nil, skipped
}

func lgOrderSig(c *lgCase) string {
	if c.Set.Order == "none" {
		return "row-order-first-appearance"
	}
	return "row-order-sort"
}

func lgPlus1(a []int) []int {
	out := make([]int, len(a))
	for i, x := range a {
		out[i] = x + 1
	}
	return out
}

func lgCompareCell(k *lgConc, unit string, er *lgRow, ci int, m *benchstat.Metrics) *lgFail {
	ec := &er.Cells[ci]
	where := fmt.Sprintf("unit %s benchmark %q config %d", unit, k.names[er.B-1], ci+1)
	if m == nil {
		return lgF("cell-nil", "%s: nil cell", where)
	}
	if !ec.Has {
		if m.Unit != "" || len(m.Values) != 0 {
			return lgF("cell-unexpected", "%s: the input has no such measurement, the table has %v", where, m.Values)
		}
		return nil
	}
	if m.Unit != unit {
		return lgF("cell-missing", "%s: cell has unit %q", where, m.Unit)
	}
	wantV, wantR := lgFloats(k, ec.Vals), lgFloats(k, ec.Rv)
	if !lgSameSeq(m.Values, wantV) {
		return lgF("values", "%s: measured values %v, input order gives %v", where, m.Values, wantV)
	}
	if !lgSameSeq(m.RValues, wantR) {
		if lgSameMultiset(m.RValues, wantR) {
			return lgF("retained-order", "%s: retained values %v are not in input order %v", where, m.RValues, wantR)
		}
		return lgF("retained-set", "%s: retained values %v, within 1.5 IQR of the quartiles are %v (of %v)", where, m.RValues, wantR, wantV)
	}
	wantMin, wantMax := k.val(ec.Min), k.val(ec.Max)
	if k.sgn < 0 {
		wantMin, wantMax = wantMax, wantMin
	}
	if m.Min != wantMin || m.Max != wantMax {
		return lgF("min-max", "%s: min/max %v/%v, of the retained values %v: %v/%v", where, m.Min, m.Max, wantR, wantMin, wantMax)
	}
	if k.shift == 0 && k.sgn == 1 {
		if !lgRatEq(m.Mean, ec.Sum, ec.N, k.scale, 1e-12) {
			return lgF("mean", "%s: mean %v, of the retained values %d/%d*%v", where, m.Mean, ec.Sum, ec.N, k.scale)
		}
		if !(m.Min <= m.Mean && m.Mean <= m.Max) {
			return lgF("min-mean-max", "%s: min %v mean %v max %v", where, m.Min, m.Mean, m.Max)
		}
		return nil
	}
	// affine pass: the mean of (v-shift)*scale*sgn is (sum - n*shift)/n*scale*sgn; the sum may cancel, so the
	// tolerance is relative to the largest retained magnitude
	mag := math.Max(math.Abs(wantMin), math.Abs(wantMax))
	wantMean := float64(ec.Sum-ec.N*k.shift) / float64(ec.N) * k.scale * k.sgn
	if math.IsNaN(m.Mean) || math.Abs(m.Mean-wantMean) > 1e-12*mag {
		return lgF("mean", "%s: mean %v, of the retained values %v is %v", where, m.Mean, wantR, wantMean)
	}
	if !(m.Min <= m.Mean+1e-12*mag && m.Mean <= m.Max+1e-12*mag) {
		return lgF("min-mean-max", "%s: min %v mean %v max %v", where, m.Min, m.Mean, m.Max)
	}
	return nil
}

// lgAffine: second pass over the same case with every model value v re-read as (v - shift)*scale*sgn
// (negative, mixed-sign, reflected samples: signed custom metrics are legal benchmark output). The quartiles
// (R8, symmetric) and the 1.5 IQR fences are equivariant under x -> a*x + b, a != 0, so the retained values are
// the images of the model's retained values in input order, the mean is the image of the mean, and min and max
// are the images of min and max (exchanged when a < 0). Only the per-cell statistics are judged in this pass:
// deltas, directions, p-values and geomeans are not equivariant.
func lgAffine(c *lgCase, sgn float64, shift int) (*lgFail, string) {
	k := lgConcretise(c)
	k.sgn, k.shift = sgn, shift
	col, texts := lgBuild(c, k)
	tables := col.Tables()
	conc := fmt.Sprintf("affine pass value=(v-%d)*%v*%v configs=%q api=%v texts=%q", shift, k.scale, sgn, k.configs, k.useAPI, texts)
	nc := len(c.Cfgs)
	multiGroup := len(c.Exp.Groups) > 1
	type rk struct{ g, b string }
	for _, t := range tables {
		u := lgTableUnit(t)
		var et *lgTable
		for j := range c.Exp.Tables {
			if k.units[c.Exp.Tables[j].U] == u {
				et = &c.Exp.Tables[j]
			}
		}
		if et == nil {
			continue
		}
		idx := map[rk]int{}
		for i, r := range et.Rows {
			g := ""
			if multiGroup {
				g = k.group(r.G)
			}
			idx[rk{g, k.names[r.B-1]}] = i
		}
		for _, r := range t.Rows {
			i, ok := idx[rk{r.Group, r.Benchmark}]
			if !ok || r.Benchmark == lgGeoName || len(r.Metrics) != nc {
				continue
			}
			for ci := 0; ci < nc; ci++ {
				if f := lgCompareCell(k, u, &et.Rows[i], ci, r.Metrics[ci]); f != nil {
					f.sig = "signed-" + f.sig
					return f, conc
				}
			}
		}
	}
	return nil, conc
}

// lgAffinePlans: the re-readings tried for a case: all values negative (shift above the largest value),
// the reflection (non-positive, order reversed), and one seeded mixed-sign reading.
func lgAffinePlans(c *lgCase) [][2]int {
	max := 0
	for _, cfg := range c.Cfgs {
		for _, l := range cfg {
			for _, m := range l.Ms {
				if m[1] > max {
					max = m[1]
				}
			}
		}
	}
	rng := lgRandFor(append(append(json.RawMessage{}, c.ID...), 'a'))
	plans := [][2]int{{1, max + 1 + rng.Intn(3)}, {-1, rng.Intn(2) * (max + 1)}}
	if max > 0 {
		s := 1 - 2*rng.Intn(2)
		plans = append(plans, [2]int{s, 1 + rng.Intn(max)})
	}
	return plans
}

// lgCompareCmp checks Delta, Change, Note of an old/new row. Returns whether the
// delta is shown according to the gate.
func lgCompareCmp(c *lgCase, k *lgConc, unit string, er *lgRow, or *benchstat.Row) (bool, *lgFail, string) {
	cmp := &er.Cmp
	where := fmt.Sprintf("unit %s benchmark %q test %s", unit, k.names[er.B-1], c.Set.Test)
	alpha := 0.05
	if c.Set.Alpha[0] != 0 {
		alpha = float64(c.Set.Alpha[0]) / float64(c.Set.Alpha[1])
	}
	oldR, newR := lgFloats(k, er.Cells[0].Rv), lgFloats(k, er.Cells[1].Rv)
	// the p-value of the chosen test on the MODEL's retained samples
	p := -1.0
	libP := math.NaN()
	pIsExact := false
	switch c.Set.Test {
	case "u":
		// internal/stats directly: package benchstat's wrappers are under test (which samples, which test)
		var lp float64
		res, lerr := stats.MannWhitneyUTest(append([]float64(nil), oldR...), append([]float64(nil), newR...), stats.LocationDiffers)
		if res != nil {
			lp = res.P
			libP = lp
		}
		if (cmp.Err == "eq") != (lerr == stats.ErrSamplesEqual) || (cmp.Err == "" && lerr != nil) {
			return false, lgF("utest-error-class", "%s: model says error %q, stats.MannWhitneyUTest(%v, %v) = (%v, %v)", where, cmp.Err, oldR, newR, lp, lerr), ""
		}
		if cmp.Err == "" {
			if cmp.Pex {
				if !lgRatEq(lp, cmp.Pn, cmp.Pd, 1, 1e-12) {
					return false, lgF("utest-exact-p", "%s: stats.MannWhitneyUTest(%v, %v) = %v, exact two-sided p is %d/%d", where, oldR, newR, lp, cmp.Pn, cmp.Pd), ""
				}
				p, pIsExact = float64(cmp.Pn)/float64(cmp.Pd), true
			} else if cmp.Ora && !(cmp.Exact && len(cmp.Tv) < len(oldR)+len(newR) && len(oldR) != len(newR)) {
				// long runs: the method the model prescribes, evaluated here on the model's tie vector
				// and 2U (which must be those of the retained samples by pair counting)
				if tv, u2 := lgTieVector(oldR, newR); u2 != cmp.U2 || !lgSameInts(tv, cmp.Tv) {
					lgBad("model and harness disagree on the tie vector / 2U of %v, %v: %v %d vs %v %d", oldR, newR, cmp.Tv, cmp.U2, tv, u2)
				}
				p = lgUTestOracle(cmp.Tv, len(oldR), len(newR), cmp.U2, cmp.Exact)
				how := "tie- and continuity-corrected normal approximation"
				if cmp.Exact {
					how = "exact distribution, counted"
				}
				if math.IsNaN(lp) || math.Abs(lp-p) > 1e-12+1e-9*math.Max(lp, p) {
					return false, lgF("utest-long-run-p", "%s: stats.MannWhitneyUTest on %d+%d retained values (2U=%d, %d distinct) = %v, the two-sided p (%s) is %v (old %v new %v)",
						where, len(oldR), len(newR), cmp.U2, len(cmp.Tv), lp, how, p, oldR, newR), ""
				}
			} else {
				p = lp // auxiliary: ties and unequal sizes (known finding of C11)
			}
		}
	case "t":
		var lp float64
		res, lerr := stats.TwoSampleWelchTTest(stats.Sample{Xs: append([]float64(nil), oldR...)}, stats.Sample{Xs: append([]float64(nil), newR...)}, stats.LocationDiffers)
		if res != nil {
			lp = res.P
		}
		want := map[string]error{"": nil, "few": stats.ErrSampleSize, "zv": stats.ErrZeroVariance}[cmp.Err]
		if lerr != want {
			return false, lgF("ttest-error-class", "%s: model says error %q, stats.TwoSampleWelchTTest(%v, %v) = (%v, %v)", where, cmp.Err, oldR, newR, lp, lerr), ""
		}
		if cmp.Err == "" {
			p = lp // auxiliary (C12)
			// Welch's p by the textbook: t and the Welch-Satterthwaite degrees of freedom in exact
			// rationals on the retained samples, twice the upper tail of |t| by quadrature of the density
			if w := lgWelchOracle(oldR, newR); math.IsNaN(lp) || math.Abs(lp-w) > 1e-12+1e-9*math.Max(lp, w) {
				return false, lgF("ttest-p", "%s: stats.TwoSampleWelchTTest on %d+%d retained values = %v, Welch's two-sided p is %v (old %v new %v)",
					where, len(oldR), len(newR), lp, w, oldR, newR), ""
			}
		}
	}
	var shown bool
	switch cmp.Sig {
	case "yes":
		shown = true
	case "no":
		shown = false
	case "edge":
		// p equals alpha as rationals: not below alpha.  Judged only if the float p equals the
		// float alpha too (otherwise the verdict hinges on the last ulp of the test).
		if libP != alpha {
			return false, nil, "p on alpha"
		}
		shown = false
	case "lib":
		if math.IsNaN(p) || (p != alpha && math.Abs(p-alpha) <= 1e-9) {
			return false, nil, "library p-value on alpha"
		}
		shown = p < alpha
	default:
		lgBad("unknown gate class %q", cmp.Sig)
	}
	want := cmp.No
	if shown {
		want = cmp.Yes
	}
	shown = want.Delta != "tilde"
	// --- delta and direction
	obsShown := or.Delta != "~"
	if obsShown && !shown {
		return shown, lgF("delta-shown-without-significance", "%s: delta %q shown although p=%v alpha=%v error=%q (old %v new %v)", where, or.Delta, p, alpha, cmp.Err, oldR, newR), ""
	}
	if !obsShown && shown {
		return shown, lgF("delta-hidden-despite-significance", "%s: '~' shown although p=%v < alpha=%v (old %v new %v)", where, p, alpha, oldR, newR), ""
	}
	if !shown {
		if or.Change != 0 {
			return shown, lgF("direction", "%s: no delta shown but the row is flagged Change=%+d", where, or.Change), ""
		}
	} else if !cmp.Dfree {
		num, err := strconv.ParseFloat(strings.TrimSuffix(or.Delta, "%"), 64)
		if err != nil || !strings.HasSuffix(or.Delta, "%") {
			return shown, lgF("delta-text", "%s: delta %q is not a percentage", where, or.Delta), ""
		}
		pct := float64(cmp.Dn) / float64(cmp.Dd)
		if math.Abs(num-pct) > 0.005+1e-9*math.Abs(pct) {
			return shown, lgF("delta-value", "%s: delta %q, (new mean / old mean - 1)*100 = %d/%d = %v (old %v new %v)", where, or.Delta, cmp.Dn, cmp.Dd, pct, oldR, newR), ""
		}
		if !lgRatEq(or.PctDelta, cmp.Dn, cmp.Dd, 1, 1e-9) {
			return shown, lgF("delta-value", "%s: PctDelta %v, (new mean / old mean - 1)*100 = %d/%d", where, or.PctDelta, cmp.Dn, cmp.Dd), ""
		}
		if or.Change != want.Change {
			return shown, lgF("direction", "%s: delta %q flagged Change=%+d, the metric's better direction gives %+d", where, or.Delta, or.Change, want.Change), ""
		}
	}
	// --- note
	switch want.Note {
	case "none":
		if or.Note != "" {
			return shown, lgF("note-unexpected", "%s: note %q although no test was chosen", where, or.Note), ""
		}
	case "reason":
		w := map[string]string{"eq": benchstat.ErrSamplesEqual.Error(), "few": benchstat.ErrSampleSize.Error(), "zv": benchstat.ErrZeroVariance.Error()}[cmp.Err]
		if or.Note != "("+w+")" {
			return shown, lgF("note-reason", "%s: note %q, the reason is %q", where, or.Note, w), ""
		}
	case "pn":
		m := lgNoteRe.FindStringSubmatch(or.Note)
		if m == nil {
			return shown, lgF("note-p", "%s: note %q does not give p and the sample sizes", where, or.Note), ""
		}
		n1, _ := strconv.Atoi(m[2])
		n2, _ := strconv.Atoi(m[3])
		if n1 != cmp.N1 || n2 != cmp.N2 {
			return shown, lgF("note-sizes", "%s: note %q, retained sample sizes are %d+%d", where, or.Note, cmp.N1, cmp.N2), ""
		}
		np, _ := strconv.ParseFloat(m[1], 64)
		if math.Abs(np-p) > 0.0005+1e-8 {
			return shown, lgF("note-p", "%s: note %q, p of the test on the retained samples is %v (exact=%v)", where, or.Note, p, pIsExact), ""
		}
	default:
		lgBad("unknown note class %q", want.Note)
	}
	return shown, nil, ""
}

// ---------------------------------------------------------------- long runs: independent p-values

func lgSameInts(a, b []int) bool {
	if len(a) != len(b) {
		return false
	}
	for i := range a {
		if a[i] != b[i] {
			return false
		}
	}
	return true
}

// lgTieVector: tie vector of the pooled values and 2U of x1 by pair counting
// (a pair with x1 > x2 counts 2, a tied pair 1).
func lgTieVector(x1, x2 []float64) (t []int, u2 int) {
	for _, a := range x1 {
		for _, b := range x2 {
			if a > b {
				u2 += 2
			} else if a == b {
				u2++
			}
		}
	}
	all := append(append([]float64(nil), x1...), x2...)
	sort.Float64s(all)
	for i := 0; i < len(all); {
		j := i
		for j < len(all) && all[j] == all[i] {
			j++
		}
		t = append(t, j-i)
		i = j
	}
	return
}

// lgUTestOracle: the two-sided Mann-Whitney p-value for a pool with tie vector t (groups in
// increasing order of value), a first sample of n1 values whose 2U is u2.
//
//	exact   min(1, 2 min(P(U <= u), P(U >= u))) over all equally likely assignments of the pooled
//	        values to the two samples, counted by a dynamic programme over the tie groups
//	        (float64 counts: relative error ~1e-15)
//	else    the normal approximation with mean n1 n2 / 2, variance n1 n2 / 12 ((N + 1) -
//	        sum (t^3 - t) / (N (N - 1))) and continuity correction 1/2 towards the mean
func lgUTestOracle(t []int, n1, n2, u2 int, exact bool) float64 {
	N := n1 + n2
	if !exact {
		ts := 0.0
		for _, x := range t {
			f := float64(x)
			ts += f*f*f - f
		}
		fn := float64(N)
		sigma := math.Sqrt(float64(n1) * float64(n2) / 12 * ((fn + 1) - ts/(fn*(fn-1))))
		d := float64(u2)/2 - float64(n1)*float64(n2)/2
		if d > 0 {
			d -= 0.5
		} else if d < 0 {
			d += 0.5
		}
		return math.Min(1, math.Erfc(math.Abs(d)/sigma/math.Sqrt2))
	}
	choose := func(n, k int) float64 {
		c := 1.0
		for i := 1; i <= k; i++ {
			c = c * float64(n-k+i) / float64(i)
		}
		return math.Round(c)
	}
	top := 2 * n1 * n2
	cur := make([][]float64, n1+1) // cur[a][u]: ways to put a of the values seen so far into sample 1 with 2U = u
	cur[0] = make([]float64, top+1)
	cur[0][0] = 1
	sofar := 0
	for _, tk := range t {
		next := make([][]float64, n1+1)
		for a := 0; a <= n1 && a <= sofar; a++ {
			if cur[a] == nil {
				continue
			}
			for r := 0; r <= tk && a+r <= n1; r++ {
				if (sofar+tk)-(a+r) > n2 {
					continue
				}
				w := choose(tk, r)
				add := r * (2*(sofar-a) + (tk - r))
				if next[a+r] == nil {
					next[a+r] = make([]float64, top+1)
				}
				dst := next[a+r]
				for u, cnt := range cur[a] {
					if cnt != 0 {
						dst[u+add] += cnt * w
					}
				}
			}
		}
		cur = next
		sofar += tk
	}
	var le, ge, tot float64
	for u, cnt := range cur[n1] {
		tot += cnt
		if u <= u2 {
			le += cnt
		}
		if u >= u2 {
			ge += cnt
		}
	}
	return math.Min(1, 2*math.Min(le, ge)/tot)
}

// lgWelchOracle: Welch's two-sided p-value of two samples with at least two values each and not
// both constant: t^2 and the Welch-Satterthwaite degrees of freedom in exact rationals, the
// tail by lgTUpper.
func lgWelchOracle(x, y []float64) float64 {
	mv := func(xs []float64) (mean, vr *big.Rat) {
		n := int64(len(xs))
		mean, vr = new(big.Rat), new(big.Rat)
		for _, v := range xs {
			mean.Add(mean, new(big.Rat).SetFloat64(v))
		}
		mean.Quo(mean, new(big.Rat).SetInt64(n))
		for _, v := range xs {
			d := new(big.Rat).Sub(new(big.Rat).SetFloat64(v), mean)
			vr.Add(vr, d.Mul(d, d))
		}
		vr.Quo(vr, new(big.Rat).SetInt64(n-1))
		return
	}
	m1, v1 := mv(x)
	m2, v2 := mv(y)
	n1, n2 := new(big.Rat).SetInt64(int64(len(x))), new(big.Rat).SetInt64(int64(len(y)))
	a1, a2 := new(big.Rat).Quo(v1, n1), new(big.Rat).Quo(v2, n2)
	se2 := new(big.Rat).Add(a1, a2)
	d := new(big.Rat).Sub(m1, m2)
	one := big.NewRat(1, 1)
	den := new(big.Rat).Add(
		new(big.Rat).Quo(new(big.Rat).Mul(a1, a1), new(big.Rat).Sub(n1, one)),
		new(big.Rat).Quo(new(big.Rat).Mul(a2, a2), new(big.Rat).Sub(n2, one)))
	t2, _ := new(big.Rat).Quo(new(big.Rat).Mul(d, d), se2).Float64()
	dof, _ := new(big.Rat).Quo(new(big.Rat).Mul(se2, se2), den).Float64()
	if t2 == 0 {
		return 1
	}
	return 2 * lgTUpper(math.Sqrt(t2), dof)
}

// lgTUpper: upper tail P(T > t), t > 0, of Student's t with v >= 1 degrees of freedom from the
// density alone (x = sqrt(v) cot(psi); tanh-sinh rule; agrees to 2e-13 with the finite series of
// Abramowitz & Stegun 26.7.3/4 for integer v).
func lgTUpper(t, v float64) float64 {
	if math.IsInf(t, 1) {
		return 0
	}
	a := math.Atan2(math.Sqrt(v), t)
	lg1, _ := math.Lgamma((v + 1) / 2)
	lg2, _ := math.Lgamma(v / 2)
	lsa := math.Log(math.Sin(a))
	lo := 0.0
	if v > 1 {
		lo = math.Asin(math.Sin(a) * math.Exp(-100/(v-1)))
	}
	f := func(psi float64) float64 {
		if v == 1 {
			return 1
		}
		if psi <= 0 {
			return 0
		}
		return math.Exp((v - 1) * (math.Log(math.Sin(psi)) - lsa))
	}
	half := (a - lo) / 2
	const h = 1.0 / 64
	sum := 0.0
	for k := -400; k <= 400; k++ {
		u := math.Pi / 2 * math.Sinh(float64(k)*h)
		w := math.Pi / 2 * math.Cosh(float64(k)*h) / (math.Cosh(u) * math.Cosh(u))
		var x float64
		if u > 0 {
			x = a - half*(2/(1+math.Exp(2*u)))
		} else {
			x = lo + half*(2/(1+math.Exp(-2*u)))
		}
		sum += w * f(x)
	}
	return math.Exp(lg1-lg2+(v-1)*lsa) / math.Sqrt(math.Pi) * sum * h * half
}

func lgCompareGeo(c *lgCase, k *lgConc, unit string, et *lgTable, geo *benchstat.Row) *lgFail {
	nc := len(c.Cfgs)
	if !c.Set.Geo {
		if geo != nil {
			return lgF("geomean-unrequested", "table %s has a geomean row although AddGeoMean is false", unit)
		}
		return nil
	}
	maxCount := 0
	for ci := 0; ci < nc; ci++ {
		if len(et.Geo[ci]) > maxCount {
			maxCount = len(et.Geo[ci])
		}
	}
	if geo == nil {
		if maxCount >= 2 {
			return lgF("geomean-missing", "table %s has no geomean row (up to %d non-zero means per configuration)", unit, maxCount)
		}
		return nil // a geomean of one mean is that mean: the row is free
	}
	if len(geo.Metrics) != nc {
		return lgF("geomean-cells", "table %s: geomean row has %d cells for %d configurations", unit, len(geo.Metrics), nc)
	}
	for ci := 0; ci < nc; ci++ {
		m := geo.Metrics[ci]
		if len(et.Geo[ci]) == 0 {
			if m.Unit != "" || (m.Mean != 0 && !math.IsNaN(m.Mean)) {
				sig := "geomean-value"
				for i := range et.Rows {
					if cell := &et.Rows[i].Cells[ci]; cell.Has && cell.Sum == 0 {
						sig = "geomean-includes-zero-means"
					}
				}
				return lgF(sig, "table %s config %d: geomean cell (unit %q, %v) although the configuration has no non-zero mean", unit, ci+1, m.Unit, m.Mean)
			}
			continue
		}
		// auxiliary numeric evaluation over the MODEL's membership and means
		s := 0.0
		for _, i := range et.Geo[ci] {
			cell := &et.Rows[i-1].Cells[ci]
			s += math.Log(float64(cell.Sum) / float64(cell.N) * k.scale)
		}
		want := math.Exp(s / float64(len(et.Geo[ci])))
		if !(math.Abs(m.Mean-want) <= 1e-9*want) {
			sig := "geomean-value"
			// name the class: zero means included make it 0 or undefined
			zero := false
			for i := range et.Rows {
				if cell := &et.Rows[i].Cells[ci]; cell.Has && cell.Sum == 0 {
					zero = true
				}
			}
			if zero && (m.Mean == 0 || math.IsNaN(m.Mean) || math.IsInf(m.Mean, 0)) {
				sig = "geomean-includes-zero-means"
			}
			return lgF(sig, "table %s config %d: geomean %v, geometric mean of the %d non-zero means is %v", unit, ci+1, m.Mean, len(et.Geo[ci]), want)
		}
	}
	return nil
}

// ---------------------------------------------------------------- FormatText / FormatCSV

var lgGap = regexp.MustCompile(`\s{2,}`)

// lgFormats checks that the two renderings carry the tables' rows in the same order
// with the same names, delta strings and notes (and, for CSV, the means).
func lgFormats(c *lgCase, k *lgConc, tables []*benchstat.Table) *lgFail {
	nc := len(c.Cfgs)
	var tb, cb bytes.Buffer
	benchstat.FormatText(&tb, tables)
	benchstat.FormatCSV(&cb, tables, false)
	if len(tables) == 0 {
		if tb.Len() != 0 || cb.Len() != 0 {
			return lgF("format-nonempty", "no tables but text %q csv %q", tb.String(), cb.String())
		}
		return nil
	}
	tl := strings.Split(strings.TrimSuffix(tb.String(), "\n"), "\n")
	cl := strings.Split(strings.TrimSuffix(cb.String(), "\n"), "\n")
	ti, ci := 0, 0
	nextT := func() (string, bool) {
		if ti >= len(tl) {
			return "", false
		}
		ti++
		return tl[ti-1], true
	}
	nextC := func() (string, bool) {
		if ci >= len(cl) {
			return "", false
		}
		ci++
		return cl[ci-1], true
	}
	for n, t := range tables {
		if n > 0 {
			if l, ok := nextT(); !ok || l != "" {
				return lgF("text-format", "text: tables not separated by an empty line (%q)", l)
			}
			if l, ok := nextC(); !ok || l != "" {
				return lgF("csv-format", "csv: tables not separated by an empty line (%q)", l)
			}
		}
		if l, ok := nextT(); !ok || !strings.HasPrefix(l, "name") {
			return lgF("text-format", "text: table %d has no heading (%q)", n, l)
		}
		if l, ok := nextC(); !ok || !strings.HasPrefix(l, "name") {
			return lgF("csv-format", "csv: table %d has no heading (%q)", n, l)
		}
		group := ""
		for _, r := range t.Rows {
			if r.Group != group {
				group = r.Group
				if l, ok := nextT(); !ok || l != group {
					return lgF("text-format", "text: group heading %q expected, line is %q", group, l)
				}
				l, ok := nextC()
				rec, err := csv.NewReader(strings.NewReader(l + "\n")).Read()
				if !ok || (group == "" && l != "") || (group != "" && (err != nil || len(rec) != 1 || rec[0] != group)) {
					return lgF("csv-format", "csv: group heading %q expected, line is %q", group, l)
				}
			}
			// ---- text
			l, ok := nextT()
			if !ok {
				return lgF("text-format", "text: row %q missing", r.Benchmark)
			}
			toks := lgGap.Split(strings.TrimSpace(l), -1)
			if toks[0] != r.Benchmark {
				return lgF("text-format", "text: row %q expected, line is %q", r.Benchmark, l)
			}
			if nc == 2 && r.Benchmark != lgGeoName {
				want := []string{r.Delta}
				if r.Note != "" {
					want = append(want, r.Note)
				}
				if len(toks) < 1+len(want) {
					return lgF("text-format", "text: row %q lacks delta/note: %q", r.Benchmark, l)
				}
				got := toks[len(toks)-len(want):]
				for i := range want {
					if got[i] != want[i] {
						return lgF("text-format", "text: row %q shows %q, the table has delta %q note %q", r.Benchmark, l, r.Delta, r.Note)
					}
				}
			}
			// the mean cells of the text say the means (to the three digits printed), whatever unit
			// prefix the row's scaler chose: time in seconds from ns, throughput in B/s from MB/s
			allThere := true
			for _, m := range r.Metrics {
				if m.Unit == "" {
					allThere = false
				}
			}
			if allThere && len(toks) >= 1+len(r.Metrics) {
				for i, m := range r.Metrics {
					cell, _, _ := strings.Cut(toks[1+i], " ±")
					got, ok := lgTextValue(strings.TrimSpace(cell), m.Unit)
					want := m.Mean
					if lgHasBase(m.Unit, "ns/op") || lgHasBase(m.Unit, "ns/GC") {
						want = m.Mean * 1e-9
					} else if lgHasBase(m.Unit, "MB/s") {
						want = m.Mean * 1e6
					}
					if !ok {
						continue // another layout of the cell: not judged (the format of the text is free)
					}
					if math.Abs(got-want) > 0.0051*math.Max(math.Abs(want), math.Abs(got))+lgTextQuantum(cell) {
						return lgF("text-mean", "text: row %q config %d: the mean cell %q reads as %v, the table's mean is %v %s (= %v in the cell's base unit)", r.Benchmark, i+1, toks[1+i], got, m.Mean, m.Unit, want)
					}
				}
			}
			// ---- csv
			l, ok = nextC()
			if !ok {
				return lgF("csv-format", "csv: row %q missing", r.Benchmark)
			}
			rec, err := csv.NewReader(strings.NewReader(l + "\n")).Read()
			if err != nil || len(rec) == 0 || rec[0] != r.Benchmark {
				return lgF("csv-format", "csv: row %q expected, line is %q", r.Benchmark, l)
			}
			full := 1 + 2*nc
			if nc == 2 {
				full += 2
			}
			if len(rec) > full {
				return lgF("csv-format", "csv: row %q has %d fields, at most %d expected", r.Benchmark, len(rec), full)
			}
			for len(rec) < full {
				rec = append(rec, "")
			}
			for i, m := range r.Metrics {
				f := rec[1+2*i]
				if m.Unit == "" {
					if f != "" {
						return lgF("csv-format", "csv: row %q config %d: %q for an empty cell", r.Benchmark, i+1, f)
					}
					continue
				}
				x, err := strconv.ParseFloat(f, 64)
				if err != nil || math.Abs(x-m.Mean) > 1e-5*math.Abs(m.Mean) {
					return lgF("csv-format", "csv: row %q config %d: mean %q, the table has %v", r.Benchmark, i+1, f, m.Mean)
				}
			}
			if nc == 2 && (rec[full-2] != r.Delta || rec[full-1] != r.Note) {
				return lgF("csv-format", "csv: row %q shows delta %q note %q, the table has %q %q", r.Benchmark, rec[full-2], rec[full-1], r.Delta, r.Note)
			}
		}
	}
	if ti != len(tl) {
		return lgF("text-format", "text: %d surplus lines, first %q", len(tl)-ti, tl[ti])
	}
	if ci != len(cl) {
		return lgF("csv-format", "csv: %d surplus lines, first %q", len(cl)-ci, cl[ci])
	}
	return nil
}

func lgHasBase(u, base string) bool { return u == base || strings.HasSuffix(u, "-"+base) }

var lgCellRe = regexp.MustCompile(`^(-?[0-9]+(?:\.[0-9]+)?)(ns|µs|ms|s|[kMGT]?)(B/s|B)?$`)

// lgTextValue reads a mean cell of the text rendering: a number, an optional prefix (time units
// for time metrics, SI otherwise) and the unit letters the scaler appends.
func lgTextValue(cell, unit string) (float64, bool) {
	m := lgCellRe.FindStringSubmatch(cell)
	if m == nil {
		return 0, false
	}
	x, err := strconv.ParseFloat(m[1], 64)
	if err != nil {
		return 0, false
	}
	switch m[2] {
	case "ns":
		x *= 1e-9
	case "µs":
		x *= 1e-6
	case "ms":
		x *= 1e-3
	case "k":
		x *= 1e3
	case "M":
		x *= 1e6
	case "G":
		x *= 1e9
	case "T":
		x *= 1e12
	}
	return x, true
}

// lgTextQuantum is half a unit of the last digit printed, in the cell's base unit.
func lgTextQuantum(cell string) float64 {
	m := lgCellRe.FindStringSubmatch(strings.TrimSpace(cell))
	if m == nil {
		return 0
	}
	q := 0.5
	if i := strings.IndexByte(m[1], '.'); i >= 0 {
		q = 0.5 * math.Pow(10, -float64(len(m[1])-i-1))
	}
	one, _ := lgTextValue("1"+m[2]+m[3], "")
	return q * one * 1.0001
}
