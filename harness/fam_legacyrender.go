package main

// Family "legacyrender" (extension X04): the three renderers of the legacy library
// golang.org/x/perf/benchstat - FormatText, FormatCSV (with / without norange),
// FormatHTML - as functions from []*Table to output.
//
//	replay <cases> <verdicts>   every TLC-generated value (spec/LegacyRender_gen.tla) is built as
//	                            []*benchstat.Table, rendered four ways, each output is abstracted
//	                            (lines of positioned tokens / CSV fields / HTML rows) and compared
//	                            with what the specification says must be shown
//	record <out> <n>            seeded random values beyond TLC's bounds (up to 4 configurations,
//	                            3 tables, 9 rows, special units with the real NewScaler); one event
//	                            per call with the abstracted output, validated by
//	                            spec/LegacyRender_trace.tla
//
// The harness owns the concretisation (which text stands for a token) and the abstraction of
// output back into tokens; what must be shown comes from the specification.

import (
	"bufio"
	"bytes"
	"encoding/csv"
	"encoding/json"
	"fmt"
	"html"
	"math"
	"math/rand"
	"os"
	"regexp"
	"sort"
	"strconv"
	"strings"
	"sync"
	"sync/atomic"
	"unicode/utf8"

	"golang.org/x/perf/benchstat"
)

func init() { register("legacyrender", lrMain) }

// ---------------------------------------------------------------- abstract values

type lrTok struct {
	T string `json:"t"`
	W int    `json:"w"`
}

type lrCell struct {
	V  string `json:"v"`
	TV string `json:"tv"`
	D  string `json:"d"`
	W  int    `json:"w"`
}

type lrRow struct {
	N  lrTok    `json:"n"`
	G  lrTok    `json:"g"`
	C  []lrCell `json:"c"`
	DL lrTok    `json:"dl"`
	NT lrTok    `json:"nt"`
	Ch int      `json:"ch"`
}

type lrTab struct {
	M    lrTok   `json:"m"`
	U    string  `json:"u"`
	Rows []lrRow `json:"rows"`
}

type lrInput struct {
	Cfg  []lrTok `json:"cfg"`
	Tabs []lrTab `json:"tabs"`
}

func (t *lrTok) UnmarshalJSON(b []byte) error {
	if len(b) > 0 && b[0] == '[' {
		var a []interface{}
		if err := json.Unmarshal(b, &a); err != nil || len(a) != 2 {
			return fmt.Errorf("bad token %s", b)
		}
		t.T, _ = a[0].(string)
		f, _ := a[1].(float64)
		t.W = int(f)
		return nil
	}
	type plain lrTok
	return json.Unmarshal(b, (*plain)(t))
}

func (c *lrCell) UnmarshalJSON(b []byte) error {
	if len(b) > 0 && b[0] == '[' {
		var a []interface{}
		if err := json.Unmarshal(b, &a); err != nil || len(a) != 4 {
			return fmt.Errorf("bad cell %s", b)
		}
		c.V, _ = a[0].(string)
		c.TV, _ = a[1].(string)
		c.D, _ = a[2].(string)
		f, _ := a[3].(float64)
		c.W = int(f)
		return nil
	}
	type plain lrCell
	return json.Unmarshal(b, (*plain)(c))
}

// ---------------------------------------------------------------- concretisation

// lrConc maps tokens to text and back.
type lrConc struct {
	str       map[string]string // token -> text (names, groups, notes, deltas, configurations)
	metric    map[string]string // metric token -> text
	unit      map[string]string // unit token -> text
	val       map[string]float64
	mean      map[string]string // tv token -> formatted mean
	rev       map[string]string
	revMetric map[string]string
	revUnit   map[string]string
	revMean   map[string]string
	revVal    map[float64]string
	used      map[string]bool
}

func lrNewConc() *lrConc {
	return &lrConc{str: map[string]string{}, metric: map[string]string{}, unit: map[string]string{}, val: map[string]float64{},
		mean: map[string]string{}, rev: map[string]string{}, revMetric: map[string]string{}, revUnit: map[string]string{},
		revMean: map[string]string{}, revVal: map[float64]string{}, used: map[string]bool{"name": true, "delta": true, "±": true, "": true}}
}

func lrRunes(s string) int { return utf8.RuneCountInString(s) }

// pools of text by width (characters); awkward members need CSV quoting / HTML escaping
var lrPools = map[string][]string{
	"n1": {"A", "x", "é", "<", "&", "\"", "'", ",", ">"},
	"n2": {"Decode7", "B<&\"',x", "Μέγεθος", "x=\"y\"&z", "a/b-8µs", "</td><b", "&#60;ab"},
	"n3": {"Join", "<td>", "&lt;", "a,b;", "\"\"\"\"", "µ&±'"},
	"g1": {"g:1", "<g>", "a b", "k:&", "\"g\""},
	"g2": {"pkg:a/b c", "k:\"v\" & w", "goos:<új>", "a,b c,d:1", "&amp;&lt;"},
	"m1": {"time/op", "a<b&c/d", "x\"y'z/µ", "a,b/c.d", "</th>/o"},
	"m2": {"x<y", "B/s", "a&b", "\"m\"", "a,b"},
	"u1": {"ns/xop", "x<y&z", "a\"b", "B,op", "µ/'op'"},
	"u2": {"widgets", "<u>", "&amp;", "a,\"b\"", "u/op"},
	"k1": {"a.txt", "<a&b>", "d/old", "\"a\",1", "o'l.d"},
	"k2": {"dir/b.txt", "b \"q\".txt", "d/new,2.x", "<new>&amp", "nouveau.é"},
	"k3": {"c.x", "d/c", "<c>", "&c;", "c,3"},
	"k4": {"dddd", "d/dd", "<d/>", "\"dd\"", "d, 4"},
	"d~": {"~"},
	"d-": {"-33.33%", "-12.50%", "-99.99%"},
	"d+": {"+5.00%", "+9.99%", "+0.01%"},
	"d0": {"0.00%"},
	"tp": {"(p=0.008 n=5+5)", "(zero variance)", "(p=0.032 n=4+5)", "(p<0.001 n=9+9)"},
	"tq": {"(a<b & \"c\")", "(all equal)", "(p=1 <&\"'>)", "(x,y \"z\" &)"},
}

var lrWidths = map[string]int{"n1": 1, "n2": 7, "n3": 4, "g1": 3, "g2": 9, "m1": 7, "m2": 3, "k1": 5, "k2": 9, "k3": 3, "k4": 4,
	"d~": 1, "d-": 7, "d+": 6, "d0": 5, "tp": 15, "tq": 11}

// model values: a and b under the scaler of a ("%.2f"), z = 0
var lrValPool = map[string][]float64{"a": {1.5, 2.25, 9.75, 0.125}, "b": {1234.5, 5000.25, 9999, 1024}, "z": {0}}

func (k *lrConc) bind(id, s string) {
	k.str[id] = s
	k.rev[s] = id
	k.used[s] = true
}

// pick chooses a text for token id from its pool; awkward (r.Intn) or plain (first) by chance
func (k *lrConc) pick(r *rand.Rand, id string) (string, error) {
	if s, ok := k.str[id]; ok {
		return s, nil
	}
	pool := lrPools[id]
	if len(pool) == 0 {
		return "", fmt.Errorf("no pool for token %q", id)
	}
	start := r.Intn(len(pool))
	if r.Intn(4) == 0 {
		start = 0
	}
	for i := 0; i < len(pool); i++ {
		s := pool[(start+i)%len(pool)]
		if k.used[s] {
			continue
		}
		if w, ok := lrWidths[id]; ok && lrRunes(s) != w {
			return "", fmt.Errorf("pool text %q of token %q is not %d wide", s, id, w)
		}
		k.bind(id, s)
		return s, nil
	}
	return "", fmt.Errorf("pool of %q exhausted", id)
}

// ---------------------------------------------------------------- building the Go value

type lrBuilt struct {
	tables []*benchstat.Table
	snap   string
}

func lrChange(ch int) int { return ch }

// lrBuild makes the []*Table for an abstract input whose tokens are all bound in k.
// scalers[b][i] is the Row.Scaler of row i of table b.
func lrBuild(in *lrInput, k *lrConc, mk func(b, i int, r *lrRow, c *lrCell, unit string) *benchstat.Metrics,
	scaler func(b, i int) benchstat.Scaler) []*benchstat.Table {
	var cfgs []string
	for _, c := range in.Cfg {
		cfgs = append(cfgs, k.str[c.T])
	}
	// Table.Groups: the collection's groups; rows carry a group only if there is more than one
	var groups []string
	seen := map[string]bool{}
	nonEmpty := false
	for _, t := range in.Tabs {
		for _, r := range t.Rows {
			g := k.str[r.G.T]
			if r.G.T == "" {
				g = ""
			}
			if !seen[g] {
				seen[g] = true
				groups = append(groups, g)
			}
			if g != "" {
				nonEmpty = true
			}
		}
	}
	if nonEmpty && len(groups) < 2 {
		groups = append(groups, "unused:group")
	}
	var out []*benchstat.Table
	for b, t := range in.Tabs {
		bt := &benchstat.Table{Metric: k.metric[t.M.T], OldNewDelta: len(cfgs) == 2,
			Configs: append([]string(nil), cfgs...), Groups: append([]string(nil), groups...)}
		for i := range t.Rows {
			r := &t.Rows[i]
			br := &benchstat.Row{Benchmark: k.str[r.N.T], Scaler: scaler(b, i), Change: r.Ch}
			if r.G.T != "" {
				br.Group = k.str[r.G.T]
			}
			for j := range r.C {
				c := &r.C[j]
				if c.V == "" {
					br.Metrics = append(br.Metrics, new(benchstat.Metrics))
					continue
				}
				br.Metrics = append(br.Metrics, mk(b, i, r, c, k.unit[t.U]))
			}
			if r.DL.T != "" {
				br.Delta = k.str[r.DL.T]
			}
			if r.NT.T != "" {
				br.Note = k.str[r.NT.T]
			}
			bt.Rows = append(bt.Rows, br)
		}
		out = append(out, bt)
	}
	return out
}

// lrMetrics realises a cell: mean and a min/max pair whose documented variation
// max(1-min/mean, max/mean-1) is d percent (d = "": mean or max is zero).
func lrMetrics(r *rand.Rand, unit string, mean float64, d string) (*benchstat.Metrics, error) {
	m := &benchstat.Metrics{Unit: unit, Mean: mean}
	if d == "" {
		return m, nil // Min = Max = 0
	}
	n, err := strconv.Atoi(d)
	if err != nil || mean <= 0 {
		return nil, fmt.Errorf("bad variation %q for mean %v", d, mean)
	}
	p := float64(n) / 100
	if n <= 90 && r.Intn(2) == 0 {
		m.Min, m.Max = mean*(1-p), mean*(1+p/2)
	} else {
		m.Min, m.Max = mean*(1-math.Min(p/2, 0.9)), mean*(1+p)
	}
	v := math.Max(1-m.Min/m.Mean, m.Max/m.Mean-1) * 100
	if math.Abs(v-float64(n)) > 0.01 {
		return nil, fmt.Errorf("variation of %v/%v/%v is %v, wanted %d", m.Min, m.Mean, m.Max, v, n)
	}
	return m, nil
}

func lrSnapshot(ts []*benchstat.Table) string {
	var b strings.Builder
	for _, t := range ts {
		fmt.Fprintf(&b, "T %q %v %q %q\n", t.Metric, t.OldNewDelta, t.Configs, t.Groups)
		for _, r := range t.Rows {
			fmt.Fprintf(&b, " R %q %q %v %v %q %q %d\n", r.Benchmark, r.Group, r.Scaler != nil, r.PctDelta, r.Delta, r.Note, r.Change)
			for _, m := range r.Metrics {
				fmt.Fprintf(&b, "  M %q %v %v %v %v %v\n", m.Unit, m.Values, m.RValues, m.Min, m.Mean, m.Max)
			}
		}
	}
	return b.String()
}

// ---------------------------------------------------------------- running the renderers

type lrOutputs struct {
	text, csv, csvnr, html string
}

const lrPrefix = "#already in the buffer\n"

// lrRender calls the four renderers on a buffer that already has content ("appends ... to w").
func lrRender(ts []*benchstat.Table) (*lrOutputs, *lrFail) {
	o := &lrOutputs{}
	snap := lrSnapshot(ts)
	run := func(name string, f func(b *bytes.Buffer)) (string, *lrFail) {
		var b bytes.Buffer
		b.WriteString(lrPrefix)
		f(&b)
		s := b.String()
		if !strings.HasPrefix(s, lrPrefix) {
			return "", lrF("append", "%s does not append to its writer: %q", name, s)
		}
		if after := lrSnapshot(ts); after != snap {
			return "", lrF("impure", "%s changed the tables it was given:\n%s\nbefore:\n%s", name, after, snap)
		}
		return s[len(lrPrefix):], nil
	}
	var f *lrFail
	if o.text, f = run("FormatText", func(b *bytes.Buffer) { benchstat.FormatText(b, ts) }); f != nil {
		return nil, f
	}
	if o.csv, f = run("FormatCSV", func(b *bytes.Buffer) { benchstat.FormatCSV(b, ts, false) }); f != nil {
		return nil, f
	}
	if o.csvnr, f = run("FormatCSV(norange)", func(b *bytes.Buffer) { benchstat.FormatCSV(b, ts, true) }); f != nil {
		return nil, f
	}
	if o.html, f = run("FormatHTML", func(b *bytes.Buffer) { benchstat.FormatHTML(b, ts) }); f != nil {
		return nil, f
	}
	if h := benchstat.SafeFormatHTML(ts).String(); h != o.html {
		return nil, lrF("html-safe-differs", "SafeFormatHTML and FormatHTML differ: %q vs %q", h, o.html)
	}
	return o, nil
}

type lrFail struct {
	sig, detail string
}

func lrF(sig, format string, a ...interface{}) *lrFail {
	return &lrFail{sig, fmt.Sprintf(format, a...)}
}

// ---------------------------------------------------------------- abstraction of output

type lrTT struct {
	S int    `json:"s"`
	E int    `json:"e"`
	T string `json:"t"`
}

// lrSplitText cuts a line into its maximal pieces without two adjacent blanks, with
// character (rune) positions.
func lrSplitText(line string) [][3]interface{} {
	rs := []rune(line)
	var out [][3]interface{}
	i := 0
	for i < len(rs) {
		if rs[i] == ' ' {
			i++
			continue
		}
		j := i
		for j < len(rs) {
			if rs[j] == ' ' && (j+1 >= len(rs) || rs[j+1] == ' ') {
				break
			}
			j++
		}
		out = append(out, [3]interface{}{i, j, string(rs[i:j])})
		i = j
	}
	return out
}

var (
	lrCellRe    = regexp.MustCompile(`^(\S+) ±\s*(\d+)%$`)
	lrCsvHeadRe = regexp.MustCompile(`^(old |new |name \\ )?(.*) \((.*)\)$`)
	lrCsvMeanRe = regexp.MustCompile(`^-?\d\.\d{5}E[+-]\d{2,3}$`)
	lrCsvDiffRe = regexp.MustCompile(`^(\d+)%$`)
	lrEntityRe  = regexp.MustCompile(`&(#[0-9]+|#[xX][0-9a-fA-F]+|[a-zA-Z][a-zA-Z0-9]*);`)
)

// absText abstracts one piece of text output (also an HTML cell) into a token.
func (k *lrConc) absText(s string) string {
	switch s {
	case "":
		return ""
	case "name", "delta":
		return s
	}
	for _, p := range [][2]string{{"old ", "old|"}, {"new ", "new|"}, {"name \\ ", "name\\|"}} {
		if strings.HasPrefix(s, p[0]) {
			if id, ok := k.revMetric[s[len(p[0]):]]; ok {
				return p[1] + id
			}
		}
	}
	if m := lrCellRe.FindStringSubmatch(s); m != nil {
		if id, ok := k.revMean[m[1]]; ok {
			return id + "|" + m[2]
		}
	}
	if id, ok := k.revMean[s]; ok {
		return id + "|"
	}
	if id, ok := k.rev[s]; ok {
		return id
	}
	if id, ok := k.revMetric[s]; ok {
		return id
	}
	return "?" + s
}

func (k *lrConc) absCsv(s string) string {
	switch s {
	case "":
		return ""
	case "±":
		return "pm"
	case "name", "delta":
		return s
	}
	if lrCsvMeanRe.MatchString(s) {
		if x, err := strconv.ParseFloat(s, 64); err == nil {
			if id, ok := k.revVal[x]; ok {
				return id
			}
		}
		return "?" + s
	}
	if m := lrCsvDiffRe.FindStringSubmatch(s); m != nil {
		if _, isText := k.rev[s]; !isText {
			return m[1]
		}
	}
	if m := lrCsvHeadRe.FindStringSubmatch(s); m != nil {
		if id, ok := k.revMetric[m[2]]; ok {
			u, uok := k.revUnit[m[3]]
			if m[3] == "" {
				u, uok = "", true
			}
			if uok {
				p := map[string]string{"": "", "old ": "old|", "new ": "new|", "name \\ ": "name\\|"}[m[1]]
				return p + id + "|" + u
			}
		}
	}
	if id, ok := k.rev[s]; ok {
		return id
	}
	return "?" + s
}

func lrParseText(k *lrConc, out string) ([][]lrTT, *lrFail) {
	if out == "" {
		return nil, nil
	}
	if !strings.HasSuffix(out, "\n") {
		return nil, lrF("text-lines", "text output does not end with a newline: %q", out)
	}
	var obs [][]lrTT
	for _, line := range strings.Split(strings.TrimSuffix(out, "\n"), "\n") {
		l := []lrTT{}
		for _, p := range lrSplitText(line) {
			l = append(l, lrTT{p[0].(int), p[1].(int), k.absText(p[2].(string))})
		}
		obs = append(obs, l)
	}
	return obs, nil
}

func lrParseCSV(k *lrConc, out string) ([][]string, *lrFail) {
	if out == "" {
		return nil, nil
	}
	if !strings.HasSuffix(out, "\n") {
		return nil, lrF("csv-lines", "CSV output does not end with a newline: %q", out)
	}
	var obs [][]string
	for _, line := range strings.Split(strings.TrimSuffix(out, "\n"), "\n") {
		l := []string{}
		if line != "" {
			rd := csv.NewReader(strings.NewReader(line + "\n"))
			rd.FieldsPerRecord = -1
			rec, err := rd.Read()
			if err != nil {
				return nil, lrF("csv-quoting", "CSV line %q does not parse: %v", line, err)
			}
			for _, f := range rec {
				l = append(l, k.absCsv(f))
			}
		}
		obs = append(obs, l)
	}
	return obs, nil
}

type lrHCell struct {
	T    string `json:"t"`
	Cls  string `json:"cls"`
	Span int    `json:"span"`
}

type lrHLine struct {
	K     string    `json:"k"`
	Cls   string    `json:"cls"`
	Cells []lrHCell `json:"cells"`
}

type lrHTML struct {
	Cls    string      `json:"cls"`
	Cfg    []string    `json:"cfg"`
	Bodies [][]lrHLine `json:"bodies"`
}

type lrRawCell struct {
	tag, cls, text string
	span           int
}

type lrRawRow struct {
	cls   string
	cells []lrRawCell
}

// lrParseHTML is a strict reader of the element structure the template may produce:
// table / tbody / tr / th / td with class and colspan attributes, text with entities.
func lrParseHTML(k *lrConc, out string) (*lrHTML, *lrFail) {
	res := &lrHTML{Cfg: []string{}, Bodies: [][]lrHLine{}}
	if strings.Trim(out, " \n\t") == "" {
		return res, nil
	}
	var rows []lrRawRow       // rows of the current section
	var sections [][]lrRawRow // [0] = before the first tbody
	inTable, closed, inBody := false, false, false
	var cur *lrRawRow
	var cell *lrRawCell
	flushCell := func() {
		if cell != nil && cur != nil {
			cur.cells = append(cur.cells, *cell)
		}
		cell = nil
	}
	flushRow := func() {
		flushCell()
		if cur != nil {
			rows = append(rows, *cur)
		}
		cur = nil
	}
	i := 0
	for i < len(out) {
		if out[i] != '<' {
			j := strings.IndexByte(out[i:], '<')
			if j < 0 {
				j = len(out) - i
			}
			raw := out[i : i+j]
			i += j
			if strings.ContainsRune(raw, '>') {
				return nil, lrF("html-escape", "raw '>' in HTML text %q", raw)
			}
			if rest := lrEntityRe.ReplaceAllString(raw, ""); strings.ContainsRune(rest, '&') {
				return nil, lrF("html-escape", "raw '&' in HTML text %q", raw)
			}
			txt := strings.Trim(html.UnescapeString(raw), " \n\t\r")
			if txt == "" {
				continue
			}
			if cell == nil {
				return nil, lrF("html-structure", "text %q outside a cell", txt)
			}
			cell.text += txt
			continue
		}
		j := strings.IndexByte(out[i:], '>')
		if j < 0 {
			return nil, lrF("html-escape", "unterminated tag at %q", out[i:])
		}
		tag := out[i+1 : i+j]
		i += j + 1
		name := tag
		attrs := ""
		if sp := strings.IndexAny(tag, " \n\t"); sp >= 0 {
			name, attrs = tag[:sp], tag[sp+1:]
		}
		am, ferr := lrAttrs(attrs)
		if ferr != nil {
			return nil, ferr
		}
		switch name {
		case "table":
			if inTable {
				return nil, lrF("html-structure", "nested table")
			}
			inTable = true
			res.Cls = strings.TrimSpace(strings.TrimPrefix(strings.TrimSpace(am["class"]), "benchstat"))
			if !strings.HasPrefix(strings.TrimSpace(am["class"]), "benchstat") {
				return nil, lrF("html-class", "table class %q", am["class"])
			}
		case "/table":
			flushRow()
			if len(sections) == 0 {
				sections = append(sections, rows)
			} else if len(rows) > 0 {
				return nil, lrF("html-structure", "rows after the last table body")
			}
			rows = nil
			closed = true
		case "tbody":
			flushRow()
			if inBody {
				return nil, lrF("html-structure", "nested tbody")
			}
			if len(sections) == 0 {
				sections = append(sections, rows)
			} else if len(rows) > 0 {
				return nil, lrF("html-structure", "rows between table bodies")
			}
			rows = nil
			inBody = true
		case "/tbody":
			flushRow()
			if !inBody {
				return nil, lrF("html-structure", "</tbody> without <tbody>")
			}
			sections = append(sections, rows)
			rows = nil
			inBody = false
		case "tr":
			flushRow()
			cur = &lrRawRow{cls: am["class"]}
		case "th", "td":
			flushCell()
			if cur == nil {
				return nil, lrF("html-structure", "<%s> outside a row", name)
			}
			span := 1
			if s, ok := am["colspan"]; ok {
				n, err := strconv.Atoi(s)
				if err != nil || n < 1 {
					return nil, lrF("html-colspan", "colspan %q", s)
				}
				span = n
			}
			cell = &lrRawCell{tag: name, cls: am["class"], span: span}
		default:
			return nil, lrF("html-escape", "unexpected element <%s> in the output", tag)
		}
	}
	if !inTable || !closed {
		return nil, lrF("html-structure", "no complete <table> in %q", out)
	}
	// sections[0]: before the first tbody (configuration header); sections[1..]: bodies
	for si, sec := range sections {
		if si == 0 {
			for _, r := range sec {
				if r.cls != "configs" || len(r.cells) < 1 || r.cells[0].text != "" {
					return nil, lrF("html-structure", "row of class %q before the first table body", r.cls)
				}
				for _, c := range r.cells[1:] {
					if c.tag != "th" || c.span != 1 {
						return nil, lrF("html-structure", "configuration header cell %+v", c)
					}
					res.Cfg = append(res.Cfg, k.absText(c.text))
				}
			}
			continue
		}
		body := []lrHLine{}
		for _, r := range sec {
			l := lrHLine{Cls: r.cls, Cells: []lrHCell{}}
			allTh, allTd := true, true
			for _, c := range r.cells {
				if c.tag == "th" {
					allTd = false
				} else {
					allTh = false
				}
			}
			switch {
			case len(r.cells) == 0:
				return nil, lrF("html-structure", "empty row")
			case r.cls == "group" && allTh:
				l.K = "group"
			case allTh:
				l.K = "head"
			case allTd && len(r.cells) == 1 && r.cells[0].text == "\u00a0":
				l.K = "spacer"
			case allTd:
				l.K = "row"
			default:
				return nil, lrF("html-structure", "row mixes th and td: %+v", r)
			}
			if l.K != "spacer" {
				for _, c := range r.cells {
					t := strings.ReplaceAll(c.text, "\u2212", "-")
					l.Cells = append(l.Cells, lrHCell{k.absText(t), c.cls, c.span})
				}
			}
			body = append(body, l)
		}
		res.Bodies = append(res.Bodies, body)
	}
	return res, nil
}

var lrAttrRe = regexp.MustCompile(`^\s*([a-z]+)=(?:'([^']*)'|"([^"]*)")`)

func lrAttrs(s string) (map[string]string, *lrFail) {
	m := map[string]string{}
	for strings.TrimSpace(s) != "" {
		a := lrAttrRe.FindStringSubmatch(s)
		if a == nil {
			return nil, lrF("html-escape", "malformed attributes %q", s)
		}
		m[a[1]] = html.UnescapeString(a[2] + a[3])
		s = s[len(a[0]):]
	}
	return m, nil
}

// ---------------------------------------------------------------- what the specification expects (replay cases)

type lrXCol struct {
	T   string
	W   int
	Al  string
	Pad int
}

type lrXLine struct {
	K    string
	Opt  bool
	Blk  int
	Cols []lrXCol
}

type lrCLine struct {
	K    string
	Opt  bool
	Alts [][]string
}

type lrHXCell struct {
	T, Cls string
	Lo, Hi int
}

type lrHXLine struct {
	K         string
	Opt       bool
	Like, Cls string
	Cells     []lrHXCell
}

type lrHXp struct {
	Cls    string
	Cfg    []string
	CfgOpt bool
	Bodies [][]lrHXLine
}

type lrCase struct {
	ID    int             `json:"id"`
	Cfg   []lrTok         `json:"cfg"`
	Tabs  []lrTab         `json:"tabs"`
	Text  json.RawMessage `json:"text"`
	GW    []int           `json:"gw"`
	Csv   json.RawMessage `json:"csv"`
	CsvNR json.RawMessage `json:"csvnr"`
	HTML  struct {
		Cls    string          `json:"cls"`
		Cfg    []string        `json:"cfg"`
		CfgOpt int             `json:"cfgopt"`
		Bodies json.RawMessage `json:"bodies"`
	} `json:"html"`
}

// rows of tables arrive with ch as a string (TLC's JSON has no negative numbers in tuples we rely on)
func (r *lrRow) UnmarshalJSON(b []byte) error {
	var x struct {
		N  lrTok           `json:"n"`
		G  lrTok           `json:"g"`
		C  []lrCell        `json:"c"`
		DL lrTok           `json:"dl"`
		NT lrTok           `json:"nt"`
		Ch json.RawMessage `json:"ch"`
	}
	if err := json.Unmarshal(b, &x); err != nil {
		return err
	}
	r.N, r.G, r.C, r.DL, r.NT = x.N, x.G, x.C, x.DL, x.NT
	s := strings.Trim(string(x.Ch), `"`)
	n, err := strconv.Atoi(s)
	if err != nil {
		return fmt.Errorf("bad change %s", x.Ch)
	}
	r.Ch = n
	return nil
}

func lrS(v interface{}) string { s, _ := v.(string); return s }
func lrI(v interface{}) int    { f, _ := v.(float64); return int(f) }
func lrA(v interface{}) []interface{} {
	a, _ := v.([]interface{})
	return a
}

func lrDecodeText(raw json.RawMessage) ([]lrXLine, error) {
	var a []interface{}
	if err := json.Unmarshal(raw, &a); err != nil {
		return nil, err
	}
	var out []lrXLine
	for _, li := range a {
		l := lrA(li)
		if len(l) != 4 {
			return nil, fmt.Errorf("bad text line %v", li)
		}
		x := lrXLine{K: lrS(l[0]), Opt: lrI(l[1]) == 1, Blk: lrI(l[2])}
		for _, ci := range lrA(l[3]) {
			c := lrA(ci)
			x.Cols = append(x.Cols, lrXCol{lrS(c[0]), lrI(c[1]), lrS(c[2]), lrI(c[3])})
		}
		out = append(out, x)
	}
	return out, nil
}

func lrDecodeCsv(raw json.RawMessage) ([]lrCLine, error) {
	var a []interface{}
	if err := json.Unmarshal(raw, &a); err != nil {
		return nil, err
	}
	var out []lrCLine
	for _, li := range a {
		l := lrA(li)
		if len(l) != 3 {
			return nil, fmt.Errorf("bad csv line %v", li)
		}
		x := lrCLine{K: lrS(l[0]), Opt: lrI(l[1]) == 1}
		for _, ai := range lrA(l[2]) {
			alt := []string{}
			for _, f := range lrA(ai) {
				alt = append(alt, lrS(f))
			}
			x.Alts = append(x.Alts, alt)
		}
		out = append(out, x)
	}
	return out, nil
}

func lrDecodeHTMLBodies(raw json.RawMessage) ([][]lrHXLine, error) {
	var a []interface{}
	if err := json.Unmarshal(raw, &a); err != nil {
		return nil, err
	}
	var out [][]lrHXLine
	for _, bi := range a {
		var body []lrHXLine
		for _, li := range lrA(bi) {
			l := lrA(li)
			if len(l) != 5 {
				return nil, fmt.Errorf("bad html line %v", li)
			}
			x := lrHXLine{K: lrS(l[0]), Opt: lrI(l[1]) == 1, Like: lrS(l[2]), Cls: lrS(l[3])}
			for _, ci := range lrA(l[4]) {
				c := lrA(ci)
				x.Cells = append(x.Cells, lrHXCell{lrS(c[0]), lrS(c[1]), lrI(c[2]), lrI(c[3])})
			}
			body = append(body, x)
		}
		out = append(out, body)
	}
	return out, nil
}

// lrResolve: optional expected lines are skipped when the output does not show them.
// Returns the indices of the expected lines shown.
func lrResolve(opt []bool, like []string, kinds []string) []int {
	var shown []int
	j := 0
	for i := range opt {
		if opt[i] && (j >= len(kinds) || kinds[j] != like[i]) {
			continue
		}
		shown = append(shown, i)
		if j < len(kinds) {
			j++
		}
	}
	return shown
}

func lrTrim(s []string) []string {
	for len(s) > 0 && s[len(s)-1] == "" {
		s = s[:len(s)-1]
	}
	return s
}

func lrEq(a, b []string) bool {
	if len(a) != len(b) {
		return false
	}
	for i := range a {
		if a[i] != b[i] {
			return false
		}
	}
	return true
}

// ---------------------------------------------------------------- matching (what Shows says in LegacyRender.tla)

func lrMatchText(obs [][]lrTT, exp []lrXLine, gw []int) *lrFail {
	kinds := make([]string, len(obs))
	for i, o := range obs {
		kinds[i] = "other"
		if len(o) == 0 {
			kinds[i] = "blank"
		}
	}
	opt := make([]bool, len(exp))
	like := make([]string, len(exp))
	for i, x := range exp {
		opt[i], like[i] = x.Opt, "other"
		if x.K == "sep" || x.K == "group" {
			like[i] = "blank"
		}
	}
	shown := lrResolve(opt, like, kinds)
	if len(shown) != len(obs) {
		return lrF("text-lines", "text has %d lines, the tables have %d lines to show (%d optional): %s", len(obs), len(shown), len(exp)-len(shown), jsonStr(obs))
	}
	type placed struct {
		blk, col, s, e, pad, line, pos int
		k, al                          string
	}
	var ps []placed
	for i, xi := range shown {
		x := exp[xi]
		var idx []int
		for j, c := range x.Cols {
			if c.T != "" {
				idx = append(idx, j)
			}
		}
		o := obs[i]
		bad := len(o) != len(idx)
		if !bad {
			for n := range o {
				if o[n].T != x.Cols[idx[n]].T {
					bad = true
				}
			}
		}
		if bad {
			var want []string
			for _, j := range idx {
				want = append(want, x.Cols[j].T)
			}
			return lrF("text-"+x.K, "text line %d (%s of table %d) shows %s, must show %q", i+1, x.K, x.Blk, jsonStr(o), want)
		}
		for n := range o {
			c := x.Cols[idx[n]]
			ps = append(ps, placed{x.Blk, idx[n] + 1, o[n].S, o[n].E, c.Pad, i, n, x.K, c.Al})
		}
	}
	limit := func(col int) int {
		s := 0
		for i := 1; i < col; i++ {
			s += gw[i-1] + 2
		}
		return s
	}
	for _, p := range ps {
		if (p.k == "group" || p.col == 1) && p.s != 0 {
			return lrF("text-geometry-margin", "text line %d: first cell starts at %d", p.line+1, p.s)
		}
		for _, q := range ps {
			if q.line == p.line && q.pos == p.pos+1 && q.s < p.e+p.pad+2 {
				return lrF("text-geometry-gap", "text line %d: cells %d and %d are less than two blanks apart (%d..%d+%d, %d)", p.line+1, p.pos+1, q.pos+1, p.s, p.e, p.pad, q.s)
			}
		}
		if p.k != "head" && p.k != "row" {
			continue
		}
		minS, maxE := p.s, p.e+p.pad
		for _, q := range ps {
			if (q.k == "head" || q.k == "row") && q.blk == p.blk && q.col == p.col {
				if q.s < minS {
					minS = q.s
				}
				if q.e+q.pad > maxE {
					maxE = q.e + q.pad
				}
			}
		}
		if p.al == "L" && p.s != minS {
			return lrF("text-geometry-left", "text line %d: left-aligned cell of column %d starts at %d, the column at %d", p.line+1, p.col, p.s, minS)
		}
		if p.al == "R" && p.e+p.pad != maxE {
			return lrF("text-geometry-right", "text line %d: right-aligned cell of column %d ends at %d(+%d), the column at %d", p.line+1, p.col, p.e, p.pad, maxE)
		}
		if p.col-1 < len(gw) {
			if p.al == "L" && p.s > limit(p.col) {
				return lrF("text-geometry-padding", "text line %d: column %d starts at %d, the widest cells before it need %d", p.line+1, p.col, p.s, limit(p.col))
			}
			if p.al != "L" && p.e+p.pad > limit(p.col)+gw[p.col-1] {
				return lrF("text-geometry-padding", "text line %d: column %d ends at %d, the widest cells need %d", p.line+1, p.col, p.e+p.pad, limit(p.col)+gw[p.col-1])
			}
		}
	}
	return nil
}

func lrStripUnit(s []string) []string {
	out := make([]string, len(s))
	for i, f := range s {
		out[i] = f
		if strings.Count(f, "|") >= 1 && f != "|" {
			if j := strings.LastIndex(f, "|"); j >= 0 && (strings.HasPrefix(f, "old|") || strings.HasPrefix(f, "new|") || strings.HasPrefix(f, "name\\|") || strings.HasPrefix(f, "m")) {
				out[i] = f[:j]
			}
		}
	}
	return out
}

func lrMatchCSV(obs [][]string, exp []lrCLine, what string) *lrFail {
	kinds := make([]string, len(obs))
	for i, o := range obs {
		kinds[i] = "other"
		if len(o) == 0 {
			kinds[i] = "blank"
		}
	}
	opt := make([]bool, len(exp))
	like := make([]string, len(exp))
	for i, x := range exp {
		opt[i], like[i] = x.Opt, "blank"
	}
	shown := lrResolve(opt, like, kinds)
	if len(shown) != len(obs) {
		return lrF(what+"-lines", "%s has %d lines, the tables have %d lines to show: %s", what, len(obs), len(shown), jsonStr(obs))
	}
	for i, xi := range shown {
		x := exp[xi]
		o := lrTrim(obs[i])
		ok := false
		for _, a := range x.Alts {
			if lrEq(o, a) {
				ok = true
			}
		}
		if ok {
			continue
		}
		sig := what + "-" + x.K
		if x.K == "head" {
			for _, a := range x.Alts {
				if lrEq(lrStripUnit(o), lrStripUnit(a)) {
					sig = what + "-heading-unit"
				}
			}
		}
		return lrF(sig, "%s line %d (%s) shows %q, must show one of %q", what, i+1, x.K, o, x.Alts)
	}
	return nil
}

func lrHKind(l *lrHLine) string {
	switch {
	case l.K == "spacer":
		return "spacer"
	case l.K == "group" && len(l.Cells) == 1 && l.Cells[0].T == "":
		return "blank"
	}
	return "other"
}

func lrMatchHTML(obs *lrHTML, exp *lrHXp, ntabs int) *lrFail {
	if ntabs == 0 {
		if len(obs.Bodies) != 0 || len(obs.Cfg) != 0 {
			return lrF("html-structure", "no tables, but HTML %s", jsonStr(obs))
		}
		return nil
	}
	if obs.Cls != exp.Cls {
		return lrF("html-class", "table class %q, must be %q", obs.Cls, exp.Cls)
	}
	if !(lrEq(obs.Cfg, exp.Cfg) || (exp.CfgOpt && len(obs.Cfg) == 0)) {
		return lrF("html-configs", "configuration header %q, must be %q", obs.Cfg, exp.Cfg)
	}
	if len(obs.Bodies) != len(exp.Bodies) {
		return lrF("html-structure", "%d table bodies for %d tables", len(obs.Bodies), len(exp.Bodies))
	}
	for b := range exp.Bodies {
		ob, xb := obs.Bodies[b], exp.Bodies[b]
		kinds := make([]string, len(ob))
		for i := range ob {
			kinds[i] = lrHKind(&ob[i])
		}
		opt := make([]bool, len(xb))
		like := make([]string, len(xb))
		for i, x := range xb {
			opt[i], like[i] = x.Opt, x.Like
		}
		shown := lrResolve(opt, like, kinds)
		if len(shown) != len(ob) {
			return lrF("html-lines", "body %d has %d rows, the table has %d lines to show: %s", b+1, len(ob), len(shown), jsonStr(ob))
		}
		for i, xi := range shown {
			o, x := ob[i], xb[xi]
			if o.K != x.K {
				return lrF("html-lines", "body %d row %d is a %s row, must be %s", b+1, i+1, o.K, x.K)
			}
			if o.Cls != x.Cls {
				return lrF("html-class", "body %d row %d (%s) has class %q, must be %q", b+1, i+1, x.K, o.Cls, x.Cls)
			}
			if x.K == "spacer" {
				continue
			}
			if len(o.Cells) != len(x.Cells) {
				return lrF("html-"+x.K, "body %d row %d (%s) has %d cells, must have %d: %s", b+1, i+1, x.K, len(o.Cells), len(x.Cells), jsonStr(o))
			}
			for j := range o.Cells {
				oc, xc := o.Cells[j], x.Cells[j]
				if oc.T != xc.T {
					return lrF("html-"+x.K, "body %d row %d (%s) cell %d shows %q, must show %q", b+1, i+1, x.K, j+1, oc.T, xc.T)
				}
				if oc.Cls != xc.Cls {
					return lrF("html-class", "body %d row %d (%s) cell %d has class %q, must be %q", b+1, i+1, x.K, j+1, oc.Cls, xc.Cls)
				}
				if oc.Span < xc.Lo || oc.Span > xc.Hi {
					return lrF("html-colspan", "body %d row %d (%s) cell %d spans %d columns, must span %d..%d", b+1, i+1, x.K, j+1, oc.Span, xc.Lo, xc.Hi)
				}
			}
		}
	}
	return nil
}

// ---------------------------------------------------------------- agreement of the renderers with each other
// (independent of the model: only the concretisation's token classes are used: names "n..", groups "g..")

type lrGRow struct {
	name  string
	cells []string // after the name
}

func lrIsName(t string) bool  { return strings.HasPrefix(t, "n") && !strings.HasPrefix(t, "name") }
func lrIsGroup(t string) bool { return strings.HasPrefix(t, "g") }

// lrAgree: the four outputs list the same rows and non-empty group headers in the same
// order; text and HTML show the same non-blank cells; CSV without ranges is CSV minus the
// range fields; HTML and CSV agree cell by cell (blank, variation, delta, note), and the
// formatted mean is the row's Scaler applied to the CSV mean.
func lrAgree(k *lrConc, text [][]lrTT, cs, csnr [][]string, h *lrHTML, scalers []benchstat.Scaler) *lrFail {
	var tRows, cRows, nRows, hRows []lrGRow
	var tG, cG, nG, hG []string
	for _, l := range text {
		if len(l) == 0 {
			continue
		}
		switch {
		case lrIsName(l[0].T):
			r := lrGRow{name: l[0].T}
			for _, t := range l[1:] {
				r.cells = append(r.cells, t.T)
			}
			tRows = append(tRows, r)
		case len(l) == 1 && lrIsGroup(l[0].T):
			tG = append(tG, l[0].T)
		}
	}
	split := func(obs [][]string, rows *[]lrGRow, gs *[]string) {
		for _, l := range obs {
			if len(l) == 0 {
				continue
			}
			switch {
			case lrIsName(l[0]):
				*rows = append(*rows, lrGRow{l[0], l[1:]})
			case len(l) == 1 && lrIsGroup(l[0]):
				*gs = append(*gs, l[0])
			}
		}
	}
	split(cs, &cRows, &cG)
	split(csnr, &nRows, &nG)
	oldnew := h.Cls == "oldnew"
	for _, b := range h.Bodies {
		for _, l := range b {
			switch l.K {
			case "row":
				r := lrGRow{}
				for j, c := range l.Cells {
					if j == 0 {
						r.name = c.T
					} else {
						r.cells = append(r.cells, c.T)
					}
				}
				hRows = append(hRows, r)
			case "group":
				if len(l.Cells) == 1 && l.Cells[0].T != "" {
					hG = append(hG, l.Cells[0].T)
				}
			}
		}
	}
	names := func(rs []lrGRow) []string {
		var s []string
		for _, r := range rs {
			s = append(s, r.name)
		}
		return s
	}
	if !lrEq(names(tRows), names(hRows)) || !lrEq(names(cRows), names(hRows)) || !lrEq(names(nRows), names(hRows)) {
		return lrF("renderers-disagree", "rows: text %q csv %q csv(norange) %q html %q", names(tRows), names(cRows), names(nRows), names(hRows))
	}
	if !lrEq(tG, hG) || !lrEq(cG, hG) || !lrEq(nG, hG) {
		return lrF("renderers-disagree", "group headers: text %q csv %q csv(norange) %q html %q", tG, cG, nG, hG)
	}
	for i, hr := range hRows {
		var nb []string
		for _, c := range hr.cells {
			if c != "" {
				nb = append(nb, c)
			}
		}
		if !lrEq(nb, tRows[i].cells) {
			return lrF("renderers-disagree", "row %d (%s): text shows %q, html %q", i+1, hr.name, tRows[i].cells, nb)
		}
		nc := len(hr.cells)
		if oldnew {
			nc -= 2
		}
		if nc < 0 {
			return lrF("renderers-disagree", "row %d (%s): html row too short %q", i+1, hr.name, hr.cells)
		}
		full := make([]string, 2*nc, 2*nc+2)
		copy(full, cRows[i].cells)
		if oldnew {
			full = append(full, "", "")
			if len(cRows[i].cells) > 2*nc {
				copy(full[2*nc:], cRows[i].cells[2*nc:])
			}
		}
		if len(cRows[i].cells) > len(full) {
			return lrF("renderers-disagree", "row %d (%s): csv has %d fields, html %d cells", i+1, hr.name, len(cRows[i].cells)+1, len(hr.cells)+1)
		}
		var minus []string
		for j := 0; j < nc; j++ {
			minus = append(minus, full[2*j])
		}
		minus = append(minus, full[2*nc:]...)
		if !lrEq(lrTrim(minus), lrTrim(append([]string(nil), nRows[i].cells...))) {
			return lrF("renderers-disagree", "row %d (%s): csv without its range fields is %q, csv(norange) shows %q", i+1, hr.name, lrTrim(minus), nRows[i].cells)
		}
		for j := 0; j < nc; j++ {
			hv, hd := "", ""
			if hr.cells[j] != "" {
				p := strings.SplitN(hr.cells[j], "|", 2)
				hv = p[0]
				if len(p) > 1 {
					hd = p[1]
				}
			}
			cv, cd := full[2*j], full[2*j+1]
			if (hv == "") != (cv == "") || hd != cd {
				return lrF("renderers-disagree", "row %d (%s) configuration %d: html shows %q, csv %q / %q", i+1, hr.name, j+1, hr.cells[j], cv, cd)
			}
			if cv != "" && i < len(scalers) && scalers[i] != nil {
				if x, ok := k.val[cv]; ok {
					if want := scalers[i](x); k.mean[hv] != want {
						return lrF("renderers-disagree", "row %d (%s) configuration %d: html/text mean %q, the row's scaler makes %q of the csv mean %v", i+1, hr.name, j+1, k.mean[hv], want, x)
					}
				}
			}
		}
		if oldnew && (hr.cells[nc] != full[2*nc] || hr.cells[nc+1] != full[2*nc+1]) {
			return lrF("renderers-disagree", "row %d (%s): html delta/note %q, csv %q", i+1, hr.name, hr.cells[nc:], full[2*nc:])
		}
	}
	return nil
}

// ---------------------------------------------------------------- replay

// lrTrimCommon is the documented behaviour of the CSV configuration headings: "common
// path-separator-terminated prefixes removed" (a single name is left alone).
func lrTrimCommon(ss []string) []string {
	if len(ss) < 2 {
		return ss
	}
	p := ss[0]
	for _, s := range ss[1:] {
		n := 0
		for n < len(p) && n < len(s) && p[n] == s[n] {
			n++
		}
		p = p[:n]
	}
	cut := strings.LastIndex(p, "/") + 1
	out := make([]string, len(ss))
	for i, s := range ss {
		out[i] = s[cut:]
	}
	return out
}

func (k *lrConc) bindConfigs(in *lrInput) {
	var full []string
	for _, c := range in.Cfg {
		full = append(full, k.str[c.T])
	}
	for i, s := range lrTrimCommon(full) {
		if _, taken := k.rev[s]; !taken {
			k.rev[s] = in.Cfg[i].T // either form names the configuration
		}
	}
}

// lrConcretise binds every token of a model value to text of its width, drawn by the case id.
func lrConcretise(id int, in *lrInput) (*lrConc, benchstat.Scaler, *rand.Rand, error) {
	r := newRand(int64(id)*7919 + 17)
	k := lrNewConc()
	common := len(in.Cfg) >= 2 && r.Intn(3) == 0
	for _, c := range in.Cfg {
		if common {
			fam := map[string]string{"k1": "d/old", "k2": "d/new,2.x", "k3": "d/c", "k4": "d/dd"}
			if s, ok := fam[c.T]; ok {
				k.bind(c.T, s)
				continue
			}
		}
		if _, err := k.pick(r, c.T); err != nil {
			return nil, nil, nil, err
		}
	}
	k.bindConfigs(in)
	unit := ""
	for ti := range in.Tabs {
		t := &in.Tabs[ti]
		if _, ok := k.metric[t.M.T]; !ok {
			pool := lrPools[t.M.T]
			if len(pool) == 0 {
				return nil, nil, nil, fmt.Errorf("no pool for metric %q", t.M.T)
			}
			s := pool[r.Intn(len(pool))]
			if r.Intn(4) == 0 {
				s = pool[0]
			}
			if lrRunes(s) != t.M.W {
				return nil, nil, nil, fmt.Errorf("metric text %q is not %d wide", s, t.M.W)
			}
			k.metric[t.M.T], k.revMetric[s] = s, t.M.T
		}
		if _, ok := k.unit[t.U]; !ok {
			pool := lrPools[t.U]
			if len(pool) == 0 {
				return nil, nil, nil, fmt.Errorf("no pool for unit %q", t.U)
			}
			s := pool[r.Intn(len(pool))]
			k.unit[t.U], k.revUnit[s] = s, t.U
			if unit == "" {
				unit = s
			}
		}
		for ri := range t.Rows {
			row := &t.Rows[ri]
			for _, tok := range []lrTok{row.N, row.G, row.DL, row.NT} {
				if tok.T == "" {
					continue
				}
				s, err := k.pick(r, tok.T)
				if err != nil {
					return nil, nil, nil, err
				}
				if lrRunes(s) != tok.W {
					return nil, nil, nil, fmt.Errorf("text %q of token %q is not %d wide", s, tok.T, tok.W)
				}
			}
		}
	}
	// values: a fixes the scaler ("%.2f", no prefix); b and z are formatted by it
	for _, v := range []string{"a", "b", "z"} {
		pool := lrValPool[v]
		k.val[v] = pool[r.Intn(len(pool))]
		k.revVal[k.val[v]] = v
	}
	sc := benchstat.NewScaler(k.val["a"], unit)
	for _, v := range []string{"a", "b", "z"} {
		s := sc(k.val[v])
		if _, dup := k.revMean[s]; dup {
			return nil, nil, nil, fmt.Errorf("formatted means collide: %q", s)
		}
		k.mean[v], k.revMean[s] = s, v
	}
	for ti := range in.Tabs {
		for ri := range in.Tabs[ti].Rows {
			for _, c := range in.Tabs[ti].Rows[ri].C {
				if c.V == "" {
					continue
				}
				w := lrRunes(k.mean[c.TV])
				if c.D != "" {
					w += lrRunes(fmt.Sprintf(" ±%3s", c.D+"%"))
				}
				if w != c.W {
					return nil, nil, nil, fmt.Errorf("cell %+v: text %q is %d wide", c, k.mean[c.TV], w)
				}
			}
		}
	}
	return k, sc, r, nil
}

type lrObs struct {
	text  [][]lrTT
	csv   [][]string
	csvnr [][]string
	html  *lrHTML
}

func lrObserve(k *lrConc, o *lrOutputs) (*lrObs, []*lrFail) {
	obs := &lrObs{}
	var fails []*lrFail
	var f *lrFail
	if obs.text, f = lrParseText(k, o.text); f != nil {
		fails = append(fails, f)
	}
	if obs.csv, f = lrParseCSV(k, o.csv); f != nil {
		fails = append(fails, f)
	}
	if obs.csvnr, f = lrParseCSV(k, o.csvnr); f != nil {
		f.sig = strings.Replace(f.sig, "csv-", "csvnr-", 1)
		fails = append(fails, f)
	}
	if obs.html, f = lrParseHTML(k, o.html); f != nil {
		fails = append(fails, f)
	}
	return obs, fails
}

func lrReplay(raw json.RawMessage) Verdict {
	var c lrCase
	if err := json.Unmarshal(raw, &c); err != nil {
		return fail("badcase", "%v", err)
	}
	xt, err1 := lrDecodeText(c.Text)
	xc, err2 := lrDecodeCsv(c.Csv)
	xn, err3 := lrDecodeCsv(c.CsvNR)
	xb, err4 := lrDecodeHTMLBodies(c.HTML.Bodies)
	for _, err := range []error{err1, err2, err3, err4} {
		if err != nil {
			return fail("badcase", "%v", err)
		}
	}
	in := &lrInput{Cfg: c.Cfg, Tabs: c.Tabs}
	k, sc, r, err := lrConcretise(c.ID, in)
	if err != nil {
		return fail("badcase", "%v", err)
	}
	var mkErr error
	var scalers []benchstat.Scaler
	ts := lrBuild(in, k, func(b, i int, row *lrRow, cell *lrCell, unit string) *benchstat.Metrics {
		m, err := lrMetrics(r, unit, k.val[cell.V], cell.D)
		if err != nil {
			mkErr = err
			return new(benchstat.Metrics)
		}
		return m
	}, func(b, i int) benchstat.Scaler {
		scalers = append(scalers, sc)
		return sc
	})
	if mkErr != nil {
		return fail("badcase", "%v", mkErr)
	}
	out, f := lrRender(ts)
	if f != nil {
		v := fail(f.sig, "%s", f.detail)
		return v
	}
	obs, fails := lrObserve(k, out)
	if len(fails) == 0 {
		if f := lrMatchText(obs.text, xt, c.GW); f != nil {
			fails = append(fails, f)
		}
		if f := lrMatchCSV(obs.csv, xc, "csv"); f != nil {
			fails = append(fails, f)
		}
		if f := lrMatchCSV(obs.csvnr, xn, "csvnr"); f != nil {
			fails = append(fails, f)
		}
		xh := &lrHXp{Cls: c.HTML.Cls, Cfg: c.HTML.Cfg, CfgOpt: c.HTML.CfgOpt == 1, Bodies: xb}
		if f := lrMatchHTML(obs.html, xh, len(in.Tabs)); f != nil {
			fails = append(fails, f)
		}
		if f := lrAgree(k, obs.text, obs.csv, obs.csvnr, obs.html, scalers); f != nil {
			fails = append(fails, f)
		}
	}
	if len(fails) == 0 {
		return pass()
	}
	// one verdict per case: a deviation other than the CSV heading unit takes precedence
	pick := fails[0]
	for _, f := range fails {
		if !strings.HasSuffix(f.sig, "-heading-unit") {
			pick = f
			break
		}
	}
	v := fail(pick.sig, "%s", pick.detail)
	var sigs []string
	for _, f := range fails {
		sigs = append(sigs, f.sig)
	}
	v.Got = map[string]interface{}{"all": sigs, "text": out.text, "csv": out.csv, "csvnr": out.csvnr, "html": out.html}
	return v
}

// ---------------------------------------------------------------- record

var lrRecUnits = []struct{ unit, metric string }{
	{"ns/op", "time/op"}, {"B/op", "alloc/op"}, {"MB/s", "speed"}, {"ns/GC", "time/GC"}, {"allocs/op", "allocs/op"},
	{"x<y&z", "x<y&z"}, {"widgets,2", "widgets,2"}, {"a\"b'c", "a\"b'c"}, {"cpu-ns/op", "cpu-time/op"}, {"µ/'op'", "µ/'op'"},
}

var lrRecVals = []float64{0, 0.125, 1.5, 2.25, 99.5, 1234.5, 65536, 1.5e6, 2.5e9, 123456, 0.001, 31.25}
var lrRecDiffs = []string{"0", "3", "7", "25", "50", "100", "150", ""}
var lrRecAlpha = []rune("abcdefghijkmnopqrstuvwxyzABCDEFGHIJKLMNOPQRSTUVWXYZ0123456789<>&\"',;:/=-_.()[]{}+*éµüΩ#|\\")

func lrRandWord(r *rand.Rand, n int, blanks bool) string {
	rs := make([]rune, n)
	for i := range rs {
		rs[i] = lrRecAlpha[r.Intn(len(lrRecAlpha))]
		if r.Intn(3) == 0 {
			rs[i] = lrRecAlpha[r.Intn(52)]
		}
		if blanks && i > 0 && i < n-1 && rs[i-1] != ' ' && r.Intn(5) == 0 {
			rs[i] = ' '
		}
	}
	return string(rs)
}

// fresh text that cannot be mistaken for anything the renderers print by themselves
func (k *lrConc) fresh(r *rand.Rand, blanks bool, maxw int, prefix string) string {
	for {
		s := prefix + lrRandWord(r, 1+r.Intn(maxw), blanks)
		if k.used[s] || strings.Contains(s, "±") || strings.HasPrefix(s, "old ") || strings.HasPrefix(s, "new ") ||
			strings.HasPrefix(s, "name \\ ") || lrCsvMeanRe.MatchString(s) || lrCsvDiffRe.MatchString(s) || lrCsvHeadRe.MatchString(s) ||
			s == "~" || strings.TrimSpace(s) != s {
			continue
		}
		if _, err := strconv.ParseFloat(s, 64); err == nil {
			continue
		}
		k.used[s] = true
		return s
	}
}

type lrEvent struct {
	Ev   string      `json:"ev"`
	T    int         `json:"t"`
	Cfg  []lrTok     `json:"cfg,omitempty"`
	Tabs []lrTab     `json:"tabs,omitempty"`
	NR   bool        `json:"nr"`
	Obs  interface{} `json:"obs,omitempty"`
	R    string      `json:"r,omitempty"`
	Sig  string      `json:"sig,omitempty"`
	Det  string      `json:"detail,omitempty"`
}

// lrRecordOne draws one value, renders it and returns its events.
func lrRecordOne(t int, r *rand.Rand) ([]lrEvent, error) {
	k := lrNewConc()
	in := &lrInput{}
	nc := 1 + r.Intn(4)
	if r.Intn(3) == 0 {
		nc = 2
	}
	commonDir := ""
	if r.Intn(3) == 0 {
		commonDir = "out/" + lrRandWord(r, 2, false) + "/"
		commonDir = strings.ReplaceAll(commonDir, " ", "_")
	}
	for i := 0; i < nc; i++ {
		s := k.fresh(r, true, 10, commonDir)
		id := fmt.Sprintf("k%d", i+1)
		k.bind(id, s)
		in.Cfg = append(in.Cfg, lrTok{id, lrRunes(s)})
	}
	k.bindConfigs(in)
	nt := 1 + r.Intn(3)
	nameN, groupN, deltaN, noteN, valN, meanN := 0, 0, 0, 0, 0, 0
	bindNew := func(prefix string, n *int, s string) lrTok {
		if id, ok := k.rev[s]; ok && strings.HasPrefix(id, prefix) {
			return lrTok{id, lrRunes(s)}
		}
		*n++
		id := fmt.Sprintf("%s%d", prefix, *n)
		k.bind(id, s)
		return lrTok{id, lrRunes(s)}
	}
	var names []lrTok
	for i, n := 0, 2+r.Intn(5); i < n; i++ {
		names = append(names, bindNew("n", &nameN, k.fresh(r, false, 14, "")))
	}
	groups := []lrTok{{"", 0}}
	for i, n := 0, r.Intn(3); i < n; i++ {
		groups = append(groups, bindNew("g", &groupN, k.fresh(r, true, 12, "")))
	}
	type rowInfo struct {
		sc    benchstat.Scaler
		cells []*benchstat.Metrics
	}
	var infos [][]rowInfo
	total := 0
	perm := r.Perm(len(lrRecUnits))
	for b := 0; b < nt && total < 9; b++ {
		u := lrRecUnits[perm[b]]
		mid, uid := fmt.Sprintf("m%d", b+1), fmt.Sprintf("u%d", b+1)
		k.metric[mid], k.revMetric[u.metric] = u.metric, mid
		k.unit[uid], k.revUnit[u.unit] = u.unit, uid
		tab := lrTab{M: lrTok{mid, lrRunes(u.metric)}, U: uid}
		var ti []rowInfo
		nr := 1 + r.Intn(5)
		g := groups[r.Intn(len(groups))]
		present := false
		for i := 0; i < nr && total < 9; i++ {
			total++
			if r.Intn(3) == 0 {
				g = groups[r.Intn(len(groups))]
			}
			row := lrRow{N: names[r.Intn(len(names))], G: g}
			info := rowInfo{}
			// means first: the row's scaler is NewScaler of the first present mean (as Tables() does)
			means := make([]float64, nc)
			has := make([]bool, nc)
			for j := 0; j < nc; j++ {
				has[j] = r.Intn(4) != 0
				means[j] = lrRecVals[r.Intn(len(lrRecVals))]
				if has[j] && info.sc == nil {
					info.sc = benchstat.NewScaler(means[j], u.unit)
				}
			}
			if (i == nr-1 || total == 9) && !present && info.sc == nil {
				has[r.Intn(nc)] = true
				for j := 0; j < nc; j++ {
					if has[j] {
						info.sc = benchstat.NewScaler(means[j], u.unit)
						break
					}
				}
			}
			for j := 0; j < nc; j++ {
				if !has[j] {
					row.C = append(row.C, lrCell{})
					info.cells = append(info.cells, new(benchstat.Metrics))
					continue
				}
				present = true
				d := lrRecDiffs[r.Intn(len(lrRecDiffs))]
				if means[j] == 0 {
					d = ""
				}
				m, err := lrMetrics(r, u.unit, means[j], d)
				if err != nil {
					return nil, err
				}
				vid, ok := k.revVal[means[j]]
				if !ok {
					valN++
					vid = fmt.Sprintf("v%d", valN)
					k.revVal[means[j]], k.val[vid] = vid, means[j]
				}
				ms := info.sc(means[j])
				fid, ok := k.revMean[ms]
				if !ok {
					meanN++
					fid = fmt.Sprintf("f%d", meanN)
					k.revMean[ms], k.mean[fid] = fid, ms
				}
				w := lrRunes(ms)
				if d != "" {
					w += lrRunes(fmt.Sprintf(" ±%3s", d+"%"))
				}
				row.C = append(row.C, lrCell{vid, fid, d, w})
				info.cells = append(info.cells, m)
			}
			if nc == 2 {
				switch r.Intn(6) {
				case 0, 1:
					k.bind("d~", "~")
					row.DL = lrTok{"d~", 1}
				case 2:
					row.DL = bindNew("d", &deltaN, fmt.Sprintf("+%.2f%%", r.Float64()*200))
					row.Ch = []int{-1, 1}[r.Intn(2)]
				case 3:
					row.DL = bindNew("d", &deltaN, fmt.Sprintf("-%.2f%%", r.Float64()*100))
					row.Ch = []int{-1, 1}[r.Intn(2)]
				case 4:
					row.DL = bindNew("d", &deltaN, "0.00%")
				}
				if row.DL.T != "" && r.Intn(5) != 0 {
					var s string
					switch r.Intn(4) {
					case 0:
						s = "(zero variance)"
					case 1:
						s = "(" + lrRandWord(r, 1+r.Intn(12), true) + ")"
						if strings.Contains(s, "±") {
							s = "(all equal)"
						}
					default:
						s = fmt.Sprintf("(p=%.3f n=%d+%d)", r.Float64(), 1+r.Intn(20), 1+r.Intn(20))
					}
					k.used[s] = true
					row.NT = bindNew("t", &noteN, s)
				}
			}
			tab.Rows = append(tab.Rows, row)
			ti = append(ti, info)
		}
		in.Tabs = append(in.Tabs, tab)
		infos = append(infos, ti)
	}
	var scalers []benchstat.Scaler
	ts := lrBuild(in, k, func(b, i int, row *lrRow, cell *lrCell, unit string) *benchstat.Metrics {
		for j := range row.C {
			if &row.C[j] == cell {
				return infos[b][i].cells[j]
			}
		}
		return new(benchstat.Metrics)
	}, func(b, i int) benchstat.Scaler {
		scalers = append(scalers, infos[b][i].sc)
		return infos[b][i].sc
	})
	evs := []lrEvent{{Ev: "input", T: t, Cfg: in.Cfg, Tabs: in.Tabs}}
	out, f := lrRender(ts)
	if f != nil {
		return append(evs, lrEvent{Ev: "bad", T: t, R: "render", Sig: f.sig, Det: f.detail}), nil
	}
	obs, fails := lrObserve(k, out)
	if len(fails) == 0 {
		if f := lrAgree(k, obs.text, obs.csv, obs.csvnr, obs.html, scalers); f != nil {
			fails = append(fails, f)
		}
	}
	for _, f := range fails {
		evs = append(evs, lrEvent{Ev: "bad", T: t, R: "observe", Sig: f.sig, Det: f.detail})
	}
	if len(fails) > 0 {
		return evs, nil
	}
	evs = append(evs,
		lrEvent{Ev: "text", T: t, Obs: lrNonNil(obs.text)},
		lrEvent{Ev: "csv", T: t, NR: false, Obs: lrNonNilS(obs.csv)},
		lrEvent{Ev: "csv", T: t, NR: true, Obs: lrNonNilS(obs.csvnr)},
		lrEvent{Ev: "html", T: t, Obs: obs.html})
	return evs, nil
}

func lrNonNil(x [][]lrTT) [][]lrTT {
	if x == nil {
		return [][]lrTT{}
	}
	return x
}

func lrNonNilS(x [][]string) [][]string {
	if x == nil {
		return [][]string{}
	}
	return x
}

func lrRecord(args []string) error {
	if len(args) < 2 {
		return fmt.Errorf("record needs <out> <n>")
	}
	n, err := strconv.Atoi(args[1])
	if err != nil {
		return err
	}
	ew, err := newEventWriter(args[0])
	if err != nil {
		return err
	}
	r := newRand(4040)
	for t := 1; t <= n; t++ {
		evs, err := lrRecordOne(t, r)
		if err != nil {
			return err
		}
		for _, e := range evs {
			ew.emit(e)
		}
	}
	return ew.close()
}

// lrReplayAll is replayLoop with a pool of workers (the cases are independent: every
// concretisation is derived from the case id); verdicts are written in case order.
func lrReplayAll(args []string) error {
	if len(args) < 2 {
		return fmt.Errorf("replay needs <cases> <verdicts>")
	}
	data, err := os.ReadFile(args[0])
	if err != nil {
		return err
	}
	var lines [][]byte
	for _, l := range bytes.Split(data, []byte("\n")) {
		if len(bytes.TrimSpace(l)) > 0 {
			lines = append(lines, l)
		}
	}
	verdicts := make([]Verdict, len(lines))
	var wg sync.WaitGroup
	next := int64(-1)
	for w := 0; w < 8; w++ {
		wg.Add(1)
		go func() {
			defer wg.Done()
			for {
				i := int(atomic.AddInt64(&next, 1))
				if i >= len(lines) {
					return
				}
				var hdr struct {
					ID json.RawMessage `json:"id"`
				}
				if err := json.Unmarshal(lines[i], &hdr); err != nil {
					verdicts[i] = Verdict{OK: false, Signature: "badcase", Detail: err.Error()}
					continue
				}
				v := safeCall(lrReplay, lines[i])
				v.ID, v.Family = hdr.ID, "legacyrender"
				verdicts[i] = v
			}
		}()
	}
	wg.Wait()
	out, err := os.Create(args[1])
	if err != nil {
		return err
	}
	defer out.Close()
	w := bufio.NewWriterSize(out, 1<<20)
	enc := json.NewEncoder(w)
	for i := range verdicts {
		if err := enc.Encode(&verdicts[i]); err != nil {
			return err
		}
	}
	return w.Flush()
}

func lrMain(mode string, args []string) error {
	switch mode {
	case "replay":
		return lrReplayAll(args)
	case "record":
		return lrRecord(args)
	}
	return fmt.Errorf("legacyrender: unknown mode %q", mode)
}

var _ = sort.Strings
