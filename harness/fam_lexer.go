package main

// Family "lexer" (C07): expression syntax of benchproc filters and projections.
//
// replay: every text emitted by Lexer_gen.tla goes through benchproc.NewFilter and
// through (&benchproc.ProjectionParser{}).Parse.  The specification's DECLARATIVE
// side supplies the verdict (accept / reject / free) and, for accepted texts, the
// denotation (filter tree, projection field list).  The harness compares
//   - ok / error with the verdict,
//   - for errors: that it is a positioned syntax error whose offset lies in 0..len(text)
//     (parse.SyntaxError lives in an internal package; its exported fields Off/Query
//     are read by reflection, with the caret of the message as fallback),
//   - for accepted texts the denotation, by probing: the spec's tree is evaluated on
//     results holding the candidate key/value strings and one-character variations,
//     and compared with Filter.Match; projections by Projection.Fields, Key.Get and the
//     implied fixed-order filter.
// Every call runs under recover (replayLoop) and a timeout goroutine (signature "hang").
// The library models of the spec (ReValid, Unq) are cross-checked against
// regexp.Compile / strconv.Unquote on every text; a disagreement there is a model
// problem (signature prefix "spec-library-model"), which the plan turns into exit 2.
//
// record: random byte strings (full byte range, invalid UTF-8, heavy on quotes,
// backslashes, blanks, operator characters) as keys and values, written with
// strconv.Quote; rule (Lexer.tla: Unq is the inverse of Quote, QuotedTermDenotes): the
// expression parses and denotes exactly that string.  Also bare words of the documented
// shape.  Judged here, one event per string.

import (
	"encoding/hex"
	"encoding/json"
	"fmt"
	"os"
	"reflect"
	"regexp"
	"strconv"
	"strings"
	"time"
	"unicode"
	"unicode/utf8"

	"golang.org/x/perf/benchfmt"
	"golang.org/x/perf/benchproc"
)

func init() { register("lexer", famLexer) }

const lxSigDefect3 = "quoted-word-ending-in-escaped-backslash"

type lxTree struct {
	Op string   `json:"op"`
	K  []string `json:"k"`
	V  []string `json:"v"`
	A  []lxTree `json:"a"`
}

type lxField struct {
	K []string   `json:"k"`
	O string     `json:"o"` // first / named / fixed
	N []string   `json:"n"`
	F [][]string `json:"f"`
}

type lxCase struct {
	Kind string   `json:"kind"`
	S    []string `json:"s"`
	F    struct {
		V   string          `json:"v"`
		Syn bool            `json:"syn"`
		T   json.RawMessage `json:"t"`
		Off int             `json:"off"`
		Ab  bool            `json:"ab"`
	} `json:"f"`
	P struct {
		V   string    `json:"v"`
		Syn bool      `json:"syn"`
		Fs  []lxField `json:"fs"`
		Off int       `json:"off"`
		Ab  bool      `json:"ab"`
	} `json:"p"`
	Re bool `json:"re"`
	Uq struct {
		Ok bool     `json:"ok"`
		W  []string `json:"w"`
	} `json:"uq"`
}

func lxStr(sym []string) string {
	var b strings.Builder
	for _, c := range sym {
		if c == "^G" {
			b.WriteByte(7)
		} else {
			b.WriteString(c)
		}
	}
	return b.String()
}

func famLexer(mode string, args []string) error {
	switch mode {
	case "replay":
		return replayLoop("lexer", args, lxReplay)
	case "record":
		if len(args) < 2 {
			return fmt.Errorf("record needs <out> <n>")
		}
		n, err := strconv.Atoi(args[1])
		if err != nil {
			return err
		}
		return lxRecord(args[0], n)
	}
	return fmt.Errorf("unknown mode %q", mode)
}

// ---------------------------------------------------------------- guarded calls

type lxFilterRes struct {
	f     *benchproc.Filter
	err   error
	panic interface{}
}

type lxProjRes struct {
	p      *benchproc.Projection
	filter *benchproc.Filter
	err    error
	panic  interface{}
}

const lxTimeout = 10 * time.Second

func lxNewFilter(q string) (r lxFilterRes, hang bool) {
	ch := make(chan lxFilterRes, 1)
	go func() {
		var r lxFilterRes
		defer func() {
			if p := recover(); p != nil {
				r.panic = p
			}
			ch <- r
		}()
		r.f, r.err = benchproc.NewFilter(q)
	}()
	select {
	case r = <-ch:
		return r, false
	case <-time.After(lxTimeout):
		lxHangs++
		return r, true
	}
}

// lxHangs counts calls that never returned: their goroutines are still running (and may spin
// and allocate), so record mode stops after the event in which one occurred.
var lxHangs int

// lxParseProj parses q with a fresh parser and a match-everything filter (Parse panics
// by contract when a fixed order needs a filter and none is passed).
func lxParseProj(q string) (r lxProjRes, hang bool) {
	ch := make(chan lxProjRes, 1)
	go func() {
		var r lxProjRes
		defer func() {
			if p := recover(); p != nil {
				r.panic = p
			}
			ch <- r
		}()
		f, err := benchproc.NewFilter("*")
		if err != nil {
			panic("NewFilter(\"*\") failed: " + err.Error())
		}
		r.filter = f
		r.p, r.err = (&benchproc.ProjectionParser{}).Parse(q, f)
	}()
	select {
	case r = <-ch:
		return r, false
	case <-time.After(lxTimeout):
		lxHangs++
		return r, true
	}
}

// lxErrOffset extracts the position of a syntax error: exported fields Off and Query of
// the error value (by reflection), else the caret line of the message.
func lxErrOffset(err error, q string) (off int, how string, ok bool) {
	v := reflect.ValueOf(err)
	for v.Kind() == reflect.Ptr || v.Kind() == reflect.Interface {
		if v.IsNil() {
			break
		}
		v = v.Elem()
	}
	if v.Kind() == reflect.Struct {
		f := v.FieldByName("Off")
		if f.IsValid() && f.CanInt() {
			return int(f.Int()), "field", true
		}
	}
	// "syntax error: msg\n\tquery\n\t   ^"
	msg := err.Error()
	if i := strings.LastIndex(msg, "\n\t"); i >= 0 && strings.HasSuffix(msg, "^") && strings.HasPrefix(msg, "syntax error") {
		return len(msg) - (i + 2) - 1, "caret", true
	}
	return 0, "", false
}

// lxCheckErr checks that err is a syntax error positioned inside q.
func lxCheckErr(what string, err error, q string) (Verdict, int) {
	off, how, ok := lxErrOffset(err, q)
	if !ok || !strings.Contains(err.Error(), "syntax error") {
		return fail("error-without-position", "%s %q: error is not a positioned syntax error: %T %q", what, q, err, err.Error()), -1
	}
	limit := len(q)
	if how == "caret" {
		limit = utf8.RuneCountInString(q)
	}
	if off < 0 || off > limit {
		return fail("error-offset-outside-text", "%s %q: error offset %d not in 0..%d (%q)", what, q, off, limit, err.Error()), off
	}
	return pass(), off
}

// ---------------------------------------------------------------- denotation probing

func lxKeys(t *lxTree, out map[string]bool) {
	if t.Op == "lit" || t.Op == "re" {
		out[lxStr(t.K)] = true
	}
	for i := range t.A {
		lxKeys(&t.A[i], out)
	}
}

func lxTerms(t *lxTree, f func(t *lxTree)) {
	if t.Op == "lit" || t.Op == "re" {
		f(t)
	}
	for i := range t.A {
		lxTerms(&t.A[i], f)
	}
}

func lxEval(t *lxTree, get func(string) string) bool {
	switch t.Op {
	case "lit":
		return get(lxStr(t.K)) == lxStr(t.V)
	case "re":
		return regexp.MustCompile(lxStr(t.V)).MatchString(get(lxStr(t.K)))
	case "all":
		return true
	case "not":
		return !lxEval(&t.A[0], get)
	case "and":
		for i := range t.A {
			if !lxEval(&t.A[i], get) {
				return false
			}
		}
		return true
	case "or":
		for i := range t.A {
			if lxEval(&t.A[i], get) {
				return true
			}
		}
		return false
	}
	panic("bad tree op " + t.Op)
}

// key classes for building a result that holds a value under a key
func lxKeyClass(k string) string {
	switch {
	case k == "":
		return "empty"
	case k == ".name" || k == ".fullname" || k == ".unit" || k == ".config":
		return "special"
	case strings.HasPrefix(k, "/"):
		if strings.ContainsAny(k[1:], "/=") {
			return "unprobeable"
		}
		return "name"
	}
	return "config"
}

// lxResult builds a benchfmt.Result in which each key has the given value ("" = absent).
// Returns nil if that cannot be expressed (sub-name values containing '/').
func lxResult(assign map[string]string, noise map[string]string) *benchfmt.Result {
	res := &benchfmt.Result{Iters: 1, Values: []benchfmt.Value{{Value: 1, Unit: "ns/op"}, {Value: 2, Unit: "B/op"}}}
	name := "Probe"
	keys := make([]string, 0, len(assign))
	for k := range assign {
		keys = append(keys, k)
	}
	sortStrings(keys)
	for _, k := range keys {
		v := assign[k]
		switch lxKeyClass(k) {
		case "config":
			if v != "" {
				res.Config = append(res.Config, benchfmt.Config{Key: k, Value: []byte(v), File: true})
			}
		case "name":
			if strings.Contains(v, "/") {
				return nil
			}
			if v != "" {
				name += k + "=" + v
			}
		default:
			return nil
		}
	}
	nk := make([]string, 0, len(noise))
	for k := range noise {
		nk = append(nk, k)
	}
	sortStrings(nk)
	for _, k := range nk {
		if _, used := assign[k]; used || lxKeyClass(k) != "config" || noise[k] == "" {
			continue
		}
		res.Config = append(res.Config, benchfmt.Config{Key: k, Value: []byte(noise[k]), File: true})
	}
	res.Name = benchfmt.Name(name + "/zz")
	return res
}

func sortStrings(a []string) {
	for i := 1; i < len(a); i++ {
		for j := i; j > 0 && a[j] < a[j-1]; j-- {
			a[j], a[j-1] = a[j-1], a[j]
		}
	}
}

func lxVariations(v string) []string {
	out := []string{v + "a", v + "\\", v + " "}
	if len(v) > 0 {
		out = append(out, v[:len(v)-1], v[1:], "a"+v)
		b := []byte(v)
		if b[len(b)-1] == 'a' {
			b[len(b)-1] = 'b'
		} else {
			b[len(b)-1] = 'a'
		}
		out = append(out, string(b))
	}
	return out
}

func lxAddUnique(list []string, v ...string) []string {
	for _, x := range v {
		dup := false
		for _, y := range list {
			if x == y {
				dup = true
				break
			}
		}
		if !dup {
			list = append(list, x)
		}
	}
	return list
}

// lxProbeFilter compares the filter with the spec's tree on a family of results.
// Returns the number of results probed (0 = not probeable) and a failing verdict or pass.
func lxProbeFilter(q string, f *benchproc.Filter, t *lxTree) (int, Verdict) {
	keyset := map[string]bool{}
	lxKeys(t, keyset)
	var keys []string
	for k := range keyset {
		switch lxKeyClass(k) {
		case "config", "name":
			keys = append(keys, k)
		default:
			return 0, pass()
		}
	}
	sortStrings(keys)
	cands := map[string][]string{}
	noise := map[string]string{}
	for _, k := range keys {
		cands[k] = []string{""}
	}
	lxTerms(t, func(x *lxTree) {
		k, v := lxStr(x.K), lxStr(x.V)
		if x.Op == "lit" {
			cands[k] = lxAddUnique(cands[k], v)
			cands[k] = lxAddUnique(cands[k], lxVariations(v)...)
			noise[k+"a"] = v
			if len(k) > 1 {
				noise[k[:len(k)-1]] = v
			}
		} else {
			cands[k] = lxAddUnique(cands[k], v, "a", "aa", " ", "\\", "(", "b", "/")
		}
	})
	// enumerate the product of candidates, capped
	total := 1
	for _, k := range keys {
		total *= len(cands[k])
		if total > 1<<20 {
			total = 1 << 20
		}
	}
	stride := 1
	const maxProbes = 160
	if total > maxProbes {
		stride = total/maxProbes + 1
		for stride%2 == 0 || stride%3 == 0 || stride%5 == 0 || stride%7 == 0 {
			stride++
		}
	}
	n := 0
	for idx := 0; idx < total; idx += stride {
		assign := map[string]string{}
		x := idx
		for _, k := range keys {
			c := cands[k]
			assign[k] = c[x%len(c)]
			x /= len(c)
		}
		res := lxResult(assign, noise)
		if res == nil {
			continue
		}
		want := lxEval(t, func(k string) string { return assign[k] })
		m, err := f.Match(res)
		if err != nil {
			return n, fail("denotation-filter", "filter %q: Match returned error %v", q, err)
		}
		n++
		if m.All() != want || m.Any() != want {
			return n, fail("denotation-filter", "filter %q on result %s: Match.All=%v Any=%v, the expression denotes %v (tree %s)",
				q, jsonStr(assign), m.All(), m.Any(), want, jsonStr(t))
		}
	}
	return n, pass()
}

// lxProbeProj compares field names, projected values and the implied fixed-order filter.
func lxProbeProj(q string, r lxProjRes, fs []lxField) (int, Verdict) {
	fields := r.p.Fields()
	if len(fields) != len(fs) {
		return 0, fail("denotation-projection", "projection %q: %d fields, the expression denotes %d", q, len(fields), len(fs))
	}
	cands := map[string][]string{}
	var keys []string
	probeable := true
	for i, f := range fs {
		k := lxStr(f.K)
		if fields[i].Name != k {
			return 0, fail("denotation-projection", "projection %q: field %d is named %q, the expression denotes key %q", q, i, fields[i].Name, k)
		}
		switch lxKeyClass(k) {
		case "config", "name":
		default:
			probeable = false
		}
		if _, ok := cands[k]; !ok {
			keys = append(keys, k)
			cands[k] = []string{"", "v" + strconv.Itoa(i), k}
		}
		for _, w := range f.F {
			v := lxStr(w)
			cands[k] = lxAddUnique(cands[k], v)
			cands[k] = lxAddUnique(cands[k], lxVariations(v)[:2]...)
		}
	}
	if !probeable {
		return 0, pass()
	}
	total := 1
	for _, k := range keys {
		total *= len(cands[k])
		if total > 1<<20 {
			total = 1 << 20
		}
	}
	stride := 1
	const maxProbes = 60
	if total > maxProbes {
		stride = total/maxProbes + 1
		for stride%2 == 0 || stride%3 == 0 || stride%5 == 0 || stride%7 == 0 {
			stride++
		}
	}
	n := 0
	for idx := 0; idx < total; idx += stride {
		assign := map[string]string{}
		x := idx
		for _, k := range keys {
			c := cands[k]
			assign[k] = c[x%len(c)]
			x /= len(c)
		}
		res := lxResult(assign, nil)
		if res == nil {
			continue
		}
		n++
		key := r.p.Project(res)
		wantKeep := true
		for i, f := range fs {
			k := lxStr(f.K)
			if got := key.Get(fields[i]); got != assign[k] {
				return n, fail("denotation-projection", "projection %q on result %s: field %d (%q) projects %q, want %q", q, jsonStr(assign), i, k, got, assign[k])
			}
			if f.O == "fixed" {
				in := false
				for _, w := range f.F {
					if lxStr(w) == assign[k] {
						in = true
					}
				}
				wantKeep = wantKeep && in
			}
		}
		m, _ := r.filter.Match(res)
		if m.All() != wantKeep {
			return n, fail("denotation-projection", "projection %q on result %s: implied filter keeps=%v, the fixed lists denote %v", q, jsonStr(assign), m.All(), wantKeep)
		}
	}
	return n, pass()
}

// ---------------------------------------------------------------- replay

func lxReplay(raw json.RawMessage) Verdict {
	var c lxCase
	if err := json.Unmarshal(raw, &c); err != nil {
		panic("bad lexer case: " + err.Error())
	}
	q := lxStr(c.S)
	info := []string{}

	// library models of the spec
	if c.Kind == "text" {
		_, err := regexp.Compile(q)
		if (err == nil) != c.Re {
			return fail("spec-library-model-regexp", "regexp.Compile(%q) err=%v but the spec's ReValid says %v", q, err, c.Re)
		}
		w, err := strconv.Unquote("\"" + q + "\"")
		if (err == nil) != c.Uq.Ok || (err == nil && w != lxStr(c.Uq.W)) {
			return fail("spec-library-model-unquote", "strconv.Unquote(\"%s\") = %q, %v but the spec's Unq says ok=%v %q", q, w, err, c.Uq.Ok, lxStr(c.Uq.W))
		}
	}

	// ---- filter
	fr, hang := lxNewFilter(q)
	if hang {
		return fail("hang", "NewFilter(%q) did not return within %v", q, lxTimeout)
	}
	if fr.panic != nil {
		return fail("panic", "NewFilter(%q) panicked: %v", q, fr.panic)
	}
	if fr.err != nil {
		v, off := lxCheckErr("filter", fr.err, q)
		if !v.OK {
			return v
		}
		if c.F.V == "accept" {
			sig := "rejects-wellformed-filter"
			if !c.F.Ab {
				sig = lxSigDefect3
			}
			return fail(sig, "NewFilter(%q) failed (%s) but the expression is well formed and denotes %s",
				q, lxFirstLine(fr.err), string(c.F.T))
		}
		if c.F.Syn == false || c.F.V == "free" {
			if off == c.F.Off {
				info = append(info, "foff=eq")
			} else {
				info = append(info, "foff=ne")
			}
		} else {
			info = append(info, "fsem")
		}
	} else {
		if c.F.V == "reject" {
			sig := "accepts-malformed-filter"
			if c.F.Syn {
				sig = "accepts-semantically-invalid-filter"
			} else if cls := lxMustRejectClass(q, true); cls == "" {
				// outside the documented grammar, but in none of the classes the property says are
				// ALWAYS rejected: the parser may accept more than the documentation promises
				return Verdict{OK: true, Detail: "skipped: accepted outside the documented grammar (no always-rejected class)"}
			}
			return fail(sig, "NewFilter(%q) succeeded but the expression must be rejected", q)
		}
		if c.F.V == "accept" {
			var t lxTree
			if err := json.Unmarshal(c.F.T, &t); err != nil {
				panic("bad tree: " + err.Error())
			}
			n, v := lxProbeFilter(q, fr.f, &t)
			if !v.OK {
				return v
			}
			info = append(info, "fprobe="+strconv.Itoa(n))
		} else {
			info = append(info, "ffree")
		}
	}

	// ---- projection
	pr, hang := lxParseProj(q)
	if hang {
		return fail("hang", "ProjectionParser.Parse(%q) did not return within %v", q, lxTimeout)
	}
	if pr.panic != nil {
		return fail("panic", "ProjectionParser.Parse(%q) panicked: %v", q, pr.panic)
	}
	if pr.err != nil {
		v, off := lxCheckErr("projection", pr.err, q)
		if !v.OK {
			return v
		}
		if c.P.V == "accept" {
			sig := "rejects-wellformed-projection"
			if !c.P.Ab {
				sig = lxSigDefect3
			}
			return fail(sig, "ProjectionParser.Parse(%q) failed (%s) but the expression is well formed and denotes %s",
				q, lxFirstLine(pr.err), jsonStr(c.P.Fs))
		}
		if c.P.Syn == false || c.P.V == "free" {
			if off == c.P.Off {
				info = append(info, "poff=eq")
			} else {
				info = append(info, "poff=ne")
			}
		} else {
			info = append(info, "psem")
		}
	} else {
		if c.P.V == "reject" {
			sig := "accepts-malformed-projection"
			if c.P.Syn {
				sig = "accepts-semantically-invalid-projection"
			} else if cls := lxMustRejectClass(q, false); cls == "" {
				return Verdict{OK: true, Detail: "skipped: accepted outside the documented grammar (no always-rejected class)"}
			}
			return fail(sig, "ProjectionParser.Parse(%q) succeeded but the expression must be rejected", q)
		}
		if c.P.V == "accept" {
			n, v := lxProbeProj(q, pr, c.P.Fs)
			if !v.OK {
				return v
			}
			info = append(info, "pprobe="+strconv.Itoa(n))
		} else {
			info = append(info, "pfree")
		}
	}
	v := pass()
	v.Concrete = strings.Join(info, " ")
	return v
}

func lxFirstLine(err error) string {
	s := err.Error()
	if i := strings.IndexByte(s, '\n'); i >= 0 {
		s = s[:i]
	}
	return s
}

// ---------------------------------------------------------------- record

type lxEvent struct {
	Mode      string `json:"mode"` // quoted / bare
	Hex       string `json:"hex"`
	Str       string `json:"str"`
	OK        bool   `json:"ok"`
	Signature string `json:"signature,omitempty"`
	Detail    string `json:"detail,omitempty"`
	Exprs     int    `json:"exprs"`
	EndsBS    bool   `json:"ends_bs"`
}

var lxSpecialBytes = []byte("\"\\ ():@,-*/aANDOR\t\n\x00\x07\xff\xc3\xa9'`")

func lxRandString(r interface{ Intn(int) int }) string {
	n := r.Intn(9)
	if r.Intn(8) == 0 {
		n = r.Intn(40)
	}
	if r.Intn(4) == 0 {
		// whole runes, including ones whose UTF-8 encoding contains the bytes 0x85 / 0xA0
		// (NEL and NBSP when misread as Latin-1) or other bytes a byte-wise scanner could misjudge
		chunks := []string{"à", "Å", "ą", "全", "入", "é", "ß", "日", "a", "b", "1", "-", "*", "/", "=", ".", "\u00a0", "\u0085", "☃"}
		var sb strings.Builder
		for i := 0; i < 1+n%6; i++ {
			sb.WriteString(chunks[r.Intn(len(chunks))])
		}
		return sb.String()
	}
	b := make([]byte, n)
	style := r.Intn(3)
	for i := range b {
		switch {
		case style == 0 || r.Intn(3) == 0:
			b[i] = lxSpecialBytes[r.Intn(len(lxSpecialBytes))]
		default:
			b[i] = byte(r.Intn(256))
		}
	}
	if n > 0 && r.Intn(6) == 0 {
		b[n-1] = '\\'
	}
	return string(b)
}

func lxBareShape(s string) bool {
	if s == "" || s == "AND" || s == "OR" || !utf8.ValidString(s) {
		return false
	}
	for i, r := range s {
		if unicode.IsSpace(r) || strings.ContainsRune("():@,", r) {
			return false
		}
		if i == 0 && strings.ContainsRune("-*\"", r) {
			return false
		}
	}
	return true
}

// lxClosingQuoteAfterEvenBackslashes: the quoted form of s ends in an escaped backslash.
func lxEndsInBackslash(s string) bool { return strings.HasSuffix(s, "\\") }

// lxJudgeTerm checks that filter expression q (one term) parses and denotes (k, v).
func lxJudgeTerm(q, k, v string) (bool, string) {
	fr, hang := lxNewFilter(q)
	if hang {
		return false, "hang: NewFilter(" + strconv.Quote(q) + ")"
	}
	if fr.panic != nil {
		return false, fmt.Sprintf("panic: NewFilter(%q): %v", q, fr.panic)
	}
	if fr.err != nil {
		return false, fmt.Sprintf("reject: NewFilter(%q): %s", q, lxFirstLine(fr.err))
	}
	for _, probe := range append([]string{v, ""}, lxVariations(v)...) {
		res := lxResult(map[string]string{k: probe}, map[string]string{k + "a": v})
		if res == nil {
			continue
		}
		m, _ := fr.f.Match(res)
		if m.All() != (probe == v) {
			return false, fmt.Sprintf("denotation: NewFilter(%q) on %q=%q gives %v", q, k, probe, m.All())
		}
	}
	return true, ""
}

// lxJudgeProj checks that projection q parses and denotes the single field key with the
// fixed list {v} (fixed = true) or no order.
func lxJudgeProj(q, key string, fixed bool, v string) (bool, string) {
	pr, hang := lxParseProj(q)
	if hang {
		return false, "hang: Parse(" + strconv.Quote(q) + ")"
	}
	if pr.panic != nil {
		return false, fmt.Sprintf("panic: Parse(%q): %v", q, pr.panic)
	}
	if pr.err != nil {
		return false, fmt.Sprintf("reject: Parse(%q): %s", q, lxFirstLine(pr.err))
	}
	fs := pr.p.Fields()
	if len(fs) != 1 || fs[0].Name != key {
		return false, fmt.Sprintf("denotation: Parse(%q) has fields %v, want one field %q", q, fs, key)
	}
	for _, probe := range append([]string{v, "x"}, lxVariations(v)[:3]...) {
		res := lxResult(map[string]string{key: probe}, nil)
		if res == nil {
			continue
		}
		if got := pr.p.Project(res).Get(fs[0]); got != probe {
			return false, fmt.Sprintf("denotation: Parse(%q) projects %q, want %q", q, got, probe)
		}
		if fixed {
			m, _ := pr.filter.Match(res)
			if m.All() != (probe == v) {
				return false, fmt.Sprintf("denotation: Parse(%q) keeps value %q: %v", q, probe, m.All())
			}
		}
	}
	return true, ""
}

func lxRecord(out string, n int) error {
	ew, err := newEventWriter(out)
	if err != nil {
		return err
	}
	r := newRand(707)
	judge := func(mode, s string, w func(string) string) {
		ev := lxEvent{Mode: mode, Hex: hex.EncodeToString([]byte(s)), Str: strconv.Quote(s), OK: true, EndsBS: lxEndsInBackslash(s)}
		bad := func(msg string) {
			if ev.OK {
				ev.OK = false
				ev.Detail = msg
				cls := msg[:strings.IndexByte(msg, ':')]
				if mode == "quoted" && cls == "reject" && lxEndsInBackslash(s) {
					ev.Signature = lxSigDefect3
				} else {
					ev.Signature = "record-" + mode + "-" + cls
				}
			}
		}
		word := w(s)
		// as a value
		if ok, msg := lxJudgeTerm("k:"+word, "k", s); !ok && !(mode == "bare" && strings.HasPrefix(s, "/")) {
			bad(msg)
		}
		ev.Exprs++
		if ok, msg := lxJudgeProj("k@("+word+")", "k", true, s); !ok {
			bad(msg)
		}
		ev.Exprs++
		// as a key
		if cls := lxKeyClass(s); cls == "config" || (cls == "name" && mode == "quoted") {
			if ok, msg := lxJudgeTerm(word+":v", s, "v"); !ok {
				bad(msg)
			}
			if ok, msg := lxJudgeProj(word, s, false, "v"); !ok {
				bad(msg)
			}
			ev.Exprs += 2
		}
		// both at once, inside a larger expression
		if lxKeyClass(s) == "config" {
			q := "-(x:y) " + word + ":" + word + " OR z:" + word
			fr, hang := lxNewFilter(q)
			if hang || fr.panic != nil || fr.err != nil {
				bad(fmt.Sprintf("reject: NewFilter(%q): hang=%v panic=%v err=%v", q, hang, fr.panic, fr.err))
			} else {
				for _, probe := range []string{s, s + "a"} {
					res := lxResult(map[string]string{s: probe}, nil)
					m, _ := fr.f.Match(res)
					if m.All() != (probe == s) {
						bad(fmt.Sprintf("denotation: NewFilter(%q) on %q=%q gives %v", q, s, probe, m.All()))
					}
				}
			}
			ev.Exprs++
		}
		ew.emit(&ev)
		if lxHangs > 0 {
			ew.close()
			fmt.Fprintf(os.Stderr, "lexer record: stopped after a call that never returned (%d events)\n", ew.n)
			os.Exit(0)
		}
	}
	for i := 0; i < n; i++ {
		judge("quoted", lxRandString(r), strconv.Quote)
	}
	// bare words of the documented shape
	// includes runes whose UTF-8 encoding contains the bytes 0x85 / 0xA0 (à Å ą 全 入)
	const bareAlpha = "abzAND OR-*/\"\\.=+_é世'#~%$àÅą全入"
	for i := 0; i < n/2; i++ {
		m := 1 + r.Intn(6)
		var b strings.Builder
		rs := []rune(bareAlpha)
		for j := 0; j < m; j++ {
			b.WriteRune(rs[r.Intn(len(rs))])
		}
		s := b.String()
		if !lxBareShape(s) {
			continue
		}
		judge("bare", s, func(x string) string { return x })
	}
	// "bad expressions fail cleanly": arbitrary short texts over the characters the syntax knows about
	// and some it does not (non-ASCII white space, brackets, carets): both parsers must come back -
	// no hang, no panic - and an error must be a syntax error positioned inside the text.  Nothing is
	// said about WHAT they answer (that is the model's business on its alphabet).
	soupAlpha := []string{"a", "b", ":", "/", "[", "]", "^", "(", ")", "\"", "\\", " ", "\u00a0", "\u3000", "\u0085", "\u2003", "@", ",", "-", "*",
		"|", " OR ", " AND ", "é", "k:", "/[", "[^", ".unit", ".config", "@(", "\t"}
	for i := 0; i < n; i++ {
		var b strings.Builder
		for j, m := 0, 1+r.Intn(7); j < m; j++ {
			b.WriteString(soupAlpha[r.Intn(len(soupAlpha))])
		}
		s := b.String()
		ev := lxEvent{Mode: "soup", Hex: hex.EncodeToString([]byte(s)), Str: strconv.Quote(s), OK: true, Exprs: 2}
		bad := func(sig, msg string) {
			if ev.OK {
				ev.OK, ev.Signature, ev.Detail = false, sig, msg
			}
		}
		fr, hang := lxNewFilter(s)
		switch {
		case hang:
			bad("hang", fmt.Sprintf("NewFilter(%q) did not return within %v", s, lxTimeout))
		case fr.panic != nil:
			bad("panic", fmt.Sprintf("NewFilter(%q) panicked: %v", s, fr.panic))
		case fr.err != nil:
			if v, _ := lxCheckErr("NewFilter", fr.err, s); !v.OK {
				bad(v.Signature, v.Detail)
			}
		}
		if lxHangs == 0 {
			pr, hang := lxParseProj(s)
			switch {
			case hang:
				bad("hang", fmt.Sprintf("ProjectionParser.Parse(%q) did not return within %v", s, lxTimeout))
			case pr.panic != nil:
				bad("panic", fmt.Sprintf("ProjectionParser.Parse(%q) panicked: %v", s, pr.panic))
			case pr.err != nil:
				if v, _ := lxCheckErr("Parse", pr.err, s); !v.OK {
					bad(v.Signature, v.Detail)
				}
			}
		}
		ew.emit(&ev)
		if lxHangs > 0 {
			ew.close()
			fmt.Fprintf(os.Stderr, "lexer record: stopped after a call that never returned (%d events)\n", ew.n)
			os.Exit(0)
		}
	}
	// long expressions: the same quoted words, dozens to hundreds of them in one expression - wide
	// disjunctions of groups, runs of negations, long value lists, deep nesting, long field lists.
	// The rule is the one above (each quoted word denotes exactly its string; connectives have their
	// ordinary meaning), and ".config in a filter is always rejected" however long the list it heads.
	sizes := []int{3, 9, 12, 33, 101, 150, 400}
	if thorough() {
		sizes = append(sizes, 7, 8, 10, 17, 64, 65, 99, 100, 127, 128, 129, 257, 1000, 3000)
	}
	for _, N := range sizes {
		for rep := 0; rep < 2; rep++ {
			vals := make([]string, N)
			in := map[string]bool{}
			for i := range vals {
				vals[i] = fmt.Sprintf("%s#%d", lxRandString(r), i)
				in[vals[i]] = true
			}
			qv := func(i int) string { return strconv.Quote(vals[i]) }
			join := func(f func(i int) string, sep string) string {
				parts := make([]string, N)
				for i := range parts {
					parts[i] = f(i)
				}
				return strings.Join(parts, sep)
			}
			ev := lxEvent{Mode: "long", Hex: hex.EncodeToString([]byte(fmt.Sprintf("N=%d rep=%d", N, rep))), Str: fmt.Sprintf("%d quoted words, first %s", N, qv(0)), OK: true}
			bad := func(sig, msg string) {
				if ev.OK {
					if len(msg) > 600 {
						msg = msg[:600] + "..."
					}
					ev.OK, ev.Signature, ev.Detail = false, sig, msg
				}
			}
			probes := []string{vals[0], vals[N-1], vals[N/2], vals[N/3], "nope", "", vals[0] + "x"}
			filter := func(what, q string, want func(probe string) bool) {
				ev.Exprs++
				fr, hang := lxNewFilter(q)
				switch {
				case hang:
					bad("hang", fmt.Sprintf("NewFilter(%s of %d words) did not return within %v", what, N, lxTimeout))
					return
				case fr.panic != nil:
					bad("panic", fmt.Sprintf("NewFilter(%s of %d words) panicked: %v", what, N, fr.panic))
					return
				case fr.err != nil:
					bad("record-long-reject", fmt.Sprintf("NewFilter(%s of %d words): %s: %.300s", what, N, lxFirstLine(fr.err), q))
					return
				}
				for _, probe := range probes {
					res := lxResult(map[string]string{"k": probe}, map[string]string{"ka": vals[0]})
					if res == nil {
						continue
					}
					m, _ := fr.f.Match(res)
					if m.All() != want(probe) {
						bad("record-long-denotation", fmt.Sprintf("NewFilter(%s of %d words) on k=%q gives %v: %.300s", what, N, probe, m.All(), q))
						return
					}
				}
			}
			isIn := func(p string) bool { return in[p] }
			notIn := func(p string) bool { return !in[p] }
			filter("an OR of parenthesised terms", join(func(i int) string { return "(k:" + qv(i) + ")" }, " OR "), isIn)
			filter("an OR of terms", join(func(i int) string { return "k:" + qv(i) }, " OR "), isIn)
			filter("a run of negated terms", join(func(i int) string { return "-k:" + qv(i) }, " "), notIn)
			filter("a conjunction of negated groups", join(func(i int) string { return "-(k:" + qv(i) + ")" }, " AND "), notIn)
			filter("a value list", "k:("+join(qv, " OR ")+")", isIn)
			filter("a negated value list", "-k:("+join(qv, " OR ")+")", notIn)
			isFirst := func(p string) bool { return p == vals[0] }
			filter("nested parentheses", strings.Repeat("(", N)+"k:"+qv(0)+strings.Repeat(")", N), isFirst)
			filter("nested negations (an even number)", strings.Repeat("-(", 2*N)+"k:"+qv(0)+strings.Repeat(")", 2*N), isFirst)
			// .config in a filter: rejected, with a position, whatever follows
			for what, q := range map[string]string{
				"a .config value list":        ".config:(" + join(qv, " OR ") + ")",
				"an OR of .config terms":      join(func(i int) string { return ".config:" + qv(i) }, " OR "),
				"a negated .config list":      "-(.config:(" + join(qv, " OR ") + "))",
				"a .config term after others": join(func(i int) string { return "k:" + qv(i) }, " OR ") + " OR .config:" + qv(0),
			} {
				ev.Exprs++
				fr, hang := lxNewFilter(q)
				switch {
				case hang:
					bad("hang", fmt.Sprintf("NewFilter(%s of %d words) did not return within %v", what, N, lxTimeout))
				case fr.panic != nil:
					bad("panic", fmt.Sprintf("NewFilter(%s of %d words) panicked: %v", what, N, fr.panic))
				case fr.err == nil:
					bad("record-long-config-accepted", fmt.Sprintf("NewFilter(%s of %d words) accepted: %.300s", what, N, q))
				default:
					if v, _ := lxCheckErr("NewFilter", fr.err, q); !v.OK {
						bad(v.Signature, v.Detail)
					}
				}
			}
			// projections: a fixed list of N values, and N fields
			if lxHangs == 0 {
				ev.Exprs++
				q := "k@(" + join(qv, " ") + ")"
				pr, hang := lxParseProj(q)
				switch {
				case hang:
					bad("hang", fmt.Sprintf("Parse(fixed list of %d words) did not return within %v", N, lxTimeout))
				case pr.panic != nil:
					bad("panic", fmt.Sprintf("Parse(fixed list of %d words) panicked: %v", N, pr.panic))
				case pr.err != nil:
					bad("record-long-reject", fmt.Sprintf("Parse(fixed list of %d words): %s", N, lxFirstLine(pr.err)))
				default:
					fs := pr.p.Fields()
					if len(fs) != 1 || fs[0].Name != "k" {
						bad("record-long-denotation", fmt.Sprintf("Parse(fixed list of %d words) has fields %v", N, fs))
						break
					}
					for _, probe := range probes {
						res := lxResult(map[string]string{"k": probe}, nil)
						if res == nil {
							continue
						}
						m, _ := pr.filter.Match(res)
						if m.All() != in[probe] {
							bad("record-long-denotation", fmt.Sprintf("Parse(fixed list of %d words) keeps k=%q: %v", N, probe, m.All()))
							break
						}
						if m.All() {
							if got := pr.p.Project(res).Get(fs[0]); got != probe {
								bad("record-long-denotation", fmt.Sprintf("Parse(fixed list of %d words) projects k=%q as %q", N, probe, got))
								break
							}
						}
					}
				}
			}
			if lxHangs == 0 {
				ev.Exprs++
				key := func(i int) string { return "key" + vals[i] }
				q := join(func(i int) string { return strconv.Quote(key(i)) }, ",")
				pr, hang := lxParseProj(q)
				switch {
				case hang:
					bad("hang", fmt.Sprintf("Parse(%d fields) did not return within %v", N, lxTimeout))
				case pr.panic != nil:
					bad("panic", fmt.Sprintf("Parse(%d fields) panicked: %v", N, pr.panic))
				case pr.err != nil:
					bad("record-long-reject", fmt.Sprintf("Parse(%d fields): %s", N, lxFirstLine(pr.err)))
				default:
					fs := pr.p.Fields()
					if len(fs) != N {
						bad("record-long-denotation", fmt.Sprintf("Parse(%d fields) has %d fields", N, len(fs)))
						break
					}
					assign := map[string]string{}
					for i := 0; i < N; i++ {
						if fs[i].Name != key(i) {
							bad("record-long-denotation", fmt.Sprintf("Parse(%d fields): field %d is %q, want %q", N, i, fs[i].Name, key(i)))
							break
						}
						if i%3 != 1 {
							assign[key(i)] = fmt.Sprintf("value-%d", i)
						}
					}
					if res := lxResult(assign, nil); res != nil && ev.OK {
						pk := pr.p.Project(res)
						for i := 0; i < N; i++ {
							if got := pk.Get(fs[i]); got != assign[key(i)] {
								bad("record-long-denotation", fmt.Sprintf("Parse(%d fields): field %d (%q) projects %q, want %q", N, i, key(i), got, assign[key(i)]))
								break
							}
						}
					}
				}
			}
			ew.emit(&ev)
			if lxHangs > 0 {
				ew.close()
				fmt.Fprintf(os.Stderr, "lexer record: stopped after a call that never returned (%d events)\n", ew.n)
				os.Exit(0)
			}
		}
	}
	if err := ew.close(); err != nil {
		return err
	}
	fmt.Fprintf(os.Stderr, "lexer record: %d events\n", ew.n)
	return nil
}

// lxMustRejectClass names the class of always-rejected texts (property C07: unbalanced
// parentheses, an unterminated quoted word or regexp, a term lacking ':' or a value, an empty fixed
// list, an unknown sort order) that q belongs to, or "" if it is recognisably in none.  The
// detectors are deliberately conservative: where quoting or regexps make the lexical structure
// position-dependent they only answer for texts whose structure is unambiguous.
func lxMustRejectClass(q string, filter bool) string {
	hasQuote := strings.ContainsAny(q, "\"\\")
	hasSlash := strings.Contains(q, "/")
	// unterminated quoted word: an odd number of quotes with no escapes around
	if !strings.Contains(q, "\\") && !hasSlash && strings.Count(q, "\"")%2 == 1 {
		return "unterminated-quote"
	}
	if filter && !hasQuote && strings.Count(q, "/") == 1 && strings.Contains(q, ":/") {
		return "unterminated-regexp"
	}
	if hasQuote || hasSlash {
		return ""
	}
	// parentheses are syntactic here
	depth := 0
	for _, r := range q {
		switch r {
		case '(':
			depth++
		case ')':
			depth--
			if depth < 0 {
				return "unbalanced-parentheses"
			}
		}
	}
	if depth != 0 {
		return "unbalanced-parentheses"
	}
	if !filter {
		if m := regexp.MustCompile(`@\(\s*\)`).FindString(q); m != "" {
			return "empty-fixed-list"
		}
		for _, m := range regexp.MustCompile(`@([^\s(),@:]+)`).FindAllStringSubmatch(q, -1) {
			if m[1] != "alpha" && m[1] != "num" && m[1] != "first" {
				return "unknown-sort-order"
			}
		}
		return ""
	}
	// filter without quotes, slashes: terms are blank-separated outside value lists
	if strings.ContainsAny(q, "()@,") {
		return ""
	}
	for _, w := range strings.Fields(q) {
		if w == "AND" || w == "OR" || w == "*" {
			continue
		}
		w = strings.TrimLeft(w, "-")
		if w == "" || w == "*" {
			continue
		}
		i := strings.Index(w, ":")
		if i < 0 {
			return "term-lacking-colon"
		}
		if i == len(w)-1 {
			return "term-lacking-value"
		}
	}
	return ""
}
