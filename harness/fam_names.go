package main

// Family "names" (C05): every name TLC enumerated (spec/Names_gen.tla) is driven
// through the real code and compared with what the declarative side of
// spec/Names.tla says:
//
//   - benchfmt.Name.Full / Base / Parts (base, parts, base+parts == name, name
//     bytes untouched);
//   - for every key kind (.name, .fullname, /k, /a, /kk, /gomaxprocs, plain keys
//     that are configured / not configured) a single-field projection
//     (benchproc.ProjectionParser.Parse + Projection.Project + Key.Get);
//   - for every key kind the literal filter key:"value" (value quoted with
//     strconv.Quote), which must match for the expected value and must not match
//     for one-character variations of it; plus the conjunction of all of them.
//
// The abstract symbols are made concrete per case from VERIF_SEED and a hash of the
// name (so the choice does not depend on the order TLC printed the cases in):
//
//	a  an ASCII letter, a multi-byte rune or an invalid UTF-8 byte sequence
//	1  an ASCII digit
//	k  an ordinary key word (k, size, gomaxproc, ...) with table x0, and in a
//	   second pass the word "gomaxprocs" with table x1
//	K, C, Z  plain configuration keys (K is spelled like k, without the slash),
//	   vK, vC their values
//
// The concrete strings for a and k are chosen so that neither is a prefix of the
// other and neither contains '/', '=', '-' or a digit; the map symbol -> bytes is
// then a prefix code, so prefix and equality relations between symbol strings and
// between their concrete images coincide and the spec's answer carries over.
// The one key that is not the image of a symbol string, /gomaxprocs in the pass
// where k is an ordinary word, additionally needs that "gomaxprocs" cannot be
// spelled by concatenating the concrete a and k (nmSpells).

import (
	"bufio"
	"bytes"
	"encoding/json"
	"fmt"
	"os"
	"runtime"
	"strconv"
	"strings"
	"sync"
	"sync/atomic"
	"unicode"
	"unicode/utf8"

	"golang.org/x/perf/benchfmt"
	"golang.org/x/perf/benchproc"
)

func init() { register("names", famNames) }

type nmTable struct {
	Name string `json:"name"`
	Full string `json:"full"`
	K    string `json:"k"`
	A    string `json:"a"`
	KK   string `json:"kk"`
	G    string `json:"g"`
	PK   string `json:"pK"`
	PC   string `json:"pC"`
	PZ   string `json:"pZ"`
}

type nmCase struct {
	N  string   `json:"n"`
	B  string   `json:"b"`
	P  []string `json:"p"`
	CK bool     `json:"ck"`
	CC bool     `json:"cc"`
	X0 nmTable  `json:"x0"`
	X1 nmTable  `json:"x1"`
}

// ---------------------------------------------------------------- choices

type nmRng struct{ s uint64 }

func (r *nmRng) next() uint64 {
	r.s += 0x9e3779b97f4a7c15
	z := r.s
	z = (z ^ (z >> 30)) * 0xbf58476d1ce4e5b9
	z = (z ^ (z >> 27)) * 0x94d049bb133111eb
	return z ^ (z >> 31)
}
func (r *nmRng) intn(n int) int { return int(r.next() % uint64(n)) }
func (r *nmRng) pick(l []string) string {
	return l[r.intn(len(l))]
}

func nmHash(s string) uint64 {
	h := uint64(14695981039346656037)
	for i := 0; i < len(s); i++ {
		h ^= uint64(s[i])
		h *= 1099511628211
	}
	return h
}

var nmLetters = strings.Split("a b c d e f g h i j k l m n o p q r s t u v w x y z A B C G K N S X Z Benchmark Benchmarks Unit", " ")
var nmRunes = []string{"é", "ß", "Ω", "世", "😀", "ж", "\u00a0", "\u2028", "\uff4b", "\u0663"} // incl. non-breaking space, line separator, full-width k, Arabic-Indic digit three
var nmInvalid = []string{"\xff", "\x80", "\xc3", "\xe4\xb8", "\xf0\x9f", "\xc0\xaf", "\xed\xa0\x80"}
var nmKeyWords = []string{"k", "size", "K", "gomaxproc", "gomaxprocss", "é", "GOMAXPROCS", "procs", "name", "fullname"}
var nmValues = []string{"v1", "amd64", "7", "a b", "é", "\xff", "x=y", "/k=1", "-4", "linux", "1.5GHz", "v", "vv", "世界", "*", "AND"}
var nmOtherKeys = []string{"goos", "pkg", "note", "c", "cpu", "sub", "name", "gomaxprocsx"}
var nmAbsentKeys = []string{"absent", "goarch", "z", "toolchain", "k=", "fullname"}

type nmConc struct {
	a, k, d  string
	kIsG     bool
	keyK     string // plain key K (spelled like k)
	keyC     string
	keyZ     string
	vK, vC   string
	fileK    bool
	fileC    bool
	swap     bool // C before K in Result.Config
	extra    bool // an unrelated configuration key is present too
	quoteAll bool // quote every key even when a bare word would do
}

func (c *nmConc) String() string {
	return fmt.Sprintf("a=%q k=%q 1=%q K=%q C=%q Z=%q vK=%q vC=%q", c.a, c.k, c.d, c.keyK, c.keyC, c.keyZ, c.vK, c.vC)
}

// str maps a string of symbols to concrete bytes.
func (c *nmConc) str(s string) string {
	var b strings.Builder
	for i := 0; i < len(s); i++ {
		switch s[i] {
		case 'a':
			b.WriteString(c.a)
		case 'k':
			b.WriteString(c.k)
		case '1':
			b.WriteString(c.d)
		case '/', '=', '-':
			b.WriteByte(s[i])
		default:
			panic(fmt.Sprintf("unknown symbol %q in %q", s[i], s))
		}
	}
	return b.String()
}

func (c *nmConc) val(s string) string {
	switch s {
	case "vK":
		return c.vK
	case "vC":
		return c.vC
	}
	return c.str(s)
}

func nmPrefixClash(x, y string) bool {
	return strings.HasPrefix(x, y) || strings.HasPrefix(y, x)
}

// nmSpells reports whether word is a concatenation of copies of x and y.
func nmSpells(word, x, y string) bool {
	ok := make([]bool, len(word)+1)
	ok[0] = true
	for i := 0; i < len(word); i++ {
		if !ok[i] {
			continue
		}
		for _, w := range []string{x, y} {
			if w != "" && strings.HasPrefix(word[i:], w) {
				ok[i+len(w)] = true
			}
		}
	}
	return ok[len(word)]
}

// nmConcretise makes the choices for pass 0 (k ordinary) or 1 (k = gomaxprocs).
func nmConcretise(name string, pass int) *nmConc {
	r := &nmRng{s: nmHash(name)*31 + uint64(seed())*0x9e3779b97f4a7c15 + uint64(pass)*7919}
	c := &nmConc{kIsG: pass == 1}
	if c.kIsG {
		c.k = "gomaxprocs"
	} else {
		c.k = r.pick(nmKeyWords)
	}
	// class of a: rotates with the seed, the name and the pass so that one run sees
	// all three classes for (nearly) every name shape and two of them for every name
	class := int((nmHash(name)>>8+uint64(seed()))%3+uint64(pass)) % 3
	for {
		switch class {
		case 0:
			c.a = r.pick(nmLetters)
		case 1:
			c.a = r.pick(nmRunes)
		default:
			c.a = r.pick(nmInvalid)
		}
		// In pass 0 the key /gomaxprocs is tested with the spec's answer for a name
		// that contains no explicit /gomaxprocs= segment, so the word must not be
		// spellable with the concrete a and k (e.g. k = "gomaxproc", a = "s").
		if !nmPrefixClash(c.a, c.k) && (c.kIsG || !nmSpells("gomaxprocs", c.a, c.k)) {
			break
		}
	}
	c.d = string(rune('0' + r.intn(10)))
	switch r.intn(8) {
	case 0:
		// the digit symbol stands for a run of digits: one that no machine integer holds
		c.d = []string{"99999999999999999999", "18446744073709551616", "9223372036854775808"}[r.intn(3)]
	case 1:
		c.d = []string{"007", "00", "10"}[r.intn(3)]
	}
	c.keyK = c.k
	for {
		if r.intn(3) == 0 {
			c.keyC = c.a
		} else {
			c.keyC = r.pick(nmOtherKeys)
		}
		c.keyZ = r.pick(nmAbsentKeys)
		if c.keyC != c.keyK && c.keyZ != c.keyK && c.keyC != c.keyZ {
			break
		}
	}
	for {
		c.vK = r.pick(nmValues)
		c.vC = r.pick(nmValues)
		if c.vK != c.vC {
			break
		}
	}
	c.fileK = r.intn(2) == 0
	c.fileC = r.intn(2) == 0
	c.swap = r.intn(2) == 0
	c.extra = r.intn(4) == 0
	c.quoteAll = r.intn(3) == 0
	return c
}

// ---------------------------------------------------------------- expression syntax

// nmBareOK reports whether s can be written as a bare word in a filter or
// projection expression (benchproc/syntax: no space, no operator character, no
// quote, not starting with '-' or '*'); values starting with '/' would be regexps.
func nmBareOK(s string, isValue bool) bool {
	if s == "" || !utf8.ValidString(s) {
		return false
	}
	if s == "AND" || s == "OR" {
		return false
	}
	for i, r := range s {
		if unicode.IsSpace(r) || r == '(' || r == ')' || r == ':' || r == '@' || r == ',' || r == '"' || r == '\\' {
			return false
		}
		if i == 0 && (r == '-' || r == '*' || (isValue && r == '/')) {
			return false
		}
		if !unicode.IsPrint(r) {
			return false
		}
	}
	return true
}

func (c *nmConc) word(s string, isValue bool, r *nmRng) string {
	if !c.quoteAll && nmBareOK(s, isValue) && r.intn(2) == 0 {
		return s
	}
	return strconv.Quote(s)
}

// nmVariations returns strings that differ from v by one character (one appended,
// one removed, or one replaced).
func nmVariations(v string, r *nmRng) []string {
	var out []string
	add := func(s string) {
		if s == v {
			return
		}
		for _, o := range out {
			if o == s {
				return
			}
		}
		out = append(out, s)
	}
	extra := []string{"x", "1", "-", "/", "=", "é", " "}
	if v == "" {
		add(r.pick(extra))
		add(r.pick(extra))
		return out
	}
	// drop the last character (a whole rune if it is one)
	_, n := utf8.DecodeLastRuneInString(v)
	add(v[:len(v)-n])
	switch r.intn(3) {
	case 0:
		add(v + r.pick(extra))
	case 1:
		_, n := utf8.DecodeRuneInString(v)
		add(v[n:])
	default:
		// replace one byte by a different ASCII character
		i := r.intn(len(v))
		b := []byte(v)
		if b[i] == 'y' {
			b[i] = 'z'
		} else {
			b[i] = 'y'
		}
		add(string(b))
	}
	return out
}

// ---------------------------------------------------------------- the case

type nmKeyExp struct {
	kind string // stable name of the key kind (used in signatures)
	key  string // concrete key text
	want string // concrete expected value
}

func famNames(mode string, args []string) error {
	switch mode {
	case "replay":
		return nmReplayParallel(args)
	}
	return fmt.Errorf("names: unknown mode %q", mode)
}

// nmReplayParallel is replayLoop with the cases of one chunk spread over several
// goroutines (the code under test is a set of pure functions of the Result; every
// case builds its own Result, parsers, projections and filters).  Verdicts are
// written in input order, one per case, panics are caught per case.
func nmReplayParallel(args []string) error {
	if len(args) < 2 {
		return fmt.Errorf("replay needs <cases> <verdicts>")
	}
	in, err := os.Open(args[0])
	if err != nil {
		return err
	}
	defer in.Close()
	out, err := os.Create(args[1])
	if err != nil {
		return err
	}
	defer out.Close()
	w := bufio.NewWriterSize(out, 1<<20)
	defer w.Flush()
	enc := json.NewEncoder(w)
	sc := bufio.NewScanner(in)
	sc.Buffer(make([]byte, 1<<20), 1<<28)
	workers := 8
	if thorough() {
		workers = 16
	}
	if n := runtime.NumCPU(); n < workers {
		workers = n
	}
	const chunk = 8192
	lines := make([][]byte, 0, chunk)
	flush := func() error {
		verdicts := make([]Verdict, len(lines))
		var next int64 = -1
		var wg sync.WaitGroup
		for g := 0; g < workers; g++ {
			wg.Add(1)
			go func() {
				defer wg.Done()
				for {
					i := int(atomic.AddInt64(&next, 1))
					if i >= len(lines) {
						return
					}
					var hdr struct {
						ID json.RawMessage `json:"id"`
					}
					if err := json.Unmarshal(lines[i], &hdr); err != nil {
						verdicts[i] = Verdict{OK: false, Signature: "bad-case-line", Detail: err.Error()}
						continue
					}
					v := safeCall(nmReplay, lines[i])
					v.ID = hdr.ID
					v.Family = "names"
					verdicts[i] = v
				}
			}()
		}
		wg.Wait()
		// long-lived objects: the same cases once more, in order, through one reused
		// Result and projections that live for the whole run
		for i := range lines {
			if !verdicts[i].OK {
				continue
			}
			if v := safeCall(nmStreamCase, lines[i]); !v.OK {
				v.ID, v.Family = verdicts[i].ID, "names"
				verdicts[i] = v
			}
		}
		for i := range verdicts {
			if verdicts[i].Signature == "bad-case-line" {
				return fmt.Errorf("bad case line: %s", verdicts[i].Detail)
			}
			if err := enc.Encode(&verdicts[i]); err != nil {
				return err
			}
		}
		lines = lines[:0]
		return nil
	}
	for sc.Scan() {
		if len(sc.Bytes()) == 0 {
			continue
		}
		lines = append(lines, append([]byte(nil), sc.Bytes()...))
		if len(lines) == chunk {
			if err := flush(); err != nil {
				return err
			}
		}
	}
	if err := sc.Err(); err != nil {
		return err
	}
	return flush()
}

func nmReplay(raw json.RawMessage) Verdict {
	var c nmCase
	if err := json.Unmarshal(raw, &c); err != nil {
		panic(fmt.Sprintf("bad names case: %v", err))
	}
	for pass := 0; pass < 2; pass++ {
		conc := nmConcretise(c.N, pass)
		tab := &c.X0
		if pass == 1 {
			tab = &c.X1
		}
		if v := nmRun(&c, tab, conc, pass); !v.OK {
			v.Concrete = conc.String()
			return v
		}
	}
	return pass()
}

func nmRun(c *nmCase, tab *nmTable, conc *nmConc, passNo int) Verdict {
	r := &nmRng{s: nmHash(c.N)*131 + uint64(seed())*977 + uint64(passNo)}
	name := conc.str(c.N)
	wantBase := conc.str(c.B)
	wantParts := make([]string, len(c.P))
	for i, p := range c.P {
		wantParts[i] = conc.str(p)
	}

	// --- benchfmt.Name
	nm := benchfmt.Name(name)
	orig := []byte(name)
	if got := nm.Full(); string(got) != name {
		return fail("full", "Name(%q).Full() = %q", name, got)
	}
	if got := nm.String(); got != name {
		return fail("full", "Name(%q).String() = %q", name, got)
	}
	if got := nm.Base(); string(got) != wantBase {
		return fail("base", "Name(%q).Base() = %q, want %q", name, got, wantBase)
	}
	gotBase, gotParts := nm.Parts()
	if string(gotBase) != wantBase {
		return fail("parts-base", "Name(%q).Parts() base = %q, want %q", name, gotBase, wantBase)
	}
	if len(gotParts) != len(wantParts) {
		return fail("parts", "Name(%q).Parts() parts = %q, want %q", name, gotParts, wantParts)
	}
	cat := append([]byte(nil), gotBase...)
	for i := range gotParts {
		if string(gotParts[i]) != wantParts[i] {
			return fail("parts", "Name(%q).Parts() parts = %q, want %q", name, gotParts, wantParts)
		}
		cat = append(cat, gotParts[i]...)
	}
	if string(cat) != name {
		return fail("concat", "Name(%q): base+parts = %q", name, cat)
	}
	if !bytes.Equal(nm, orig) {
		return fail("name-mutated", "Name(%q) changed to %q by Base/Parts", name, []byte(nm))
	}

	// --- the result with its configuration
	res := &benchfmt.Result{Name: nm, Iters: 1, Values: []benchfmt.Value{{Value: 1, Unit: "sec/op"}}}
	var cfgs []benchfmt.Config
	if c.CK {
		cfgs = append(cfgs, benchfmt.Config{Key: conc.keyK, Value: []byte(conc.vK), File: conc.fileK})
	}
	if c.CC {
		cfgs = append(cfgs, benchfmt.Config{Key: conc.keyC, Value: []byte(conc.vC), File: conc.fileC})
	}
	if conc.swap && len(cfgs) == 2 {
		cfgs[0], cfgs[1] = cfgs[1], cfgs[0]
	}
	if conc.extra {
		cfgs = append(cfgs, benchfmt.Config{Key: "unrelated", Value: []byte("u"), File: true})
	}
	if r.intn(2) == 0 {
		res.Config = cfgs
	} else {
		for _, cf := range cfgs {
			// SetConfig creates the key as internal configuration; the file flag is a
			// plain field of the entry
			res.SetConfig(cf.Key, string(cf.Value))
			i, _ := res.ConfigIndex(cf.Key)
			res.Config[i].File = cf.File
		}
	}

	// --- the key table
	keys := []nmKeyExp{
		{"name", ".name", conc.str(tab.Name)},
		{"fullname", ".fullname", conc.str(tab.Full)},
		{"sub-k", "/" + conc.k, conc.str(tab.K)},
		{"sub-a", "/" + conc.a, conc.str(tab.A)},
		{"sub-kk", "/" + conc.k + conc.k, conc.str(tab.KK)},
		{"gomaxprocs", "/gomaxprocs", conc.str(tab.G)},
		{"plain", conc.keyK, conc.val(tab.PK)},
		{"plain", conc.keyC, conc.val(tab.PC)},
		{"plain-absent", conc.keyZ, conc.val(tab.PZ)},
	}
	if conc.kIsG {
		keys[2].kind = "gomaxprocs"
	}
	var all []string
	for _, ke := range keys {
		// single-field projection
		var pp benchproc.ProjectionParser
		expr := conc.word(ke.key, false, r)
		proj, err := pp.Parse(expr, nil)
		if err != nil {
			return fail("parse-error", "projection %s: %v", expr, err)
		}
		fields := proj.Fields()
		if len(fields) != 1 || fields[0].Name != ke.key {
			return fail("projection-fields", "projection %s has fields %v", expr, fields)
		}
		got := proj.Project(res).Get(fields[0])
		if got != ke.want {
			return fail("proj:"+ke.kind, "name %q config %s: projection %s = %q, want %q", name, nmCfgString(res), expr, got, ke.want)
		}
		// literal filter, exact value
		term := conc.word(ke.key, false, r) + ":" + strconv.Quote(ke.want)
		ok, err := nmMatch(term, res)
		if err != nil {
			return fail("parse-error", "filter %s: %v", term, err)
		}
		if !ok {
			return fail("filter-exact:"+ke.kind, "name %q config %s: filter %s does not match (projection gave %q)", name, nmCfgString(res), term, got)
		}
		all = append(all, term)
		if nmBareOK(ke.want, true) {
			// the same literal as a bare word
			term := conc.word(ke.key, false, r) + ":" + ke.want
			ok, err := nmMatch(term, res)
			if err != nil {
				return fail("parse-error", "filter %s: %v", term, err)
			}
			if !ok {
				return fail("filter-exact:"+ke.kind, "name %q config %s: filter %s does not match", name, nmCfgString(res), term)
			}
		}
		// one-character variations must not match
		for _, v := range nmVariations(ke.want, r) {
			term := conc.word(ke.key, false, r) + ":" + strconv.Quote(v)
			ok, err := nmMatch(term, res)
			if err != nil {
				return fail("parse-error", "filter %s: %v", term, err)
			}
			if ok {
				return fail("filter-variation:"+ke.kind, "name %q config %s: filter %s matches although the value is %q", name, nmCfgString(res), term, ke.want)
			}
		}
	}
	// the conjunction of all exact terms
	q := strings.Join(all, " ")
	ok, err := nmMatch(q, res)
	if err != nil {
		return fail("parse-error", "filter %s: %v", q, err)
	}
	if !ok {
		return fail("filter-conjunction", "name %q config %s: filter %s does not match", name, nmCfgString(res), q)
	}
	if !bytes.Equal(res.Name, orig) {
		return fail("name-mutated", "Name(%q) changed to %q by projections/filters", name, []byte(res.Name))
	}
	return pass()
}

func nmMatch(query string, res *benchfmt.Result) (bool, error) {
	f, err := benchproc.NewFilter(query)
	if err != nil {
		return false, err
	}
	m, err := f.Match(res)
	if err != nil {
		return false, err
	}
	all, any := m.All(), m.Any()
	if all != any {
		return false, fmt.Errorf("Match.All()=%v but Match.Any()=%v for a whole-result term", all, any)
	}
	if m.Test(0) != all {
		return false, fmt.Errorf("Match.Test(0)=%v but Match.All()=%v", m.Test(0), all)
	}
	return all, nil
}

func nmCfgString(res *benchfmt.Result) string {
	var b strings.Builder
	b.WriteByte('{')
	for i, c := range res.Config {
		if i > 0 {
			b.WriteByte(' ')
		}
		fmt.Fprintf(&b, "%q:%q", c.Key, c.Value)
	}
	b.WriteByte('}')
	return b.String()
}

// ---------------------------------------------------------------- long-lived objects
//
// The extraction rules are functions of the Result's current content.  The stream
// pass checks that with objects that have a history: one Result whose name and
// configuration are rewritten in place from case to case (same backing arrays, so
// consecutive names of equal length sit at the same address), projections of two
// and more fields that are created once per field list and see every case (their
// key tables grow; tuples such as ("x1","2") and ("x","12") meet in them), and a
// clone of the Result whose configuration is then edited.  Expected values are the
// specification's, as in nmRun.

type nmLive struct {
	proj   *benchproc.Projection
	fields []*benchproc.Field
	byTup  map[string]benchproc.Key
	byKey  map[benchproc.Key]string
}

var nmLives = map[string]*nmLive{}
var nmStreamRes = &benchfmt.Result{Iters: 1, Values: []benchfmt.Value{{Value: 1, Unit: "sec/op"}}}

func nmLiveFor(keys []string) (*nmLive, error) {
	id := strings.Join(keys, "\x00")
	if l, ok := nmLives[id]; ok {
		return l, nil
	}
	var pp benchproc.ProjectionParser
	qs := make([]string, len(keys))
	for i, k := range keys {
		qs[i] = strconv.Quote(k)
		if !utf8.ValidString(k) {
			return nil, nil // keys that cannot be written in an expression are skipped
		}
	}
	proj, err := pp.Parse(strings.Join(qs, ","), nil)
	if err != nil {
		return nil, fmt.Errorf("projection %s: %v", strings.Join(qs, ","), err)
	}
	l := &nmLive{proj: proj, fields: proj.Fields(), byTup: map[string]benchproc.Key{}, byKey: map[benchproc.Key]string{}}
	if len(l.fields) != len(keys) {
		return nil, fmt.Errorf("projection %s has %d fields", strings.Join(qs, ","), len(l.fields))
	}
	nmLives[id] = l
	return l, nil
}

func nmStreamCase(raw json.RawMessage) Verdict {
	var c nmCase
	if err := json.Unmarshal(raw, &c); err != nil {
		panic(fmt.Sprintf("bad names case: %v", err))
	}
	for passNo := 0; passNo < 2; passNo++ {
		conc := nmConcretise(c.N, passNo)
		tab := &c.X0
		if passNo == 1 {
			tab = &c.X1
		}
		if v := nmStreamRun(&c, tab, conc); !v.OK {
			v.Concrete = conc.String()
			return v
		}
	}
	return pass()
}

func nmStreamRun(c *nmCase, tab *nmTable, conc *nmConc) Verdict {
	name := conc.str(c.N)
	res := nmStreamRes
	res.Name = append(res.Name[:0], name...)
	// configuration rewritten in place: delete what is there, then add (stale slots are reused)
	for len(res.Config) > 0 {
		res.SetConfig(res.Config[len(res.Config)-1].Key, "")
	}
	want := map[string]string{
		".name":       conc.str(tab.Name),
		".fullname":   conc.str(tab.Full),
		"/" + conc.k:  conc.str(tab.K),
		"/" + conc.a:  conc.str(tab.A),
		"/gomaxprocs": conc.str(tab.G),
		conc.keyK:     conc.val(tab.PK),
		conc.keyC:     conc.val(tab.PC),
		conc.keyZ:     conc.val(tab.PZ),
	}
	if c.CK {
		res.SetConfig(conc.keyK, conc.vK)
	}
	if c.CC {
		res.SetConfig(conc.keyC, conc.vC)
	}
	lists := [][]string{
		{".name", "/gomaxprocs"},
		{"/" + conc.k, "/" + conc.a},
		{".name", "/" + conc.a, "/gomaxprocs", conc.keyC},
		{conc.keyK, conc.keyC, conc.keyZ},
		{".fullname", conc.keyK},
	}
	check := func(r *benchfmt.Result, what string) *Verdict {
		for _, keys := range lists {
			uniq := keys[:0:0]
			for _, k := range keys {
				dup := false
				for _, u := range uniq {
					dup = dup || u == k
				}
				if !dup {
					uniq = append(uniq, k)
				}
			}
			l, err := nmLiveFor(uniq)
			if err != nil {
				v := fail("parse-error", "%v", err)
				return &v
			}
			if l == nil {
				continue
			}
			key := l.proj.Project(r)
			tup := make([]string, len(uniq))
			for i, k := range uniq {
				tup[i] = want[k]
				if got := key.Get(l.fields[i]); got != want[k] {
					v := fail("stream-proj", "%s: name %q config %s through the long-lived projection %q: %s = %q, want %q", what, name, nmCfgString(r), uniq, k, got, want[k])
					return &v
				}
			}
			ts := strings.Join(tup, "\x00")
			if prev, ok := l.byKey[key]; ok && prev != ts {
				v := fail("stream-key-collision", "%s: projection %q gives name %q the key of the different tuple %q", what, uniq, name, strings.Split(prev, "\x00"))
				return &v
			}
			if k0, ok := l.byTup[ts]; ok && k0 != key {
				v := fail("stream-key-split", "%s: projection %q gives tuple %q two different keys", what, uniq, tup)
				return &v
			}
			if len(l.byKey) > 300000 {
				// bound the harness's own bookkeeping (the projection keeps its history)
				l.byKey, l.byTup = map[benchproc.Key]string{}, map[string]benchproc.Key{}
			}
			l.byKey[key], l.byTup[ts] = ts, key
		}
		return nil
	}
	if v := check(res, "reused result"); v != nil {
		return *v
	}
	// a clone, then edited: the first key gets a longer value, the others must keep theirs
	if len(res.Config) > 0 {
		cl := res.Clone()
		k0 := cl.Config[0].Key
		saved := want[k0]
		// one byte longer (fits whatever slack the clone's buffer has), then much longer (does not)
		for _, longer := range []string{string(cl.Config[0].Value) + "x", string(cl.Config[0].Value) + "-and-a-good-deal-longer-than-it-was"} {
			cl.SetConfig(k0, longer)
			want[k0] = longer
			v := check(cl, "clone with "+k0+" set to a longer value")
			want[k0] = saved
			if v != nil {
				return *v
			}
		}
		if v := check(res, "original after its clone was edited"); v != nil {
			return *v
		}
	}
	return pass()
}
