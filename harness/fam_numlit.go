package main

// Family "numlit" (C03): every numeric field text classified by NumLit_gen.tla
// (all short texts over the literal alphabet, the spec-derived integer boundary
// families, and the driver's float boundary families classified by the spec) is
// put into the two one-line inputs
//
//	BenchmarkX <text> 1 ns/x        (iteration-count position)
//	BenchmarkX 1 <text> x           (measurement position, unit needs no rescaling)
//
// and read by the real benchfmt.Reader.  Compared:
//   - accept / reject with the specification's class (rejected or out of range
//     => exactly one *benchfmt.SyntaxError for that line, never a number);
//   - iteration counts exactly with the specification's denotation;
//   - because the property defines the value oracle as the standard library's
//     parser: float bits with strconv.ParseFloat(text, 64), ints with strconv.Atoi;
//   - auxiliary: the standard parser's value against the exact rational value of
//     the specification's denotation rounded to nearest-even (math/big), so that a
//     wrong denotation in the specification cannot hide behind the library oracle.
//
// Concretisation (depends on VERIF_SEED and the case id only): in the enumerated
// texts the digit "1" stands for any of 1..8 and the letter case of the whole
// text may be flipped (NumLit.CaseBlind).

import (
	"encoding/json"
	"errors"
	"fmt"
	"math"
	"math/big"
	"strconv"
	"strings"

	"golang.org/x/perf/benchfmt"
)

func init() { register("numlit", famNumLit) }

type nlCase struct {
	ID  int      `json:"id"`
	Fam int      `json:"fam"`
	Src string   `json:"src"`
	T   []string `json:"t"`
	FC  string   `json:"fc"`
	FS  int      `json:"fs"`
	FD  []string `json:"fd"`
	ED  []string `json:"ed"`
	ES  int      `json:"es"`
	FL  int      `json:"fl"`
	IC  string   `json:"ic"`
	ISG int      `json:"isg"`
	IDG []string `json:"idg"`
}

func famNumLit(mode string, args []string) error {
	if mode != "replay" {
		return fmt.Errorf("numlit: unknown mode %q", mode)
	}
	if strconv.IntSize != 64 {
		return fmt.Errorf("numlit: the range rule is instantiated for a 64-bit int, this platform has %d", strconv.IntSize)
	}
	return replayLoop("numlit", args, func(raw json.RawMessage) Verdict {
		var c nlCase
		if err := json.Unmarshal(raw, &c); err != nil {
			return fail("badcase", "%v", err)
		}
		if len(c.T) == 0 {
			return fail("badcase", "empty text")
		}
		return nlReplay(&c)
	})
}

// nlMix is a small deterministic hash of (seed, id).
func nlMix(id int) uint64 {
	x := uint64(seed())*0x9E3779B97F4A7C15 + uint64(id)*0xBF58476D1CE4E5B9 + 0x94D049BB133111EB
	x ^= x >> 30
	x *= 0xBF58476D1CE4E5B9
	x ^= x >> 27
	x *= 0x94D049BB133111EB
	x ^= x >> 31
	return x
}

type nlConc struct {
	one  string // the digit standing for "1"
	flip bool   // flip the letter case of every letter
}

func (k nlConc) join(chars []string) string {
	var sb strings.Builder
	for _, ch := range chars {
		if ch == "1" {
			ch = k.one
		}
		if k.flip && len(ch) == 1 {
			b := ch[0]
			switch {
			case 'a' <= b && b <= 'z':
				ch = string(rune(b - 'a' + 'A'))
			case 'A' <= b && b <= 'Z':
				ch = string(rune(b - 'A' + 'a'))
			}
		}
		sb.WriteString(ch)
	}
	return sb.String()
}

// digits of the denotation are never case-flipped (the spec gives them in lower case)
func (k nlConc) digits(chars []string) string {
	var sb strings.Builder
	for _, ch := range chars {
		if ch == "1" {
			ch = k.one
		}
		sb.WriteString(ch)
	}
	return sb.String()
}

func nlRead(line string) ([]benchfmt.Record, error) {
	rd := benchfmt.NewReader(strings.NewReader(line+"\n"), "f")
	var recs []benchfmt.Record
	for rd.Scan() {
		r := rd.Result()
		if res, ok := r.(*benchfmt.Result); ok {
			r = res.Clone()
		}
		recs = append(recs, r)
		if len(recs) > 4 {
			break
		}
	}
	return recs, rd.Err()
}

// nlExact is the exact value of the denotation rounded to the nearest float64
// (ties to even); over reports that it rounds to an infinity.
func nlExact(class string, neg bool, digits, ed string, es, fl int) (f float64, over bool, ok bool) {
	base := 10
	per := 1
	if class == "hex" {
		base, per = 16, 4
	}
	sign := 1.0
	if neg {
		sign = -1
	}
	if digits == "" {
		return sign * 0, false, true
	}
	m, good := new(big.Int).SetString(digits, base)
	if !good {
		return 0, false, false
	}
	e := new(big.Int)
	if ed != "" {
		if _, good = e.SetString(ed, 10); !good {
			return 0, false, false
		}
	}
	if es == 1 {
		e.Neg(e)
	}
	e.Sub(e, big.NewInt(int64(per*fl)))
	// magnitude guard: outside these bounds the value is beyond float64 whatever the digits are
	var mag big.Int // position of the leading digit, in digits of the exponent's base (10 or 2)
	if class == "hex" {
		mag.Add(e, big.NewInt(int64(m.BitLen())))
		if mag.Cmp(big.NewInt(1100)) > 0 {
			return sign * math.Inf(1), true, true
		}
		if mag.Cmp(big.NewInt(-1200)) < 0 {
			return sign * 0, false, true
		}
	} else {
		mag.Add(e, big.NewInt(int64(len(digits))))
		if mag.Cmp(big.NewInt(400)) > 0 {
			return sign * math.Inf(1), true, true
		}
		if mag.Cmp(big.NewInt(-400)) < 0 {
			return sign * 0, false, true
		}
	}
	ei := int(e.Int64())
	r := new(big.Rat).SetInt(m)
	pb := big.NewInt(10)
	if class == "hex" {
		pb = big.NewInt(2)
	}
	abs := ei
	if abs < 0 {
		abs = -abs
	}
	p := new(big.Int).Exp(pb, big.NewInt(int64(abs)), nil)
	if ei >= 0 {
		r.Mul(r, new(big.Rat).SetInt(p))
	} else {
		r.Quo(r, new(big.Rat).SetInt(p))
	}
	f, _ = r.Float64()
	if neg {
		f = -f
		if f == 0 {
			f = math.Copysign(0, -1)
		}
	}
	return f, math.IsInf(f, 0), true
}

func nlSameFloat(a, b float64) bool {
	if math.IsNaN(a) || math.IsNaN(b) {
		return math.IsNaN(a) && math.IsNaN(b)
	}
	return math.Float64bits(a) == math.Float64bits(b)
}

func nlShort(s string) string {
	if len(s) > 120 {
		return fmt.Sprintf("%s...%s (%d bytes)", s[:60], s[len(s)-40:], len(s))
	}
	return s
}

func nlReplay(c *nlCase) Verdict {
	conc := nlConc{one: "1"}
	if c.Src == "enum" {
		h := nlMix(c.ID)
		conc.one = string(rune('1' + h%8))
		conc.flip = (h>>8)%2 == 1
	}
	text := conc.join(c.T)
	if strings.ContainsAny(text, " \t\n\r\v\f") {
		return fail("badcase", "text %q contains blanks", text)
	}
	v := nlMeasurement(c, conc, text)
	if !v.OK {
		v.Concrete = nlShort(text)
		return v
	}
	v = nlIterations(c, conc, text)
	v.Concrete = nlShort(text)
	return v
}

// one record expected for a one-line input
func nlOne(line string) (benchfmt.Record, *Verdict) {
	recs, err := nlRead(line)
	if err != nil {
		v := fail("read-error", "line %q: %v", nlShort(line), err)
		return nil, &v
	}
	if len(recs) != 1 {
		v := fail("record-shape", "line %q: %d records, want exactly one", nlShort(line), len(recs))
		return nil, &v
	}
	if f, l := recs[0].Pos(); f != "f" || l != 1 {
		v := fail("record-shape", "line %q: record at %s:%d, want f:1", nlShort(line), f, l)
		return nil, &v
	}
	return recs[0], nil
}

func nlMeasurement(c *nlCase, conc nlConc, text string) Verdict {
	line := "BenchmarkX 1 " + text + " x"
	want, err := strconv.ParseFloat(text, 64)
	stdSyntax := err != nil && errors.Is(err, strconv.ErrSyntax)
	stdRange := err != nil && errors.Is(err, strconv.ErrRange)
	if err != nil && !stdSyntax && !stdRange {
		return fail("harness", "strconv.ParseFloat(%q): unexpected error %v", nlShort(text), err)
	}
	// the specification's class against the oracle the property names (a disagreement here is a
	// mistake in the specification, not a deviation of the code)
	switch c.FC {
	case "bad":
		if !stdSyntax {
			return fail("harness", "spec rejects %q, strconv.ParseFloat gives %v, %v", nlShort(text), want, err)
		}
	case "dec", "hex", "inf", "nan":
		if stdSyntax {
			return fail("harness", "spec accepts %q as %s, strconv.ParseFloat: %v", nlShort(text), c.FC, err)
		}
	default:
		return fail("badcase", "unknown float class %q", c.FC)
	}
	// auxiliary: the library's value against the exact value of the spec's denotation
	switch c.FC {
	case "dec", "hex":
		fd := conc.digits(c.FD)
		ex, exOver, ok := nlExact(c.FC, c.FS == 1, fd, conc.digits(c.ED), c.ES, c.FL)
		if !ok {
			return fail("badcase", "cannot evaluate the denotation of %q", nlShort(text))
		}
		stdExact := exOver == stdRange && (exOver || nlSameFloat(ex, want))
		// The deviation the spec names LosesIntegerDigits: more integer digits than decimal.set's
		// 800-digit buffer.  The as-built model predicts the first 800 digits with the decimal point
		// directly after them.  (The current standard library has the same decimal.set but usually
		// never reaches it: its Eisel-Lemire path answers first; where that gives up, strconv shows
		// the as-built value too.)
		if c.FC == "dec" && len(fd)-c.FL > nlBufCap {
			ab, abOver, ok2 := nlExact("dec", c.FS == 1, fd[:nlBufCap], conc.digits(c.ED), c.ES, 0)
			if !ok2 {
				return fail("badcase", "cannot evaluate the as-built denotation of %q", nlShort(text))
			}
			if !stdExact && (abOver != stdRange || (!abOver && !nlSameFloat(ab, want))) {
				return fail("harness", "text %q: exact value %v (over=%v), as-built model %v (over=%v), strconv.ParseFloat gives %v, %v",
					nlShort(text), ex, exOver, ab, abOver, want, err)
			}
			return nlMeasurementOver800(c, text, line, ex, exOver, ab, abOver, stdExact)
		}
		if !stdExact {
			return fail("harness", "text %q: denotation (sign %d digits %s exp %s%s frac %d) rounds to %v (over=%v), strconv.ParseFloat gives %v, %v",
				nlShort(text), c.FS, nlShort(fd), map[int]string{0: "+", 1: "-"}[c.ES], conc.digits(c.ED), c.FL, ex, exOver, want, err)
		}
	case "inf":
		if stdRange || !math.IsInf(want, 1-2*c.FS) {
			return fail("harness", "spec: %q is an infinity with sign %d, strconv.ParseFloat gives %v, %v", text, c.FS, want, err)
		}
	case "nan":
		if stdRange || !math.IsNaN(want) {
			return fail("harness", "spec: %q is NaN, strconv.ParseFloat gives %v, %v", text, want, err)
		}
	}

	rec, bad := nlOne(line)
	if bad != nil {
		return *bad
	}
	switch g := rec.(type) {
	case *benchfmt.SyntaxError:
		if c.FC == "bad" || stdRange {
			return pass()
		}
		return fail("float-rejects-valid", "measurement %q (%s): reader reports %v, strconv.ParseFloat gives %v", nlShort(text), c.FC, g, want)
	case *benchfmt.Result:
		if c.FC == "bad" {
			return fail("float-accepts-invalid", "measurement %q is not a number, reader reports %v", nlShort(text), g.Values)
		}
		if stdRange {
			return fail("float-range-not-reported", "measurement %q is out of range (strconv: %v), reader reports %v", nlShort(text), err, g.Values)
		}
		if len(g.Values) != 1 || g.Values[0].Unit != "x" || g.Values[0].OrigUnit != "" {
			return fail("record-shape", "measurement %q: values %+v, want one value of unit x", nlShort(text), g.Values)
		}
		got := g.Values[0].Value
		if !nlSameFloat(got, want) {
			return Verdict{OK: false, Signature: "float-bits-differ",
				Detail: fmt.Sprintf("measurement %q: reader %v (%#016x), strconv.ParseFloat %v (%#016x)", nlShort(text), got, math.Float64bits(got), want, math.Float64bits(want))}
		}
		if g.Iters != 1 || string(g.Name) != "X" {
			return fail("record-shape", "measurement %q: name %q iters %d", nlShort(text), g.Name, g.Iters)
		}
		return pass()
	default:
		return fail("record-shape", "measurement %q: record of type %T", nlShort(text), rec)
	}
}

// nlBufCap is len(decimal.d) in strconv and in benchfmt/internal/bytesconv.
const nlBufCap = 800

// nlMeasurementOver800 judges a decimal text with more than 800 integer digits.  The expected value
// is the correctly rounded exact value of the denotation (what the statement demands; the standard
// parser returns it too wherever it does not itself fall into decimal.set).  Reporting exactly what
// the as-built model (NumLit.LosesIntegerDigits) predicts is the deviation class
// "decimal-over-800-integer-digits"; anything else is an ordinary mismatch.
func nlMeasurementOver800(c *nlCase, text, line string, exact float64, exactOver bool, asBuilt float64, asBuiltOver bool, stdExact bool) Verdict {
	rec, bad := nlOne(line)
	if bad != nil {
		return *bad
	}
	const sig = "decimal-over-800-integer-digits"
	dropped := len(c.FD) - c.FL - nlBufCap
	std := "strconv.ParseFloat returns the exact value here"
	if !stdExact {
		std = "strconv.ParseFloat shows the same loss on this text"
	}
	switch g := rec.(type) {
	case *benchfmt.SyntaxError:
		if exactOver {
			return pass()
		}
		if asBuiltOver {
			return fail(sig, "measurement %q denotes %v; the reader keeps 800 digits, forgets the magnitude of the %d integer digits it drops and reports %v (%s)", nlShort(text), exact, dropped, g, std)
		}
		return fail("float-rejects-valid", "measurement %q denotes %v, reader reports %v", nlShort(text), exact, g)
	case *benchfmt.Result:
		if len(g.Values) != 1 || g.Values[0].Unit != "x" || g.Values[0].OrigUnit != "" {
			return fail("record-shape", "measurement %q: values %+v, want one value of unit x", nlShort(text), g.Values)
		}
		got := g.Values[0].Value
		if !exactOver && nlSameFloat(got, exact) {
			return pass()
		}
		if !asBuiltOver && nlSameFloat(got, asBuilt) {
			want := fmt.Sprint(exact)
			if exactOver {
				want = "syntax error (out of range)"
			}
			return Verdict{OK: false, Signature: sig, Want: want, Got: fmt.Sprint(got),
				Detail: fmt.Sprintf("measurement %q denotes %v; the reader keeps 800 digits, forgets the magnitude of the %d integer digits it drops and reports %v (%s)",
					nlShort(text), exact, dropped, got, std)}
		}
		if exactOver {
			return fail("float-range-not-reported", "measurement %q is out of range, reader reports %v", nlShort(text), got)
		}
		return fail("float-bits-differ", "measurement %q: reader %v, exact value %v, as-built model %v", nlShort(text), got, exact, asBuilt)
	default:
		return fail("record-shape", "measurement %q: record of type %T", nlShort(text), rec)
	}
}

func nlIterations(c *nlCase, conc nlConc, text string) Verdict {
	line := "BenchmarkX " + text + " 1 ns/x"
	want, err := strconv.Atoi(text)
	stdSyntax := err != nil && errors.Is(err, strconv.ErrSyntax)
	stdRange := err != nil && errors.Is(err, strconv.ErrRange)
	if err != nil && !stdSyntax && !stdRange {
		return fail("harness", "strconv.Atoi(%q): unexpected error %v", nlShort(text), err)
	}
	switch c.IC {
	case "bad": // which of the two errors the library reports for a malformed text is not specified
		if err == nil {
			return fail("harness", "spec rejects %q as an integer, strconv.Atoi gives %d", nlShort(text), want)
		}
	case "range":
		if !stdRange {
			return fail("harness", "spec: %q is out of range, strconv.Atoi gives %d, %v", nlShort(text), want, err)
		}
	case "int":
		d := conc.digits(c.IDG)
		if d == "" {
			d = "0"
		}
		den, ok := new(big.Int).SetString(d, 10)
		if !ok {
			return fail("badcase", "integer digits %q", d)
		}
		if c.ISG == 1 {
			den.Neg(den)
		}
		if err != nil || !den.IsInt64() || den.Int64() != int64(want) {
			return fail("harness", "spec: %q denotes %s, strconv.Atoi gives %d, %v", nlShort(text), den, want, err)
		}
	default:
		return fail("badcase", "unknown integer class %q", c.IC)
	}
	rec, bad := nlOne(line)
	if bad != nil {
		return *bad
	}
	switch g := rec.(type) {
	case *benchfmt.SyntaxError:
		if c.IC == "int" {
			return fail("int-rejects-valid", "iteration count %q: reader reports %v, want %d", nlShort(text), g, want)
		}
		return pass()
	case *benchfmt.Result:
		if c.IC == "bad" {
			return fail("int-accepts-invalid", "iteration count %q is not an integer, reader reports %d", nlShort(text), g.Iters)
		}
		if c.IC == "range" {
			return fail("int-range-not-reported", "iteration count %q is out of range, reader reports %d", nlShort(text), g.Iters)
		}
		if g.Iters != want {
			return fail("int-value-differs", "iteration count %q: reader reports %d, want %d", nlShort(text), g.Iters, want)
		}
		if string(g.Name) != "X" || len(g.Values) != 1 {
			return fail("record-shape", "iteration count %q: name %q values %+v", nlShort(text), g.Name, g.Values)
		}
		return pass()
	default:
		return fail("record-shape", "iteration count %q: record of type %T", nlShort(text), rec)
	}
}
