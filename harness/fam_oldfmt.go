package main

// Family "oldfmt" (extension plan X06): the LEGACY benchmark format package
// golang.org/x/perf/storage/benchfmt (Reader, Result, Labels, Printer, name labels).
//
// replay: TLC-generated cases of four kinds are run on the real code
//   src=reader  OldFmt_gen: AddLabels + input lines, every returning Next with what it must return
//   src=caller  OldFmt_gen: hand-built results through Printer.Print (also with a failing writer),
//               with what a Reader of the output must report
//   fam=line    OldFmtLine_gen: one physical line, the classifications the contract allows
//   fam=name    OldFmtName_gen: one benchmark name, the name-label maps the contract allows
// In every kind the results obtained are also sent round: Printer -> Reader -> Printer.
//
// record: seeded random texts / result sequences over more keys and longer histories than the
// model's bounds; one event per call (OldFmt_trace.tla validates them).
//
// The package is used through its exported API only.

import (
	"bytes"
	"encoding/json"
	"errors"
	"fmt"
	"io"
	"math/rand"
	"os"
	"path/filepath"
	"reflect"
	"sort"
	"strconv"
	"strings"
	"sync"

	newfmt "golang.org/x/perf/benchfmt"
	"golang.org/x/perf/storage/benchfmt"
)

func init() { register("oldfmt", famOldFmt) }

// ---------------------------------------------------------------- case formats

type ofLine struct {
	T string `json:"t"`
	K string `json:"k"`
	V string `json:"v"`
}

type ofRes struct {
	Labels  json.RawMessage `json:"labels"`
	Content string          `json:"content"`
	Line    int             `json:"line"`
}

type ofStep struct {
	A       string          `json:"a"`
	Labels  json.RawMessage `json:"labels"`
	L       ofLine          `json:"l"`
	Ret     bool            `json:"ret"`
	Res     ofRes           `json:"res"`
	Kind    string          `json:"kind"`
	Content string          `json:"content"`
	Expect  json.RawMessage `json:"expect"`
	NNeed   int             `json:"nneed"`
	Clean   bool            `json:"clean"`
	J       int             `json:"j"`
	Need    []ofLine        `json:"need"`
}

type ofShape struct {
	Kind  string `json:"kind"`
	NKey  int    `json:"nkey"`
	NVal  int    `json:"nval"`
	NName int    `json:"nname"`
}

type ofCase struct {
	ID      int             `json:"id"`
	Src     string          `json:"src"`
	Fam     string          `json:"fam"`
	Path    []ofStep        `json:"path"`
	Toks    []string        `json:"toks"`
	NText   int             `json:"ntext"`
	Allowed json.RawMessage `json:"allowed"`
	NewKind string          `json:"newkind"`
	Class   string          `json:"class"`
	Name    []string        `json:"name"`
	Free    bool            `json:"free"`
}

func ofMap(raw json.RawMessage) (map[string]string, error) {
	m := map[string]string{}
	s := strings.TrimSpace(string(raw))
	if s == "" || s == "[]" || s == "null" {
		return m, nil
	}
	err := json.Unmarshal(raw, &m)
	return m, err
}

// ---------------------------------------------------------------- concretisation

// keys a label line can carry: lower-case first, no upper case, no space, no colon
var ofKeySets = [][]string{
	{"goos", "pkg", "cpu"},
	{"k", "kk", "k-1"},
	{"é", "key/with=odd", "a.b"},
	{"note", "commit-time", "x_y"},
	{"upload", "upload-part", "by"},
	{"ключ", "kéy", "z9"},
}

// values a label line can carry: not empty, no newline, no leading blank, no trailing CR
var ofValSets = [][]string{
	{"v1", "v2", "v3"},
	{"a b", "a  b", "a"},
	{"x:y", "x: y", "Benchmark"},
	{"é", "\xff", "1"},
	{"v\tw", "v", "Unit"},
	{"trailing ", "B: 1", "k: v"},
	{"linux", "amd64", "golang.org/x/perf"},
	{" nbsp", "Ünï cödé", "-"},
}

// contents of well-formed benchmark lines, two per set, with different names
var ofContentSets = [][]string{
	{"BenchmarkOne/foo/bar=1-2 1 ns/sec", "BenchmarkTwo 2 ns/sec"},
	{"BenchmarkX-8 \t 100 5 ns/op 3 B/op", "BenchmarkX 1 2 ns/op"},
	{"Benchmark 1 3 ns/op", "BenchmarkÉ/=v/a=/b 7 1.5 x/y"},
	{"BenchmarkDecode/text=digits/level=speed/size=1e4-8 100 154125 ns/op 64.88 MB/s", "BenchmarkDecode/text=digits/level=speed/size=1e4-16 100 154125 ns/op"},
}

// lines that are neither label lines nor begin with Benchmark
var ofOtherLines = []string{"# comment", "PASS", "ok  \tgolang.org/x/perf\t0.1s", "Key: v", "k y: v", "key:v", " key: v",
	"Unit ns/op better=lower", ":", "1k: v", "kEy: v", "--- BENCH: BenchmarkX", " BenchmarkX 1 2 ns/op", "é k: v", ":k: v"}

type ofConc struct {
	keys, vals, contents []string
	rng                  *rand.Rand
	crlf                 int // 0 never, 1 always, 2 per line
}

func ofNewConc(id int) *ofConc {
	rng := newRand(int64(id)*7919 + 17)
	c := &ofConc{rng: rng}
	c.keys = ofKeySets[rng.Intn(len(ofKeySets))]
	c.vals = ofValSets[rng.Intn(len(ofValSets))]
	c.contents = ofContentSets[rng.Intn(len(ofContentSets))]
	c.crlf = rng.Intn(3)
	return c
}

func ofIdx(tok string) int {
	n, err := strconv.Atoi(tok[1:])
	if err != nil || n < 1 {
		panic("bad token " + tok)
	}
	return n - 1
}

func (c *ofConc) key(tok string) string { return c.keys[ofIdx(tok)%len(c.keys)] }
func (c *ofConc) val(tok string) string {
	if tok == "" {
		return ""
	}
	return c.vals[ofIdx(tok)%len(c.vals)]
}
func (c *ofConc) content(tok string) string { return c.contents[ofIdx(tok)%len(c.contents)] }

func (c *ofConc) labels(m map[string]string) benchfmt.Labels {
	out := benchfmt.Labels{}
	for k, v := range m {
		out[c.key(k)] = c.val(v)
	}
	return out
}

var ofSetSeps = []string{" ", "\t", "  ", " \t ", "\t\t"}
var ofDelTails = []string{"", " ", "\t", " \t"}

// text of an abstract line (without terminator)
func (c *ofConc) lineText(l ofLine) string {
	switch l.T {
	case "set":
		return c.key(l.K) + ":" + ofSetSeps[c.rng.Intn(len(ofSetSeps))] + c.val(l.V)
	case "del":
		return c.key(l.K) + ":" + ofDelTails[c.rng.Intn(len(ofDelTails))]
	case "blank":
		return ""
	case "other":
		return ofOtherLines[c.rng.Intn(len(ofOtherLines))]
	case "bench":
		return c.content(l.V)
	}
	panic("bad line type " + l.T)
}

func (c *ofConc) eol() string {
	switch c.crlf {
	case 1:
		return "\r\n"
	case 2:
		if c.rng.Intn(2) == 0 {
			return "\r\n"
		}
	}
	return "\n"
}

// ---------------------------------------------------------------- helpers

var errOfInjected = errors.New("oldfmt: injected failure")

// reader that returns err after the text
type ofErrReader struct {
	r   io.Reader
	err error
}

func (e *ofErrReader) Read(p []byte) (int, error) {
	n, err := e.r.Read(p)
	if err == io.EOF {
		return n, e.err
	}
	return n, err
}

// writer that fails at its j-th Write call (1-based; 0 = never)
type ofFailWriter struct {
	buf    bytes.Buffer
	calls  int
	failAt int
}

func (w *ofFailWriter) Write(p []byte) (int, error) {
	w.calls++
	if w.failAt > 0 && w.calls >= w.failAt {
		return 0, errOfInjected
	}
	return w.buf.Write(p)
}

type ofSnap struct {
	res     *benchfmt.Result
	labels  benchfmt.Labels
	nlabels benchfmt.Labels
	line    int
	content string
}

func ofSnapshot(r *benchfmt.Result) ofSnap {
	return ofSnap{res: r, labels: r.Labels.Copy(), nlabels: r.NameLabels.Copy(), line: r.LineNum, content: r.Content}
}

func (s *ofSnap) intact() bool {
	return ofEq(s.res.Labels, s.labels) && ofEq(s.res.NameLabels, s.nlabels) &&
		s.res.LineNum == s.line && s.res.Content == s.content
}

func ofEq(a, b benchfmt.Labels) bool {
	if len(a) != len(b) {
		return false
	}
	for k, v := range a {
		if w, ok := b[k]; !ok || w != v {
			return false
		}
	}
	return true
}

func ofReadAll(text []byte) ([]*benchfmt.Result, error) {
	r := benchfmt.NewReader(bytes.NewReader(text))
	var out []*benchfmt.Result
	for r.Next() {
		out = append(out, r.Result())
		if len(out) > 1<<20 {
			return out, errors.New("reader does not stop")
		}
	}
	return out, r.Err()
}

// name labels of a content line, by a fresh reader (the name family checks that reader)
func ofNameLabels(content string) benchfmt.Labels {
	rs, _ := ofReadAll([]byte(content + "\n"))
	if len(rs) != 1 {
		return nil
	}
	return rs[0].NameLabels
}

// ofRoundTrip sends results through Printer -> Reader -> Printer and checks
// READ(PRINT(rs)) = rs (labels without empty values, name labels, content) and that the
// second print reproduces the first (when no empty value is involved).
func ofRoundTrip(rs []*benchfmt.Result, clean bool) Verdict {
	var b1 bytes.Buffer
	p1 := benchfmt.NewPrinter(&b1)
	for _, r := range rs {
		if err := p1.Print(r); err != nil {
			return fail("print-error", "Print returned %v", err)
		}
	}
	back, err := ofReadAll(b1.Bytes())
	if err != nil {
		return fail("roundtrip-read-error", "reading printed text: %v", err)
	}
	if len(back) != len(rs) {
		return fail("roundtrip-result-count", "printed %d results, read back %d from %q", len(rs), len(back), b1.String())
	}
	for i, r := range rs {
		want := benchfmt.Labels{}
		for k, v := range r.Labels {
			if v != "" {
				want[k] = v
			}
		}
		if !ofEq(back[i].Labels, want) {
			return fail("roundtrip-labels", "result %d: printed labels %v, read back %v; text %q", i, want, back[i].Labels, b1.String())
		}
		if back[i].Content != r.Content {
			return fail("roundtrip-content", "result %d: printed content %q, read back %q", i, r.Content, back[i].Content)
		}
		if r.NameLabels != nil && !ofEq(back[i].NameLabels, r.NameLabels) {
			return fail("roundtrip-namelabels", "result %d: name labels %v, read back %v", i, r.NameLabels, back[i].NameLabels)
		}
	}
	var b2 bytes.Buffer
	p2 := benchfmt.NewPrinter(&b2)
	for _, r := range back {
		if err := p2.Print(r); err != nil {
			return fail("print-error", "Print returned %v", err)
		}
	}
	if clean && !bytes.Equal(b1.Bytes(), b2.Bytes()) {
		return fail("print-not-stable", "PRINT(READ(t)) differs from t: %q vs %q", b2.String(), b1.String())
	}
	if !clean {
		back2, err := ofReadAll(b2.Bytes())
		if err != nil || len(back2) != len(back) {
			return fail("print-not-stable", "second round trip: %d results, err %v", len(back2), err)
		}
		for i := range back {
			if !ofEq(back[i].Labels, back2[i].Labels) || back[i].Content != back2[i].Content {
				return fail("print-not-stable", "second round trip changes result %d", i)
			}
		}
	}
	return pass()
}

// ---------------------------------------------------------------- replay: reader source

// header simulation, for the signature of a deviation only: what would the labels be if the
// question "are the permanent labels known" were answered from a flag sampled at entry of Next
func ofSimulate(lines []ofLine, added map[string]string, stale bool) (out []map[string]string, why string) {
	labels := map[string]string{}
	var perm map[string]string
	if added != nil {
		perm = map[string]string{}
		for k, v := range added {
			perm[k] = v
			labels[k] = v
		}
	}
	cp := func(m map[string]string) map[string]string {
		n := map[string]string{}
		for k, v := range m {
			n[k] = v
		}
		return n
	}
	have := perm != nil
	for _, l := range lines {
		switch l.T {
		case "set", "del":
			if _, ok := perm[l.K]; ok {
				continue
			}
			if l.T == "set" {
				labels[l.K] = l.V
			} else {
				delete(labels, l.K)
			}
			continue
		}
		settled := perm != nil
		if stale {
			settled = have
		}
		if !settled {
			if perm != nil && why == "" {
				switch l.T {
				case "blank":
					why = "header-reopened-by-blank-line"
				case "other":
					why = "header-forgotten-at-other-line"
				default:
					why = "header-forgotten-at-benchmark-line"
				}
			}
			if l.T == "blank" {
				perm = cp(labels)
			} else {
				perm = map[string]string{}
			}
		}
		if l.T == "bench" {
			out = append(out, cp(labels))
			have = perm != nil
		}
	}
	return out, why
}

func ofReplayReader(c *ofCase) Verdict {
	cc := ofNewConc(c.ID)
	var text strings.Builder
	var added map[string]string
	var absLines []ofLine
	endKind := ""
	nlines := 0
	for i := range c.Path {
		st := &c.Path[i]
		switch st.A {
		case "add":
			m, err := ofMap(st.Labels)
			if err != nil {
				return fail("badcase", "%v", err)
			}
			added = m
		case "line":
			nlines++
			absLines = append(absLines, st.L)
		case "end":
			endKind = st.Kind
		}
	}
	for i, l := range absLines {
		text.WriteString(cc.lineText(l))
		if i == len(absLines)-1 && endKind == "eof" && cc.rng.Intn(3) == 0 && l.T != "blank" {
			break // last line without terminator
		}
		text.WriteString(cc.eol())
	}
	var src io.Reader = strings.NewReader(text.String())
	if endKind == "err" {
		src = &ofErrReader{r: src, err: errOfInjected}
	}
	r := benchfmt.NewReader(src)
	if added != nil {
		arg := cc.labels(added)
		keep := arg.Copy()
		r.AddLabels(arg)
		// the caller's map is the caller's: changing it afterwards must not reach the reader
		first := true
		for _, k := range keep.Keys() {
			if first {
				delete(arg, k)
				first = false
			} else {
				arg[k] = "changed-after-AddLabels"
			}
		}
		arg["zz-added-later"] = "x"
	}
	var snaps []ofSnap
	var results []*benchfmt.Result
	var wantLabels []benchfmt.Labels
	check := func() *Verdict {
		for i := range snaps {
			if !snaps[i].intact() {
				v := fail("earlier-result-altered", "result %d (line %d) changed after it was returned: now labels %v name labels %v, text %q",
					i, snaps[i].line, snaps[i].res.Labels, snaps[i].res.NameLabels, text.String())
				return &v
			}
		}
		return nil
	}
	deviation := func(i int, want, got benchfmt.Labels) Verdict {
		sig := "reader-labels"
		doc, _ := ofSimulate(absLines, added, false)
		built, why := ofSimulate(absLines, added, true)
		if i < len(doc) && i < len(built) && ofEq(cc.labels(doc[i]), want) && ofEq(cc.labels(built[i]), got) && why != "" {
			sig = "header-stale-flag"
			v := fail(sig, "[%s] result %d: labels %v, want %v; AddLabels %v; text %q", why, i, got, want, added, text.String())
			v.Concrete = why
			return v
		} else if added != nil {
			for k := range added {
				if got[cc.key(k)] != want[cc.key(k)] {
					sig = "added-label-overridden"
				}
			}
		}
		return fail(sig, "result %d: labels %v, want %v; AddLabels %v; text %q", i, got, want, added, text.String())
	}
	lineNo := 0
	for i := range c.Path {
		st := &c.Path[i]
		switch st.A {
		case "line":
			lineNo++
			if !st.Ret {
				continue
			}
			ok := r.Next()
			if !ok {
				return fail("next-false-at-benchmark-line", "Next returned false (Err %v) at line %d of %q", r.Err(), lineNo, text.String())
			}
			res := r.Result()
			if res == nil {
				return fail("result-nil", "Result() is nil after Next returned true")
			}
			wl, err := ofMap(st.Res.Labels)
			if err != nil {
				return fail("badcase", "%v", err)
			}
			want := cc.labels(wl)
			if res.Content != cc.content(st.Res.Content) {
				// a result for some other line?
				return fail("reader-content", "result %d: content %q (line %d), want %q (line %d); text %q", len(results), res.Content, res.LineNum, cc.content(st.Res.Content), st.Res.Line, text.String())
			}
			if res.LineNum != st.Res.Line {
				return fail("reader-linenum", "result %d: LineNum %d, want %d; text %q", len(results), res.LineNum, st.Res.Line, text.String())
			}
			if !ofEq(res.Labels, want) {
				return deviation(len(results), want, res.Labels)
			}
			for k, v := range res.Labels {
				if v == "" {
					return fail("reader-empty-value", "result carries label %q with an empty value", k)
				}
			}
			if nl := ofNameLabels(res.Content); !ofEq(nl, res.NameLabels) {
				return fail("reader-namelabels-depend-on-history", "result %d: name labels %v, a fresh reader gives %v for %q", len(results), res.NameLabels, nl, res.Content)
			}
			results = append(results, res)
			wantLabels = append(wantLabels, want)
			if v := check(); v != nil {
				return *v
			}
			snaps = append(snaps, ofSnapshot(res))
		case "end", "after":
			if r.Next() {
				return fail("next-true-at-end", "Next returned true at the end of the input (content %q); text %q", r.Result().Content, text.String())
			}
			kind := st.Kind
			if kind == "eof" && r.Err() != nil {
				return fail("err-at-eof", "Err() = %v at end of input", r.Err())
			}
			if kind == "err" && r.Err() != errOfInjected {
				return fail("read-error-lost", "Err() = %v after the input failed with %v", r.Err(), errOfInjected)
			}
			if v := check(); v != nil {
				return *v
			}
		}
	}
	// SameLabels / Equal / Keys / String on what was returned
	for i, res := range results {
		if !res.Labels.Equal(wantLabels[i]) || !wantLabels[i].Equal(res.Labels) {
			return fail("labels-equal", "Labels.Equal(%v, %v) = false", res.Labels, wantLabels[i])
		}
		switch str := res.Labels.String(); {
		case len(res.Labels) == 0 && str != "{}":
			return fail("labels-string", "String() = %q for no labels", str)
		case len(res.Labels) == 1:
			for k, v := range res.Labels {
				if str != fmt.Sprintf("{%q: %q}", k, v) {
					return fail("labels-string", "String() = %q for %v", str, res.Labels)
				}
			}
		case !strings.HasPrefix(str, "{") || !strings.HasSuffix(str, "}"):
			return fail("labels-string", "String() = %q", str)
		}
		ks := res.Labels.Keys()
		if !sort.StringsAreSorted(ks) || len(ks) != len(res.Labels) {
			return fail("labels-keys", "Keys() = %q for %v", ks, res.Labels)
		}
		for j, other := range results {
			same := ofEq(res.Labels, other.Labels) && ofEq(res.NameLabels, other.NameLabels)
			if res.SameLabels(other) != same {
				return fail("samelabels", "SameLabels(%d,%d) = %v, labels %v/%v vs %v/%v", i, j, !same, res.Labels, res.NameLabels, other.Labels, other.NameLabels)
			}
		}
	}
	if v := ofRoundTrip(results, true); !v.OK {
		return v
	}
	if v := check(); v != nil {
		return *v
	}
	// "AddLabels adds additional labels as if they had been read from the header of a file": the same
	// input behind a header (the added labels as label lines, then a blank line), read without
	// AddLabels, gives the same results
	if added != nil {
		var hdr strings.Builder
		var hdrLines []ofLine
		var ks []string
		for k := range added {
			ks = append(ks, k)
		}
		sort.Strings(ks)
		for _, k := range ks {
			hdr.WriteString(cc.key(k) + ": " + cc.val(added[k]) + "\n")
			hdrLines = append(hdrLines, ofLine{T: "set", K: k, V: added[k]})
		}
		hdr.WriteString("\n")
		hdrLines = append(hdrLines, ofLine{T: "blank"})
		text2 := hdr.String() + text.String()
		rs2, _ := ofReadAll([]byte(text2))
		if len(rs2) < len(results) {
			return fail("addlabels-differs-from-header", "%d results behind a header, %d with AddLabels; text %q", len(rs2), len(results), text2)
		}
		for i := range results {
			if rs2[i].LineNum != results[i].LineNum+len(hdrLines) || rs2[i].Content != results[i].Content {
				return fail("addlabels-differs-from-header", "result %d behind a header: line %d content %q, with AddLabels line %d content %q", i, rs2[i].LineNum, rs2[i].Content, results[i].LineNum, results[i].Content)
			}
			if !ofEq(rs2[i].Labels, wantLabels[i]) {
				all := append(append([]ofLine(nil), hdrLines...), absLines...)
				doc, _ := ofSimulate(all, nil, false)
				built, why := ofSimulate(all, nil, true)
				if i < len(doc) && i < len(built) && ofEq(cc.labels(doc[i]), wantLabels[i]) && ofEq(cc.labels(built[i]), rs2[i].Labels) && why != "" {
					v := fail("header-stale-flag", "[%s] result %d: labels %v behind a file header, %v with the same labels given to AddLabels; text %q", why, i, rs2[i].Labels, wantLabels[i], text2)
					v.Concrete = why
					return v
				}
				return fail("addlabels-differs-from-header", "result %d: labels %v behind a file header, %v with the same labels given to AddLabels; text %q", i, rs2[i].Labels, wantLabels[i], text2)
			}
		}
	}
	return pass()
}

// ---------------------------------------------------------------- replay: caller source

func ofPrintedLines(b []byte) []string {
	s := string(b)
	if s == "" {
		return nil
	}
	s = strings.TrimSuffix(s, "\n")
	return strings.Split(s, "\n")
}

func ofReplayCaller(c *ofCase, style int) Verdict {
	cc := ofNewConc(c.ID)
	w := &ofFailWriter{}
	p := benchfmt.NewPrinter(w)
	var results []*benchfmt.Result
	var wants []benchfmt.Labels
	allClean := true
	var prev benchfmt.Labels
	for i := range c.Path {
		st := &c.Path[i]
		if st.A == "printfail" {
			continue
		}
		if st.A != "print" {
			return fail("badcase", "step %q in a caller path", st.A)
		}
		lm, err := ofMap(st.Labels)
		if err != nil {
			return fail("badcase", "%v", err)
		}
		em, err := ofMap(st.Expect)
		if err != nil {
			return fail("badcase", "%v", err)
		}
		labels := cc.labels(lm)
		if style == 1 && prev != nil && ofEq(prev, labels) {
			labels = prev // the same map again, as a Reader hands it out while labels do not change
		}
		prev = labels
		content := cc.content(st.Content)
		res := &benchfmt.Result{Labels: labels, NameLabels: ofNameLabels(content), LineNum: i + 1, Content: content}
		keep := labels.Copy()
		failing := i+1 < len(c.Path) && c.Path[i+1].A == "printfail"
		before := w.buf.Len()
		if failing {
			f := &c.Path[i+1]
			w.calls = 0
			w.failAt = f.J
			err := p.Print(res)
			if err != errOfInjected {
				return fail("print-error-lost", "Print returned %v although write %d of it failed", err, f.J)
			}
			got := ofPrintedLines(w.buf.Bytes()[before:])
			if len(got) != f.J-1 {
				return fail("print-after-error", "write %d failed, %d lines of this Print are out: %q", f.J, len(got), got)
			}
			need := map[string]bool{}
			for _, l := range f.Need {
				if l.T == "set" {
					need[cc.key(l.K)+": "+cc.val(l.V)] = true
				} else {
					need[cc.key(l.K)+":"] = true
				}
			}
			for _, g := range got {
				if !need[g] {
					return fail("print-unnecessary-line", "line %q written, necessary are %v", g, need)
				}
				delete(need, g)
			}
			return pass()
		}
		if err := p.Print(res); err != nil {
			return fail("print-error", "Print returned %v", err)
		}
		if !ofEq(labels, keep) {
			return fail("print-modifies-result", "Print changed the result's labels: %v -> %v", keep, labels)
		}
		got := ofPrintedLines(w.buf.Bytes()[before:])
		if len(got) == 0 || got[len(got)-1] != content {
			return fail("print-content-not-last", "Print wrote %q for content %q", got, content)
		}
		if st.Clean && len(got)-1 != st.NNeed {
			sig := "print-unnecessary-line"
			if len(got)-1 < st.NNeed {
				sig = "print-missing-line"
			}
			return fail(sig, "Print wrote %d label lines %q, necessary are %d (labels %v after %v)", len(got)-1, got, st.NNeed, labels, results)
		}
		if !st.Clean {
			allClean = false
		}
		results = append(results, res)
		wants = append(wants, cc.labels(em))
	}
	back, err := ofReadAll(w.buf.Bytes())
	if err != nil {
		return fail("roundtrip-read-error", "reading printed text: %v", err)
	}
	if len(back) != len(results) {
		return fail("roundtrip-result-count", "printed %d results, read back %d from %q", len(results), len(back), w.buf.String())
	}
	for i := range back {
		if !ofEq(back[i].Labels, wants[i]) {
			sig := "roundtrip-labels"
			for k, v := range back[i].Labels {
				if w, ok := wants[i][k]; !ok {
					sig = "roundtrip-stale-label"
				} else if w != v && sig == "roundtrip-labels" {
					sig = "roundtrip-wrong-value"
				}
			}
			for k := range wants[i] {
				if _, ok := back[i].Labels[k]; !ok && sig == "roundtrip-labels" {
					sig = "roundtrip-missing-label"
				}
			}
			return fail(sig, "result %d: read back %v, want %v; printed text %q", i, back[i].Labels, wants[i], w.buf.String())
		}
		if back[i].Content != results[i].Content {
			return fail("roundtrip-content", "result %d: content %q read back as %q", i, results[i].Content, back[i].Content)
		}
		if back[i].LineNum < 1 {
			return fail("reader-linenum", "LineNum %d", back[i].LineNum)
		}
	}
	return ofRoundTrip(results, allClean)
}

// ---------------------------------------------------------------- replay: one physical line

var ofCharPools = map[string][]string{
	"a": {"a", "b", "k", "z", "e"},
	"@": {"é", "ß", "ж", "ā"},
	"Z": {"A", "B", "Q", "Z"},
	"^": {"É", "Ж", "Ω"},
	"1": {"0", "1", "7", "9"},
	":": {":"},
	" ": {" "},
	">": {"\t"},
	"~": {" ", " ", "\u0085", "\v", "\f"},
	"<": {"\r"},
	"#": {"\xff", "\xc0", "\x80"},
	"-": {"-", "_", "/", "=", ".", "中", "ǅ", "😀", "+", "%"},

	"Benchmark": {"Benchmark"},
	"Unit":      {"Unit"},
}

// observations about the line-level comparison with the NEW reader: class/old/new -> count
var (
	ofObsMu sync.Mutex
	ofObs   = map[string]int{}
	ofObsEx = map[string]string{}
)

func ofNote(key, example string) {
	ofObsMu.Lock()
	ofObs[key]++
	if _, ok := ofObsEx[key]; !ok {
		ofObsEx[key] = example
	}
	ofObsMu.Unlock()
}

func ofFlushObs() {
	dir := os.Getenv("VERIF_WORK")
	if dir == "" || len(ofObs) == 0 {
		return
	}
	p := filepath.Join(dir, "oldfmt-obs.json")
	type rec struct {
		Count   int    `json:"count"`
		Example string `json:"example"`
	}
	cur := map[string]rec{}
	if b, err := os.ReadFile(p); err == nil {
		json.Unmarshal(b, &cur)
	}
	for k, n := range ofObs {
		r := cur[k]
		r.Count += n
		if r.Example == "" {
			r.Example = ofObsEx[k]
		}
		cur[k] = r
	}
	b, _ := json.Marshal(cur)
	os.WriteFile(p, b, 0o644)
}

func ofNewKindOf(text string) string {
	n := newfmt.NewReader(strings.NewReader(text), "f")
	kind := "ignored"
	for n.Scan() {
		switch n.Result().(type) {
		case *newfmt.Result:
			return "result"
		case *newfmt.SyntaxError:
			kind = "error"
		case *newfmt.UnitMetadata:
			return "unitline"
		}
	}
	return kind
}

func ofReplayLine(c *ofCase) Verdict {
	var shapes []ofShape
	if err := json.Unmarshal(c.Allowed, &shapes); err != nil {
		return fail("badcase", "%v", err)
	}
	rng := newRand(int64(c.ID)*104729 + 5)
	chars := make([]string, len(c.Toks))
	for i, t := range c.Toks {
		pool, ok := ofCharPools[t]
		if !ok {
			return fail("badcase", "unknown character token %q", t)
		}
		chars[i] = pool[rng.Intn(len(pool))]
	}
	line := strings.Join(chars, "")
	text := strings.Join(chars[:c.NText], "")
	const probeVal = "PROBE-VALUE"
	const probe = "BenchmarkProbe 1 2 ns/op"
	obsKinds := []string{}
	for _, sh := range shapes {
		obsKinds = append(obsKinds, sh.Kind)
	}
	sort.Strings(obsKinds)
	wantDesc := strings.Join(obsKinds, "|")
	// key of the label-line reading, if the contract has one
	key := ""
	for _, sh := range shapes {
		if sh.NKey > 0 {
			key = strings.Join(chars[:sh.NKey], "")
		}
	}
	input := ""
	nl := 0
	if key != "" {
		input = key + ": " + probeVal + "\n"
		nl++
	}
	input += line + "\n" + probe + "\n"
	nl += 2
	rs, err := ofReadAll([]byte(input))
	if err != nil {
		return fail("line-read-error", "Err() = %v on %q", err, input)
	}
	observed := ""
	var obsKey, obsVal string
	switch {
	case len(rs) == 2 && rs[1].Content == probe:
		observed = "bench"
		if len(rs[0].Labels) != 0 && !(key != "" && len(rs[0].Labels) == 1 && rs[0].Labels[key] == probeVal) {
			return fail("line-labels-on-benchmark-line", "labels %v on %q", rs[0].Labels, input)
		}
	case len(rs) == 1 && rs[0].Content == probe:
		lb := rs[0].Labels
		switch {
		case len(lb) == 0 && key == "":
			observed = "ignored"
		case len(lb) == 0:
			observed = "del"
			obsKey = key
		case len(lb) == 1 && key != "" && lb[key] == probeVal:
			observed = "ignored"
		case len(lb) == 1:
			observed = "set"
			for k, v := range lb {
				obsKey, obsVal = k, v
			}
		default:
			return fail("line-two-labels", "labels %v from %q", lb, input)
		}
	default:
		return fail("line-result-count", "%d results from %q", len(rs), input)
	}
	if rs[len(rs)-1].LineNum != nl {
		return fail("reader-linenum", "probe line has LineNum %d, want %d; input %q", rs[len(rs)-1].LineNum, nl, input)
	}
	okShape := false
	for _, sh := range shapes {
		if sh.Kind != observed {
			continue
		}
		switch observed {
		case "ignored":
			okShape = true
		case "del":
			okShape = obsKey == strings.Join(chars[:sh.NKey], "")
		case "set":
			okShape = obsKey == strings.Join(chars[:sh.NKey], "") && obsVal == strings.Join(chars[c.NText-sh.NVal:c.NText], "")
			if !okShape && obsKey == strings.Join(chars[:sh.NKey], "") {
				return fail("line-set-wrong-value", "line %q: value %q, want %q", line, obsVal, strings.Join(chars[c.NText-sh.NVal:c.NText], ""))
			}
		case "bench":
			okShape = rs[0].Content == text && rs[0].LineNum == nl-1
			if !okShape {
				return fail("line-bench-content", "line %q: content %q line %d, want %q line %d", line, rs[0].Content, rs[0].LineNum, text, nl-1)
			}
			name := strings.Join(chars[1:1+sh.NName], "")
			fresh := ofNameLabels("Benchmark" + name + " 1 2 ns/op")
			if !ofEq(fresh, rs[0].NameLabels) {
				return fail("line-bench-name", "line %q: name labels %v, the name %q alone gives %v", line, rs[0].NameLabels, name, fresh)
			}
		}
	}
	if !okShape {
		return fail("line-"+wantDesc+"-read-as-"+observed, "line %q (tokens %v): read as %s (key %q value %q), the format says %s", line, c.Toks, observed, obsKey, obsVal, wantDesc)
	}
	// what was read goes round: Printer -> Reader
	endsCR := strings.HasSuffix(text, "\r")
	if !endsCR {
		if v := ofRoundTrip(rs, true); !v.OK {
			v.Detail = fmt.Sprintf("line %q: ", line) + v.Detail
			return v
		}
	} else {
		ofNote("trailing-cr-lost/"+observed, line)
	}
	// comparison with the NEW reader (observations, no verdict)
	nk := ofNewKindOf(line + "\n")
	if observed == "set" || observed == "del" {
		nk2 := nk
		if nk2 == "ignored" {
			// the new reader shows a label line only through a following result
			nr := newfmt.NewReader(strings.NewReader(input), "f")
			for nr.Scan() {
				if res, ok := nr.Result().(*newfmt.Result); ok && string(res.Name) == "Probe" {
					v := res.GetConfig(obsKey)
					if (observed == "set" && v == obsVal) || (observed == "del" && v == "") {
						nk2 = observed
					} else {
						nk2 = "label-differs"
					}
				}
			}
		}
		nk = nk2
	}
	if !(nk == observed || (observed == "bench" && nk == "result")) {
		ofNote("differs/"+c.Class+"/old="+observed+"/new="+nk, line)
	} else {
		ofNote("same/"+observed, line)
	}
	if len(shapes) > 1 {
		ofNote("free/"+observed, line)
	}
	return pass()
}

// ---------------------------------------------------------------- replay: one benchmark name

var ofWords = []string{"Foo", "bar", "Encode", "é", "F.o", "x_y", "ÅB", "a:b", "T", "中", "v2x", "Sub", "N", "q"}

func ofNameTok(tok string, rng *rand.Rand, words []string) string {
	switch tok {
	case "x":
		return words[0]
	case "y":
		return words[1]
	case "1":
		n := 1 + rng.Intn(3)
		s := ""
		for i := 0; i < n; i++ {
			s += string(rune('0' + rng.Intn(10)))
		}
		return s
	}
	return tok
}

func ofReplayName(c *ofCase) Verdict {
	var allowed [][][2][]string
	if s := strings.TrimSpace(string(c.Allowed)); s != "" {
		if err := json.Unmarshal(c.Allowed, &allowed); err != nil {
			return fail("badcase", "%v: %s", err, c.Allowed)
		}
	}
	rng := newRand(int64(c.ID)*15485863 + 3)
	i := rng.Intn(len(ofWords))
	j := (i + 1 + rng.Intn(len(ofWords)-1)) % len(ofWords)
	words := []string{ofWords[i], ofWords[j]}
	// one concrete text per token POSITION of the name; expected keys and values are token
	// sequences, so digit runs must be concretised per position of the name.  The expected maps
	// are rebuilt from positions: a value / key is a contiguous piece of the name.
	conc := make([]string, len(c.Name))
	for k, t := range c.Name {
		conc[k] = ofNameTok(t, rng, words)
	}
	name := strings.Join(conc, "")
	// expected maps in concrete text: find each token sequence as a contiguous piece of the name
	find := func(seq []string) (string, bool) {
		if len(seq) == 0 {
			return "", true
		}
		if len(seq) == 1 && (strings.HasPrefix(seq[0], "sub") || seq[0] == "name" || seq[0] == "gomaxprocs") {
			// a literal key (positional keys are not pieces of the name)
			return seq[0], true
		}
		var hits []string
		for s := 0; s+len(seq) <= len(c.Name); s++ {
			if reflect.DeepEqual(c.Name[s:s+len(seq)], seq) {
				hits = append(hits, strings.Join(conc[s:s+len(seq)], ""))
			}
		}
		if len(hits) == 0 {
			return "", false
		}
		for _, h := range hits[1:] {
			if h != hits[0] {
				return "", false // ambiguous: digit runs concretised differently
			}
		}
		return hits[0], true
	}
	text := "Benchmark" + name + " 1 2 ns/op\n"
	rs, err := ofReadAll([]byte(text))
	if err != nil || len(rs) != 1 {
		return fail("name-not-a-benchmark-line", "%d results (err %v) from %q", len(rs), err, text)
	}
	got := rs[0].NameLabels
	ambiguous := false
	var firstWant benchfmt.Labels
	for _, m := range allowed {
		want := benchfmt.Labels{}
		for _, kv := range m {
			k, ok1 := find(kv[0])
			v, ok2 := find(kv[1])
			if !ok1 || !ok2 {
				ambiguous = true
			}
			want[k] = v
		}
		if firstWant == nil {
			firstWant = want
		}
		if !ambiguous && ofEq(got, want) {
			if c.Free {
				ofNote("name-free/chosen", name)
			}
			return pass()
		}
	}
	if len(allowed) == 0 && len(got) == 0 {
		return pass()
	}
	if ambiguous {
		// digit runs that occur twice with different texts: concretise all digit runs alike and retry
		return ofReplayNameUniform(c, words)
	}
	sig := "namelabels-keyed"
	for k, v := range got {
		if firstWant[k] != v {
			switch {
			case k == "gomaxprocs":
				sig = "namelabels-gomaxprocs"
			case k == "name":
				sig = "namelabels-name"
			case strings.HasPrefix(k, "sub"):
				sig = "namelabels-positional"
			}
		}
	}
	for k := range firstWant {
		if _, ok := got[k]; !ok {
			switch {
			case k == "gomaxprocs":
				sig = "namelabels-gomaxprocs"
			case k == "name":
				sig = "namelabels-name"
			case strings.HasPrefix(k, "sub"):
				sig = "namelabels-positional"
			}
		}
	}
	return fail(sig, "name %q (tokens %v): name labels %v, allowed %v", name, c.Name, got, ofAllowedText(allowed))
}

func ofAllowedText(a [][][2][]string) string {
	b, _ := json.Marshal(a)
	return string(b)
}

// every digit run gets the same text, so token sequences determine the text
func ofReplayNameUniform(c *ofCase, words []string) Verdict {
	var allowed [][][2][]string
	json.Unmarshal(c.Allowed, &allowed)
	join := func(seq []string) string {
		var sb strings.Builder
		for _, t := range seq {
			switch t {
			case "x":
				sb.WriteString(words[0])
			case "y":
				sb.WriteString(words[1])
			case "1":
				sb.WriteString("7")
			default:
				sb.WriteString(t)
			}
		}
		return sb.String()
	}
	name := join(c.Name)
	text := "Benchmark" + name + " 1 2 ns/op\n"
	rs, err := ofReadAll([]byte(text))
	if err != nil || len(rs) != 1 {
		return fail("name-not-a-benchmark-line", "%d results (err %v) from %q", len(rs), err, text)
	}
	got := rs[0].NameLabels
	for _, m := range allowed {
		want := benchfmt.Labels{}
		for _, kv := range m {
			want[join(kv[0])] = join(kv[1])
		}
		if ofEq(got, want) {
			return pass()
		}
	}
	return fail("namelabels-keyed", "name %q (tokens %v): name labels %v, allowed %v", name, c.Name, got, ofAllowedText(allowed))
}

// ---------------------------------------------------------------- family entry

func famOldFmt(mode string, args []string) error {
	switch mode {
	case "replay":
		err := replayLoop("oldfmt", args, func(raw json.RawMessage) Verdict {
			var c ofCase
			if err := json.Unmarshal(raw, &c); err != nil {
				return fail("badcase", "%v", err)
			}
			switch {
			case c.Fam == "line":
				return ofReplayLine(&c)
			case c.Fam == "name":
				return ofReplayName(&c)
			case c.Src == "reader":
				return ofReplayReader(&c)
			case c.Src == "caller":
				for style := 0; style < 2; style++ {
					if v := ofReplayCaller(&c, style); !v.OK {
						return v
					}
				}
				return pass()
			}
			return fail("badcase", "case of unknown kind")
		})
		ofFlushObs()
		return err
	case "record":
		return ofRecord(args)
	case "probe":
		return ofProbe(args)
	}
	return fmt.Errorf("oldfmt: unknown mode %q", mode)
}

// ---------------------------------------------------------------- record (mode T)

type ofEvRes struct {
	Labels  map[string]string `json:"labels"`
	Content string            `json:"content"`
	Line    int               `json:"line"`
}

type ofEvent struct {
	Ev      string            `json:"ev"`
	T       int               `json:"t"`
	Labels  map[string]string `json:"labels"`
	Lines   []ofLine          `json:"lines"`
	Ok      bool              `json:"ok"`
	Err     bool              `json:"err"`
	Res     *ofEvRes          `json:"res,omitempty"`
	Content string            `json:"content,omitempty"`
	Got     *ofEvRes          `json:"got,omitempty"`
	Raw     string            `json:"raw,omitempty"`
}

var ofBigKeys = []string{"goos", "goarch", "pkg", "cpu", "note", "k", "kk", "k-1", "é", "a.b", "commit", "x_y", "upload", "by"}

func ofRandVal(rng *rand.Rand) string {
	alphabet := []string{"a", "b", " ", "  ", ":", "é", "1", "-", "/", "=", "B", "\t", "x y", "#", "Benchmark", " "}
	n := 1 + rng.Intn(4)
	var sb strings.Builder
	for i := 0; i < n; i++ {
		sb.WriteString(alphabet[rng.Intn(len(alphabet))])
	}
	s := strings.TrimLeft(sb.String(), " \t")
	if s == "" {
		s = "v"
	}
	return s
}

func ofRandContent(rng *rand.Rand) string {
	names := []string{"One", "Two/sub", "Three/k=v-4", "X-8", "", "É/a=1/b", "Dec/text=digits/size=1e4-16"}
	tails := []string{" 1 2 ns/op", " 100 5 ns/op 3 B/op", "\t7 1.5 MB/s ", " 1 2 ns/op  # note: x"}
	return "Benchmark" + names[rng.Intn(len(names))] + tails[rng.Intn(len(tails))]
}

// abstraction of a line the Printer wrote for a result with the given content
func ofAbstractPrinted(line, content string) ofLine {
	if line == content {
		return ofLine{T: "bench", V: content}
	}
	i := strings.Index(line, ":")
	if i <= 0 {
		return ofLine{T: "junk", V: line}
	}
	key, rest := line[:i], line[i+1:]
	if rest == "" {
		return ofLine{T: "del", K: key}
	}
	if rest[0] != ' ' || len(rest) < 2 {
		return ofLine{T: "junk", V: line}
	}
	return ofLine{T: "set", K: key, V: rest[1:]}
}

func ofEmit(ew *eventWriter, ev ofEvent) {
	if ev.Labels == nil {
		ev.Labels = map[string]string{}
	}
	if ev.Lines == nil {
		ev.Lines = []ofLine{}
	}
	ew.emit(ev)
}

func ofEvLabels(l benchfmt.Labels) map[string]string {
	m := map[string]string{}
	for k, v := range l {
		m[k] = v
	}
	return m
}

// one recorded scenario: random text through Reader (next events), its results through
// Printer / Reader (print events)
func ofRecordText(ew *eventWriter, t int, rng *rand.Rand) {
	nk := 3 + rng.Intn(len(ofBigKeys)-3)
	keys := append([]string(nil), ofBigKeys...)
	rng.Shuffle(len(keys), func(i, j int) { keys[i], keys[j] = keys[j], keys[i] })
	keys = keys[:nk]
	nv := 2 + rng.Intn(5)
	vals := make([]string, nv)
	for i := range vals {
		vals[i] = ofRandVal(rng)
	}
	ncont := 1 + rng.Intn(4)
	conts := make([]string, ncont)
	for i := range conts {
		conts[i] = ofRandContent(rng)
	}
	n := 5 + rng.Intn(70)
	var abs []ofLine
	var text strings.Builder
	crlf := rng.Intn(3)
	headerish := rng.Intn(3) == 0
	for i := 0; i < n; i++ {
		var l ofLine
		var s string
		x := rng.Intn(100)
		if headerish && i < 6 {
			// label lines and blank lines at the start
			if x < 70 {
				x = 0
			} else {
				x = 75
			}
		}
		switch {
		case x < 40:
			l = ofLine{T: "set", K: keys[rng.Intn(nk)], V: vals[rng.Intn(nv)]}
			s = l.K + ":" + ofSetSeps[rng.Intn(len(ofSetSeps))] + l.V
		case x < 55:
			l = ofLine{T: "del", K: keys[rng.Intn(nk)]}
			s = l.K + ":" + ofDelTails[rng.Intn(len(ofDelTails))]
		case x < 65:
			l = ofLine{T: "other"}
			s = ofOtherLines[rng.Intn(len(ofOtherLines))]
		case x < 72:
			l = ofLine{T: "blank"}
		default:
			c := conts[rng.Intn(ncont)]
			l = ofLine{T: "bench", V: c}
			s = c
		}
		abs = append(abs, l)
		text.WriteString(s)
		if crlf == 1 || (crlf == 2 && rng.Intn(2) == 0) {
			text.WriteString("\r")
		}
		text.WriteString("\n")
	}
	withErr := rng.Intn(8) == 0
	var src io.Reader = strings.NewReader(text.String())
	if withErr {
		src = &ofErrReader{r: src, err: errOfInjected}
	}
	r := benchfmt.NewReader(src)
	if rng.Intn(3) == 0 {
		add := benchfmt.Labels{}
		for i := rng.Intn(4); i > 0; i-- {
			add[keys[rng.Intn(nk)]] = vals[rng.Intn(nv)]
		}
		r.AddLabels(add)
		ofEmit(ew, ofEvent{Ev: "add", T: t, Labels: ofEvLabels(add), Lines: []ofLine{}})
	}
	var results []*benchfmt.Result
	at := 0
	for {
		ok := r.Next()
		if ok {
			res := r.Result()
			to := res.LineNum
			if to < at || to > len(abs) {
				to = len(abs) // nonsense line number: the specification will reject the event
			}
			ofEmit(ew, ofEvent{Ev: "next", T: t, Lines: abs[at:to], Ok: true,
				Res: &ofEvRes{Labels: ofEvLabels(res.Labels), Content: res.Content, Line: res.LineNum}})
			at = to
			results = append(results, res)
			continue
		}
		ofEmit(ew, ofEvent{Ev: "next", T: t, Lines: abs[at:], Ok: false, Err: r.Err() != nil,
			Res: &ofEvRes{Labels: map[string]string{}, Content: "none"}})
		at = len(abs)
		break
	}
	// Next after the end
	ok := r.Next()
	ofEmit(ew, ofEvent{Ev: "next", T: t, Lines: []ofLine{}, Ok: ok, Err: r.Err() != nil,
		Res: &ofEvRes{Labels: map[string]string{}, Content: "none"}})
	ofRecordPrints(ew, t, results)
}

// hand-built results, empty values included
func ofRecordCaller(ew *eventWriter, t int, rng *rand.Rand) {
	nk := 2 + rng.Intn(8)
	nv := 2 + rng.Intn(4)
	vals := make([]string, nv)
	for i := range vals {
		vals[i] = ofRandVal(rng)
	}
	cur := benchfmt.Labels{}
	var results []*benchfmt.Result
	n := 3 + rng.Intn(25)
	withEmpty := rng.Intn(2) == 0
	for i := 0; i < n; i++ {
		for e := rng.Intn(4); e > 0; e-- {
			k := ofBigKeys[rng.Intn(nk)]
			switch x := rng.Intn(10); {
			case x < 5:
				cur[k] = vals[rng.Intn(nv)]
			case x < 8:
				delete(cur, k)
			case withEmpty:
				cur[k] = ""
			}
		}
		c := ofRandContent(rng)
		results = append(results, &benchfmt.Result{Labels: cur.Copy(), NameLabels: ofNameLabels(c), LineNum: i + 1, Content: c})
	}
	ofRecordPrints(ew, t, results)
}

func ofRecordPrints(ew *eventWriter, t int, results []*benchfmt.Result) {
	var buf bytes.Buffer
	p := benchfmt.NewPrinter(&buf)
	type piece struct{ from, to int }
	var pieces []piece
	for _, res := range results {
		from := buf.Len()
		if err := p.Print(res); err != nil {
			panic(err)
		}
		pieces = append(pieces, piece{from, buf.Len()})
	}
	back, err := ofReadAll(buf.Bytes())
	for i, res := range results {
		raw := string(buf.Bytes()[pieces[i].from:pieces[i].to])
		var lines []ofLine
		for _, s := range ofPrintedLines([]byte(raw)) {
			lines = append(lines, ofAbstractPrinted(s, res.Content))
		}
		ev := ofEvent{Ev: "print", T: t, Labels: ofEvLabels(res.Labels), Content: res.Content, Lines: lines, Raw: raw}
		if ev.Labels == nil {
			ev.Labels = map[string]string{}
		}
		if err == nil && i < len(back) {
			ev.Got = &ofEvRes{Labels: ofEvLabels(back[i].Labels), Content: back[i].Content}
		} else {
			ev.Got = &ofEvRes{Labels: map[string]string{}, Content: "missing"}
		}
		ofEmit(ew, ev)
	}
}

func ofRecord(args []string) error {
	if len(args) < 2 {
		return fmt.Errorf("record <out.ndjson> <ntraces>")
	}
	n, _ := strconv.Atoi(args[1])
	ew, err := newEventWriter(args[0])
	if err != nil {
		return err
	}
	for t := 0; t < n; t++ {
		rng := newRand(int64(t)*31 + 11)
		ofEmit(ew, ofEvent{Ev: "reset", T: t, Lines: []ofLine{}})
		if t%4 == 3 {
			ofRecordCaller(ew, t, rng)
		} else {
			ofRecordText(ew, t, rng)
		}
	}
	return ew.close()
}

// probe: fixed inputs whose outcome nothing documents; printed as JSON for the plan's list of observations
func ofProbe(args []string) error {
	type obs struct {
		Input string            `json:"input"`
		Old   map[string]string `json:"old_namelabels,omitempty"`
		New   string            `json:"new_name_parts,omitempty"`
		Note  string            `json:"note,omitempty"`
	}
	var out []obs
	for _, name := range []string{"X-+5", "X--5", "X-05", "X-8/sub", "-8", "X/=v", "X/k=v/k=", "X/gomaxprocs=3-8", "X/a=1/b", "X-99999999999999999999", "X/name=Y", "X/sub1=a/b"} {
		rs, _ := ofReadAll([]byte("Benchmark" + name + " 1 2 ns/op\n"))
		o := obs{Input: "Benchmark" + name}
		if len(rs) == 1 {
			o.Old = ofEvLabels(rs[0].NameLabels)
		}
		base, parts := newfmt.Name(name).Parts()
		o.New = fmt.Sprintf("base=%q parts=%q", base, parts)
		out = append(out, o)
	}
	// header: the new reader has no permanent labels
	for _, text := range []string{"key: fixed\n\nkey: haha\nBenchmarkOne 1 2 ns/op\n"} {
		rs, _ := ofReadAll([]byte(text))
		o := obs{Input: text}
		if len(rs) == 1 {
			o.Old = ofEvLabels(rs[0].Labels)
		}
		nr := newfmt.NewReader(strings.NewReader(text), "f")
		for nr.Scan() {
			if res, ok := nr.Result().(*newfmt.Result); ok {
				o.New = "key=" + res.GetConfig("key")
			}
		}
		o.Note = "file header (labels before the first blank line are permanent) exists in the legacy reader only"
		out = append(out, o)
	}
	b, _ := json.Marshal(out)
	if len(args) > 0 {
		return os.WriteFile(args[0], b, 0o644)
	}
	fmt.Println(string(b))
	return nil
}
