package main

// Family "projection" (C08, C09): behaviours of Projection.tla (expressions
// parsed in some order, residue, a stream of results) are replayed on a real
// benchproc.ProjectionParser.  Compared with the specification's declarative
// expectation: key identity (Go ==) numbered by first appearance, Key.Get per
// flattened field, the flattened field list, NonSingularFields, Key.Less on all
// ordered pairs and SortKeys on shuffled slices.

import (
	"encoding/json"
	"fmt"
	"math/rand"
	"strings"

	"golang.org/x/perf/benchfmt"
	"golang.org/x/perf/benchproc"
)

func init() { register("projection", famProjection) }

// must mirror Menu in Projection.tla
var prMenu = map[string]string{
	"e1":  ".config",
	"e2":  ".fullname",
	"e3":  "c1",
	"e4":  "/x",
	"e5":  ".name,.config",
	"e6":  "c2@alpha,.config",
	"e7":  ".config@alpha,c1@num",
	"e8":  "/gomaxprocs@num,.fullname",
	"e9":  "c1@(9 1000),.name@alpha",
	"e10": "c1@num,c2",
	"e11": ".config,.name",
}

type prRes struct {
	Cfg  json.RawMessage `json:"cfg"`
	Base string          `json:"base"`
	X    string          `json:"x"`
	XY   string          `json:"xy"`
	G    string          `json:"g"`
	Rev  bool            `json:"rev"`
}

type prProj struct {
	ID    string     `json:"id"`
	Flat  []string   `json:"flat"`
	KeyOf []int      `json:"keyof"`
	Vals  [][]string `json:"vals"`
	Less  [][]bool   `json:"less"`
}

type prCase struct {
	ID     int      `json:"id"`
	Stream []prRes  `json:"stream"`
	Proj   []prProj `json:"proj"`
}

func famProjection(mode string, args []string) error {
	if mode != "replay" {
		return fmt.Errorf("projection: unknown mode %q", mode)
	}
	focus := "c08"
	if len(args) > 2 {
		focus = args[2]
	}
	return replayLoop("projection", args, func(raw json.RawMessage) Verdict {
		var c prCase
		if err := json.Unmarshal(raw, &c); err != nil {
			return fail("badcase", "%v", err)
		}
		v := prReplay(&c, focus)
		if !v.OK && focus == "c09" && !strings.HasPrefix(v.Signature, "less") && v.Signature != "sortkeys" {
			// key identity / extraction trouble is property C08's business
			return Verdict{OK: true, Detail: "skipped: " + v.Signature + " (C08)"}
		}
		return v
	})
}

func prBuildResult(r *prRes, i int, named map[string]bool) (*benchfmt.Result, error) {
	cfg, err := fsMapExpect(r.Cfg)
	if err != nil {
		return nil, err
	}
	keys := []string{"c1", "c2", "c3"}
	if r.Rev {
		keys = []string{"c3", "c2", "c1"}
	}
	res := &benchfmt.Result{}
	// tool-internal configuration must never show up in .config
	res.Config = append(res.Config, benchfmt.Config{Key: ".file", Value: []byte(fmt.Sprintf("f%d", i)), File: false})
	for _, k := range keys {
		if v, ok := cfg[k]; ok {
			res.Config = append(res.Config, benchfmt.Config{Key: k, Value: []byte(v), File: true})
		} else if (i+int(k[1]))%2 == 0 && !named[k] {
			// absent from the FILE configuration, present as tool-internal configuration (as
			// Result.SetConfig leaves it): never part of .config, whatever earlier results had.
			// (Not for keys some projection names by itself: a plain key reads internal
			// configuration too - that is how .file works.)
			res.Config = append(res.Config, benchfmt.Config{Key: k, Value: []byte("internal"), File: false})
		}
	}
	name := r.Base
	if r.X != "" {
		name += "/x=" + r.X
	}
	if r.XY != "" {
		name += "/xy=" + r.XY
	}
	if r.G != "" {
		name += "-" + r.G
	}
	res.Name = benchfmt.Name(name)
	res.Iters = 1
	res.Values = []benchfmt.Value{{Value: 1, Unit: "sec/op", OrigValue: 1e9, OrigUnit: "ns/op"}}
	return res, nil
}

// prDashBases spells the model's base names with a dash inside ("N1" -> "R-o1"): names like
// Read-only/x=s1-4, whose first dash comes before the last slash.  Order relations of the
// model's tokens are preserved ("" < "*" < N1 < N2 becomes "" < "*" < R-o1 < R-o2).
func prDashBases(c *prCase) {
	r := strings.NewReplacer("N1", "R-o1", "N2", "R-o2")
	// where every name of the stream has a sub-name part after the base, the base itself may end
	// in -<digits> (CRC-32/poly=IEEE-8): that is part of the base, not a GOMAXPROCS suffix
	allParts := true
	for i := range c.Stream {
		if c.Stream[i].X == "" && c.Stream[i].XY == "" {
			allParts = false
		}
	}
	if allParts && c.ID%4 == 3 {
		r = strings.NewReplacer("N1", "R-32", "N2", "R-64")
	}
	for i := range c.Stream {
		c.Stream[i].Base = r.Replace(c.Stream[i].Base)
	}
	for pi := range c.Proj {
		for i := range c.Proj[pi].Vals {
			for j := range c.Proj[pi].Vals[i] {
				c.Proj[pi].Vals[i][j] = r.Replace(c.Proj[pi].Vals[i][j])
			}
		}
	}
}

func prReplay(c *prCase, focus string) Verdict {
	rng := rand.New(rand.NewSource(seed()*31337 + int64(c.ID)))
	if c.ID%2 == 1 {
		prDashBases(c)
	}
	var parser benchproc.ProjectionParser
	projs := make([]*benchproc.Projection, len(c.Proj))
	filters := make([]*benchproc.Filter, len(c.Proj))
	unitFields := make([]*benchproc.Field, len(c.Proj))
	withUnit := c.ID%4 == 2
	for i, p := range c.Proj {
		if p.ID == "residue" {
			if i != len(c.Proj)-1 {
				return fail("badcase", "residue is not last")
			}
			projs[i] = parser.Residue()
			continue
		}
		expr, ok := prMenu[p.ID]
		if !ok {
			return fail("badcase", "unknown expression id %q", p.ID)
		}
		f, err := benchproc.NewFilter("*")
		if err != nil {
			return fail("harness", "NewFilter(*): %v", err)
		}
		var pr *benchproc.Projection
		if withUnit {
			// the with-unit variant: one more field, .unit, after all others; per-result keys have
			// it empty, per-value keys carry the value's unit - in whatever order the two entry
			// points are used
			var uf *benchproc.Field
			pr, uf, err = parser.ParseWithUnit(expr, f)
			if err != nil {
				return fail("parse-error", "ParseWithUnit(%q): %v", expr, err)
			}
			unitFields[i] = uf
			c.Proj[i].Flat = append(append([]string(nil), p.Flat...), ".unit")
			for j := range c.Proj[i].Vals {
				if c.Proj[i].Vals[j] != nil {
					c.Proj[i].Vals[j] = append(append([]string(nil), c.Proj[i].Vals[j]...), "")
				}
			}
		} else {
			pr, err = parser.Parse(expr, f)
			if err != nil {
				return fail("parse-error", "Parse(%q): %v", expr, err)
			}
		}
		projs[i], filters[i] = pr, f
	}
	type seen struct {
		ids  map[benchproc.Key]int
		keys []benchproc.Key
	}
	st := make([]seen, len(c.Proj))
	for i := range st {
		st[i].ids = map[benchproc.Key]int{}
	}
	named := map[string]bool{}
	for _, p := range c.Proj {
		for _, k := range []string{"c1", "c2", "c3"} {
			if strings.Contains(prMenu[p.ID], k) {
				named[k] = true
			}
		}
	}
	results := make([]*benchfmt.Result, len(c.Stream))
	for i := range c.Stream {
		r, err := prBuildResult(&c.Stream[i], i, named)
		if err != nil {
			return fail("badcase", "%v", err)
		}
		results[i] = r
	}
	for i, r := range results {
		for pi, p := range c.Proj {
			if filters[pi] != nil {
				m, err := filters[pi].Match(r)
				if err != nil {
					return fail("filter-error", "%v", err)
				}
				accepted := m.All()
				if accepted != (p.KeyOf[i] != 0) {
					return fail("fixed-list-filter", "projection %s result %d (%s %s): filter accepted=%v, want %v", p.ID, i, r.Name, c.Stream[i].Cfg, accepted, p.KeyOf[i] != 0)
				}
				if !accepted {
					continue
				}
			} else if p.KeyOf[i] == 0 {
				return fail("badcase", "rejection without filter")
			}
			var k benchproc.Key
			if unitFields[pi] != nil {
				// history: the per-value entry point first, then the per-result one
				ks := projs[pi].ProjectValues(r)
				if len(ks) != len(r.Values) {
					return fail("projectvalues", "ProjectValues returned %d keys for %d values", len(ks), len(r.Values))
				}
				for vi, kv := range ks {
					if got := kv.Get(unitFields[pi]); got != r.Values[vi].Unit {
						return fail("key-get", "projection %s result %d value %d: per-value key has .unit %q, the value's unit is %q", p.ID, i, vi, got, r.Values[vi].Unit)
					}
				}
				k = projs[pi].Project(r)
				if got := k.Get(unitFields[pi]); got != "" {
					return fail("key-get", "projection %s result %d: per-result key (after a per-value call) has .unit %q, want \"\"", p.ID, i, got)
				}
			} else if rng.Intn(3) == 0 {
				ks := projs[pi].ProjectValues(r)
				if len(ks) != len(r.Values) {
					return fail("projectvalues", "ProjectValues returned %d keys for %d values", len(ks), len(r.Values))
				}
				k = ks[0]
			} else {
				k = projs[pi].Project(r)
			}
			// what callers do between projections: render the key, ask for the field list
			// (both go through the projection's flattened-field cache)
			_ = k.String()
			_ = projs[pi].FlattenedFields()
			id, ok := st[pi].ids[k]
			if !ok {
				id = len(st[pi].keys) + 1
				st[pi].ids[k] = id
				st[pi].keys = append(st[pi].keys, k)
			}
			if id != p.KeyOf[i] {
				return Verdict{OK: false, Signature: "key-identity", Detail: fmt.Sprintf("projection %s (%s) result %d: key #%d (%s), want #%d; stream=%s", p.ID, prMenu[p.ID], i, id, k, p.KeyOf[i], jsonStr(c.Stream))}
			}
		}
	}
	// field lists and values are compared at the end (fields grow while projecting)
	for pi, p := range c.Proj {
		flat := projs[pi].FlattenedFields()
		var names []string
		for _, f := range flat {
			names = append(names, f.Name)
		}
		if focus == "c09" && strings.Join(names, "|") != strings.Join(p.Flat, "|") && len(names) == len(p.Flat) {
			// the field list itself is C08's business; for C09 go on with the fields in the order
			// the expression gives them and judge Less / SortKeys against that order
			byName := map[string]*benchproc.Field{}
			for _, f := range flat {
				byName[f.Name] = f
			}
			var re []*benchproc.Field
			for _, nm := range p.Flat {
				if f := byName[nm]; f != nil {
					re = append(re, f)
				}
			}
			if len(re) == len(flat) {
				flat, names = re, p.Flat
			}
		}
		if strings.Join(names, "|") != strings.Join(p.Flat, "|") {
			return Verdict{OK: false, Signature: "field-list", Detail: fmt.Sprintf("projection %s (%s): flattened fields %v, want %v; stream=%s", p.ID, prMenu[p.ID], names, p.Flat, jsonStr(c.Stream))}
		}
		for i := range results {
			if p.KeyOf[i] == 0 || focus == "c09" {
				continue
			}
			k := st[pi].keys[p.KeyOf[i]-1]
			var ws, wv []string
			for j, f := range flat {
				if got := k.Get(f); got != p.Vals[i][j] {
					return Verdict{OK: false, Signature: "key-get", Detail: fmt.Sprintf("projection %s result %d field %s: Get = %q, want %q", p.ID, i, f.Name, got, p.Vals[i][j])}
				}
				if p.Vals[i][j] != "" {
					ws = append(ws, f.Name+":"+p.Vals[i][j])
					wv = append(wv, p.Vals[i][j])
				}
			}
			// the key's rendering lists every non-empty field value, in flattened order
			if got, want := k.String(), strings.Join(ws, " "); got != want {
				return Verdict{OK: false, Signature: "key-string", Detail: fmt.Sprintf("projection %s (%s) result %d: String() = %q, want %q", p.ID, prMenu[p.ID], i, got, want)}
			}
			if got, want := k.StringValues(), strings.Join(wv, " "); got != want {
				return Verdict{OK: false, Signature: "key-string", Detail: fmt.Sprintf("projection %s (%s) result %d: StringValues() = %q, want %q", p.ID, prMenu[p.ID], i, got, want)}
			}
		}
		keys := st[pi].keys
		n := len(keys)
		if n != len(p.Less) {
			return fail("key-count", "projection %s: %d distinct keys, want %d", p.ID, n, len(p.Less))
		}
		// NonSingularFields: exactly the fields on which the keys differ
		wantNS := map[string]bool{}
		for j := range flat {
			first := ""
			for i := range results {
				if p.KeyOf[i] == 0 {
					continue
				}
				if first == "" {
					first = "\x00" + p.Vals[i][j]
				} else if first != "\x00"+p.Vals[i][j] {
					wantNS[flat[j].Name] = true
				}
			}
		}
		gotNS := map[string]bool{}
		for _, f := range benchproc.NonSingularFields(keys) {
			gotNS[f.Name] = true
		}
		if len(gotNS) != len(wantNS) {
			return fail("nonsingular", "projection %s: NonSingularFields %v, want %v", p.ID, gotNS, wantNS)
		}
		for k := range wantNS {
			if !gotNS[k] {
				return fail("nonsingular", "projection %s: NonSingularFields %v, want %v", p.ID, gotNS, wantNS)
			}
		}
		if focus != "c09" {
			continue
		}
		// Less on all ordered pairs
		for a := 0; a < n; a++ {
			for b := 0; b < n; b++ {
				if got := keys[a].Less(keys[b]); got != p.Less[a][b] {
					sig := "less-matrix"
					if prIsGroupOnlyDiff(p, flat, keys[a], keys[b]) {
						sig = "less-config-subfield-order"
					}
					return Verdict{OK: false, Signature: sig, Detail: fmt.Sprintf("projection %s (%s): (%s).Less(%s) = %v, want %v; stream=%s", p.ID, prMenu[p.ID], keys[a], keys[b], got, p.Less[a][b], jsonStr(c.Stream))}
				}
			}
		}
		// SortKeys on shuffles yields the one sorted permutation
		want := make([]benchproc.Key, n)
		for a := 0; a < n; a++ {
			pred := 0
			for b := 0; b < n; b++ {
				if p.Less[b][a] {
					pred++
				}
			}
			want[pred] = keys[a]
		}
		for rep := 0; rep < 4; rep++ {
			sh := append([]benchproc.Key(nil), keys...)
			rng.Shuffle(len(sh), func(i, j int) { sh[i], sh[j] = sh[j], sh[i] })
			benchproc.SortKeys(sh)
			for i := range sh {
				if sh[i] != want[i] {
					return fail("sortkeys", "projection %s: SortKeys gave %v, want %v", p.ID, sh, want)
				}
			}
		}
	}
	return pass()
}

// prIsGroupOnlyDiff reports whether the first flattened field on which a and b
// differ is a sub-field of the .config group (used to classify the known
// observation-order defect precisely).
func prIsGroupOnlyDiff(p prProj, flat []*benchproc.Field, a, b benchproc.Key) bool {
	top := map[string]bool{}
	for _, f := range a.Projection().Fields() {
		if !f.IsTuple {
			top[f.Name] = true
		}
	}
	for _, f := range flat {
		if a.Get(f) != b.Get(f) {
			return !top[f.Name]
		}
	}
	return false
}
