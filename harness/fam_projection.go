package main

// Family "projection" (C08, C09): behaviours of Projection.tla (expressions
// parsed in some order, residue, a stream of results) are replayed on a real
// benchproc.ProjectionParser.  Compared with the specification's declarative
// expectation: key identity (Go ==) numbered by first appearance, Key.Get per
// flattened field, the flattened field list, NonSingularFields, Key.Less on all
// ordered pairs and SortKeys on shuffled slices.

import (
	"encoding/json"
	"fmt"
	"math/big"
	"math/rand"
	"sort"
	"strings"

	"golang.org/x/perf/benchfmt"
	"golang.org/x/perf/benchproc"
)

func init() { register("projection", famProjection) }

// must mirror Menu in Projection.tla
var prMenu = map[string]string{
	"e1":  ".config",
	"e2":  ".fullname",
	"e3":  "c1",
	"e4":  "/x",
	"e5":  ".name,.config",
	"e6":  "c2@alpha,.config",
	"e7":  ".config@alpha,c1@num",
	"e8":  "/gomaxprocs@num,.fullname",
	"e9":  "c1@(9 1000),.name@alpha",
	"e10": "c1@num,c2",
	"e11": ".config,.name",
}

type prRes struct {
	Cfg  json.RawMessage `json:"cfg"`
	Base string          `json:"base"`
	X    string          `json:"x"`
	XY   string          `json:"xy"`
	G    string          `json:"g"`
	Rev  bool            `json:"rev"`
}

type prProj struct {
	ID    string     `json:"id"`
	Flat  []string   `json:"flat"`
	KeyOf []int      `json:"keyof"`
	Vals  [][]string `json:"vals"`
	Less  [][]bool   `json:"less"`
}

type prCase struct {
	ID     int      `json:"id"`
	Stream []prRes  `json:"stream"`
	Proj   []prProj `json:"proj"`
}

func famProjection(mode string, args []string) error {
	if mode != "replay" {
		return fmt.Errorf("projection: unknown mode %q", mode)
	}
	focus := "c08"
	if len(args) > 2 {
		focus = args[2]
	}
	return replayLoop("projection", args, func(raw json.RawMessage) Verdict {
		var c prCase
		if err := json.Unmarshal(raw, &c); err != nil {
			return fail("badcase", "%v", err)
		}
		if focus == "c09" && !prNumScaleDone {
			prNumScaleDone = true
			if v := prNumAtScale(); !v.OK {
				return v
			}
		}
		v := prReplay(&c, focus)
		if !v.OK && focus == "c09" && !strings.HasPrefix(v.Signature, "less") && v.Signature != "sortkeys" {
			// key identity / extraction trouble is property C08's business
			return Verdict{OK: true, Detail: "skipped: " + v.Signature + " (C08)"}
		}
		return v
	})
}

// The padded variant blows a model behaviour up to the sizes where the code's fixed-width
// tricks end: every result carries prNPad more file-configuration keys (constant values,
// named by no projection) in front of the model's, so that the model's keys sit in row slots
// and flattened-field positions beyond 64, and the parser has parsed a projection naming
// prNPad... sub-name keys (present in no name) before the model's expressions, so that the
// model's /x is far down the list of named sub-name keys.  Constant extra fields change
// neither key identity nor order; the expected field lists and values are the specification's
// with the pads inserted where the .config group starts.
const prNPad = 70

func prPadName(j int) string { return fmt.Sprintf("pad%02d", j) }

// prGroupStart returns the index in the flattened field list at which the .config group of
// projection id begins (-1: the projection has no .config group); anyConfig says whether some
// expression of the case claims .config (then the residue has no group).
func prGroupStart(id string, anyConfig bool) int {
	if id == "residue" {
		if anyConfig {
			return -1
		}
		return 0
	}
	for i, f := range strings.Split(prMenu[id], ",") {
		if f == ".config" || strings.HasPrefix(f, ".config@") {
			return i
		}
	}
	return -1
}

func prPad(c *prCase) {
	anyConfig := false
	for _, p := range c.Proj {
		if p.ID != "residue" && prGroupStart(p.ID, false) >= 0 {
			anyConfig = true
		}
	}
	for pi := range c.Proj {
		p := &c.Proj[pi]
		gi := prGroupStart(p.ID, anyConfig)
		seen := false
		for _, k := range p.KeyOf {
			seen = seen || k != 0
		}
		if gi < 0 || !seen {
			continue
		}
		ins := func(list []string, fill func(j int) string) []string {
			out := append([]string(nil), list[:gi]...)
			for j := 0; j < prNPad; j++ {
				out = append(out, fill(j))
			}
			return append(out, list[gi:]...)
		}
		p.Flat = ins(p.Flat, prPadName)
		for i := range p.Vals {
			if p.Vals[i] != nil {
				p.Vals[i] = ins(p.Vals[i], func(int) string { return "p" })
			}
		}
	}
}

func prBuildResult(r *prRes, i int, named map[string]bool, padded bool) (*benchfmt.Result, error) {
	cfg, err := fsMapExpect(r.Cfg)
	if err != nil {
		return nil, err
	}
	keys := []string{"c1", "c2", "c3"}
	if r.Rev {
		keys = []string{"c3", "c2", "c1"}
	}
	res := &benchfmt.Result{}
	// tool-internal configuration must never show up in .config
	res.Config = append(res.Config, benchfmt.Config{Key: ".file", Value: []byte(fmt.Sprintf("f%d", i)), File: false})
	if padded {
		for j := 0; j < prNPad; j++ {
			res.Config = append(res.Config, benchfmt.Config{Key: prPadName(j), Value: []byte("p"), File: true})
		}
	}
	for _, k := range keys {
		if v, ok := cfg[k]; ok {
			res.Config = append(res.Config, benchfmt.Config{Key: k, Value: []byte(v), File: true})
		} else if (i+int(k[1]))%2 == 0 && !named[k] {
			// absent from the FILE configuration, present as tool-internal configuration (as
			// Result.SetConfig leaves it): never part of .config, whatever earlier results had.
			// (Not for keys some projection names by itself: a plain key reads internal
			// configuration too - that is how .file works.)
			res.Config = append(res.Config, benchfmt.Config{Key: k, Value: []byte("internal"), File: false})
		}
	}
	name := r.Base
	if r.X != "" {
		name += "/x=" + r.X
	}
	if r.XY != "" {
		name += "/xy=" + r.XY
	}
	if r.G != "" {
		name += "-" + r.G
	}
	res.Name = benchfmt.Name(name)
	res.Iters = 1
	res.Values = []benchfmt.Value{{Value: 1, Unit: "sec/op", OrigValue: 1e9, OrigUnit: "ns/op"}}
	return res, nil
}

// prDashBases spells the model's base names with a dash inside ("N1" -> "R-o1"): names like
// Read-only/x=s1-4, whose first dash comes before the last slash.  Order relations of the
// model's tokens are preserved ("" < "*" < N1 < N2 becomes "" < "*" < R-o1 < R-o2).
func prDashBases(c *prCase) {
	r := strings.NewReplacer("N1", "R-o1", "N2", "R-o2")
	// where every name of the stream has a sub-name part after the base, the base itself may end
	// in -<digits> (CRC-32/poly=IEEE-8): that is part of the base, not a GOMAXPROCS suffix
	allParts := true
	for i := range c.Stream {
		if c.Stream[i].X == "" && c.Stream[i].XY == "" {
			allParts = false
		}
	}
	if allParts && c.ID%4 == 3 {
		r = strings.NewReplacer("N1", "R-32", "N2", "R-64")
	}
	for i := range c.Stream {
		c.Stream[i].Base = r.Replace(c.Stream[i].Base)
	}
	for pi := range c.Proj {
		for i := range c.Proj[pi].Vals {
			for j := range c.Proj[pi].Vals[i] {
				c.Proj[pi].Vals[i][j] = r.Replace(c.Proj[pi].Vals[i][j])
			}
		}
	}
}

func prReplay(c *prCase, focus string) Verdict {
	rng := rand.New(rand.NewSource(seed()*31337 + int64(c.ID)))
	if c.ID%2 == 1 {
		prDashBases(c)
	}
	var parser benchproc.ProjectionParser
	padded := c.ID%5 == 4
	if padded {
		prPad(c)
		var subs []string
		for j := 0; j < 12; j++ {
			subs = append(subs, fmt.Sprintf("/sub%c", 'a'+j))
		}
		if _, err := parser.Parse(strings.Join(subs, ","), nil); err != nil {
			return fail("parse-error", "Parse(%q): %v", strings.Join(subs, ","), err)
		}
	}
	projs := make([]*benchproc.Projection, len(c.Proj))
	filters := make([]*benchproc.Filter, len(c.Proj))
	unitFields := make([]*benchproc.Field, len(c.Proj))
	withUnit := c.ID%4 == 2
	for i, p := range c.Proj {
		if p.ID == "residue" {
			if i != len(c.Proj)-1 {
				return fail("badcase", "residue is not last")
			}
			projs[i] = parser.Residue()
			continue
		}
		expr, ok := prMenu[p.ID]
		if !ok {
			return fail("badcase", "unknown expression id %q", p.ID)
		}
		f, err := benchproc.NewFilter("*")
		if err != nil {
			return fail("harness", "NewFilter(*): %v", err)
		}
		var pr *benchproc.Projection
		if withUnit {
			// the with-unit variant: one more field, .unit, after all others; per-result keys have
			// it empty, per-value keys carry the value's unit - in whatever order the two entry
			// points are used
			var uf *benchproc.Field
			pr, uf, err = parser.ParseWithUnit(expr, f)
			if err != nil {
				return fail("parse-error", "ParseWithUnit(%q): %v", expr, err)
			}
			unitFields[i] = uf
			c.Proj[i].Flat = append(append([]string(nil), p.Flat...), ".unit")
			for j := range c.Proj[i].Vals {
				if c.Proj[i].Vals[j] != nil {
					c.Proj[i].Vals[j] = append(append([]string(nil), c.Proj[i].Vals[j]...), "")
				}
			}
		} else {
			pr, err = parser.Parse(expr, f)
			if err != nil {
				return fail("parse-error", "Parse(%q): %v", expr, err)
			}
		}
		projs[i], filters[i] = pr, f
	}
	type seen struct {
		ids  map[benchproc.Key]int
		keys []benchproc.Key
	}
	st := make([]seen, len(c.Proj))
	for i := range st {
		st[i].ids = map[benchproc.Key]int{}
	}
	named := map[string]bool{}
	for _, p := range c.Proj {
		for _, k := range []string{"c1", "c2", "c3"} {
			if strings.Contains(prMenu[p.ID], k) {
				named[k] = true
			}
		}
	}
	results := make([]*benchfmt.Result, len(c.Stream))
	for i := range c.Stream {
		r, err := prBuildResult(&c.Stream[i], i, named, padded)
		if err != nil {
			return fail("badcase", "%v", err)
		}
		results[i] = r
	}
	// every third behaviour goes through ONE Result that is rewritten in place from one stream
	// element to the next, as a reader does (same backing arrays; a value of the same length as its
	// predecessor lands on the same bytes); keys keep only what they copied
	var live *benchfmt.Result
	if c.ID%3 == 1 {
		live = &benchfmt.Result{}
	}
	for i, r := range results {
		if live != nil {
			same := len(live.Config) == len(r.Config)
			for j := 0; same && j < len(r.Config); j++ {
				same = live.Config[j].Key == r.Config[j].Key
			}
			if same {
				for j := range r.Config {
					live.Config[j].Value = append(live.Config[j].Value[:0], r.Config[j].Value...)
					live.Config[j].File = r.Config[j].File
				}
			} else {
				// another key set: a Result's key index is private, so start a new one
				live = &benchfmt.Result{Name: live.Name, Values: live.Values}
				for _, cf := range r.Config {
					live.Config = append(live.Config, benchfmt.Config{Key: cf.Key, Value: append([]byte(nil), cf.Value...), File: cf.File})
				}
			}
			live.Name = append(live.Name[:0], r.Name...)
			live.Iters = r.Iters
			live.Values = append(live.Values[:0], r.Values...)
			r = live
		}
		for pi, p := range c.Proj {
			if filters[pi] != nil {
				m, err := filters[pi].Match(r)
				if err != nil {
					return fail("filter-error", "%v", err)
				}
				accepted := m.All()
				if accepted != (p.KeyOf[i] != 0) {
					return fail("fixed-list-filter", "projection %s result %d (%s %s): filter accepted=%v, want %v", p.ID, i, r.Name, c.Stream[i].Cfg, accepted, p.KeyOf[i] != 0)
				}
				if !accepted {
					continue
				}
			} else if p.KeyOf[i] == 0 {
				return fail("badcase", "rejection without filter")
			}
			var k benchproc.Key
			if unitFields[pi] != nil {
				// history: the per-value entry point first, then the per-result one
				ks := projs[pi].ProjectValues(r)
				if len(ks) != len(r.Values) {
					return fail("projectvalues", "ProjectValues returned %d keys for %d values", len(ks), len(r.Values))
				}
				for vi, kv := range ks {
					if got := kv.Get(unitFields[pi]); got != r.Values[vi].Unit {
						return fail("key-get", "projection %s result %d value %d: per-value key has .unit %q, the value's unit is %q", p.ID, i, vi, got, r.Values[vi].Unit)
					}
				}
				k = projs[pi].Project(r)
				if got := k.Get(unitFields[pi]); got != "" {
					return fail("key-get", "projection %s result %d: per-result key (after a per-value call) has .unit %q, want \"\"", p.ID, i, got)
				}
			} else if rng.Intn(3) == 0 {
				ks := projs[pi].ProjectValues(r)
				if len(ks) != len(r.Values) {
					return fail("projectvalues", "ProjectValues returned %d keys for %d values", len(ks), len(r.Values))
				}
				k = ks[0]
			} else {
				k = projs[pi].Project(r)
			}
			// what callers do between projections: render the key, ask for the field list
			// (both go through the projection's flattened-field cache)
			_ = k.String()
			_ = projs[pi].FlattenedFields()
			id, ok := st[pi].ids[k]
			if !ok {
				id = len(st[pi].keys) + 1
				st[pi].ids[k] = id
				st[pi].keys = append(st[pi].keys, k)
			}
			if id != p.KeyOf[i] {
				return Verdict{OK: false, Signature: "key-identity", Detail: fmt.Sprintf("projection %s (%s) result %d: key #%d (%s), want #%d; stream=%s", p.ID, prMenu[p.ID], i, id, k, p.KeyOf[i], jsonStr(c.Stream))}
			}
		}
	}
	// field lists and values are compared at the end (fields grow while projecting)
	for pi, p := range c.Proj {
		// (a private copy: the harness's expectations must not move if the code under test
		// scribbles over the list it handed out)
		flat := append([]*benchproc.Field(nil), projs[pi].FlattenedFields()...)
		var names []string
		for _, f := range flat {
			names = append(names, f.Name)
		}
		if focus == "c09" && strings.Join(names, "|") != strings.Join(p.Flat, "|") && len(names) == len(p.Flat) {
			// the field list itself is C08's business; for C09 go on with the fields in the order
			// the expression gives them and judge Less / SortKeys against that order
			byName := map[string]*benchproc.Field{}
			for _, f := range flat {
				byName[f.Name] = f
			}
			var re []*benchproc.Field
			for _, nm := range p.Flat {
				if f := byName[nm]; f != nil {
					re = append(re, f)
				}
			}
			if len(re) == len(flat) {
				flat, names = re, p.Flat
			}
		}
		if strings.Join(names, "|") != strings.Join(p.Flat, "|") {
			return Verdict{OK: false, Signature: "field-list", Detail: fmt.Sprintf("projection %s (%s): flattened fields %v, want %v; stream=%s", p.ID, prMenu[p.ID], names, p.Flat, jsonStr(c.Stream))}
		}
		for i := range results {
			if p.KeyOf[i] == 0 || focus == "c09" {
				continue
			}
			k := st[pi].keys[p.KeyOf[i]-1]
			var ws, wv []string
			for j, f := range flat {
				if got := k.Get(f); got != p.Vals[i][j] {
					return Verdict{OK: false, Signature: "key-get", Detail: fmt.Sprintf("projection %s result %d field %s: Get = %q, want %q", p.ID, i, f.Name, got, p.Vals[i][j])}
				}
				if p.Vals[i][j] != "" {
					ws = append(ws, f.Name+":"+p.Vals[i][j])
					wv = append(wv, p.Vals[i][j])
				}
			}
			// the key's rendering lists every non-empty field value, in flattened order
			if got, want := k.String(), strings.Join(ws, " "); got != want {
				return Verdict{OK: false, Signature: "key-string", Detail: fmt.Sprintf("projection %s (%s) result %d: String() = %q, want %q", p.ID, prMenu[p.ID], i, got, want)}
			}
			if got, want := k.StringValues(), strings.Join(wv, " "); got != want {
				return Verdict{OK: false, Signature: "key-string", Detail: fmt.Sprintf("projection %s (%s) result %d: StringValues() = %q, want %q", p.ID, prMenu[p.ID], i, got, want)}
			}
		}
		keys := st[pi].keys
		n := len(keys)
		if n != len(p.Less) {
			return fail("key-count", "projection %s: %d distinct keys, want %d", p.ID, n, len(p.Less))
		}
		// NonSingularFields: exactly the fields on which the keys differ
		wantNS := map[string]bool{}
		for j := range flat {
			first := ""
			for i := range results {
				if p.KeyOf[i] == 0 {
					continue
				}
				if first == "" {
					first = "\x00" + p.Vals[i][j]
				} else if first != "\x00"+p.Vals[i][j] {
					wantNS[flat[j].Name] = true
				}
			}
		}
		// ... and of every pair (of a sample of pairs when there are many): what a caller asks
		// for a table cell's keys, long before other keys are compared or sorted
		valsOf := map[benchproc.Key][]string{}
		for i := range results {
			if p.KeyOf[i] != 0 {
				valsOf[keys[p.KeyOf[i]-1]] = p.Vals[i]
			}
		}
		for a := 0; a < n; a++ {
			for b := a + 1; b < n; b++ {
				if n > 5 && rng.Intn(n) > 2 {
					continue
				}
				var want []string
				for j := range flat {
					if valsOf[keys[a]][j] != valsOf[keys[b]][j] {
						want = append(want, flat[j].Name)
					}
				}
				var got []string
				for _, f := range benchproc.NonSingularFields([]benchproc.Key{keys[a], keys[b]}) {
					got = append(got, f.Name)
				}
				sort.Strings(want)
				sort.Strings(got)
				if strings.Join(got, "|") != strings.Join(want, "|") && focus != "c09" {
					return fail("nonsingular", "projection %s: NonSingularFields of the pair (%s), (%s) = %v, want %v", p.ID, keys[a], keys[b], got, want)
				}
			}
		}
		gotNS := map[string]bool{}
		for _, f := range benchproc.NonSingularFields(keys) {
			gotNS[f.Name] = true
		}
		if len(gotNS) != len(wantNS) && focus != "c09" {
			return fail("nonsingular", "projection %s: NonSingularFields %v, want %v", p.ID, gotNS, wantNS)
		}
		for k := range wantNS {
			if !gotNS[k] && focus != "c09" {
				return fail("nonsingular", "projection %s: NonSingularFields %v, want %v", p.ID, gotNS, wantNS)
			}
		}
		if focus != "c09" {
			continue
		}
		// Less on all ordered pairs
		for a := 0; a < n; a++ {
			for b := 0; b < n; b++ {
				if got := keys[a].Less(keys[b]); got != p.Less[a][b] {
					sig := "less-matrix"
					if prIsGroupOnlyDiff(p, flat, keys[a], keys[b]) {
						sig = "less-config-subfield-order"
					}
					return Verdict{OK: false, Signature: sig, Detail: fmt.Sprintf("projection %s (%s): (%s).Less(%s) = %v, want %v; stream=%s", p.ID, prMenu[p.ID], keys[a], keys[b], got, p.Less[a][b], jsonStr(c.Stream))}
				}
			}
		}
		// SortKeys on shuffles yields the one sorted permutation
		want := make([]benchproc.Key, n)
		for a := 0; a < n; a++ {
			pred := 0
			for b := 0; b < n; b++ {
				if p.Less[b][a] {
					pred++
				}
			}
			want[pred] = keys[a]
		}
		for rep := 0; rep < 4; rep++ {
			sh := append([]benchproc.Key(nil), keys...)
			rng.Shuffle(len(sh), func(i, j int) { sh[i], sh[j] = sh[j], sh[i] })
			benchproc.SortKeys(sh)
			for i := range sh {
				if sh[i] != want[i] {
					return fail("sortkeys", "projection %s: SortKeys gave %v, want %v", p.ID, sh, want)
				}
			}
		}
	}
	return pass()
}

// prIsGroupOnlyDiff reports whether the first flattened field on which a and b
// differ is a sub-field of the .config group (used to classify the known
// observation-order defect precisely).
func prIsGroupOnlyDiff(p prProj, flat []*benchproc.Field, a, b benchproc.Key) bool {
	top := map[string]bool{}
	for _, f := range a.Projection().Fields() {
		if !f.IsTuple {
			top[f.Name] = true
		}
	}
	for _, f := range flat {
		if a.Get(f) != b.Get(f) {
			return !top[f.Name]
		}
	}
	return false
}

// ---------------------------------------------------------------- 'num' order beyond the model's values
//
// Projection.tla gives 'num' its meaning on a handful of strings (NumOf).  The rule itself -
// numerically, SI and IEC suffixes understood - is applied here to numbers the model's
// integers cannot hold: whole numbers of up to 25 digits on both sides of 2^53, 2^63 and 2^64,
// the same magnitudes spelled with suffixes and exponents, and neighbours that differ in the
// tenth to sixteenth significant digit.  The oracle is exact rational arithmetic on the
// spelling; only pairs whose exact values differ by more than a float64 can blur (relative
// 1e-14) are judged, so it demands nothing the statement does not.  Once per process.

var prNumScaleDone bool

func prExactNum(s string) (*big.Rat, bool) {
	num := s
	mult := big.NewRat(1, 1)
	suffixes := []struct {
		suf  string
		base int64
		exp  int
	}{{"Ki", 1024, 1}, {"Mi", 1024, 2}, {"Gi", 1024, 3}, {"Ti", 1024, 4}, {"Pi", 1024, 5}, {"Ei", 1024, 6},
		{"k", 1000, 1}, {"K", 1000, 1}, {"M", 1000, 2}, {"G", 1000, 3}, {"T", 1000, 4}, {"P", 1000, 5}, {"E", 1000, 6}, {"Z", 1000, 7}, {"Y", 1000, 8}}
	t := strings.TrimSuffix(strings.TrimSuffix(num, "B"), "b")
	for _, sf := range suffixes {
		if strings.HasSuffix(t, sf.suf) {
			num = strings.TrimSuffix(t, sf.suf)
			m := new(big.Int).Exp(big.NewInt(sf.base), big.NewInt(int64(sf.exp)), nil)
			mult.SetInt(m)
			break
		}
	}
	if num == "" || strings.Trim(num, "0123456789.") != "" && !strings.ContainsAny(num, "e") {
		return nil, false
	}
	r, ok := new(big.Rat).SetString(num)
	if !ok {
		return nil, false
	}
	return r.Mul(r, mult), true
}

func prNumAtScale() Verdict {
	var words []string
	add := func(w ...string) { words = append(words, w...) }
	two := big.NewInt(2)
	for _, e := range []int64{10, 20, 30, 31, 32, 33, 40, 52, 53, 54, 62, 63, 64, 65, 70, 80} {
		v := new(big.Int).Exp(two, big.NewInt(e), nil)
		add(v.String(), new(big.Int).Add(v, big.NewInt(1)).String(), new(big.Int).Sub(v, big.NewInt(1)).String())
		if e >= 33 {
			add(new(big.Int).Add(v, big.NewInt(3000)).String(), new(big.Int).Sub(v, big.NewInt(70000)).String())
		}
	}
	ten := big.NewInt(10)
	for e := int64(9); e <= 24; e++ {
		v := new(big.Int).Exp(ten, big.NewInt(e), nil)
		add(v.String(), new(big.Int).Add(v, big.NewInt(7)).String(), new(big.Int).Sub(v, big.NewInt(3)).String())
	}
	add("18446744073709551615", "9223372036854775807", "9223372036854775808", "99999999999999999999", "1e19", "1e18", "2e19", "9.5e18",
		"1Ki", "1Mi", "1Gi", "2048MiB", "4Gi", "1Ti", "16Ei", "8Ei", "1Pi", "1k", "1M", "1G", "3G", "1T", "1P", "1E", "10E", "1Z", "1Y", "2.5G", "1.5Gi",
		"1", "2", "9", "10", "100", "0", "0.5", "1000", "1024", "1025", "999")
	seen := map[string]bool{}
	type item struct {
		w string
		r *big.Rat
	}
	var items []item
	for _, w := range words {
		if seen[w] {
			continue
		}
		seen[w] = true
		r, ok := prExactNum(w)
		if !ok {
			return fail("harness", "num-at-scale: no exact value for %q", w)
		}
		items = append(items, item{w, r})
	}
	var parser benchproc.ProjectionParser
	proj, err := parser.Parse("c1@num", nil)
	if err != nil {
		return fail("parse-error", "Parse(c1@num): %v", err)
	}
	rng := rand.New(rand.NewSource(seed()*7 + 5))
	perm := rng.Perm(len(items))
	keys := make([]benchproc.Key, len(items))
	for _, i := range perm {
		res := &benchfmt.Result{Name: benchfmt.Name("N"), Iters: 1, Values: []benchfmt.Value{{Value: 1, Unit: "sec/op"}},
			Config: []benchfmt.Config{{Key: "c1", Value: []byte(items[i].w), File: true}}}
		keys[i] = proj.Project(res)
	}
	clear := func(a, b *big.Rat) bool {
		// |a-b| > 1e-14 * max(|a|,|b|)
		d := new(big.Rat).Sub(a, b)
		d.Abs(d)
		m := new(big.Rat).Abs(a)
		if bb := new(big.Rat).Abs(b); bb.Cmp(m) > 0 {
			m = bb
		}
		m.Mul(m, big.NewRat(1, 100000000000000))
		return d.Cmp(m) > 0
	}
	for a := range items {
		for b := range items {
			if a == b || !clear(items[a].r, items[b].r) {
				continue
			}
			want := items[a].r.Cmp(items[b].r) < 0
			if got := keys[a].Less(keys[b]); got != want {
				return fail("less-num-at-scale", "c1@num: (%s).Less(%s) = %v, but %s %s %s numerically", items[a].w, items[b].w, got, items[a].w, map[bool]string{true: "<", false: ">"}[want], items[b].w)
			}
		}
	}
	for rep := 0; rep < 6; rep++ {
		sh := append([]benchproc.Key(nil), keys...)
		rng.Shuffle(len(sh), func(i, j int) { sh[i], sh[j] = sh[j], sh[i] })
		benchproc.SortKeys(sh)
		idx := map[benchproc.Key]int{}
		for i, k := range keys {
			idx[k] = i
		}
		for i := 0; i+1 < len(sh); i++ {
			for j := i + 1; j < len(sh); j++ {
				a, b := idx[sh[i]], idx[sh[j]]
				if clear(items[a].r, items[b].r) && items[a].r.Cmp(items[b].r) > 0 {
					return fail("sortkeys-num-at-scale", "c1@num: SortKeys puts %s before %s", items[a].w, items[b].w)
				}
			}
		}
	}
	return pass()
}
