package main

// Family "projection_conc" (property C09): the behaviours printed by spec/Projection_gen.tla
// (the same cases family "projection" replays) with the COMPARISONS made from several
// goroutines at once, after all results have been projected - the use benchproc documents as
// safe (FlattenedFields "can reasonably be called in parallel after all results have been
// projected"; benchstat sorts the keys of every table cell in a goroutine of its own).
//
// Per case: parser and projections as in the model, optionally with N constant file
// configuration keys in front of the model's (N = 0, 70, 600, 3000: constant fields change neither
// key identity nor order, but make the flattened field list long), every result projected
// with Project or ProjectValues and NOTHING else asked of the projection in between.  Then
// `attempts` rounds of
//
//	history step (by case and round):
//	  none      - straight after the last projection
//	  empty     - one more result, a copy of an earlier one plus a never-seen file
//	              configuration key with an EMPTY value: a new .config field, the old key
//	              (the key exists already, so no value is observed anew: the documented order
//	              is what it was.  NOT used: ProjectValues of a result without values - it
//	              interns a key nobody gets, which observes values and so moves the order)
//	  render    - k.String() of one key (what a caller printing a table does)
//	goroutines  - G (2..8) goroutines released together; each asks Key.Less of every ordered
//	              pair (in its own order) and SortKeys of shuffled slices and compares with
//	              the model's matrix / the one sorted permutation.
//
// A deviation is re-examined on a freshly built projection sequentially: if the sequential
// answer deviates too it is family "projection"'s to report (skipped here).  Key identity and
// field lists are C08's business: a case whose keys do not come out as the model numbers them
// is skipped.  A panic inside a comparing goroutine is a verdict.

import (
	"bufio"
	"bytes"
	"encoding/json"
	"fmt"
	"math/rand"
	"os"
	"os/exec"
	"runtime"
	"strings"
	"sync"
	"sync/atomic"
	"time"

	"golang.org/x/perf/benchfmt"
	"golang.org/x/perf/benchproc"
)

func init() { register("projection_conc", famProjectionConc) }

func famProjectionConc(mode string, args []string) error {
	switch mode {
	case "replay":
		return pcParent(args)
	case "replay-child":
		return pcChild(args)
	}
	return fmt.Errorf("projection_conc: unknown mode %q", mode)
}

// pcParent runs the cases in a child process: racing code may take the whole process down
// (a torn slice header faults, the runtime reports "fatal error: concurrent map ..."), which
// no recover() catches.  The child writes one verdict per case and flushes; when it dies, the
// case it was working on gets the verdict "less-crash/concurrent" (with the head of the
// child's stderr) and a new child goes on with the remaining cases.
func pcParent(args []string) error {
	if len(args) < 2 {
		return fmt.Errorf("replay needs <cases> <verdicts>")
	}
	raw, err := os.ReadFile(args[0])
	if err != nil {
		return err
	}
	var lines [][]byte
	for _, l := range bytes.Split(raw, []byte("\n")) {
		if len(bytes.TrimSpace(l)) > 0 {
			lines = append(lines, l)
		}
	}
	out, err := os.Create(args[1])
	if err != nil {
		return err
	}
	defer out.Close()
	exe, err := os.Executable()
	if err != nil {
		return err
	}
	crashes := 0
	for next := 0; next < len(lines); {
		cp, vp := args[0]+".part", args[1]+".part"
		if err := os.WriteFile(cp, append(bytes.Join(lines[next:], []byte("\n")), '\n'), 0o644); err != nil {
			return err
		}
		os.Remove(vp)
		cmd := exec.Command(exe, "projection_conc", "replay-child", cp, vp)
		var stderr bytes.Buffer
		cmd.Stderr = &stderr
		runErr := cmd.Run()
		got, _ := os.ReadFile(vp)
		n := 0
		for _, l := range bytes.Split(got, []byte("\n")) {
			if len(bytes.TrimSpace(l)) == 0 {
				continue
			}
			var v Verdict
			if json.Unmarshal(l, &v) != nil {
				break // a torn last line
			}
			if n >= len(lines)-next {
				return fmt.Errorf("child wrote more verdicts than cases")
			}
			out.Write(append(l, '\n'))
			n++
		}
		next += n
		if runErr == nil {
			if next != len(lines) {
				return fmt.Errorf("child answered %d of %d cases", n, n+len(lines)-next)
			}
			break
		}
		if next >= len(lines) {
			return fmt.Errorf("child failed after its last case: %v\n%s", runErr, pcHead(stderr.String(), 2000))
		}
		crashes++
		if crashes > 20 {
			return fmt.Errorf("child died %d times, last: %v\n%s", crashes, runErr, pcHead(stderr.String(), 2000))
		}
		var hdr struct {
			ID json.RawMessage `json:"id"`
		}
		if err := json.Unmarshal(lines[next], &hdr); err != nil {
			return fmt.Errorf("bad case line: %v", err)
		}
		v := Verdict{ID: hdr.ID, Family: "projection_conc", Signature: "less-crash/concurrent",
			Detail: fmt.Sprintf("the process died (%v) while several goroutines compared keys of this behaviour: %s", runErr, pcHead(stderr.String(), 600))}
		b, _ := json.Marshal(&v)
		out.Write(append(b, '\n'))
		next++
	}
	return nil
}

func pcHead(s string, n int) string {
	if len(s) > n {
		s = s[:n]
	}
	return s
}

func pcChild(args []string) error {
	if len(args) < 2 {
		return fmt.Errorf("replay-child needs <cases> <verdicts>")
	}
	if runtime.GOMAXPROCS(0) < 4 {
		runtime.GOMAXPROCS(4)
	}
	in, err := os.Open(args[0])
	if err != nil {
		return err
	}
	defer in.Close()
	out, err := os.Create(args[1])
	if err != nil {
		return err
	}
	defer out.Close()
	sc := bufio.NewScanner(in)
	sc.Buffer(make([]byte, 1<<20), 1<<28)
	for sc.Scan() {
		line := append([]byte(nil), sc.Bytes()...)
		if len(bytes.TrimSpace(line)) == 0 {
			continue
		}
		var c prCase
		var hdr struct {
			ID json.RawMessage `json:"id"`
		}
		if err := json.Unmarshal(line, &hdr); err != nil {
			return fmt.Errorf("bad case line: %v", err)
		}
		var v Verdict
		if err := json.Unmarshal(line, &c); err != nil {
			v = fail("badcase", "%v", err)
		} else {
			ch := make(chan Verdict, 1)
			go func() {
				defer func() {
					if r := recover(); r != nil {
						ch <- Verdict{Signature: "less-panic", Detail: fmt.Sprint("panic: ", r)}
					}
				}()
				ch <- pcReplay(&c)
			}()
			select {
			case v = <-ch:
			case <-time.After(120 * time.Second):
				v = Verdict{Signature: "hang-less/concurrent", Detail: "no answer within 120s"}
			}
		}
		v.ID = hdr.ID
		v.Family = "projection_conc"
		b, err := json.Marshal(&v)
		if err != nil {
			return err
		}
		if _, err := out.Write(append(b, '\n')); err != nil {
			return err
		}
		if strings.HasPrefix(v.Signature, "hang") {
			// the goroutines that never returned are still there: answer the rest "not run"
			for sc.Scan() {
				var h2 struct {
					ID json.RawMessage `json:"id"`
				}
				if json.Unmarshal(sc.Bytes(), &h2) == nil {
					w := Verdict{ID: h2.ID, Family: "projection_conc", OK: true, Detail: "skipped: not run after a hang"}
					b, _ := json.Marshal(&w)
					out.Write(append(b, '\n'))
				}
			}
			return nil
		}
	}
	return sc.Err()
}

type pcBuilt struct {
	projs   []*benchproc.Projection
	filters []*benchproc.Filter
	keys    [][]benchproc.Key // per projection, as the model numbers them
	results []*benchfmt.Result
	skip    string
}

func pcPadName(j int) string { return fmt.Sprintf("cpad%04d", j) }

// pcBuild parses the case's expressions and projects its stream; nothing but Project /
// ProjectValues is asked of the projections.
func pcBuild(c *prCase, npad int, rng *rand.Rand) (*pcBuilt, *Verdict) {
	b := &pcBuilt{}
	var parser benchproc.ProjectionParser
	b.projs = make([]*benchproc.Projection, len(c.Proj))
	b.filters = make([]*benchproc.Filter, len(c.Proj))
	for i, p := range c.Proj {
		if p.ID == "residue" {
			if i != len(c.Proj)-1 {
				v := fail("badcase", "residue is not last")
				return nil, &v
			}
			b.projs[i] = parser.Residue()
			continue
		}
		expr, ok := prMenu[p.ID]
		if !ok {
			v := fail("badcase", "unknown expression id %q", p.ID)
			return nil, &v
		}
		f, err := benchproc.NewFilter("*")
		if err != nil {
			v := fail("harness", "NewFilter(*): %v", err)
			return nil, &v
		}
		pr, err := parser.Parse(expr, f)
		if err != nil {
			b.skip = fmt.Sprintf("parse-error (C08): Parse(%q): %v", expr, err)
			return b, nil
		}
		b.projs[i], b.filters[i] = pr, f
	}
	named := map[string]bool{}
	for _, p := range c.Proj {
		for _, k := range []string{"c1", "c2", "c3"} {
			if strings.Contains(prMenu[p.ID], k) {
				named[k] = true
			}
		}
	}
	b.results = make([]*benchfmt.Result, len(c.Stream))
	for i := range c.Stream {
		r, err := prBuildResult(&c.Stream[i], i, named, false)
		if err != nil {
			v := fail("badcase", "%v", err)
			return nil, &v
		}
		if npad > 0 {
			cfg := make([]benchfmt.Config, 0, npad+len(r.Config))
			for j := 0; j < npad; j++ {
				cfg = append(cfg, benchfmt.Config{Key: pcPadName(j), Value: []byte("p"), File: true})
			}
			r.Config = append(cfg, r.Config...)
		}
		b.results[i] = r
	}
	b.keys = make([][]benchproc.Key, len(c.Proj))
	ids := make([]map[benchproc.Key]int, len(c.Proj))
	for i := range ids {
		ids[i] = map[benchproc.Key]int{}
	}
	for i, r := range b.results {
		for pi, p := range c.Proj {
			if b.filters[pi] != nil {
				m, err := b.filters[pi].Match(r)
				if err != nil {
					b.skip = fmt.Sprintf("filter-error (C08): %v", err)
					return b, nil
				}
				if m.All() != (p.KeyOf[i] != 0) {
					b.skip = "fixed-list-filter (C08)"
					return b, nil
				}
				if !m.All() {
					continue
				}
			} else if p.KeyOf[i] == 0 {
				v := fail("badcase", "rejection without filter")
				return nil, &v
			}
			var k benchproc.Key
			if rng.Intn(3) == 0 {
				ks := b.projs[pi].ProjectValues(r)
				if len(ks) != len(r.Values) || len(ks) == 0 {
					b.skip = "projectvalues (C08)"
					return b, nil
				}
				k = ks[0]
			} else {
				k = b.projs[pi].Project(r)
			}
			id, ok := ids[pi][k]
			if !ok {
				id = len(b.keys[pi]) + 1
				ids[pi][k] = id
				b.keys[pi] = append(b.keys[pi], k)
			}
			if id != p.KeyOf[i] {
				b.skip = "key-identity (C08)"
				return b, nil
			}
		}
	}
	for pi, p := range c.Proj {
		if len(b.keys[pi]) != len(p.Less) {
			b.skip = "key-count (C08)"
			return b, nil
		}
	}
	return b, nil
}

// pcWant: the one sorted permutation by the model's matrix.
func pcWant(p *prProj, keys []benchproc.Key) []benchproc.Key {
	n := len(keys)
	want := make([]benchproc.Key, n)
	for a := 0; a < n; a++ {
		pred := 0
		for b := 0; b < n; b++ {
			if p.Less[b][a] {
				pred++
			}
		}
		want[pred] = keys[a]
	}
	return want
}

// pcCompare: every ordered pair (starting at a rotation of its own) and SortKeys on shuffles.
func pcCompare(c *prCase, b *pcBuilt, rng *rand.Rand, who string) *Verdict {
	for pi := range c.Proj {
		p := &c.Proj[pi]
		keys := b.keys[pi]
		n := len(keys)
		if n == 0 {
			continue
		}
		off := rng.Intn(n * n)
		for q := 0; q < n*n; q++ {
			a, bb := ((q+off)%(n*n))/n, ((q+off)%(n*n))%n
			if got := keys[a].Less(keys[bb]); got != p.Less[a][bb] {
				return &Verdict{Signature: "less-matrix", Detail: fmt.Sprintf("%s: projection %s (%s): (%s).Less(%s) = %v, want %v; stream=%s", who, p.ID, prMenu[p.ID], pcShort(keys[a]), pcShort(keys[bb]), got, p.Less[a][bb], jsonStr(c.Stream))}
			}
		}
		want := pcWant(p, keys)
		for rep := 0; rep < 2; rep++ {
			sh := append([]benchproc.Key(nil), keys...)
			rng.Shuffle(len(sh), func(i, j int) { sh[i], sh[j] = sh[j], sh[i] })
			in := append([]benchproc.Key(nil), sh...)
			benchproc.SortKeys(sh)
			for i := range sh {
				if sh[i] != want[i] {
					return &Verdict{Signature: "sortkeys", Detail: fmt.Sprintf("%s: projection %s (%s): SortKeys(%s) gave %s, want %s; stream=%s", who, p.ID, prMenu[p.ID], pcShorts(in), pcShorts(sh), pcShorts(want), jsonStr(c.Stream))}
				}
			}
		}
	}
	return nil
}

func pcShort(k benchproc.Key) string {
	var out []string
	for _, w := range strings.Fields(k.String()) {
		if !strings.HasPrefix(w, "cpad") {
			out = append(out, w)
		}
	}
	return strings.Join(out, " ")
}

func pcShorts(ks []benchproc.Key) string {
	var out []string
	for _, k := range ks {
		out = append(out, "("+pcShort(k)+")")
	}
	return "[" + strings.Join(out, " ") + "]"
}

var pcFresh int64

func pcReplay(c *prCase) Verdict {
	rng := rand.New(rand.NewSource(seed()*7919 + int64(c.ID)))
	npad := []int{3000, 0, 600, 70}[c.ID%4]
	attempts := 20
	if npad == 0 {
		attempts = 40
	}
	b, bad := pcBuild(c, npad, rng)
	if bad != nil {
		return *bad
	}
	if b.skip != "" {
		return Verdict{OK: true, Detail: "skipped: " + b.skip}
	}
	// the results each projection accepted (history steps re-project copies of them)
	accepted := func(pi, i int) bool { return c.Proj[pi].KeyOf[i] != 0 }
	steps := []string{"none", "empty", "empty", "render", "empty"}
	for at := 0; at < attempts; at++ {
		step := steps[(at+c.ID/4)%len(steps)]
		if at == 0 && c.ID%8 < 4 {
			step = "none"
		}
		switch step {
		case "empty":
			i := rng.Intn(len(b.results))
			cp := *b.results[i]
			pcFresh++
			key := fmt.Sprintf("zfresh%06d", pcFresh)
			cp.Config = append(append([]benchfmt.Config(nil), cp.Config...), benchfmt.Config{Key: key, Value: nil, File: true})
			for pi := range c.Proj {
				if !accepted(pi, i) {
					continue
				}
				if k := b.projs[pi].Project(&cp); k != b.keys[pi][c.Proj[pi].KeyOf[i]-1] {
					return Verdict{OK: true, Detail: "skipped: key-identity (C08): an empty-valued new file configuration key made a new key"}
				}
			}
		case "render":
			for pi := range c.Proj {
				if len(b.keys[pi]) > 0 {
					_ = b.keys[pi][rng.Intn(len(b.keys[pi]))].String()
				}
			}
		}
		G := 2 + (at+c.ID)%7
		res := make([]*Verdict, G)
		var arrived int32
		var wg sync.WaitGroup
		for g := 0; g < G; g++ {
			wg.Add(1)
			grng := rand.New(rand.NewSource(rng.Int63()))
			go func(g int) {
				defer wg.Done()
				who := fmt.Sprintf("goroutine %d of %d comparing at the same time (round %d, after step %q, %d constant extra config keys)", g+1, G, at+1, step, npad)
				defer func() {
					if r := recover(); r != nil {
						res[g] = &Verdict{Signature: "less-panic", Detail: fmt.Sprintf("%s: panic: %v", who, r)}
					}
				}()
				atomic.AddInt32(&arrived, 1)
				for spins := 0; atomic.LoadInt32(&arrived) < int32(G); spins++ {
					if spins%64 == 63 {
						runtime.Gosched()
					}
				}
				res[g] = pcCompare(c, b, grng, who)
			}(g)
		}
		wg.Wait()
		for _, v := range res {
			if v == nil {
				continue
			}
			// is it the concurrency?  the same history on a fresh projection, one goroutine
			b2, bad2 := pcBuild(c, npad, rand.New(rand.NewSource(seed()*7919+int64(c.ID))))
			if bad2 == nil && b2.skip == "" {
				if w := pcCompare(c, b2, rand.New(rand.NewSource(1)), "sequentially"); w != nil {
					return Verdict{OK: true, Detail: "skipped: " + w.Signature + " sequentially as well (family projection reports it)"}
				}
			}
			v.Signature += "/concurrent"
			return *v
		}
	}
	return pass()
}
