package main

// Family "scale" (C10): TLC-generated cases of Scale.tla are replayed on the real
// benchunit.Scale / CommonScale / Scaler.Format / ClassOf / NoOpScaler.
//
//	val     a magnitude on the exact decimal grid  q * 10^(-5-s) * Base^k  (Base 1000 or
//	        1024).  It becomes the correctly rounded float64 of that decimal, goes through
//	        Scale and CommonScale(..).Format, and the printed text is parsed back into
//	        (prefix, decimals, digits) and looked up in the accept set the specification's
//	        declarative contract emitted.  Cases marked skip are the thresholds themselves:
//	        there the accept set is the union of both tie resolutions.
//	common  an argument list for CommonScale; the Scaler must be one accepted for the
//	        smallest non-zero magnitude.
//	unit    a unit string over an abstract alphabet (" " = some white space, "x" = some
//	        other rune, concretised from the seed) for ClassOf.
//	noop    (auxiliary, not from TLC) n seed-chosen floats through NoOpScaler.Format:
//	        plain decimal, reads back to the same float, and no shorter decimal does.
//
// Expected values come from the spec; this file only converts and compares.

import (
	"encoding/json"
	"fmt"
	"math"
	"math/big"
	"strconv"
	"strings"

	"golang.org/x/perf/benchunit"
)

func init() { register("scale", famScale) }

type scEntry struct {
	J   int     `json:"j"`
	Pfx string  `json:"pfx"`
	D   int     `json:"d"`
	Z   int     `json:"z"`
	Ns  []int64 `json:"ns"`
}

type scVal struct {
	K   int   `json:"k"`
	S   int   `json:"s"`
	Q   int64 `json:"q"`
	Neg bool  `json:"neg"`
}

type scCase struct {
	Kind   string    `json:"kind"`
	Cls    string    `json:"cls"`
	K      int       `json:"k"`
	S      int       `json:"s"`
	Q      int64     `json:"q"`
	Skip   bool      `json:"skip"`
	Region string    `json:"region"`
	Must3  bool      `json:"must3"`
	Accept []scEntry `json:"accept"`
	Vals   []scVal   `json:"vals"`
	Min    scVal     `json:"min"`
	U      []string  `json:"u"`
	Binary bool      `json:"binary"`
	N      int       `json:"n"`
	Salt   int64     `json:"salt"`
}

const scDMax = 12 // decimals the specification's contract enumerates

func famScale(mode string, args []string) error {
	switch mode {
	case "replay":
		return replayLoop("scale", args, func(raw json.RawMessage) Verdict {
			var c scCase
			if err := json.Unmarshal(raw, &c); err != nil {
				return fail("bad-case", "cannot decode case: %v", err)
			}
			switch c.Kind {
			case "val":
				return scReplayVal(&c)
			case "common":
				return scReplayCommon(&c)
			case "unit":
				return scReplayUnit(&c)
			case "noop":
				return scReplayNoOp(&c)
			}
			return fail("bad-case", "unknown kind %q", c.Kind)
		})
	}
	return fmt.Errorf("scale: unknown mode %q", mode)
}

// ---------------------------------------------------------------- projection

func scClass(cls string) benchunit.Class {
	if cls == "bin" {
		return benchunit.Binary
	}
	return benchunit.Decimal
}

func scBase(cls string) int64 {
	if cls == "bin" {
		return 1024
	}
	return 1000
}

// scFloat is the float64 nearest to q * 10^(-5-s) * Base^k.
func scFloat(cls string, k, s int, q int64) float64 {
	if q == 0 {
		return 0
	}
	if cls == "dec" {
		x, err := strconv.ParseFloat(fmt.Sprintf("%de%d", q, -5-s+3*k), 64)
		if err != nil {
			panic(err)
		}
		return x
	}
	x, err := strconv.ParseFloat(fmt.Sprintf("%de%d", q, -5-s), 64)
	if err != nil {
		panic(err)
	}
	return math.Ldexp(x, 10*k) // exact
}

// abstract prefix name ("u" stands for the micro sign) and index of a concrete prefix
func scPrefixIndex(cls, pfx string) (string, int, bool) {
	if cls == "dec" {
		switch pfx {
		case "n":
			return "n", -3, true
		case "µ":
			return "u", -2, true
		case "m":
			return "m", -1, true
		case "":
			return "", 0, true
		case "k":
			return "k", 1, true
		case "M":
			return "M", 2, true
		case "G":
			return "G", 3, true
		case "T":
			return "T", 4, true
		}
		return "", 0, false
	}
	switch pfx {
	case "":
		return "", 0, true
	case "Ki":
		return "Ki", 1, true
	case "Mi":
		return "Mi", 2, true
	case "Gi":
		return "Gi", 3, true
	case "Ti":
		return "Ti", 4, true
	}
	return "", 0, false
}

type scPrinted struct {
	neg    bool
	ip, fp string // integer and fraction digits
	pfx    string
}

func scParse(out string) (p scPrinted, ok bool) {
	s := out
	if strings.HasPrefix(s, "-") {
		p.neg = true
		s = s[1:]
	}
	i := 0
	for i < len(s) && s[i] >= '0' && s[i] <= '9' {
		i++
	}
	if i == 0 {
		return p, false
	}
	p.ip = s[:i]
	s = s[i:]
	if strings.HasPrefix(s, ".") {
		s = s[1:]
		i = 0
		for i < len(s) && s[i] >= '0' && s[i] <= '9' {
			i++
		}
		if i == 0 {
			return p, false
		}
		p.fp = s[:i]
		s = s[i:]
	}
	p.pfx = s
	return p, true
}

func (p scPrinted) digits() *big.Int {
	n, _ := new(big.Int).SetString(p.ip+p.fp, 10)
	return n
}

func (p scPrinted) sigDigits() int {
	return len(strings.TrimLeft(p.ip+p.fp, "0"))
}

// mix gives a reproducible choice that depends only on the seed and the case content.
func scMix(vals ...int64) uint64 {
	h := uint64(seed())*0x9E3779B97F4A7C15 + 0x1234567
	for _, v := range vals {
		h ^= uint64(v) + 0x9E3779B97F4A7C15 + (h << 6) + (h >> 2)
		h *= 0xBF58476D1CE4E5B9
		h ^= h >> 29
	}
	return h
}

// scCheckOut compares one formatted string with the accept set of the contract.
func scCheckOut(what, out, cls string, wantNeg bool, region string, acc []scEntry) (sig, detail string) {
	p, ok := scParse(out)
	if !ok {
		return "unparsable-output", fmt.Sprintf("%s = %q is not [-]digits[.digits]prefix", what, out)
	}
	if p.neg != wantNeg {
		return "wrong-sign", fmt.Sprintf("%s = %q", what, out)
	}
	apfx, j, ok := scPrefixIndex(cls, p.pfx)
	if !ok {
		return "unknown-prefix", fmt.Sprintf("%s = %q: prefix %q is not a prefix of class %s", what, out, p.pfx, cls)
	}
	d := len(p.fp)
	got := p.digits()
	var sameJ, sameJD *scEntry
	for i := range acc {
		e := &acc[i]
		if e.J == j {
			if e.Pfx != apfx {
				return "prefix-name", fmt.Sprintf("%s = %q: prefix index %d should be called %q", what, out, j, e.Pfx)
			}
			sameJ = e
			if e.D == d {
				sameJD = e
			}
		}
	}
	if sameJD != nil {
		for _, n := range sameJD.Ns {
			w := new(big.Int).Mul(big.NewInt(n), new(big.Int).Exp(big.NewInt(10), big.NewInt(int64(sameJD.Z)), nil))
			if w.Cmp(got) == 0 {
				return "", ""
			}
		}
		return "mantissa-not-nearest", fmt.Sprintf("%s = %q: digits %s, nearest is %v *10^%d (more than half a unit of the last digit off)", what, out, got, sameJD.Ns, sameJD.Z)
	}
	if d > scDMax {
		return "outside-model", fmt.Sprintf("%s = %q: %d decimals, the contract enumerates up to %d", what, out, d, scDMax)
	}
	acceptable := jsonStr(acc)
	if region == "inrange" {
		// classify against the clauses of the statement
		base := new(big.Int).Mul(big.NewInt(scBase(cls)), new(big.Int).Exp(big.NewInt(10), big.NewInt(int64(d)), nil))
		one := new(big.Int).Exp(big.NewInt(10), big.NewInt(int64(d)), nil)
		sd := p.sigDigits()
		switch {
		case got.Cmp(base) >= 0:
			return "inrange-prints-mantissa-at-or-above-base", fmt.Sprintf("%s = %q although a prefix with mantissa in [1,%d) exists; acceptable: %s", what, out, scBase(cls), acceptable)
		case got.Cmp(one) < 0:
			return "inrange-prints-mantissa-below-one", fmt.Sprintf("%s = %q although a prefix with mantissa in [1,%d) exists; acceptable: %s", what, out, scBase(cls), acceptable)
		case sd < 4:
			return "inrange-fewer-than-four-digits", fmt.Sprintf("%s = %q has %d significant digits; acceptable: %s", what, out, sd, acceptable)
		case sd > 4 && !(cls == "bin" && sd == 5 && d == 1):
			return "inrange-more-than-four-digits", fmt.Sprintf("%s = %q has %d significant digits; acceptable: %s", what, out, sd, acceptable)
		case sameJ == nil:
			return "inrange-prefix-handover-off-rounding-boundary", fmt.Sprintf("%s = %q; acceptable: %s", what, out, acceptable)
		}
		return "inrange-wrong-precision", fmt.Sprintf("%s = %q; acceptable: %s", what, out, acceptable)
	}
	if sameJ == nil {
		return region + "-wrong-prefix", fmt.Sprintf("%s = %q; acceptable: %s", what, out, acceptable)
	}
	return region + "-fewer-than-three-digits", fmt.Sprintf("%s = %q has %d significant digits; acceptable: %s", what, out, p.sigDigits(), acceptable)
}

// ---------------------------------------------------------------- val

func scReplayVal(c *scCase) Verdict {
	x := scFloat(c.Cls, c.K, c.S, c.Q)
	neg := c.Q != 0 && scMix(c.Q, int64(c.K), int64(c.S), 7)%4 == 0
	if neg {
		x = -x
	}
	cls := scClass(c.Cls)
	concrete := fmt.Sprintf("Scale(%s, %v) [q=%d k=%d s=%d]", strconv.FormatFloat(x, 'g', -1, 64), cls, c.Q, c.K, c.S)
	out1 := benchunit.Scale(x, cls)
	sc := benchunit.CommonScale([]float64{x}, cls)
	out2 := sc.Format(x)
	if c.Q == 0 {
		for _, o := range []string{out1, out2} {
			p, ok := scParse(o)
			if !ok || p.digits().Sign() != 0 {
				v := fail("zero-not-printed-as-zero", "%s = %q", concrete, o)
				v.Concrete = concrete
				return v
			}
		}
		return pass()
	}
	for i, o := range []string{out1, out2} {
		what := concrete
		if i == 1 {
			what = "CommonScale([x]).Format(x) for " + concrete
		}
		if sig, det := scCheckOut(what, o, c.Cls, neg, c.Region, c.Accept); sig != "" {
			if c.Skip {
				sig = "threshold-" + sig
			}
			v := fail(sig, "%s", det)
			v.Concrete = concrete
			v.Got = o
			v.Want = c.Accept
			return v
		}
	}
	return pass()
}

// ---------------------------------------------------------------- common

func scReplayCommon(c *scCase) Verdict {
	cls := scClass(c.Cls)
	vals := make([]float64, len(c.Vals))
	var strs []string
	for i, v := range c.Vals {
		vals[i] = scFloat(c.Cls, v.K, v.S, v.Q)
		if v.Neg {
			vals[i] = -vals[i]
		}
		strs = append(strs, strconv.FormatFloat(vals[i], 'g', -1, 64))
	}
	concrete := fmt.Sprintf("CommonScale([%s], %v)", strings.Join(strs, " "), cls)
	if v := scCommonRow(c, cls, vals, concrete); !v.OK {
		return v
	}
	if c.Min.Q == 0 {
		return pass()
	}
	// wide rows: the same smallest non-zero magnitude among 20..100 values, the others being
	// zeros and (signed) copies of the row's largest magnitude - the answer is the same
	minAbs, maxAbs := math.Inf(1), 0.0
	for _, x := range vals {
		if a := math.Abs(x); a != 0 {
			minAbs, maxAbs = math.Min(minAbs, a), math.Max(maxAbs, a)
		}
	}
	h := scMix(int64(len(vals)), int64(c.Min.Q), int64(c.Min.K), 29)
	for _, n := range []int{[]int{20, 21, 25, 33}[h%4], []int{40, 64, 65, 100}[(h>>3)%4]} {
		wide := append([]float64(nil), vals...)
		for i := len(wide); i < n; i++ {
			switch (h >> uint(i%40)) % 5 {
			case 0:
				wide = append(wide, 0)
			case 1:
				wide = append(wide, -maxAbs)
			default:
				wide = append(wide, maxAbs)
			}
		}
		// the smallest magnitude anywhere in the row
		at := int((h >> 7) % uint64(n))
		for i, x := range wide {
			if math.Abs(x) == minAbs {
				wide[i], wide[at] = wide[at], wide[i]
				break
			}
		}
		if v := scCommonRow(c, cls, wide, fmt.Sprintf("%s widened to %d values (zeros and +-%v added, smallest at %d)", concrete, n, maxAbs, at)); !v.OK {
			return v
		}
	}
	return pass()
}

func scCommonRow(c *scCase, cls benchunit.Class, vals []float64, concrete string) Verdict {
	given := append([]float64(nil), vals...)
	sc := benchunit.CommonScale(vals, cls)
	// the caller goes on to format each value of its slice with the shared scale
	for i := range given {
		if math.Float64bits(given[i]) != math.Float64bits(vals[i]) {
			v := fail("common-scale-changes-the-callers-values", "%s: value %d of the caller's slice is %v afterwards, was %v", concrete, i, vals[i], given[i])
			v.Concrete = concrete
			copy(vals, given)
			return v
		}
	}
	if c.Min.Q == 0 {
		o := sc.Format(0)
		p, ok := scParse(o)
		if !ok || p.digits().Sign() != 0 {
			v := fail("zero-not-printed-as-zero", "%s.Format(0) = %q", concrete, o)
			v.Concrete = concrete
			return v
		}
		return pass()
	}
	apfx, j, ok := scPrefixIndex(c.Cls, sc.Prefix)
	mk := func(sig, format string, a ...interface{}) Verdict {
		v := fail(sig, format, a...)
		v.Concrete = concrete
		v.Got = fmt.Sprintf("%+v", sc)
		v.Want = c.Accept
		return v
	}
	if !ok {
		return mk("unknown-prefix", "%s = %+v", concrete, sc)
	}
	found := false
	for _, e := range c.Accept {
		if e.J == j && e.D == sc.Prec && e.Pfx == apfx {
			found = true
		}
	}
	minx := scFloat(c.Cls, c.Min.K, c.Min.S, c.Min.Q)
	if !found {
		return mk("common-scale-not-of-smallest-nonzero-magnitude", "%s = %+v; smallest non-zero magnitude is %v, acceptable %s",
			concrete, sc, minx, jsonStr(c.Accept))
	}
	want := math.Pow(float64(scBase(c.Cls)), float64(j))
	if math.Abs(sc.Factor-want) > 1e-12*want {
		return mk("scaler-factor-does-not-match-prefix", "%s = %+v, prefix %q means %g", concrete, sc, sc.Prefix, want)
	}
	if sig, det := scCheckOut(concrete+".Format(min)", sc.Format(minx), c.Cls, false, c.Region, c.Accept); sig != "" {
		return mk(sig, "%s", det)
	}
	return pass()
}

// ---------------------------------------------------------------- unit

var scSpaces = []string{" ", "\t", "\n", "\u00a0", "\u2003", "\r", "\u0085"}
var scOthers = []string{"x", "n", "é", "K", "1", "%", "m", "µ", "世", "S", "o", "p"}

func scReplayUnit(c *scCase) Verdict {
	var sb strings.Builder
	for i, ch := range c.U {
		switch ch {
		case " ":
			sb.WriteString(scSpaces[scMix(int64(i), int64(len(c.U)), 11)%uint64(len(scSpaces))])
		case "x":
			sb.WriteString(scOthers[scMix(int64(i), int64(len(c.U)), 13)%uint64(len(scOthers))])
		default:
			sb.WriteString(ch)
		}
	}
	unit := sb.String()
	got := benchunit.ClassOf(unit)
	concrete := fmt.Sprintf("ClassOf(%q) [abstract %s]", unit, strings.Join(c.U, ""))
	if (got == benchunit.Binary) != c.Binary {
		sig := "classof-bytes-in-numerator-not-binary"
		if !c.Binary {
			sig = "classof-binary-without-bytes-in-numerator"
		}
		v := fail(sig, "%s = %v, bytes in numerator: %v", concrete, got, c.Binary)
		v.Concrete = concrete
		return v
	}
	// the class is a function of the unit string: asking again after the unit (and a longer unit
	// with the same numerator, of the kind the tidying cache keeps) has been through Tidy gives
	// the same answer, and so does the tidied spelling (MB becomes B, ns becomes sec: bytes stay bytes)
	for _, u := range []string{unit, unit + "/conns", unit + "/MB-x"} {
		before := benchunit.ClassOf(u)
		_, tidied := benchunit.Tidy(1, u)
		after := benchunit.ClassOf(u)
		ct := benchunit.ClassOf(tidied)
		if (before == benchunit.Binary) != c.Binary || after != before || ct != before {
			v := fail("classof-changes-with-tidy-history", "ClassOf(%q) = %v before Tidy, %v after; ClassOf(tidied %q) = %v; bytes in numerator: %v", u, before, after, tidied, ct, c.Binary)
			v.Concrete = concrete
			return v
		}
	}
	// the class selects the prefix family
	o := benchunit.Scale(1536, got)
	want := "1.536k"
	if c.Binary {
		want = "1.500Ki"
	}
	if o != want {
		v := fail("class-selects-wrong-prefix-family", "Scale(1536, %s) = %q, want %q", concrete, o, want)
		v.Concrete = concrete
		return v
	}
	return pass()
}

// ---------------------------------------------------------------- noop

func scNoOpFloat(i int, r interface {
	Uint64() uint64
	Intn(int) int
	Float64() float64
}) float64 {
	switch i % 8 {
	case 0: // any finite bit pattern
		for {
			x := math.Float64frombits(r.Uint64())
			if !math.IsNaN(x) && !math.IsInf(x, 0) {
				return x
			}
		}
	case 1: // integers
		return float64(int64(r.Uint64()>>uint(r.Intn(63))) - int64(r.Intn(2)))
	case 2: // short decimals
		x, _ := strconv.ParseFloat(fmt.Sprintf("%d.%0*d", r.Intn(100000), 1+r.Intn(9), r.Intn(1000000000)), 64)
		return x
	case 3: // measurements like ns/op
		return math.Round(r.Float64()*1e9) / math.Pow(10, float64(r.Intn(10)))
	case 4: // subnormals and the smallest normals
		return math.Float64frombits(r.Uint64() >> uint(11+r.Intn(52)))
	case 5: // powers of two and neighbours (asymmetric rounding interval)
		x := math.Ldexp(1, r.Intn(2098)-1074)
		switch r.Intn(3) {
		case 0:
			return math.Nextafter(x, 0)
		case 1:
			return math.Nextafter(x, math.Inf(1))
		}
		return x
	case 6: // powers of ten
		x, _ := strconv.ParseFloat(fmt.Sprintf("%de%d", 1+r.Intn(9), r.Intn(600)-300), 64)
		return -x
	}
	specials := []float64{0, math.Copysign(0, -1), 1, -1, math.MaxFloat64, math.SmallestNonzeroFloat64, 0.1, 0.3, 1e21, 1e22, 123456789, 123.456789, 5e-324, 2.2250738585072014e-308}
	return specials[r.Intn(len(specials))]
}

// scHuge: "for all finite magnitudes" - beyond the largest prefix the largest prefix is used and the
// number is still the value (auxiliary: the model's grid ends at ~1100 Ti).
func scHuge() Verdict {
	for _, cls := range []string{"dec", "bin"} {
		top, fac := "T", 1e12
		if cls == "bin" {
			top, fac = "Ti", math.Ldexp(1, 40)
		}
		for _, x := range []float64{math.Ldexp(1, 51), math.Ldexp(1, 57), math.Ldexp(1, 58), math.Ldexp(1, 59), math.Ldexp(1, 60), math.Ldexp(1, 63),
			math.Ldexp(1, 64), 1e18, 1e19, 3e25, 1e30, 1e100, 1e300, math.MaxFloat64, -math.Ldexp(1, 59), -1e19, -math.MaxFloat64} {
			for _, arg := range [][]float64{{x}, {x, 2 * x / 3 * 2}, {0, x}} {
				var out string
				concrete := fmt.Sprintf("CommonScale(%v, %s).Format(%v)", arg, cls, x)
				func() {
					defer func() {
						if r := recover(); r != nil {
							out = fmt.Sprint("panic: ", r)
						}
					}()
					out = benchunit.CommonScale(arg, scClass(cls)).Format(x)
				}()
				p, ok := scParse(out)
				if strings.HasPrefix(out, "panic: ") {
					v := fail("panic", "%s: %s", concrete, out)
					v.Concrete = concrete
					return v
				}
				if !ok || p.pfx != top {
					v := fail("huge-magnitude-prefix", "%s = %q, want a number with prefix %s", concrete, out, top)
					v.Concrete = concrete
					return v
				}
				m, err := strconv.ParseFloat(strings.TrimSuffix(out, top), 64)
				unit := math.Pow(10, -float64(len(p.fp)))
				if err != nil || math.Abs(m-x/fac) > 0.5*unit+1e-9*math.Abs(m) {
					v := fail("huge-magnitude-value", "%s = %q, which is %v %s, not %v %s", concrete, out, m, top, x/fac, top)
					v.Concrete = concrete
					return v
				}
			}
		}
	}
	return pass()
}

func scReplayNoOp(c *scCase) Verdict {
	if c.Salt == 0 {
		if v := scHuge(); !v.OK {
			return v
		}
	}
	r := newRand(7100 + c.Salt)
	for i := 0; i < c.N; i++ {
		x := scNoOpFloat(i, r)
		out := benchunit.NoOpScaler.Format(x)
		concrete := fmt.Sprintf("NoOpScaler.Format(%s) [bits %#x]", strconv.FormatFloat(x, 'g', -1, 64), math.Float64bits(x))
		mk := func(sig, format string, a ...interface{}) Verdict {
			v := fail(sig, format, a...)
			v.Concrete = concrete
			v.Got = out
			return v
		}
		p, ok := scParse(out)
		if !ok || p.pfx != "" {
			return mk("noop-not-plain-decimal", "%s = %q", concrete, out)
		}
		y, err := strconv.ParseFloat(out, 64)
		if err != nil || math.Float64bits(y) != math.Float64bits(x) {
			return mk("noop-does-not-read-back", "%s = %q reads back as %v", concrete, out, y)
		}
		// significant digits printed: without leading zeros and without trailing zeros
		ds := strings.TrimLeft(p.ip+p.fp, "0")
		ds = strings.TrimRight(ds, "0")
		if p.fp != "" && strings.HasSuffix(p.fp, "0") {
			return mk("noop-not-shortest", "%s = %q ends in a fractional zero", concrete, out)
		}
		n := len(ds)
		if n >= 2 {
			// no decimal with n-1 significant digits reads back to x: try the correctly
			// rounded one and its two neighbours
			e := strconv.FormatFloat(math.Abs(x), 'e', n-2, 64)
			mant, exp, _ := strings.Cut(e, "e")
			mi, _ := new(big.Int).SetString(strings.Replace(mant, ".", "", 1), 10)
			ex, _ := strconv.Atoi(exp)
			for dlt := int64(-1); dlt <= 1; dlt++ {
				cand := new(big.Int).Add(mi, big.NewInt(dlt))
				if cand.Sign() <= 0 {
					continue
				}
				text := fmt.Sprintf("%se%d", cand.String(), ex-(n-2))
				z, err := strconv.ParseFloat(text, 64)
				if err == nil && z == math.Abs(x) {
					return mk("noop-not-shortest", "%s = %q has %d significant digits but %s reads back to the same float", concrete, out, n, text)
				}
			}
		}
		if want := strconv.FormatFloat(x, 'e', -1, 64); true {
			wm, _, _ := strings.Cut(strings.TrimPrefix(want, "-"), "e")
			wd := strings.TrimRight(strings.Replace(wm, ".", "", 1), "0")
			if wd != ds && !(x == 0 && ds == "") {
				return mk("noop-not-shortest", "%s = %q: digits %q, shortest round-trip digits %q", concrete, out, ds, wd)
			}
		}
	}
	return pass()
}
