package main

// Family "series" (C18): binds spec/Series.tla, spec/SeriesDates.tla to
// golang.org/x/perf/benchseries.
//
// Case kinds (one JSON object per line, field "kind"):
//
//	series     a SET of result records of Series.tla with Expected(set, policy,
//	           table) for one duplicate policy.  The records are added to a real
//	           benchseries.Builder in EVERY order (all permutations up to 4
//	           records, 40 seeded permutations beyond), one Result per record, adjacent
//	           records merged into multi-unit Results, and through the file-level
//	           API (benchfmt.Writer -> files -> Builder.AddFiles, split over
//	           several files).  AllComparisonSeries is called repeatedly on each
//	           builder (Go randomises map iteration per range loop) and a
//	           canonical dump of every result is compared with the expectation
//	           and with the dump of the first run.
//	summ       AddSummaries on positive samples for one (confidence, resamples)
//	           pair: reproducible, low <= centre <= high, all inside
//	           [min num / max den, max num / min den].  Auxiliary: the bootstrap
//	           itself is outside the model.
//	date       one timestamp spelling: NormalizeDateString must return the
//	           specification's normalised text.
//	dateorder  the whole grid: same instant => same text, byte order of the texts
//	           = order of the instants.
//
// Tokens of the model (units, tables, benchmarks, hashes, measurement values) are
// concretised from tables rotated by VERIF_SEED and the case number; the verdict
// does not depend on the choice.

import (
	"encoding/json"
	"fmt"
	"math"
	"math/rand"
	"os"
	"path/filepath"
	"runtime"
	"sort"
	"strings"
	"sync"
	"sync/atomic"

	"golang.org/x/perf/benchfmt"
	"golang.org/x/perf/benchseries"
)

func init() { register("series", famSeries) }

type serRec struct {
	Unit    string `json:"unit"`
	Table   string `json:"table"`
	Bench   string `json:"bench"`
	Exp     int    `json:"exp"`
	Series  int    `json:"series"`
	Role    string `json:"role"`
	NumHash string `json:"numHash"`
	DenHash string `json:"denHash"`
	Value   int    `json:"value"`
}

type serHP struct {
	S     int      `json:"s"`
	Num   string   `json:"num"`
	DenOK []string `json:"denOK"`
}

type serPoint struct {
	B    string `json:"b"`
	S    int    `json:"s"`
	Num  []int  `json:"num"`
	Den  []int  `json:"den"`
	Date int    `json:"date"`
}

type serTab struct {
	Unit    string     `json:"unit"`
	Table   string     `json:"table"`
	Benches []string   `json:"benches"`
	Series  []int      `json:"series"`
	HP      []serHP    `json:"hp"`
	Points  []serPoint `json:"points"`
}

type serStamp struct {
	Raw   string   `json:"raw"`
	Raws  []string `json:"raws"`
	Canon string   `json:"canon"`
}

type serMeta struct {
	Exps   []serStamp `json:"exps"`
	Series []serStamp `json:"series"`
}

type serDate struct {
	Raw   string `json:"raw"`
	Canon string `json:"canon"`
	Inst  [3]int `json:"inst"`
	Fmt   string `json:"fmt"`
}

type serCase struct {
	ID     int       `json:"id"` // assigned by the driver; concretisation depends on it, not on the position in the file
	Kind   string    `json:"kind"`
	Policy string    `json:"policy"`
	Recs   []serRec  `json:"recs"`
	Expect []serTab  `json:"expect"`
	Meta   serMeta   `json:"meta"`
	NNum   int       `json:"nnum"`
	NDen   int       `json:"nden"`
	Conf   float64   `json:"conf"`
	N      int       `json:"n"`
	Salt   int64     `json:"salt"`
	Shape  int       `json:"shape"` // summ: 0 mixed shapes by salt, 1 numerator 1000x the denominator, 2 constant samples, 3 narrow samples on different scales
	SameKey int      `json:"samekey"` // series: >0 = NumeratorHash == DenominatorHash, hash set serSameKeyHashSets[samekey-1]
	Big    int       `json:"big"`   // series: >0 = one record in two stands for that many measurements (cells beyond 32 / 64 values)
	Date   serDate   `json:"date"`
	Dates  []serDate `json:"dates"`
}

func famSeries(mode string, args []string) error {
	switch mode {
	case "replay":
		// benchseries reports hash mismatches with fmt.Fprintf(os.Stderr, ...);
		// keep that out of the driver's pipe while cases run.
		saved := os.Stderr
		if null, err := os.OpenFile(os.DevNull, os.O_WRONLY, 0); err == nil {
			os.Stderr = null
			defer func() { os.Stderr = saved; null.Close() }()
		}
		dir := filepath.Join(os.Getenv("VERIF_WORK"), fmt.Sprintf("series-files-%d", os.Getpid()))
		if os.Getenv("VERIF_WORK") == "" {
			dir = filepath.Join(os.TempDir(), fmt.Sprintf("series-files-%d", os.Getpid()))
		}
		if err := os.MkdirAll(dir, 0o755); err != nil {
			return err
		}
		defer os.RemoveAll(dir)
		return replayLoop("series", args, func(raw json.RawMessage) Verdict {
			var c serCase
			if err := json.Unmarshal(raw, &c); err != nil {
				return fail("badcase", "%v", err)
			}
			switch c.Kind {
			case "series":
				return serReplaySeries(&c, c.ID+1, dir)
			case "summ":
				return serReplaySumm(&c)
			case "date":
				return serReplayDate(&c)
			case "dateorder":
				return serReplayDateOrder(&c)
			}
			return fail("badcase", "unknown kind %q", c.Kind)
		})
	}
	return fmt.Errorf("series: unknown mode %q", mode)
}

// ---------------------------------------------------------------- concretisation

var serUnitSets = [][2]string{{"sec/op", "B/op"}, {"widgets", "sec/op"}, {"B/s", "allocs/op"}, {"B/op", "A/op"}}
var serBenchSets = [][2]string{{"Foo", "Bar"}, {"Bar", "Foo"}, {"Enc/sub=1-8", "Enc/sub=2-8"}, {"Z", "A/b"}, {"Enc/é", "Enc"}}

// table token -> (goarch, goos); an empty value means the key is absent
var serTableSets = [][2][2]string{
	{{"amd64", "linux"}, {"arm64", "linux"}},
	{{"", ""}, {"", "plan9"}},
	{{"riscv64", ""}, {"amd64", "darwin"}},
}
var serHashSets = []map[string]string{
	{"n1": "abcdef0123456789", "n2": "0123456789abcdef", "n3": "ffff000011112222", "d1": "9876543219fedcba", "d2": "1111222233334444", "d3": "5555666677778888"},
	{"n1": "b", "n2": "a", "n3": "c", "d1": "a", "d2": "b", "d3": "c"}, // numerator and denominator hashes may coincide as text
	{"n1": "tip-1", "n2": "tip-2", "n3": "tip-3", "d1": "base", "d2": "base-2", "d3": "base-3"},
}

type serNames struct {
	units  [2]string
	bench  [2]string
	tables [2][2]string
	hashes map[string]string
	bent   bool // use BentBuilderOptions' key names
	// one key names the toolchain of every record: BuilderOptions.NumeratorHash == DenominatorHash
	// (cmd/benchseries: "-numerator-hash ... (can be same as denominator-hash)"); a record then
	// carries the hash of its own role under that key
	samekey bool
}

func serIdx(tok string) int { // "u1" -> 0, "b2" -> 1
	if len(tok) < 2 {
		return 0
	}
	return int(tok[len(tok)-1]-'1') % 2
}

func serPick(caseNo int) serNames {
	s := int(seed())
	return serNames{
		units:  serUnitSets[(s+caseNo)%len(serUnitSets)],
		bench:  serBenchSets[(s+caseNo/2)%len(serBenchSets)],
		tables: serTableSets[(s+caseNo/3)%len(serTableSets)],
		hashes: serHashSets[(s+caseNo/5)%len(serHashSets)],
		bent:   (s+caseNo/7)%2 == 0,
	}
}

func (nm *serNames) unit(tok string) string   { return nm.units[serIdx(tok)] }
func (nm *serNames) benchN(tok string) string { return nm.bench[serIdx(tok)] }
func (nm *serNames) hash(tok string) string {
	if tok == "" {
		return ""
	}
	return nm.hashes[tok]
}
func (nm *serNames) tableString(tok string) string {
	t := nm.tables[serIdx(tok)]
	return strings.TrimSpace(t[0] + " " + t[1])
}
func (nm *serNames) unitString(u, t string) string {
	s := nm.unit(u)
	if ts := nm.tableString(t); ts != "" {
		s += " " + ts
	}
	return s
}

func (nm *serNames) options() *benchseries.BuilderOptions {
	if nm.bent {
		bo := benchseries.BentBuilderOptions()
		bo.Table = "goarch,goos"
		bo.Warn = func(string, ...interface{}) {}
		if nm.samekey {
			bo.DenominatorHash = bo.NumeratorHash
		}
		return bo
	}
	bo := &benchseries.BuilderOptions{
		Filter: ".unit:/.*/", Series: "ser-stamp", Table: "goarch,goos", Experiment: "run", Compare: "role",
		Numerator: "num", Denominator: "den", NumeratorHash: "nh", DenominatorHash: "dh", Ignore: "note",
		Warn: func(string, ...interface{}) {},
	}
	if nm.samekey {
		bo.NumeratorHash, bo.DenominatorHash = "commit", "commit"
	}
	return bo
}

// hash sets of the same-key cases: the toolchain that is the numerator of one series point is
// the baseline of another (chained tip-vs-previous-tip comparisons; crossed)
var serSameKeyHashSets = []map[string]string{
	{"n1": "h1", "n2": "h2", "n3": "h3", "d1": "h0", "d2": "h1", "d3": "h2"},
	{"n1": "b", "n2": "a", "n3": "c", "d1": "a", "d2": "b", "d3": "c"},
	{"n1": "c1", "n2": "c2", "n3": "c3", "d1": "c3", "d2": "c3", "d3": "c1"},
	{"n1": "abcdef0123456789", "n2": "0123456789abcdef", "n3": "ffff000011112222", "d1": "9876543219fedcba", "d2": "1111222233334444", "d3": "5555666677778888"},
}

// serResult builds the benchfmt.Result of one record (or of several records that
// differ only in unit and value).
func (nm *serNames) result(c *serCase, recs []int, vals []float64, spell []int) *benchfmt.Result {
	r0 := c.Recs[recs[0]]
	bo := nm.options()
	role := bo.Numerator
	if r0.Role == "den" {
		role = bo.Denominator
	}
	ser := c.Meta.Series[r0.Series-1]
	cfg := []benchfmt.Config{
		{Key: bo.Compare, Value: []byte(role), File: true},
		{Key: bo.Experiment, Value: []byte(c.Meta.Exps[r0.Exp-1].Raw), File: true},
		{Key: bo.Series, Value: []byte(ser.Raws[spell[recs[0]]%len(ser.Raws)]), File: true},
		{Key: bo.NumeratorHash, Value: []byte(nm.hash(r0.NumHash)), File: true},
		{Key: bo.DenominatorHash, Value: []byte(nm.hash(r0.DenHash)), File: true},
	}
	if nm.samekey {
		h := nm.hash(r0.NumHash)
		if r0.Role == "den" {
			h = nm.hash(r0.DenHash)
		}
		cfg = append(cfg[:3], benchfmt.Config{Key: bo.NumeratorHash, Value: []byte(h), File: true})
	}
	cfg = append(cfg, []benchfmt.Config{
		{Key: "pkg", Value: []byte("example.com/p"), File: true},
		{Key: "residue", Value: []byte(fmt.Sprint("r", recs[0]%2)), File: true},
	}...)
	t := nm.tables[serIdx(r0.Table)]
	if t[0] != "" {
		cfg = append(cfg, benchfmt.Config{Key: "goarch", Value: []byte(t[0]), File: true})
	}
	if t[1] != "" {
		cfg = append(cfg, benchfmt.Config{Key: "goos", Value: []byte(t[1]), File: true})
	}
	res := &benchfmt.Result{Config: cfg, Name: benchfmt.Name(nm.benchN(r0.Bench)), Iters: 1 + recs[0]}
	for _, i := range recs {
		res.Values = append(res.Values, benchfmt.Value{Value: vals[i], Unit: nm.unit(c.Recs[i].Unit)})
	}
	return res
}

// ---------------------------------------------------------------- series cases

func serPerms(n int, rnd *rand.Rand) [][]int {
	id := make([]int, n)
	for i := range id {
		id[i] = i
	}
	if n <= 4 {
		var out [][]int
		var rec func(k int)
		rec = func(k int) {
			if k == n {
				out = append(out, append([]int(nil), id...))
				return
			}
			for i := k; i < n; i++ {
				id[k], id[i] = id[i], id[k]
				rec(k + 1)
				id[k], id[i] = id[i], id[k]
			}
		}
		rec(0)
		return out
	}
	out := [][]int{append([]int(nil), id...)}
	rev := make([]int, n)
	for i := range rev {
		rev[i] = n - 1 - i
	}
	out = append(out, rev)
	for len(out) < 40 {
		out = append(out, rnd.Perm(n))
	}
	return out
}

type serDumpPoint struct {
	B, S     string
	Num, Den []float64
	Date     string
}
type serDumpTab struct {
	Unit       string
	Benchmarks []string
	Series     []string
	HashPairs  []string
	Points     []serDumpPoint
}

func serSorted(a []float64) []float64 {
	b := append([]float64{}, a...)
	sort.Float64s(b)
	return b
}

func serDump(css []*benchseries.ComparisonSeries) []serDumpTab {
	var out []serDumpTab
	for _, cs := range css {
		t := serDumpTab{Unit: cs.Unit, Benchmarks: cs.Benchmarks, Series: cs.Series}
		for k, v := range cs.HashPairs {
			t.HashPairs = append(t.HashPairs, k+"="+v.NumHash+"/"+v.DenHash)
		}
		sort.Strings(t.HashPairs)
		for _, b := range cs.Benchmarks {
			for _, s := range cs.Series {
				cc, ok := cs.ComparisonAt(b, s)
				if !ok {
					continue
				}
				p := serDumpPoint{B: b, S: s, Date: cc.Date}
				if cc.Numerator != nil {
					p.Num = serSorted(cc.Numerator.Values)
				}
				if cc.Denominator != nil {
					p.Den = serSorted(cc.Denominator.Values)
				}
				t.Points = append(t.Points, p)
			}
		}
		out = append(out, t)
	}
	return out
}

func serSameSet(a, b []string) bool {
	if len(a) != len(b) {
		return false
	}
	x := append([]string{}, a...)
	y := append([]string{}, b...)
	sort.Strings(x)
	sort.Strings(y)
	for i := range x {
		if x[i] != y[i] {
			return false
		}
	}
	return true
}

func serSameFloats(a, b []float64) bool {
	if len(a) != len(b) {
		return false
	}
	for i := range a {
		if a[i] != b[i] {
			return false
		}
	}
	return true
}

func serBagCompare(got, want []float64) string { // "", "missing", "extra", "differ"
	if serSameFloats(got, want) {
		return ""
	}
	if len(got) < len(want) {
		return "missing"
	}
	if len(got) > len(want) {
		return "extra"
	}
	return "differ"
}

// Signature of the deviation DenHashFirstVisited of Series.tla: the denominator
// hash of a series point is "" in some runs (or all) although a trial measuring
// that point has a baseline, because another trial of the point has none and was
// visited first.
const serSigDenLost = "hashpair-denominator-lost-when-a-trial-of-the-point-has-no-baseline"

// serLacksBaseline: some trial (unit, table, benchmark, experiment) of the set has
// numerator measurements but no denominator measurement.
func serLacksBaseline(c *serCase) bool {
	type trial struct {
		u, t, b string
		e       int
	}
	hasDen := map[trial]bool{}
	for _, r := range c.Recs {
		if r.Role == "den" {
			hasDen[trial{r.Unit, r.Table, r.Bench, r.Exp}] = true
		}
	}
	for _, r := range c.Recs {
		if r.Role == "num" && !hasDen[trial{r.Unit, r.Table, r.Bench, r.Exp}] {
			return true
		}
	}
	return false
}

// serMixedBaseline: some series point of the set is measured in two experiments
// of which at least one has no denominator measurement (the input class of the
// two deviations named in Series.tla).
func serMixedBaseline(c *serCase) (mixed bool, repeated bool) {
	type trial struct {
		u, t, b string
		e       int
	}
	hasDen := map[trial]bool{}
	for _, r := range c.Recs {
		if r.Role == "den" {
			hasDen[trial{r.Unit, r.Table, r.Bench, r.Exp}] = true
		}
	}
	type point struct {
		u, t, b string
		s       int
	}
	exps := map[point]map[int]bool{}
	for _, r := range c.Recs {
		if r.Role != "num" {
			continue
		}
		p := point{r.Unit, r.Table, r.Bench, r.Series}
		if exps[p] == nil {
			exps[p] = map[int]bool{}
		}
		exps[p][r.Exp] = true
	}
	for p, es := range exps {
		if len(es) < 2 {
			continue
		}
		repeated = true
		for e := range es {
			if !hasDen[trial{p.u, p.t, p.b, e}] {
				mixed = true
			}
		}
	}
	return
}

// serCompare compares one AllComparisonSeries result with the expectation.
func serCompare(c *serCase, nm *serNames, reps [][]float64, css []*benchseries.ComparisonSeries) Verdict {
	byUnit := map[string]*benchseries.ComparisonSeries{}
	var gotUnits, wantUnits []string
	for _, cs := range css {
		if byUnit[cs.Unit] != nil {
			return fail("table-twice", "two comparison series for %q", cs.Unit)
		}
		byUnit[cs.Unit] = cs
		gotUnits = append(gotUnits, cs.Unit)
	}
	for _, t := range c.Expect {
		wantUnits = append(wantUnits, nm.unitString(t.Unit, t.Table))
	}
	if !serSameSet(gotUnits, wantUnits) {
		return Verdict{Signature: "tables-differ", Detail: "set of tables (unit + table keys)", Got: gotUnits, Want: wantUnits}
	}
	for _, t := range c.Expect {
		us := nm.unitString(t.Unit, t.Table)
		cs := byUnit[us]
		var wb []string
		for _, b := range t.Benches {
			wb = append(wb, nm.benchN(b))
		}
		if !serSameSet(cs.Benchmarks, wb) {
			return Verdict{Signature: "benchmark-axis", Detail: "table " + us + ": benchmarks", Got: cs.Benchmarks, Want: wb}
		}
		var ws []string
		for _, s := range t.Series {
			ws = append(ws, c.Meta.Series[s-1].Canon)
		}
		if !serSameSet(cs.Series, ws) {
			return Verdict{Signature: "series-axis", Detail: "table " + us + ": series points", Got: cs.Series, Want: ws}
		}
		for i := range ws {
			if cs.Series[i] != ws[i] {
				return Verdict{Signature: "series-axis-not-chronological", Detail: "table " + us + ": order of the series axis", Got: cs.Series, Want: ws}
			}
		}
		if len(cs.HashPairs) != len(t.HP) {
			return Verdict{Signature: "hashpairs-keys", Detail: "table " + us + ": hash pairs", Got: cs.HashPairs, Want: t.HP}
		}
		for _, hp := range t.HP {
			key := c.Meta.Series[hp.S-1].Canon
			got, ok := cs.HashPairs[key]
			if !ok {
				return Verdict{Signature: "hashpairs-keys", Detail: "table " + us + ": no hash pair for " + key, Got: cs.HashPairs}
			}
			if got.NumHash != nm.hash(hp.Num) {
				return Verdict{Signature: "hashpair-numerator", Detail: "table " + us + " series " + key, Got: got, Want: nm.hash(hp.Num)}
			}
			okDen := false
			var wd []string
			for _, d := range hp.DenOK {
				wd = append(wd, nm.hash(d))
				if got.DenHash == nm.hash(d) {
					okDen = true
				}
			}
			if !okDen {
				sig := "hashpair-denominator"
				if got.DenHash == "" && serLacksBaseline(c) {
					sig = serSigDenLost
				}
				return Verdict{Signature: sig, Detail: fmt.Sprintf("policy %s table %s series %s: DenHash", c.Policy, us, key), Got: got, Want: wd}
			}
		}
		want := map[[2]string]*serPoint{}
		for i := range t.Points {
			p := &t.Points[i]
			want[[2]string{nm.benchN(p.B), c.Meta.Series[p.S-1].Canon}] = p
		}
		for _, b := range cs.Benchmarks {
			for _, s := range cs.Series {
				cc, ok := cs.ComparisonAt(b, s)
				p := want[[2]string{b, s}]
				if p == nil {
					if ok {
						return fail("extra-point", "table %s: comparison at (%s, %s) but no numerator measurement matches", us, b, s)
					}
					continue
				}
				if !ok || cc.Numerator == nil {
					return fail("missing-point", "table %s: no comparison at (%s, %s)", us, b, s)
				}
				var wn, wd []float64
				for _, i := range p.Num {
					wn = append(wn, reps[i-1]...)
				}
				for _, i := range p.Den {
					wd = append(wd, reps[i-1]...)
				}
				wn, wd = serSorted(wn), serSorted(wd)
				gn := serSorted(cc.Numerator.Values)
				var gd []float64
				if cc.Denominator != nil {
					gd = serSorted(cc.Denominator.Values)
				}
				where := fmt.Sprintf("policy %s table %s point (%s, %s)", c.Policy, us, b, s)
				if d := serBagCompare(gn, wn); d != "" {
					return Verdict{Signature: c.Policy + "-numerator-samples-" + d, Detail: where, Got: gn, Want: wn}
				}
				if d := serBagCompare(gd, wd); d != "" {
					return Verdict{Signature: c.Policy + "-denominator-samples-" + d, Detail: where, Got: gd, Want: wd}
				}
				if wdate := c.Meta.Exps[p.Date-1].Canon; cc.Date != wdate {
					return Verdict{Signature: c.Policy + "-date", Detail: where, Got: cc.Date, Want: wdate}
				}
			}
		}
	}
	return pass()
}

func serAll(b *benchseries.Builder, how int) (css []*benchseries.ComparisonSeries, err error, panicked interface{}) {
	defer func() {
		if r := recover(); r != nil {
			panicked = r
		}
	}()
	css, err = b.AllComparisonSeries(nil, how)
	return
}

type serSumm struct{ low, center, high float64 }

// serSummaries runs AddSummaries and checks the C18 relations at every point.
func serSummaries(css []*benchseries.ComparisonSeries, conf float64, n int) (map[string]serSumm, Verdict) {
	out := map[string]serSumm{}
	for _, cs := range css {
		cs.AddSummaries(conf, n)
		if len(cs.Summaries) != len(cs.Series) {
			return nil, fail("summaries-shape", "%d rows for %d series points", len(cs.Summaries), len(cs.Series))
		}
		for i, s := range cs.Series {
			if len(cs.Summaries[i]) != len(cs.Benchmarks) {
				return nil, fail("summaries-shape", "row %d has %d entries for %d benchmarks", i, len(cs.Summaries[i]), len(cs.Benchmarks))
			}
			for j, b := range cs.Benchmarks {
				sum := cs.Summaries[i][j]
				cc, ok := cs.ComparisonAt(b, s)
				key := cs.Unit + "|" + b + "|" + s
				if !ok || cc.Denominator == nil || cc.Numerator == nil {
					if sum.Defined() {
						return nil, fail("summary-without-samples", "%s: summary present without numerator and denominator", key)
					}
					continue
				}
				if !sum.Defined() {
					return nil, fail("summary-missing", "%s: no summary although both samples exist", key)
				}
				if sum.Date != cc.Date {
					return nil, fail("summary-date", "%s: summary date %q, comparison date %q", key, sum.Date, cc.Date)
				}
				out[key] = serSumm{sum.Low, sum.Center, sum.High}
				nu, de := serSorted(cc.Numerator.Values), serSorted(cc.Denominator.Values)
				if len(nu) == 0 || len(de) == 0 || nu[0] <= 0 || de[0] <= 0 {
					continue
				}
				tol := func(x float64) float64 { return 1e-12 * math.Abs(x) }
				lo, hi := nu[0]/de[len(de)-1], nu[len(nu)-1]/de[0]
				what := fmt.Sprintf("%s conf=%g N=%d num=%v den=%v: low=%v centre=%v high=%v bounds=[%v,%v]", key, conf, n, nu, de, sum.Low, sum.Center, sum.High, lo, hi)
				if math.IsNaN(sum.Low) || math.IsNaN(sum.Center) || math.IsNaN(sum.High) {
					return nil, fail("bootstrap-nan", "%s", what)
				}
				if sum.Low > sum.Center+tol(sum.Center) {
					sig := "bootstrap-low-above-centre"
					if conf*float64(n) < 1 {
						sig = "bootstrap-low-above-centre-when-confidence-below-1/resamples"
					}
					return nil, fail(sig, "%s", what)
				}
				if sum.Center > sum.High+tol(sum.High) {
					return nil, fail("bootstrap-centre-above-high", "%s", what)
				}
				for _, x := range []float64{sum.Low, sum.Center, sum.High} {
					if x < lo-tol(lo) || x > hi+tol(hi) {
						return nil, fail("bootstrap-outside-attainable-ratios", "%s", what)
					}
				}
			}
		}
	}
	return out, pass()
}

func serSameSumm(a, b map[string]serSumm) string {
	if len(a) != len(b) {
		return "different sets of summarised points"
	}
	for k, x := range a {
		y, ok := b[k]
		if !ok || math.Float64bits(x.low) != math.Float64bits(y.low) || math.Float64bits(x.center) != math.Float64bits(y.center) || math.Float64bits(x.high) != math.Float64bits(y.high) {
			return fmt.Sprintf("%s: %v vs %v", k, x, y)
		}
	}
	return ""
}

// serPermResult is what one add order of a case produced.
type serPermResult struct {
	v     Verdict
	dumps []string // canonical dump of every AllComparisonSeries call
	order []string
	summ  []map[string]serSumm // summaries after every call
}

type serPlan struct {
	c      *serCase
	nm     serNames
	vals   []float64
	reps   [][]float64 // the measurements each record stands for (reps[i][0] == vals[i])
	valsJ  [][]float64 // valsJ[j][i] = reps[i][j]
	spell  []int
	how    int
	mixed  bool
	caseNo int
	dir    string
}

const serCalls = 4

// serRunPerm adds the records in one order (in one of three styles) to a fresh
// Builder and calls AllComparisonSeries serCalls times.
func serRunPerm(pl *serPlan, pi int, perm []int, style string, nfiles int) (res serPermResult) {
	defer func() {
		if r := recover(); r != nil {
			res.v = Verdict{Signature: "panic", Detail: fmt.Sprintf("panic: %v; order=%v style=%s", r, perm, style)}
		}
	}()
	c, nm := pl.c, &pl.nm
	opts := nm.options()
	if style == "filtered" {
		opts.Filter = "-.unit:noise/op"
	}
	bld, err := benchseries.NewBuilder(opts)
	if err != nil {
		res.v = fail("harness", "NewBuilder: %v", err)
		return
	}
	mkJ := func(g []int, j int) *benchfmt.Result {
		r := nm.result(c, g, pl.valsJ[j], pl.spell)
		if style == "filtered" {
			r.Values = append([]benchfmt.Value{{Value: 4242, Unit: "noise/op"}}, r.Values...)
		}
		return r
	}
	// group the records of this order into Results
	var groups [][]int
	for _, i := range perm {
		if (style == "merged" || style == "filtered") && len(groups) > 0 {
			g := groups[len(groups)-1]
			a, b := c.Recs[g[0]], c.Recs[i]
			same := a.Table == b.Table && a.Bench == b.Bench && a.Exp == b.Exp && a.Series == b.Series && a.Role == b.Role && pl.spell[g[0]] == pl.spell[i]
			for _, j := range g {
				if c.Recs[j].Unit == b.Unit {
					same = false
				}
			}
			if same {
				groups[len(groups)-1] = append(g, i)
				continue
			}
		}
		groups = append(groups, []int{i})
	}
	// a record may stand for several measurements with the same keys (a benchmark run with
	// -count): the group is then added once per repetition, with the records that have one
	var expanded [][]int
	var expJ []int
	for _, g := range groups {
		for j := 0; j < len(pl.valsJ); j++ {
			var gj []int
			for _, i := range g {
				if j < len(pl.reps[i]) {
					gj = append(gj, i)
				}
			}
			if len(gj) == 0 {
				break
			}
			expanded = append(expanded, gj)
			expJ = append(expJ, j)
		}
	}
	if style == "files" {
		// split the order over 1-3 files and read them back through AddFiles
		var paths []string
		per := (len(expanded) + nfiles - 1) / nfiles
		for f := 0; f*per < len(expanded); f++ {
			p := filepath.Join(pl.dir, fmt.Sprintf("c%d-%s-p%d-f%d.txt", pl.caseNo, c.Policy, pi, f))
			fh, err := os.Create(p)
			if err != nil {
				res.v = fail("harness", "%v", err)
				return
			}
			w := benchfmt.NewWriter(fh)
			hi := (f + 1) * per
			if hi > len(expanded) {
				hi = len(expanded)
			}
			for gi := f * per; gi < hi; gi++ {
				if err := w.Write(nm.result(c, expanded[gi], pl.valsJ[expJ[gi]], pl.spell)); err != nil {
					fh.Close()
					res.v = fail("harness", "write: %v", err)
					return
				}
			}
			fh.Close()
			paths = append(paths, p)
		}
		err := bld.AddFiles(benchfmt.Files{Paths: paths})
		for _, p := range paths {
			os.Remove(p)
		}
		if err != nil {
			res.v = fail("addfiles-error", "AddFiles: %v", err)
			return
		}
	} else {
		// style "stepwise": the series are also built after prefixes of the history (a service that
		// refreshes its series after every upload); the series of the whole set must not depend on
		// having been asked before.  Intermediate results are not judged (no expectation for them).
		every := 0
		if style == "stepwise" {
			every = 1 + (pi+pl.caseNo)%3
			if len(expanded) > 12 {
				every = len(expanded)/7 + 1
			}
		}
		for gi, g := range expanded {
			bld.Add(mkJ(g, expJ[gi]))
			if every > 0 && (gi+1)%every == 0 && gi+1 < len(expanded) {
				if _, err, pv := serAll(bld, pl.how); pv != nil || err != nil {
					sig := "panic-in-AllComparisonSeries"
					if pv == nil {
						sig = "error-from-AllComparisonSeries"
					} else if c.Policy == "combine" {
						var done []serRec
						seen := map[int]bool{}
						for _, gg := range expanded[:gi+1] {
							for _, i := range gg {
								if !seen[i] {
									seen[i] = true
									done = append(done, c.Recs[i])
								}
							}
						}
						if m, _ := serMixedBaseline(&serCase{Recs: done}); m {
							sig = "combine-panics-when-an-experiment-of-a-repeated-point-has-no-baseline"
						}
					}
					res.v = Verdict{Signature: sig, Detail: fmt.Sprintf("AllComparisonSeries(nil, %s) after %d of %d results: panic %v, error %v; order=%v style=%s", c.Policy, gi+1, len(expanded), pv, err, perm, style)}
					return
				}
			}
		}
	}
	calls := serCalls
	if (pl.caseNo+pi)%16 == 0 {
		calls = 3 * serCalls // a dozen calls on one builder: the k-th must not differ from the first
	}
	for k := 0; k < calls; k++ {
		css, err, pv := serAll(bld, pl.how)
		order := func() string {
			sk := ""
			if nm.samekey {
				sk = " NumeratorHash==DenominatorHash"
			}
			return fmt.Sprintf("order=%v style=%s call=%d units=%v benches=%v hashes=%v%s", perm, style, k, nm.units, nm.bench, nm.hashes, sk)
		}
		if pv != nil {
			sig := "panic-in-AllComparisonSeries"
			if c.Policy == "combine" && pl.mixed {
				sig = "combine-panics-when-an-experiment-of-a-repeated-point-has-no-baseline"
			}
			res.v = Verdict{Signature: sig, Detail: fmt.Sprintf("AllComparisonSeries(nil, %s) panicked: %v; %s", c.Policy, pv, order())}
			return
		}
		if err != nil {
			res.v = fail("error-from-AllComparisonSeries", "%v; %s", err, order())
			return
		}
		if v := serCompare(c, nm, pl.reps, css); !v.OK {
			v.Detail += "; " + order()
			v.Concrete = jsonStr(serDump(css))
			res.v = v
			return
		}
		res.dumps = append(res.dumps, jsonStr(serDump(css)))
		res.order = append(res.order, fmt.Sprintf("order=%v style=%s call=%d", perm, style, k))
		// bootstrap summaries on the model's samples (auxiliary): the relations of
		// C18 at every point, and the same numbers in every run
		sm, v := serSummaries(css, 0.95, 25)
		if !v.OK {
			v.Detail += "; " + order()
			res.v = v
			return
		}
		res.summ = append(res.summ, sm)
	}
	res.v = pass()
	return
}

// serStripHashDen blanks the denominator hashes of a dump (to tell a difference
// that is confined to them from any other difference).
func serStripHashDen(dump string) string {
	var t []serDumpTab
	if json.Unmarshal([]byte(dump), &t) != nil {
		return dump
	}
	for i := range t {
		for j, hp := range t[i].HashPairs {
			if k := strings.LastIndex(hp, "/"); k >= 0 {
				t[i].HashPairs[j] = hp[:k+1]
			}
		}
	}
	return jsonStr(t)
}

func serReplaySeries(c *serCase, caseNo int, dir string) Verdict {
	rnd := newRand(int64(caseNo))
	n := len(c.Recs)
	if n == 0 || len(c.Meta.Exps) == 0 {
		return fail("badcase", "empty case")
	}
	pl := &serPlan{c: c, nm: serPick(caseNo), caseNo: caseNo, dir: dir, how: benchseries.DUPE_REPLACE}
	if c.SameKey > 0 {
		pl.nm.samekey = true
		pl.nm.hashes = serSameKeyHashSets[(c.SameKey-1)%len(serSameKeyHashSets)]
	}
	if c.Policy == "combine" {
		pl.how = benchseries.DUPE_COMBINE
	}
	// measurements: positive, small pool so that ties between records occur
	pl.vals = make([]float64, n)
	pl.spell = make([]int, n)
	pool := []float64{1, 2, 3, 5, 8, 13, 0.5, 1e-9, 2.5e6, 21, 34}
	for i := range pl.vals {
		pl.vals[i] = pool[rnd.Intn(len(pool))]
		pl.spell[i] = rnd.Intn(8)
	}
	// two cases in three: records stand for 1, 3 or 5 measurements each (slices with spare capacity
	// inside the builder's cells, samples longer than one value per record)
	pl.reps = make([][]float64, n)
	maxm := 1
	for i := range pl.reps {
		m := 1
		if caseNo%3 != 0 {
			m = []int{1, 3, 5, 3}[rnd.Intn(4)]
		}
		pl.reps[i] = []float64{pl.vals[i]}
		for j := 1; j < m; j++ {
			pl.reps[i] = append(pl.reps[i], pool[rnd.Intn(len(pool))]+float64(j)/16)
		}
		if c.Big > 0 && (i%2 == caseNo%2 || n == 1) {
			// a benchmark run with a large -count: this record stands for c.Big measurements, all
			// different from each other and from those of every other record, in no particular order
			m = c.Big
			pl.reps[i] = pl.reps[i][:1]
			for j := 1; j < m; j++ {
				pl.reps[i] = append(pl.reps[i], float64(1+(j*37)%m)+float64(i+1)/64+pool[rnd.Intn(3)]*1024)
			}
		}
		if m > maxm {
			maxm = m
		}
	}
	pl.valsJ = make([][]float64, maxm)
	for j := range pl.valsJ {
		pl.valsJ[j] = make([]float64, n)
		for i := range pl.reps {
			if j < len(pl.reps[i]) {
				pl.valsJ[j][i] = pl.reps[i][j]
			}
		}
	}
	pl.mixed, _ = serMixedBaseline(c)
	perms := serPerms(n, rnd)
	styles := make([]string, len(perms))
	nfiles := make([]int, len(perms))
	for pi := range perms {
		styles[pi] = "single"
		switch {
		case pi%3 == 1:
			styles[pi] = "merged"
		case pi%24 == 2 || pi == len(perms)-1 && len(perms) != 6:
			styles[pi] = "files"
		case pi%6 == 3 || pi == 0 && len(perms) == 1:
			// multi-unit results carrying an extra measurement, in first position, of a unit the
			// builder's filter drops: the series must be those of the unfiltered records
			styles[pi] = "filtered"
		case pi%6 == 5 || pi%12 == 8:
			// AllComparisonSeries also called between the adds
			styles[pi] = "stepwise"
		}
		if len(perms) == 2 && pi == 1 && caseNo%2 == 0 {
			styles[pi] = "stepwise"
		}
		nfiles[pi] = 1 + rnd.Intn(3)
	}
	results := make([]serPermResult, len(perms))
	workers := runtime.GOMAXPROCS(0)
	if workers > 8 {
		workers = 8
	}
	if workers > len(perms) {
		workers = len(perms)
	}
	var wg sync.WaitGroup
	next := int32(-1)
	for w := 0; w < workers; w++ {
		wg.Add(1)
		go func() {
			defer wg.Done()
			for {
				pi := int(atomic.AddInt32(&next, 1))
				if pi >= len(perms) {
					return
				}
				results[pi] = serRunPerm(pl, pi, perms[pi], styles[pi], nfiles[pi])
			}
		}()
	}
	wg.Wait()
	// judge in the order of the permutations so that the verdict is deterministic
	first := ""
	var firstSumm map[string]serSumm
	for pi := range perms {
		r := &results[pi]
		if !r.v.OK {
			return r.v
		}
		for k, d := range r.dumps {
			if first == "" {
				first = d
				firstSumm = r.summ[k]
				continue
			}
			if d != first {
				sig := "output-varies-between-runs"
				if serStripHashDen(d) == serStripHashDen(first) {
					sig = "hashpair-denominator-varies-between-runs"
					if serLacksBaseline(c) {
						sig = serSigDenLost
					}
				}
				return Verdict{Signature: sig, Detail: "same set, same policy, different result; " + r.order[k], Got: d, Want: first}
			}
			if diff := serSameSumm(firstSumm, r.summ[k]); diff != "" {
				return fail("summaries-differ-between-runs-on-the-same-samples", "AddSummaries(0.95, 25), %s vs first run: %s", r.order[k], diff)
			}
		}
	}
	return pass()
}

// ---------------------------------------------------------------- summaries (auxiliary)

func serReplaySumm(c *serCase) Verdict {
	rnd := newRand(c.Salt)
	mk := func(n int, role int) []float64 {
		v := make([]float64, n)
		// shapes that make the attainable range tight, so that a summary computed from anything
		// but resamples of exactly these two samples leaves it
		switch c.Shape {
		case 1: // numerator three orders of magnitude above the denominator
			for i := range v {
				v[i] = []float64{1000, 1}[role] * (1 + float64(rnd.Intn(1000))/4000)
			}
			return v
		case 2: // constant samples: low = centre = high = a/b
			x := []float64{3, 7, 0.1, 1e6, 123456.789}[int(c.Salt%5+int64(role)*2)%5]
			for i := range v {
				v[i] = x
			}
			return v
		case 3: // narrow samples on different scales
			for i := range v {
				v[i] = []float64{250, 0.04}[role] * (1 + float64(rnd.Intn(64))*1e-9)
			}
			return v
		}
		for i := range v {
			switch c.Salt % 4 {
			case 3:
				v[i] = float64(1+rnd.Intn(4)) * 5e-324 // positive subnormals a few steps above zero
			case 0:
				v[i] = float64(1 + rnd.Intn(20)) // many ties
			case 1:
				v[i] = 100 * math.Exp(rnd.NormFloat64()*0.1)
			default:
				v[i] = math.Exp(rnd.NormFloat64() * 3) // several orders of magnitude
			}
		}
		return v
	}
	nu, de := mk(c.NNum, 0), mk(c.NDen, 1)
	opts := &benchseries.BuilderOptions{
		Filter: ".unit:/.*/", Series: "ser-stamp", Table: "", Experiment: "run", Compare: "role",
		Numerator: "num", Denominator: "den", NumeratorHash: "nh", DenominatorHash: "dh",
		Warn: func(string, ...interface{}) {},
	}
	build := func(reverse bool, every int) ([]*benchseries.ComparisonSeries, error) {
		b, err := benchseries.NewBuilder(opts)
		if err != nil {
			return nil, err
		}
		var rs []*benchfmt.Result
		add := func(role string, v float64) {
			rs = append(rs, &benchfmt.Result{
				Config: []benchfmt.Config{
					{Key: "role", Value: []byte(role), File: true},
					{Key: "run", Value: []byte("2022-01-01T00:00:00Z"), File: true},
					{Key: "ser-stamp", Value: []byte("20211231T000000"), File: true},
					{Key: "nh", Value: []byte("n"), File: true},
					{Key: "dh", Value: []byte("d"), File: true},
				},
				Name: benchfmt.Name("Foo"), Iters: 1, Values: []benchfmt.Value{{Value: v, Unit: "sec/op"}},
			})
		}
		for _, v := range nu {
			add("num", v)
		}
		for _, v := range de {
			add("den", v)
		}
		if reverse {
			for i, j := 0, len(rs)-1; i < j; i, j = i+1, j-1 {
				rs[i], rs[j] = rs[j], rs[i]
			}
		}
		for i, r := range rs {
			b.Add(r)
			if every > 0 && (i+1)%every == 0 && i+1 < len(rs) {
				// the series asked for in the middle of the history
				if _, err := b.AllComparisonSeries(nil, benchseries.DUPE_REPLACE); err != nil {
					return nil, err
				}
			}
		}
		return b.AllComparisonSeries(nil, benchseries.DUPE_REPLACE)
	}
	css1, err := build(false, 0)
	if err != nil {
		return fail("error-from-AllComparisonSeries", "%v", err)
	}
	css2, err := build(true, 0)
	if err != nil {
		return fail("error-from-AllComparisonSeries", "%v", err)
	}
	// the same results (forward or reversed) with the series also built after every few adds
	css3, err := build(c.Salt%2 == 0, 1+int(c.Salt%7)+(c.NNum+c.NDen)/9)
	if err != nil {
		return fail("error-from-AllComparisonSeries", "%v", err)
	}
	s1, v := serSummaries(css1, c.Conf, c.N)
	if !v.OK {
		return v
	}
	s2, v := serSummaries(css2, c.Conf, c.N)
	if !v.OK {
		return v
	}
	if len(s1) != 1 {
		return fail("summary-missing", "expected one summarised point, got %d", len(s1))
	}
	if d := serSameSumm(s1, s2); d != "" {
		return fail("bootstrap-not-reproducible", "same samples, conf=%g N=%d: %s", c.Conf, c.N, d)
	}
	s3, v := serSummaries(css3, c.Conf, c.N)
	if !v.OK {
		return v
	}
	if d := serSameSumm(s1, s3); d != "" {
		return fail("bootstrap-not-reproducible-after-intermediate-builds", "same samples (%d+%d values), series also built between the adds, conf=%g N=%d: %s", c.NNum, c.NDen, c.Conf, c.N, d)
	}
	return pass()
}

// ---------------------------------------------------------------- dates

func serReplayDate(c *serCase) Verdict {
	got, err := benchseries.NormalizeDateString(c.Date.Raw)
	if err != nil {
		return fail("date-rejected", "NormalizeDateString(%q): %v", c.Date.Raw, err)
	}
	if got != c.Date.Canon {
		return Verdict{Signature: "date-normalised-text-" + c.Date.Fmt, Detail: fmt.Sprintf("NormalizeDateString(%q)", c.Date.Raw), Got: got, Want: c.Date.Canon}
	}
	// the normalised text is itself an accepted spelling of the same instant
	again, err := benchseries.NormalizeDateString(got)
	if err != nil || again != got {
		return fail("date-normalised-text-not-a-fixed-point", "NormalizeDateString(%q) = %q, %v", got, again, err)
	}
	return pass()
}

func serInstCmp(a, b [3]int) int {
	for i := 0; i < 3; i++ {
		if a[i] != b[i] {
			if a[i] < b[i] {
				return -1
			}
			return 1
		}
	}
	return 0
}

func serReplayDateOrder(c *serCase) Verdict {
	norm := make([]string, len(c.Dates))
	for i, d := range c.Dates {
		s, err := benchseries.NormalizeDateString(d.Raw)
		if err != nil {
			return fail("date-rejected", "NormalizeDateString(%q): %v", d.Raw, err)
		}
		norm[i] = s
	}
	for i := range c.Dates {
		for j := range c.Dates {
			ic := serInstCmp(c.Dates[i].Inst, c.Dates[j].Inst)
			sc := strings.Compare(norm[i], norm[j])
			if ic == 0 && sc != 0 {
				return fail("date-same-instant-different-text", "%q -> %q but %q -> %q", c.Dates[i].Raw, norm[i], c.Dates[j].Raw, norm[j])
			}
			if ic != sc {
				return fail("date-text-order-not-chronological", "%q -> %q, %q -> %q: instants compare %d, texts compare %d", c.Dates[i].Raw, norm[i], c.Dates[j].Raw, norm[j], ic, sc)
			}
		}
	}
	return pass()
}
