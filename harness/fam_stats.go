package main

// Family "stats" (property C12, partial scope): replay of the cases printed by
// spec/Stats_gen.tla on internal/stats.
//
//	desc  a multiset of small integers with the exact rational values of its mean,
//	      variance (n-1), bounds, R8 percentiles at p = j/12, IQR, geometric-mean
//	      exponent, and the one-sample t statistics. Every distinct ORDER of the
//	      multiset is run unsorted, the nondecreasing order also with Sorted: true,
//	      through Sample.Mean/Variance/StdDev/Bounds/Percentile/IQR/GeoMean and the
//	      package-level Mean/Variance/StdDev/Bounds/GeoMean, and OneSampleTTest.
//	tt    two multisets: TwoSampleWelchTTest, TwoSampleTTest, PairedTTest (by position
//	      or its length-mismatch error).
//	pd    a multiset of paired differences: PairedTTest against several mu0.
//	aux   AUXILIARY, outside the model: relational probes of the continuous
//	      distribution functions (TDist, NormalDist, incomplete beta). TLA+/TLC cannot
//	      express these clauses; the probes are harness-only, flagged auxiliary in the
//	      evidence and never the ground of the claim.
//
// Every expected number of desc/tt/pd comes from the declarative side of the
// specification. This file only concretises (the exact affine map
// x -> 2^k (x + a), orders, shuffles: all derived from the case's salt, which the
// plan derives from the case content) and compares:
//
//	descriptive statistics   |x q - p| <= 1e-12 max(|p|, |x q|, q scale), scale = the
//	                         data's magnitude (statement: "within a few ulps of the
//	                         data's scale")
//	t statistics             t^2 against the rational at 1e-12 relative, sign(t)
//	                         separately; degrees of freedom at 1e-12 relative
//	p-values                 only RELATIONS between the code's own three answers
//	                         (less + greater = 1, two = 2 x the smaller tail, which
//	                         tail is smaller by sign(t) as tabulated by the spec), 1e-9

import (
	"encoding/json"
	"fmt"
	"math"
	"math/big"
	"math/rand"
	"os"
	"sort"
	"time"

	"golang.org/x/perf/internal/stats"
)

func init() { register("stats", famStats) }

type stRat [2]int64

func (r stRat) f() float64 { return float64(r[0]) / float64(r[1]) }

type stT struct {
	Errs []string `json:"errs"` // the input must be reported with one of these errors
	May  []string `json:"may"`  // it may be reported with one of these (else: the result)
	Mu   stRat    `json:"mu"`
	T2   stRat    `json:"t2"`
	Sgn  int      `json:"sgn"`
	Dof  stRat    `json:"dof"`
}

type stCase struct {
	Kind string `json:"kind"`
	Salt int64  `json:"salt"`
	// which one-sided p-value is the smaller one, by sign of t ("-1", "0", "1"): from the spec
	Tail map[string]string `json:"tail"`

	// desc
	Xs      []int64  `json:"xs"`
	Mean    stRat    `json:"mean"`
	HasVar  bool     `json:"hasvar"`
	Var     stRat    `json:"var"`
	Min     int64    `json:"min"`
	Max     int64    `json:"max"`
	Pct     []stRat  `json:"pct"`
	IQR     stRat    `json:"iqr"`
	Median  stRat    `json:"median"`
	GExp    stRat    `json:"gexp"`
	Pos     bool     `json:"pos"`
	Prod    int64    `json:"prod"`
	OneErrs []string `json:"oneerrs"`
	One     []stT    `json:"one"`

	// tt
	Ys     []int64 `json:"ys"`
	Welch  *stT    `json:"welch"`
	Pooled *stT    `json:"pooled"`
	Paired *stT    `json:"paired"`

	// pd
	Ds    []int64  `json:"ds"`
	Errs  []string `json:"errs"`
	Tests []stT    `json:"tests"`

	// aux
	Probe string `json:"probe"`

	// big
	N1    int    `json:"n1"`
	N2    int    `json:"n2"`
	Shape string `json:"shape"`
}

func famStats(mode string, args []string) error {
	switch mode {
	case "replay":
		return replayLoop("stats", args, func(raw json.RawMessage) Verdict {
			var hdr struct {
				Kind string `json:"kind"`
			}
			_ = json.Unmarshal(raw, &hdr)
			prefix := ""
			if hdr.Kind == "aux" { // a panic or hang met by an auxiliary probe is named as such
				prefix = "aux-"
			}
			return stGuard(prefix, func() Verdict { return stReplay(raw) })
		})
	}
	return fmt.Errorf("stats: unknown mode %q", mode)
}

// stGuard runs f with a watchdog; a panic of the code under test is a verdict
// ("panic"), so is a call that does not return ("hang").
func stGuard(prefix string, f func() Verdict) Verdict {
	ch := make(chan Verdict, 1)
	go func() {
		defer func() {
			if r := recover(); r != nil {
				ch <- Verdict{Signature: prefix + "panic", Detail: fmt.Sprint("panic: ", r)}
			}
		}()
		ch <- f()
	}()
	select {
	case v := <-ch:
		return v
	case <-time.After(60 * time.Second):
		return Verdict{Signature: prefix + "hang", Detail: "no answer within 60s"}
	}
}

func stBad(format string, a ...interface{}) {
	fmt.Fprintf(os.Stderr, "stats harness: "+format+"\n", a...)
	os.Exit(2)
}

func stReplay(raw json.RawMessage) Verdict {
	var c stCase
	if err := json.Unmarshal(raw, &c); err != nil {
		stBad("cannot decode case: %v", err)
	}
	switch c.Kind {
	case "desc":
		return stDesc(&c)
	case "tt":
		return stTT(&c)
	case "pd":
		return stPD(&c)
	case "aux":
		return stAux(&c)
	case "geoscaled":
		return stGeoScaled(&c)
	case "big":
		return stBig(&c)
	case "conc":
		return stConc(&c)
	}
	stBad("unknown kind %q", c.Kind)
	return pass()
}

// stGeoScaled: the spec's rule GeoMean(2^k1 .. 2^kn) = 2^(sum k / n) is independent of n; the
// plan scales it to samples of hundreds of values of widely varying magnitude (Xs holds the
// exponents, their sum is divisible by n).  Also: the result lies within [min, max].
func stGeoScaled(c *stCase) Verdict {
	n := len(c.Xs)
	var sum int64
	xs := make([]float64, n)
	lo, hi := math.Inf(1), math.Inf(-1)
	for i, k := range c.Xs {
		sum += k
		xs[i] = math.Ldexp(1, int(k))
		lo, hi = math.Min(lo, xs[i]), math.Max(hi, xs[i])
	}
	if n == 0 || sum%int64(n) != 0 {
		stBad("geoscaled case with non-integral mean exponent")
	}
	want := math.Ldexp(1, int(sum/int64(n)))
	for _, g := range []struct {
		how string
		v   float64
	}{{"Sample.GeoMean", stats.Sample{Xs: stCopy(xs)}.GeoMean()}, {"GeoMean", stats.GeoMean(stCopy(xs))}} {
		if math.IsNaN(g.v) || math.IsInf(g.v, 0) || math.Abs(g.v-want) > 1e-9*want || g.v < lo*(1-1e-12) || g.v > hi*(1+1e-12) {
			return fail("geomean-many-values", "%s of %d powers of two (exponents %d..%d, mean exponent %d) = %v, want %v", g.how, n, c.Min, c.Max, sum/int64(n), g.v, want)
		}
	}
	return pass()
}

// ---------------------------------------------------------------- concretisation

// stXform is the exact affine map x -> 2^k (x + a) from the spec's small integers to
// the floats handed to the code (a is a small integer, so every image is exact).
type stXform struct {
	k int
	a float64
}

func (t stXform) val(x int64) float64   { return math.Ldexp(float64(x)+t.a, t.k) }
func (t stXform) rat(r stRat) float64   { return math.Ldexp(r.f()+t.a, t.k) } // dyadic r only
func (t stXform) loc(v float64) float64 { return math.Ldexp(v, -t.k) - t.a }  // location statistic back to spec units
func (t stXform) lin(v float64) float64 { return math.Ldexp(v, -t.k) }        // scale statistic
func (t stXform) sq(v float64) float64  { return math.Ldexp(v, -2*t.k) }      // squared-scale statistic
func (t stXform) String() string        { return fmt.Sprintf("x->2^%d*(x%+g)", t.k, t.a) }
func (t stXform) vals(xs []int64) []float64 {
	out := make([]float64, len(xs))
	for i, x := range xs {
		out[i] = t.val(x)
	}
	return out
}

// scale is the magnitude of the data in spec units after the shift (at least 1).
func (t stXform) scale(xss ...[]int64) float64 {
	s := 1.0
	for _, xs := range xss {
		for _, x := range xs {
			s = math.Max(s, math.Abs(float64(x)+t.a))
		}
	}
	return s
}

var stIdentity = stXform{0, 0}

func stRandXform(rng *rand.Rand) stXform {
	return stXform{k: rng.Intn(17) - 8, a: float64(rng.Intn(7) - 3)}
}

func stDyadic(r stRat) bool { return r[1] > 0 && r[1]&(r[1]-1) == 0 }

// stNear compares the float x with the rational r, tolerating 1e-12 relative to the
// larger of the two and to the data's scale.
func stNear(x float64, r stRat, scale float64) bool {
	if math.IsNaN(x) || math.IsInf(x, 0) {
		return false
	}
	p, q := float64(r[0]), float64(r[1])
	xq := x * q
	return math.Abs(xq-p) <= 1e-12*math.Max(math.Max(math.Abs(p), math.Abs(xq)), q*scale)
}

// stRel is the plain relative comparison of DESIGN.md section 3.
func stRel(x float64, r stRat) bool { return stNear(x, r, 0) }

func stCopy(xs []float64) []float64 { return append([]float64(nil), xs...) }

// stPerms returns every distinct order of the multiset xs.
func stPerms(xs []int64) [][]int64 {
	cur := append([]int64(nil), xs...)
	sort.Slice(cur, func(i, j int) bool { return cur[i] < cur[j] })
	var out [][]int64
	for {
		out = append(out, append([]int64(nil), cur...))
		i := len(cur) - 2
		for i >= 0 && cur[i] >= cur[i+1] {
			i--
		}
		if i < 0 {
			return out
		}
		j := len(cur) - 1
		for cur[j] <= cur[i] {
			j--
		}
		cur[i], cur[j] = cur[j], cur[i]
		for l, r := i+1, len(cur)-1; l < r; l, r = l+1, r-1 {
			cur[l], cur[r] = cur[r], cur[l]
		}
	}
}

func stErrOf(name string) error {
	switch name {
	case "size":
		return stats.ErrSampleSize
	case "zerovar":
		return stats.ErrZeroVariance
	case "mismatch":
		return stats.ErrMismatchedSamples
	}
	stBad("unknown error class %q", name)
	return nil
}

var stAlts = []struct {
	name string
	h    stats.LocationHypothesis
}{{"less", stats.LocationLess}, {"two", stats.LocationDiffers}, {"greater", stats.LocationGreater}}

func stFail(sig, conc string, want, got interface{}, format string, a ...interface{}) *Verdict {
	return &Verdict{Signature: sig, Detail: fmt.Sprintf(format, a...), Want: stSan(want), Got: stSan(got), Concrete: conc}
}

// stSan makes a reported value fit for JSON: NaN and the infinities (which the code under
// test may well return, and which are then exactly what has to be reported) become strings.
func stSan(v interface{}) interface{} {
	switch x := v.(type) {
	case float64:
		if math.IsNaN(x) || math.IsInf(x, 0) {
			return fmt.Sprint(x)
		}
	case []float64:
		out := make([]interface{}, len(x))
		for i, e := range x {
			out[i] = stSan(e)
		}
		return out
	case []interface{}:
		out := make([]interface{}, len(x))
		for i, e := range x {
			out[i] = stSan(e)
		}
		return out
	case map[string]interface{}:
		out := make(map[string]interface{}, len(x))
		for k, e := range x {
			out[k] = stSan(e)
		}
		return out
	}
	return v
}

// ---------------------------------------------------------------- t-test results

// stCheckT judges the three answers (one per alternative hypothesis) of one t-test
// against the spec's expectation: error class, or t^2 / sign / degrees of freedom,
// and the relations between the three p-values.
func stCheckT(test, conc string, want *stT, tail map[string]string, n1, n2 int, call func(stats.LocationHypothesis) (*stats.TTestResult, error)) *Verdict {
	w := &stWant{Errs: want.Errs, May: want.May, T2Zero: want.T2[0] == 0, Sgn: want.Sgn,
		T2OK:  func(t2 float64) bool { return stRel(t2, want.T2) },
		DofOK: func(d float64) bool { return stRel(d, want.Dof) },
		Show:  map[string]interface{}{"t2": want.T2, "sgn": want.Sgn, "dof": want.Dof},
		Text:  fmt.Sprintf("T^2=%d/%d=%v, sign %d, degrees of freedom %d/%d=%v", want.T2[0], want.T2[1], want.T2.f(), want.Sgn, want.Dof[0], want.Dof[1], want.Dof.f()),
	}
	if want.Dof[1] == 1 && (want.Dof[0] == 1 || want.Dof[0] == 2) {
		w.ClosedForm = int(want.Dof[0])
	}
	return stCheckTCore(test, conc, w, tail, n1, n2, call)
}

// stWant is what the specification (small samples: Stats_gen; large samples: the same textbook
// definitions evaluated in exact rationals by stBig) expects of one t-test.
type stWant struct {
	Errs, May  []string
	T2Zero     bool
	Sgn        int
	T2OK       func(float64) bool
	DofOK      func(float64) bool
	Show       interface{}
	Text       string
	ClosedForm int     // 1 or 2: the degrees of freedom for which the auxiliary closed form applies
	ZeroTol    float64 // |T| tolerated where the textbook statistic is 0 (default 1e-12)
}

func stCheckTCore(test, conc string, want *stWant, tail map[string]string, n1, n2 int, call func(stats.LocationHypothesis) (*stats.TTestResult, error)) *Verdict {
	var res [3]*stats.TTestResult
	permitted := 0 // alternatives answered with a permitted, not required, error
	for i, alt := range stAlts {
		r, err := call(alt.h)
		if len(want.Errs) > 0 {
			if err == nil {
				return stFail(test+"-error-not-reported", conc, want.Errs, fmt.Sprintf("%+v", r),
					"%s alt=%s returned a result for an input that must be reported as one of %v", test, alt.name, want.Errs)
			}
			ok := false
			for _, e := range append(append([]string(nil), want.Errs...), want.May...) {
				if err == stErrOf(e) {
					ok = true
				}
			}
			if !ok || r != nil {
				return stFail(test+"-wrong-error", conc, want.Errs, fmt.Sprint(err), "%s alt=%s returned (%v, %v), want one of %v", test, alt.name, r, err, want.Errs)
			}
			continue
		}
		if err != nil && r == nil {
			for _, e := range want.May {
				if err == stErrOf(e) {
					permitted++
				}
			}
			if permitted == i+1 {
				continue
			}
		}
		if err != nil || r == nil || permitted > 0 {
			return stFail(test+"-unexpected-error", conc, "a result", fmt.Sprint(err), "%s alt=%s returned (%v, %v) for a proper input", test, alt.name, r, err)
		}
		res[i] = r
		if r.N1 != n1 || r.N2 != n2 || r.AltHypothesis != alt.h {
			return stFail(test+"-result-fields", conc, []int{n1, n2}, []int{r.N1, r.N2}, "%s alt=%s: N1/N2/AltHypothesis do not describe the call", test, alt.name)
		}
		if i > 0 && (r.T != res[0].T || r.DoF != res[0].DoF) {
			return stFail(test+"-result-fields", conc, res[0].T, r.T, "%s: statistic or degrees of freedom depend on the alternative", test)
		}
	}
	if len(want.Errs) > 0 || permitted == len(stAlts) {
		return nil
	}
	t, dof := res[0].T, res[0].DoF
	wantT := want.Show
	gotT := map[string]interface{}{"T": t, "DoF": dof, "P": []float64{res[0].P, res[1].P, res[2].P}}
	if want.T2Zero {
		if !(math.Abs(t) <= math.Max(1e-12, want.ZeroTol)) {
			return stFail(test+"-t", conc, wantT, gotT, "%s: T=%v, the textbook statistic is 0", test, t)
		}
	} else {
		sg := 0
		if t > 0 {
			sg = 1
		} else if t < 0 {
			sg = -1
		}
		if !want.T2OK(t*t) || sg != want.Sgn {
			return stFail(test+"-t", conc, wantT, gotT, "%s: T=%v (T^2=%v), the textbook statistic has %s", test, t, t*t, want.Text)
		}
	}
	if !want.DofOK(dof) {
		return stFail(test+"-dof", conc, wantT, gotT, "%s: DoF=%v, the textbook result has %s", test, dof, want.Text)
	}
	// relations between the code's own three p-values
	less, two, greater := res[0].P, res[1].P, res[2].P
	const tol = 1e-9
	for i, p := range []float64{less, two, greater} {
		if math.IsNaN(p) || p < -tol || p > 1+tol {
			return stFail(test+"-p-range", conc, "[0,1]", gotT, "%s alt=%s: P=%v", test, stAlts[i].name, p)
		}
	}
	if math.Abs(less+greater-1) > tol {
		return stFail(test+"-p-relations", conc, "less+greater=1", gotT, "%s: P(less)+P(greater)=%v", test, less+greater)
	}
	sm, ok := tail[fmt.Sprint(want.Sgn)]
	if !ok {
		stBad("case carries no tail table entry for sign %d", want.Sgn)
	}
	bad := false
	switch sm {
	case "less":
		bad = math.Abs(two-2*less) > tol || less > 0.5+tol
	case "greater":
		bad = math.Abs(two-2*greater) > tol || greater > 0.5+tol
	case "both":
		bad = math.Abs(two-2*less) > tol || math.Abs(two-2*greater) > tol
	default:
		stBad("unknown tail table entry %q", sm)
	}
	if bad {
		return stFail(test+"-p-relations", conc, "two = 2 x P("+sm+"), the smaller tail for sign(t)="+fmt.Sprint(want.Sgn), gotT,
			"%s: less=%v two=%v greater=%v", test, less, two, greater)
	}
	// AUXILIARY (outside the model): closed forms of the t distribution function for 1 and 2
	// degrees of freedom
	if want.ClosedForm != 0 && !want.T2Zero {
		var cf float64
		if want.ClosedForm == 1 {
			cf = 0.5 + math.Atan(t)/math.Pi
		} else {
			cf = 0.5 + t/(2*math.Sqrt(2+t*t))
		}
		if math.Abs(less-cf) > tol {
			return stFail("aux-tcdf-closed-form", conc, cf, gotT, "auxiliary: %s with %d degrees of freedom: P(less)=%v, closed form %v", test, want.ClosedForm, less, cf)
		}
	}
	// the textbook tail probabilities: the upper tail of |t| of Student's t distribution with the
	// (verified) degrees of freedom, by an independent quadrature of the density (stTUpper)
	if dof >= 1 && dof <= 1e5 && !math.IsNaN(t) && !math.IsInf(t, 0) {
		up := stTUpper(math.Abs(t), dof)
		wl, wg := 1-up, up
		if t < 0 {
			wl, wg = up, 1-up
		}
		for i, wp := range []float64{wl, 2 * up, wg} {
			if p := []float64{less, two, greater}[i]; math.Abs(p-wp) > 1e-9*wp+1e-13 {
				return stFail(test+"-p-textbook", conc, map[string]interface{}{"less": wl, "two": 2 * up, "greater": wg}, gotT,
					"%s alt=%s: P=%v; Student's t distribution with %v degrees of freedom puts %v there (T=%v; upper tail of |T| = %v by quadrature of the density)",
					test, stAlts[i].name, p, dof, wp, t, up)
			}
		}
	}
	return nil
}

// stTUpper is the textbook upper tail P(T > t), t >= 0, of Student's t distribution with v >= 1
// degrees of freedom, written from the density alone: substituting x = sqrt(v) cot(psi),
//
//	P = Gamma((v+1)/2) / (sqrt(pi) Gamma(v/2)) * Int_0^a sin^(v-1)(psi) dpsi,   a = atan(sqrt(v)/t),
//
// integrated by the tanh-sinh rule over the part of [0, a] where the integrand exceeds
// e^-100 of its maximum. It shares nothing with internal/stats (no incomplete beta function);
// against the finite series of Abramowitz & Stegun 26.7.3/4 for integer v it agrees to 2e-13.
func stTUpper(t, v float64) float64 {
	if t == 0 {
		return 0.5
	}
	a := math.Atan2(math.Sqrt(v), t)
	lg1, _ := math.Lgamma((v + 1) / 2)
	lg2, _ := math.Lgamma(v / 2)
	lsa := math.Log(math.Sin(a))
	lo := 0.0
	if v > 1 {
		lo = math.Asin(math.Sin(a) * math.Exp(-100/(v-1)))
	}
	f := func(psi float64) float64 {
		if v == 1 {
			return 1
		}
		if psi <= 0 {
			return 0
		}
		return math.Exp((v - 1) * (math.Log(math.Sin(psi)) - lsa))
	}
	half := (a - lo) / 2
	const h = 1.0 / 64
	sum := 0.0
	for k := -400; k <= 400; k++ {
		u := math.Pi / 2 * math.Sinh(float64(k)*h)
		w := math.Pi / 2 * math.Cosh(float64(k)*h) / (math.Cosh(u) * math.Cosh(u))
		var x float64 // lo + half (1 + tanh u), measured from the nearer end
		if u > 0 {
			x = a - half*(2/(1+math.Exp(2*u)))
		} else {
			x = lo + half*(2/(1+math.Exp(-2*u)))
		}
		sum += w * f(x)
	}
	return math.Exp(lg1-lg2+(v-1)*lsa) / math.Sqrt(math.Pi) * sum * h * half
}

// ---------------------------------------------------------------- desc

func stDesc(c *stCase) Verdict {
	rng := newRand(c.Salt)
	xfs := []stXform{stIdentity, stRandXform(rng)}
	n := len(c.Xs)
	if n == 0 {
		// only the one-sample test's error class
		want := &stT{Errs: c.OneErrs}
		for _, xs := range [][]float64{nil, {}} {
			xs := xs
			if v := stCheckT("one-sample", "x=[]", want, c.Tail, 0, 0, func(h stats.LocationHypothesis) (*stats.TTestResult, error) {
				return stats.OneSampleTTest(stats.Sample{Xs: xs}, 0, h)
			}); v != nil {
				return *v
			}
		}
		return pass()
	}
	if len(c.Pct) != 13 {
		stBad("desc case without 13 percentiles")
	}
	perms := stPerms(c.Xs)
	// values with full mantissas (x*0.37+7.3, not exactly representable): the clauses that hold for
	// ANY sample are checked strictly there - percentiles monotone in p, inside [min, max], and
	// exactly the repeated value where both neighbouring order statistics are equal
	for pi, perm := range perms {
		if pi > 2 {
			break
		}
		X := make([]float64, len(perm))
		for i, e := range perm {
			X[i] = float64(e)*0.37 + 7.3
		}
		for _, sorted := range []bool{false, true} {
			if sorted && pi != 0 {
				continue
			}
			srt := stCopy(X)
			sort.Float64s(srt)
			lo, hi := srt[0], srt[len(srt)-1]
			conc := fmt.Sprintf("Sample{Xs:%v, Sorted:%v}", X, sorted)
			prev := math.Inf(-1)
			for j := 0; j <= 96; j++ {
				p := float64(j) / 96
				g := stats.Sample{Xs: stCopy(X), Sorted: sorted}.Percentile(p)
				if math.IsNaN(g) || g < prev {
					return *stFail("percentile-not-monotone/inexact", conc, prev, g, "Percentile(%d/96)=%v < Percentile(%d/96)=%v", j, g, j-1, prev)
				}
				if g < lo || g > hi {
					return *stFail("percentile-outside-bounds/inexact", conc, []float64{lo, hi}, g, "Percentile(%d/96)=%v outside [%v, %v]", j, g, lo, hi)
				}
				prev = g
			}
		}
	}
	// a sample far from zero (x + 2^30, exact): mean and variance are those of x, shifted - to within a
	// few ulps of the data's scale, however small the spread is next to the magnitude
	if c.HasVar {
		const off = 1 << 30
		for pi, perm := range perms {
			if pi > 1 {
				break
			}
			X := make([]float64, len(perm))
			for i, e := range perm {
				X[i] = float64(e) + off
			}
			conc := fmt.Sprintf("Sample{Xs: x + 2^30 for x in %v}", perm)
			tol := 1e-13 * off
			for _, g := range []struct {
				name string
				v    float64
			}{{"Sample.Variance", stats.Sample{Xs: stCopy(X)}.Variance()}, {"Variance", stats.Variance(stCopy(X))}} {
				if math.IsNaN(g.v) || math.Abs(g.v-c.Var.f()) > tol {
					return *stFail("variance/far-from-zero", conc, c.Var, g.v, "%s=%v; exact variance %d/%d", g.name, g.v, c.Var[0], c.Var[1])
				}
			}
			if m := stats.Mean(stCopy(X)); math.IsNaN(m) || math.Abs(m-off-c.Mean.f()) > tol {
				return *stFail("mean/far-from-zero", conc, c.Mean, m, "Mean=%v; exact mean 2^30 + %d/%d", m, c.Mean[0], c.Mean[1])
			}
		}
	}
	// constant samples of values that are not dyadic: zero variance, reported as an error by the t-tests
	if n >= 2 {
		for _, val := range []float64{0.1, 1.0 / 3, 7.3, 1e9 + 0.1, -2.7e-5} {
			K := make([]float64, n)
			for i := range K {
				K[i] = val
			}
			conc := fmt.Sprintf("Sample of %d times %v", n, val)
			if v := stats.Variance(stCopy(K)); v != 0 {
				return *stFail("variance/constant", conc, 0, v, "Variance=%v for a constant sample", v)
			}
			if _, err := stats.OneSampleTTest(stats.Sample{Xs: stCopy(K)}, 0, stats.LocationDiffers); err != stats.ErrZeroVariance {
				return *stFail("ttest-error-class", conc, "ErrZeroVariance", fmt.Sprint(err), "OneSampleTTest on a constant sample: error %v", err)
			}
			if _, err := stats.TwoSampleWelchTTest(stats.Sample{Xs: stCopy(K)}, stats.Sample{Xs: stCopy(K)}, stats.LocationDiffers); err != stats.ErrZeroVariance {
				return *stFail("ttest-error-class", conc, "ErrZeroVariance", fmt.Sprint(err), "TwoSampleWelchTTest on two constant samples: error %v", err)
			}
		}
	}
	for _, xf := range xfs {
		for pi, perm := range perms {
			if v := stDescOne(c, xf, perm, false); v != nil {
				return *v
			}
			if pi == 0 { // the nondecreasing order, marked Sorted
				if v := stDescOne(c, xf, perm, true); v != nil {
					return *v
				}
			}
		}
	}
	return pass()
}

func stDescOne(c *stCase, xf stXform, perm []int64, sorted bool) *Verdict {
	X := xf.vals(perm)
	n := len(X)
	scale := xf.scale(perm)
	how := "/unsorted"
	if sorted {
		how = "/sorted"
	}
	conc := fmt.Sprintf("Sample{Xs:%v, Sorted:%v} (%v of %v)", X, sorted, xf, perm)
	smp := func() stats.Sample { return stats.Sample{Xs: stCopy(X), Sorted: sorted} }

	// mean
	for _, g := range []struct {
		name string
		v    float64
	}{{"Sample.Mean", smp().Mean()}, {"Mean", stats.Mean(stCopy(X))}} {
		if !stNear(xf.loc(g.v), c.Mean, scale) {
			return stFail("mean"+how, conc, c.Mean, g.v, "%s=%v, in spec units %v; exact mean %d/%d", g.name, g.v, xf.loc(g.v), c.Mean[0], c.Mean[1])
		}
	}
	// variance (n-1 denominator), standard deviation
	if c.HasVar {
		sd1, sd2 := smp().StdDev(), stats.StdDev(stCopy(X))
		for _, g := range []struct {
			name string
			v    float64
		}{{"Sample.Variance", smp().Variance()}, {"Variance", stats.Variance(stCopy(X))}, {"Sample.StdDev^2", sd1 * sd1}, {"StdDev^2", sd2 * sd2}} {
			if !stNear(xf.sq(g.v), c.Var, scale*scale) {
				return stFail("variance"+how, conc, c.Var, g.v, "%s=%v, in spec units %v; exact variance %d/%d", g.name, g.v, xf.sq(g.v), c.Var[0], c.Var[1])
			}
		}
	}
	// bounds
	lo, hi := smp().Bounds()
	lo2, hi2 := stats.Bounds(stCopy(X))
	wlo, whi := xf.val(c.Min), xf.val(c.Max)
	if lo != wlo || hi != whi {
		return stFail("bounds"+how, conc, []float64{wlo, whi}, []float64{lo, hi}, "Sample.Bounds()=(%v, %v), minimum and maximum are (%v, %v)", lo, hi, wlo, whi)
	}
	if lo2 != wlo || hi2 != whi {
		return stFail("bounds"+how, conc, []float64{wlo, whi}, []float64{lo2, hi2}, "Bounds()=(%v, %v), minimum and maximum are (%v, %v)", lo2, hi2, wlo, whi)
	}
	// R8 percentiles on the grid j/12
	prev := math.Inf(-1)
	for j := 0; j <= 12; j++ {
		p := float64(j) / 12
		g := smp().Percentile(p)
		if !stNear(xf.loc(g), c.Pct[j], scale) {
			return stFail("percentile"+how, conc, c.Pct[j], g, "Percentile(%d/12)=%v, in spec units %v; R8 gives %d/%d", j, g, xf.loc(g), c.Pct[j][0], c.Pct[j][1])
		}
		if math.IsNaN(g) || g < prev {
			return stFail("percentile-not-monotone"+how, conc, prev, g, "Percentile(%d/12)=%v < Percentile(%d/12)=%v", j, g, j-1, prev)
		}
		if g < lo || g > hi {
			return stFail("percentile-outside-bounds"+how, conc, []float64{lo, hi}, g, "Percentile(%d/12)=%v outside [%v, %v]", j, g, lo, hi)
		}
		prev = g
	}
	if g := smp().IQR(); !stNear(xf.lin(g), c.IQR, scale) {
		return stFail("iqr"+how, conc, c.IQR, g, "IQR()=%v, in spec units %v; Q(3/4)-Q(1/4) = %d/%d", g, xf.lin(g), c.IQR[0], c.IQR[1])
	}
	// geometric mean of 2^(x+k): the g with g^n = 2^(sum of exponents)
	G := make([]float64, n)
	for i, e := range perm {
		G[i] = math.Ldexp(1, int(e)+xf.k)
	}
	for _, g := range []struct {
		name string
		v    float64
	}{{"Sample.GeoMean", stats.Sample{Xs: stCopy(G), Sorted: sorted}.GeoMean()}, {"GeoMean", stats.GeoMean(stCopy(G))}} {
		v := math.Ldexp(g.v, -xf.k)
		q := c.GExp[1]
		ok := !math.IsNaN(v) && v > 0
		if ok {
			// v^q against 2^p
			r := math.Pow(v, float64(q)) / math.Ldexp(1, int(c.GExp[0]))
			ok = math.Abs(r-1) <= float64(q)*1e-12
		}
		if !ok {
			return stFail("geomean"+how, fmt.Sprintf("%v (powers of two; %s)", G, conc), c.GExp, g.v, "%s=%v; the geometric mean is 2^(%d/%d + %d)", g.name, g.v, c.GExp[0], c.GExp[1], xf.k)
		}
	}
	if c.Pos {
		// raw positive values, scaled by 2^k only: g^n = product
		R := make([]float64, n)
		for i, x := range perm {
			R[i] = math.Ldexp(float64(x), xf.k)
		}
		g := stats.Sample{Xs: stCopy(R), Sorted: sorted}.GeoMean()
		v := math.Ldexp(g, -xf.k)
		if math.IsNaN(v) || math.Abs(math.Pow(v, float64(n))/float64(c.Prod)-1) > float64(n)*1e-12 {
			return stFail("geomean"+how, fmt.Sprintf("%v", R), c.Prod, g, "Sample.GeoMean()=%v; g^%d must be the product %d (x 2^%d)", g, n, c.Prod, n*xf.k)
		}
	}
	// one-sample t-test
	if len(c.OneErrs) > 0 {
		want := &stT{Errs: c.OneErrs}
		if v := stCheckT("one-sample", conc, want, c.Tail, n, 0, func(h stats.LocationHypothesis) (*stats.TTestResult, error) {
			return stats.OneSampleTTest(smp(), xf.val(1), h)
		}); v != nil {
			return v
		}
	}
	for i := range c.One {
		want := &c.One[i]
		if !stDyadic(want.Mu) {
			stBad("mu0 %v is not dyadic", want.Mu)
		}
		mu := xf.rat(want.Mu)
		if v := stCheckT("one-sample", fmt.Sprintf("%s mu0=%v", conc, mu), want, c.Tail, n, 0, func(h stats.LocationHypothesis) (*stats.TTestResult, error) {
			return stats.OneSampleTTest(smp(), mu, h)
		}); v != nil {
			return v
		}
	}
	return nil
}

// ---------------------------------------------------------------- tt

func stShuffled(rng *rand.Rand, xs []int64) []int64 {
	out := append([]int64(nil), xs...)
	rng.Shuffle(len(out), func(i, j int) { out[i], out[j] = out[j], out[i] })
	return out
}

func stTT(c *stCase) Verdict {
	if c.Welch == nil || c.Pooled == nil || c.Paired == nil {
		stBad("tt case without expectations")
	}
	rng := newRand(c.Salt)
	type variant struct {
		xf      stXform
		x, y    []int64
		px, py  []int64 // paired: same permutation on both sides
		sortedF bool
	}
	vs := []variant{{xf: stIdentity, x: c.Xs, y: c.Ys, px: c.Xs, py: c.Ys, sortedF: c.Salt%2 == 0}}
	v1 := variant{xf: stRandXform(rng), x: stShuffled(rng, c.Xs), y: stShuffled(rng, c.Ys)}
	if len(c.Xs) == len(c.Ys) {
		perm := rng.Perm(len(c.Xs))
		for _, i := range perm {
			v1.px = append(v1.px, c.Xs[i])
			v1.py = append(v1.py, c.Ys[i])
		}
	} else {
		v1.px, v1.py = v1.x, v1.y
	}
	vs = append(vs, v1)
	for _, w := range vs {
		X, Y := w.xf.vals(w.x), w.xf.vals(w.y)
		conc := fmt.Sprintf("x1=%v x2=%v Sorted:%v (%v)", X, Y, w.sortedF, w.xf)
		s1 := func() stats.Sample { return stats.Sample{Xs: stCopy(X), Sorted: w.sortedF} }
		s2 := func() stats.Sample { return stats.Sample{Xs: stCopy(Y), Sorted: w.sortedF} }
		if v := stCheckT("welch", conc, c.Welch, c.Tail, len(X), len(Y), func(h stats.LocationHypothesis) (*stats.TTestResult, error) {
			return stats.TwoSampleWelchTTest(s1(), s2(), h)
		}); v != nil {
			return *v
		}
		if v := stCheckT("pooled", conc, c.Pooled, c.Tail, len(X), len(Y), func(h stats.LocationHypothesis) (*stats.TTestResult, error) {
			return stats.TwoSampleTTest(s1(), s2(), h)
		}); v != nil {
			return *v
		}
		PX, PY := w.xf.vals(w.px), w.xf.vals(w.py)
		pconc := fmt.Sprintf("x1=%v x2=%v mu0=0 (%v)", PX, PY, w.xf)
		if v := stCheckT("paired", pconc, c.Paired, c.Tail, len(PX), len(PY), func(h stats.LocationHypothesis) (*stats.TTestResult, error) {
			return stats.PairedTTest(stCopy(PX), stCopy(PY), 0, h)
		}); v != nil {
			return *v
		}
		// history: the caller keeps ONE array per sample and asks several things in a row. The
		// statistics of the samples as supplied do not depend on what was asked before: first every
		// query on one side (seed-chosen), the order-sensitive paired test, then the other side.
		HX, HY := stCopy(PX), stCopy(PY)
		sides := []stats.Sample{{Xs: HX}, {Xs: HY}}
		if c.Salt%2 == 1 {
			sides[0], sides[1] = sides[1], sides[0]
		}
		for si, sd := range sides {
			if len(sd.Xs) > 0 {
				_, _ = sd.Mean(), sd.Variance()
				_, _ = sd.Bounds()
				_, _, _, _ = sd.Percentile(0.5), sd.Percentile(1.0/3), sd.IQR(), sd.StdDev()
			}
			hconc := fmt.Sprintf("%s, on the same arrays after Mean/Variance/Bounds/Percentile/IQR/StdDev of %d of the two samples", pconc, si+1)
			for _, tc := range []struct {
				name string
				want *stT
				call func(h stats.LocationHypothesis) (*stats.TTestResult, error)
			}{
				{"paired", c.Paired, func(h stats.LocationHypothesis) (*stats.TTestResult, error) { return stats.PairedTTest(HX, HY, 0, h) }},
				{"welch", nil, func(h stats.LocationHypothesis) (*stats.TTestResult, error) {
					return stats.TwoSampleWelchTTest(stats.Sample{Xs: HX}, stats.Sample{Xs: HY}, h)
				}},
				{"pooled", nil, func(h stats.LocationHypothesis) (*stats.TTestResult, error) {
					return stats.TwoSampleTTest(stats.Sample{Xs: HX}, stats.Sample{Xs: HY}, h)
				}},
			} {
				want := tc.want
				if tc.name != "paired" { // (px, py are x, y in another order)
					want = map[string]*stT{"welch": c.Welch, "pooled": c.Pooled}[tc.name]
				}
				if v := stCheckT(tc.name, hconc, want, c.Tail, len(HX), len(HY), tc.call); v != nil {
					v.Signature += "/after-queries"
					return *v
				}
			}
		}
	}
	return pass()
}

// ---------------------------------------------------------------- pd

func stPD(c *stCase) Verdict {
	rng := newRand(c.Salt)
	n := len(c.Ds)
	for vi, xf := range []stXform{stIdentity, stRandXform(rng)} {
		// x1[i] = y[i] + d[i], x2[i] = y[i] with seed-chosen small integers y, in a seed-chosen order
		ds := c.Ds
		if vi > 0 {
			ds = stShuffled(rng, c.Ds)
		}
		x1, x2 := make([]int64, n), make([]int64, n)
		for i, d := range ds {
			y := int64(0)
			if vi > 0 {
				y = int64(rng.Intn(11) - 5)
			}
			x1[i], x2[i] = y+d, y
		}
		X1, X2 := xf.vals(x1), xf.vals(x2)
		if len(c.Errs) > 0 {
			want := &stT{Errs: c.Errs}
			conc := fmt.Sprintf("x1=%v x2=%v (%v)", X1, X2, xf)
			if v := stCheckT("paired", conc, want, c.Tail, n, n, func(h stats.LocationHypothesis) (*stats.TTestResult, error) {
				return stats.PairedTTest(stCopy(X1), stCopy(X2), math.Ldexp(1, xf.k), h)
			}); v != nil {
				return *v
			}
			continue
		}
		for i := range c.Tests {
			want := &c.Tests[i]
			if !stDyadic(want.Mu) {
				stBad("mu0 %v is not dyadic", want.Mu)
			}
			mu := math.Ldexp(want.Mu.f(), xf.k) // the shift cancels in the differences
			conc := fmt.Sprintf("x1=%v x2=%v mu0=%v (%v)", X1, X2, mu, xf)
			if v := stCheckT("paired", conc, want, c.Tail, n, n, func(h stats.LocationHypothesis) (*stats.TTestResult, error) {
				return stats.PairedTTest(stCopy(X1), stCopy(X2), mu, h)
			}); v != nil {
				return *v
			}
		}
	}
	return pass()
}

// ---------------------------------------------------------------- big: samples of up to several hundred values

// The textbook definitions of Stats.tla's declarative side (DMean, DVar, OrderStat, DPct with
// p any rational, DOneOf, DWelchOf, DPooledOf, DPaired, the error sets) do not depend on the
// sample size; TLC evaluates them on small integer samples only (its integers are 32 bit).
// stBig evaluates the same definitions in exact rationals (math/big) on samples of the sizes
// the property quantifies over ("1 to several hundred finite values of widely varying
// magnitude, ordering and multiplicity, sorted or not") - every float is an exact rational -
// and compares internal/stats with them. The plan sweeps the sizes (every n from 2 to 130,
// so both sides of any size- or degrees-of-freedom-dependent switch, and some up to 700).
//
// Every sample lives in ONE array handed to the code again and again (as a caller would keep
// it): first the order-sensitive paired test on the fresh arrays, then all queries, then the
// paired test once more on the same arrays ("history"): a query may not change what a later
// one sees.

type stRatT struct {
	t2, dof *big.Rat
	sgn     int
	// conditioning of the statistic: the difference of means d that it divides, its standard error,
	// and n x the magnitude of the data (a mean of n floats of magnitude s is only determined to a
	// few n ulps of s: "within a few ulps of the data's scale")
	d, se, nscale float64
}

func stR(x float64) *big.Rat    { return new(big.Rat).SetFloat64(x) }
func stRI(n int) *big.Rat       { return new(big.Rat).SetInt64(int64(n)) }
func stRF(r *big.Rat) float64   { f, _ := r.Float64(); return f }
func stRSq(r *big.Rat) *big.Rat { return new(big.Rat).Mul(r, r) }

type stSum struct {
	n        int
	mean, ss *big.Rat // ss: sum of squared deviations from the mean
	vr       *big.Rat // ss / (n-1), 0 for n < 2
	allEqual bool
	scale    float64
	sorted   []float64
}

func stSumOf(xs []float64) *stSum {
	a := &stSum{n: len(xs), mean: new(big.Rat), ss: new(big.Rat), vr: new(big.Rat), allEqual: true}
	for _, x := range xs {
		a.mean.Add(a.mean, stR(x))
		a.scale = math.Max(a.scale, math.Abs(x))
		if x != xs[0] {
			a.allEqual = false
		}
	}
	if a.n == 0 {
		return a
	}
	a.mean.Quo(a.mean, stRI(a.n))
	for _, x := range xs {
		a.ss.Add(a.ss, stRSq(new(big.Rat).Sub(stR(x), a.mean)))
	}
	if a.n >= 2 {
		a.vr.Quo(a.ss, stRI(a.n-1))
	}
	a.sorted = stCopy(xs)
	sort.Float64s(a.sorted)
	return a
}

// R8 (Hyndman and Fan, definition 8) at the rational p: h = (n + 1/3) p + 1/3,
// Q = (1-g) x_(j) + g x_(j+1) with j = floor(h), g = h - j, order statistics clamped to 1..n.
func (a *stSum) pct(p float64) *big.Rat {
	if p <= 0 {
		return stR(a.sorted[0])
	}
	if p >= 1 {
		return stR(a.sorted[a.n-1])
	}
	third := big.NewRat(1, 3)
	h := new(big.Rat).Add(stRI(a.n), third)
	h.Mul(h, stR(p)).Add(h, third)
	j := new(big.Int).Quo(h.Num(), h.Denom()) // h > 0
	g := new(big.Rat).Sub(h, new(big.Rat).SetInt(j))
	clamp := func(k int64) float64 {
		if k < 1 {
			k = 1
		}
		if k > int64(a.n) {
			k = int64(a.n)
		}
		return a.sorted[k-1]
	}
	lo, hi := stR(clamp(j.Int64())), stR(clamp(j.Int64()+1))
	q := new(big.Rat).Sub(hi, lo)
	return q.Mul(q, g).Add(q, lo)
}

func stOneT(a *stSum, mu float64) stRatT {
	d := new(big.Rat).Sub(a.mean, stR(mu))
	se2 := new(big.Rat).Quo(a.vr, stRI(a.n))
	return stRatT{t2: new(big.Rat).Quo(stRSq(d), se2), sgn: d.Sign(), dof: stRI(a.n - 1),
		d: stRF(d), se: math.Sqrt(stRF(se2)), nscale: float64(a.n) * math.Max(a.scale, math.Abs(mu))}
}

func stWelchT(a, b *stSum) stRatT {
	a1 := new(big.Rat).Quo(a.vr, stRI(a.n))
	a2 := new(big.Rat).Quo(b.vr, stRI(b.n))
	se2 := new(big.Rat).Add(a1, a2)
	d := new(big.Rat).Sub(a.mean, b.mean)
	den := new(big.Rat).Add(new(big.Rat).Quo(stRSq(a1), stRI(a.n-1)), new(big.Rat).Quo(stRSq(a2), stRI(b.n-1)))
	return stRatT{t2: new(big.Rat).Quo(stRSq(d), se2), sgn: d.Sign(), dof: new(big.Rat).Quo(stRSq(se2), den),
		d: stRF(d), se: math.Sqrt(stRF(se2)), nscale: float64(a.n+b.n) * math.Max(a.scale, b.scale)}
}

func stPooledT(a, b *stSum) stRatT {
	sp2 := new(big.Rat).Add(a.ss, b.ss)
	sp2.Quo(sp2, stRI(a.n+b.n-2))
	d := new(big.Rat).Sub(a.mean, b.mean)
	k := new(big.Rat).Add(big.NewRat(1, int64(a.n)), big.NewRat(1, int64(b.n)))
	se2 := sp2.Mul(sp2, k)
	return stRatT{t2: new(big.Rat).Quo(stRSq(d), se2), sgn: d.Sign(), dof: stRI(a.n + b.n - 2),
		d: stRF(d), se: math.Sqrt(stRF(se2)), nscale: float64(a.n+b.n) * math.Max(a.scale, b.scale)}
}

func stWantOfRat(r stRatT, tol float64) *stWant {
	t2, dof := stRF(r.t2), stRF(r.dof)
	const ulp = 1.0 / (1 << 52)
	derr := 16 * ulp * r.nscale // what the rounding of the means may move their difference by
	t2tol := tol
	if r.d != 0 {
		t2tol += 2 * derr / math.Abs(r.d)
	}
	near := func(w, tol float64) func(float64) bool {
		return func(x float64) bool {
			return !math.IsNaN(x) && !math.IsInf(x, 0) && math.Abs(x-w) <= tol*math.Max(math.Abs(x), math.Abs(w))
		}
	}
	w := &stWant{T2Zero: r.t2.Sign() == 0, Sgn: r.sgn, T2OK: near(t2, t2tol), DofOK: near(dof, tol), ZeroTol: derr / r.se,
		Show: map[string]interface{}{"t2": t2, "sgn": r.sgn, "dof": dof},
		Text: fmt.Sprintf("T^2=%v, sign %d, degrees of freedom %v (exact rational arithmetic)", t2, r.sgn, dof)}
	if !w.T2Zero && math.Abs(r.d) <= 8*derr {
		// the difference of the means is below what floats of this magnitude determine: only |T| small
		w.T2Zero, w.Sgn, w.ZeroTol = true, 0, 2*(math.Abs(r.d)+derr)/r.se
	}
	return w
}

func stErrSet(size, zerovar, mismatch bool) []string {
	var out []string
	if mismatch {
		out = append(out, "mismatch")
	}
	if size {
		out = append(out, "size")
	}
	if zerovar {
		out = append(out, "zerovar")
	}
	return out
}

// stBigGen draws a sample of n values of the given shape.
func stBigGen(rng *rand.Rand, n int, shape string, side int) []float64 {
	xs := make([]float64, n)
	switch shape {
	case "unit": // full mantissas of one magnitude; the second sample is shifted by a few standard errors
		sh := 0.0
		if side == 1 {
			sh = (rng.Float64()*5 - 2.5) * 0.41 / math.Sqrt(float64(n))
		}
		sc := math.Ldexp(1, rng.Intn(41)-20)
		if side == 1 {
			sc = 0 // set by the caller: both sides share the scale
		}
		for i := range xs {
			xs[i] = rng.Float64() + sh
		}
		_ = sc
	case "int": // integers (exact sums), second sample shifted
		off := float64(rng.Intn(3)-1) * 5000
		sh := 0.0
		if side == 1 {
			sh = math.Round((rng.Float64()*5 - 2.5) * 820 / math.Sqrt(float64(n)))
		}
		for i := range xs {
			xs[i] = float64(rng.Intn(2001)-1000) + off + sh
		}
	case "wide": // widely varying magnitude, both signs
		for i := range xs {
			xs[i] = math.Ldexp(1+rng.Float64(), rng.Intn(41)-20)
			if rng.Intn(2) == 0 {
				xs[i] = -xs[i]
			}
		}
	case "ties": // a handful of distinct values, many repetitions
		k := 2 + rng.Intn(4)
		vals := make([]float64, k)
		for i := range vals {
			vals[i] = math.Round(rng.NormFloat64()*50) / 8
		}
		if vals[0] == vals[1] {
			vals[1]++
		}
		for i := range xs {
			xs[i] = vals[rng.Intn(k)]
		}
		xs[0], xs[n-1] = vals[0], vals[1] // never constant (n >= 2)
	case "const": // one value: zero variance
		v := []float64{0.1, 1.0 / 3, 7.3, 1e9 + 0.1, -2.7e-5, 3}[rng.Intn(6)]
		for i := range xs {
			xs[i] = v
		}
	default:
		stBad("unknown shape %q", shape)
	}
	return xs
}

func stBig(c *stCase) Verdict {
	rng := newRand(c.Salt)
	n1, n2 := c.N1, c.N2
	if n1 < 1 || n2 < 1 {
		stBad("big case with an empty sample")
	}
	X, Y := stBigGen(rng, n1, c.Shape, 0), stBigGen(rng, n2, c.Shape, 1)
	if c.Shape == "unit" || c.Shape == "int" { // a common exact rescaling
		k := rng.Intn(41) - 20
		for i := range X {
			X[i] = math.Ldexp(X[i], k)
		}
		for i := range Y {
			Y[i] = math.Ldexp(Y[i], k)
		}
	}
	if c.Salt%3 == 0 { // sometimes handed over in nondecreasing order, marked Sorted
		sort.Float64s(X)
		sort.Float64s(Y)
	}
	sortedMark := c.Salt%3 == 0
	X0, Y0 := stCopy(X), stCopy(Y) // the samples as supplied
	a, b := stSumOf(X0), stSumOf(Y0)
	conc := fmt.Sprintf("shape %s, n1=%d n2=%d, salt %d: x1=%v... x2=%v...", c.Shape, n1, n2, c.Salt, X0[:stMinInt(4, n1)], Y0[:stMinInt(4, n2)])
	const tol = 1e-9

	// the paired test of the first m values by position, and its expectation
	m := stMinInt(n1, n2)
	diffs := make([]*big.Rat, m)
	dsum := &stSum{n: m, mean: new(big.Rat), ss: new(big.Rat), vr: new(big.Rat), allEqual: true}
	for i := 0; i < m; i++ {
		diffs[i] = new(big.Rat).Sub(stR(X0[i]), stR(Y0[i]))
		dsum.mean.Add(dsum.mean, diffs[i])
		if diffs[i].Cmp(diffs[0]) != 0 {
			dsum.allEqual = false
		}
	}
	dsum.mean.Quo(dsum.mean, stRI(m))
	for i := 0; i < m; i++ {
		dsum.ss.Add(dsum.ss, stRSq(new(big.Rat).Sub(diffs[i], dsum.mean)))
	}
	if m >= 2 {
		dsum.vr.Quo(dsum.ss, stRI(m-1))
	}
	var pairedWant *stWant
	if errs := stErrSet(m < 2, dsum.allEqual, false); len(errs) > 0 {
		pairedWant = &stWant{Errs: errs}
	} else {
		pairedWant = stWantOfRat(stOneT(dsum, 0), tol)
	}
	paired := func(when string) *Verdict {
		v := stCheckTCore("paired", conc+" (first "+fmt.Sprint(m)+" of each, "+when+")", pairedWant, c.Tail, m, m, func(h stats.LocationHypothesis) (*stats.TTestResult, error) {
			return stats.PairedTTest(X[:m:m], Y[:m:m], 0, h)
		})
		return v
	}
	if v := paired("fresh arrays"); v != nil {
		return *v
	}

	// descriptive statistics, on the long-lived sample objects
	s1, s2 := stats.Sample{Xs: X, Sorted: sortedMark}, stats.Sample{Xs: Y, Sorted: sortedMark}
	for si, sd := range []struct {
		s   stats.Sample
		sum *stSum
	}{{s1, a}, {s2, b}} {
		s, sum := sd.s, sd.sum
		who := fmt.Sprintf("sample %d of %s", si+1, conc)
		near := func(x float64, r *big.Rat, scale float64) bool {
			w := stRF(r)
			return !math.IsNaN(x) && !math.IsInf(x, 0) && math.Abs(x-w) <= 1e-12*math.Max(math.Max(math.Abs(x), math.Abs(w)), scale)
		}
		for _, g := range []struct {
			name string
			v    float64
		}{{"Sample.Mean", s.Mean()}, {"Mean", stats.Mean(s.Xs)}} {
			if !near(g.v, sum.mean, sum.scale) {
				return *stFail("mean/many-values", who, stRF(sum.mean), g.v, "%s=%v; exact mean %v", g.name, g.v, stRF(sum.mean))
			}
		}
		if sum.n >= 2 {
			sd1, sd2 := s.StdDev(), stats.StdDev(s.Xs)
			for _, g := range []struct {
				name string
				v    float64
			}{{"Sample.Variance", s.Variance()}, {"Variance", stats.Variance(s.Xs)}, {"Sample.StdDev^2", sd1 * sd1}, {"StdDev^2", sd2 * sd2}} {
				if !near(g.v, sum.vr, sum.scale*sum.scale) {
					return *stFail("variance/many-values", who, stRF(sum.vr), g.v, "%s=%v; exact variance (n-1) %v", g.name, g.v, stRF(sum.vr))
				}
			}
		}
		lo, hi := s.Bounds()
		lo2, hi2 := stats.Bounds(s.Xs)
		if lo != sum.sorted[0] || hi != sum.sorted[sum.n-1] || lo2 != lo || hi2 != hi {
			return *stFail("bounds/many-values", who, []float64{sum.sorted[0], sum.sorted[sum.n-1]}, []float64{lo, hi, lo2, hi2}, "Bounds: (%v, %v) / (%v, %v), minimum and maximum are (%v, %v)", lo, hi, lo2, hi2, sum.sorted[0], sum.sorted[sum.n-1])
		}
		nf := float64(sum.n)
		ps := []float64{0, 1, 0.5, 0.25, 0.75, (2.0 / 3) / (nf + 1.0/3), (nf - 1.0/3) / (nf + 1.0/3), 1 / nf, 1 - 1/nf, 0.999, 0.001}
		for j := 1; j < 12; j++ {
			ps = append(ps, float64(j)/12)
		}
		for j := 0; j < 8; j++ {
			ps = append(ps, rng.Float64())
		}
		sort.Float64s(ps)
		prev := math.Inf(-1)
		for _, p := range ps {
			g := s.Percentile(p)
			if w := sum.pct(p); !near(g, w, sum.scale) {
				return *stFail("percentile/many-values", who, stRF(w), g, "Percentile(%v)=%v; R8 gives %v", p, g, stRF(w))
			}
			if g < prev || g < lo || g > hi {
				return *stFail("percentile-not-monotone/many-values", who, []float64{prev, lo, hi}, g, "Percentile(%v)=%v after %v, bounds [%v, %v]", p, g, prev, lo, hi)
			}
			prev = g
		}
		if g, w := s.IQR(), new(big.Rat).Sub(sum.pct(0.75), sum.pct(0.25)); !near(g, w, sum.scale) {
			return *stFail("iqr/many-values", who, stRF(w), g, "IQR()=%v; Q(3/4)-Q(1/4) = %v", g, stRF(w))
		}
	}

	// t-tests on the same objects
	one := func(s stats.Sample, sum *stSum, which int) *Verdict {
		if sum.n < 2 || sum.allEqual {
			// undersized or constant: an error (a single value has zero variance AND is undersized)
			want := &stWant{Errs: stErrSet(sum.n < 2, sum.allEqual, false)}
			return stCheckTCore("one-sample", conc, want, c.Tail, sum.n, 0, func(h stats.LocationHypothesis) (*stats.TTestResult, error) {
				return stats.OneSampleTTest(s, 1, h)
			})
		}
		sdv := math.Sqrt(stRF(sum.vr))
		for _, z := range []float64{1.3, -2.2, 0.4} {
			mu := stRF(sum.mean) + z*sdv/math.Sqrt(float64(sum.n))
			if v := stCheckTCore("one-sample", fmt.Sprintf("sample %d of %s, mu0=%v", which, conc, mu), stWantOfRat(stOneT(sum, mu), tol), c.Tail, sum.n, 0, func(h stats.LocationHypothesis) (*stats.TTestResult, error) {
				return stats.OneSampleTTest(s, mu, h)
			}); v != nil {
				return v
			}
		}
		return nil
	}
	if v := one(s1, a, 1); v != nil {
		return *v
	}
	if v := one(s2, b, 2); v != nil {
		return *v
	}
	bothConst := a.allEqual && b.allEqual
	var ww, pw *stWant
	if errs := stErrSet(n1 < 2 || n2 < 2, bothConst, false); len(errs) > 0 {
		ww = &stWant{Errs: errs}
	} else {
		ww = stWantOfRat(stWelchT(a, b), tol)
	}
	if errs := stErrSet(n1+n2 < 3, bothConst, false); len(errs) > 0 {
		pw = &stWant{Errs: errs}
	} else {
		pw = stWantOfRat(stPooledT(a, b), tol)
		if stMinInt(n1, n2) == 1 {
			pw.May = []string{"size"}
		}
	}
	if v := stCheckTCore("welch", conc, ww, c.Tail, n1, n2, func(h stats.LocationHypothesis) (*stats.TTestResult, error) {
		return stats.TwoSampleWelchTTest(s1, s2, h)
	}); v != nil {
		return *v
	}
	if v := stCheckTCore("pooled", conc, pw, c.Tail, n1, n2, func(h stats.LocationHypothesis) (*stats.TTestResult, error) {
		return stats.TwoSampleTTest(s1, s2, h)
	}); v != nil {
		return *v
	}
	// history: the same arrays after all these queries
	if v := paired("after the queries above on the same arrays"); v != nil {
		v.Signature += "/after-queries"
		return *v
	}
	return pass()
}

// stConc (kind "conc"): the statistics are functions of their arguments, so their values cannot
// depend on what other goroutines compute at the same time on THEIR OWN, unshared samples.  N1
// goroutines each own one sample (sizes 1..700, shapes rotating, most of them unsorted, some
// marked Sorted); the expectations (exact rationals, stSumOf) are computed beforehand; one
// sequential pass over every sample comes first (a failure there is reported without the
// /concurrent suffix), then all goroutines, released together, repeat for N2 rounds
// Mean / Variance / StdDev / Bounds / Percentile at the levels of stBig / IQR on their sample and
// compare with the same expectations.  Afterwards N1 complete stBig cases (all t-tests, p-values,
// the /after-queries history) are run side by side.  A panic in a worker is a verdict.
type stConcExp struct {
	s        stats.Sample
	sum      *stSum
	who      string
	ps       []float64
	wantP    []float64
	wantIQR  float64
	wantMean float64
	wantVar  float64
}

func (e *stConcExp) pass1() *Verdict {
	s, sum := e.s, e.sum
	near := func(x, w, scale float64) bool {
		return !math.IsNaN(x) && !math.IsInf(x, 0) && math.Abs(x-w) <= 1e-12*math.Max(math.Max(math.Abs(x), math.Abs(w)), scale)
	}
	for _, g := range []struct {
		name string
		v    float64
	}{{"Sample.Mean", s.Mean()}, {"Mean", stats.Mean(s.Xs)}} {
		if !near(g.v, e.wantMean, sum.scale) {
			return stFail("mean/many-values", e.who, e.wantMean, g.v, "%s=%v; exact mean %v", g.name, g.v, e.wantMean)
		}
	}
	if sum.n >= 2 {
		sd1, sd2 := s.StdDev(), stats.StdDev(s.Xs)
		for _, g := range []struct {
			name string
			v    float64
		}{{"Sample.Variance", s.Variance()}, {"Variance", stats.Variance(s.Xs)}, {"Sample.StdDev^2", sd1 * sd1}, {"StdDev^2", sd2 * sd2}} {
			if !near(g.v, e.wantVar, sum.scale*sum.scale) {
				return stFail("variance/many-values", e.who, e.wantVar, g.v, "%s=%v; exact variance (n-1) %v", g.name, g.v, e.wantVar)
			}
		}
	}
	lo, hi := s.Bounds()
	lo2, hi2 := stats.Bounds(s.Xs)
	if lo != sum.sorted[0] || hi != sum.sorted[sum.n-1] || lo2 != lo || hi2 != hi {
		return stFail("bounds/many-values", e.who, []float64{sum.sorted[0], sum.sorted[sum.n-1]}, []float64{lo, hi, lo2, hi2}, "Bounds: (%v, %v) / (%v, %v), minimum and maximum are (%v, %v)", lo, hi, lo2, hi2, sum.sorted[0], sum.sorted[sum.n-1])
	}
	prev := math.Inf(-1)
	for i, p := range e.ps {
		g := s.Percentile(p)
		if !near(g, e.wantP[i], sum.scale) {
			return stFail("percentile/many-values", e.who, e.wantP[i], g, "Percentile(%v)=%v; R8 gives %v", p, g, e.wantP[i])
		}
		if g < prev || g < lo || g > hi {
			return stFail("percentile-not-monotone/many-values", e.who, []float64{prev, lo, hi}, g, "Percentile(%v)=%v after %v, bounds [%v, %v]", p, g, prev, lo, hi)
		}
		prev = g
	}
	if g := s.IQR(); !near(g, e.wantIQR, sum.scale) {
		return stFail("iqr/many-values", e.who, e.wantIQR, g, "IQR()=%v; Q(3/4)-Q(1/4) = %v", g, e.wantIQR)
	}
	return nil
}

func stConc(c *stCase) Verdict {
	rng := newRand(c.Salt)
	W, rounds := c.N1, c.N2
	if W < 2 || rounds < 1 {
		stBad("conc case needs >= 2 workers and >= 1 round")
	}
	shapes := []string{"unit", "int", "wide", "ties"}
	sizes := []int{1, 2, 3, 5, 8, 13, 20, 25, 30, 32, 33, 50, 64, 65, 100, 130, 200, 300, 512, 700}
	exps := make([]*stConcExp, W)
	for w := range exps {
		n := sizes[rng.Intn(len(sizes))]
		if c.Shape == "small" {
			n = 2 + rng.Intn(12)
		}
		shape := shapes[(w+int(c.Salt%4+4))%4]
		if n == 1 {
			shape = "unit"
		}
		X := stBigGen(rng, n, shape, 0)
		sortedMark := w%4 == 3 // most samples are unsorted
		if sortedMark {
			sort.Float64s(X)
		}
		sum := stSumOf(X)
		e := &stConcExp{s: stats.Sample{Xs: X, Sorted: sortedMark}, sum: sum,
			who:      fmt.Sprintf("goroutine %d of %d (each on its own sample), shape %s, n=%d, Sorted=%v, salt %d: x=%v...", w+1, W, shape, n, sortedMark, c.Salt, X[:stMinInt(4, n)]),
			wantMean: stRF(sum.mean), wantVar: stRF(sum.vr)}
		nf := float64(n)
		ps := []float64{0, 1, 0.5, 0.25, 0.75, (2.0 / 3) / (nf + 1.0/3), (nf - 1.0/3) / (nf + 1.0/3), 1 / nf, 1 - 1/nf, 0.999, 0.001}
		for j := 1; j < 12; j++ {
			ps = append(ps, float64(j)/12)
		}
		for j := 0; j < 4; j++ {
			ps = append(ps, rng.Float64())
		}
		sort.Float64s(ps)
		e.ps = ps
		for _, p := range ps {
			e.wantP = append(e.wantP, stRF(sum.pct(p)))
		}
		e.wantIQR = stRF(new(big.Rat).Sub(sum.pct(0.75), sum.pct(0.25)))
		exps[w] = e
	}
	// sequential pass
	for _, e := range exps {
		if v := e.pass1(); v != nil {
			return *v
		}
	}
	// concurrent rounds
	runAll := func(f func(w int) *Verdict) *Verdict {
		res := make([]*Verdict, W)
		start := make(chan struct{})
		done := make(chan int, W)
		for w := 0; w < W; w++ {
			go func(w int) {
				defer func() {
					if r := recover(); r != nil {
						res[w] = &Verdict{Signature: "panic", Detail: fmt.Sprint("panic: ", r), Concrete: exps[w].who}
					}
					done <- w
				}()
				<-start
				res[w] = f(w)
			}(w)
		}
		close(start)
		for w := 0; w < W; w++ {
			<-done
		}
		for _, v := range res {
			if v != nil {
				v.Signature += "/concurrent"
				return v
			}
		}
		return nil
	}
	if v := runAll(func(w int) *Verdict {
		for r := 0; r < rounds; r++ {
			if v := exps[w].pass1(); v != nil {
				v.Detail += fmt.Sprintf(" (round %d of %d, while the other goroutines query their own samples)", r+1, rounds)
				return v
			}
		}
		return nil
	}); v != nil {
		return *v
	}
	// the samples handed over are still what they were
	for _, e := range exps {
		chk := stSumOf(e.s.Xs)
		if chk.mean.Cmp(e.sum.mean) != 0 || chk.ss.Cmp(e.sum.ss) != 0 {
			return *stFail("sample-modified/concurrent", e.who, nil, nil, "the caller's sample was changed by read-only queries")
		}
	}
	// complete big cases (t-tests, p-values, history) side by side
	if v := runAll(func(w int) *Verdict {
		n1, n2 := 2+rng2(c.Salt, w, 0)%60, 2+rng2(c.Salt, w, 1)%60
		bc := &stCase{Kind: "big", Salt: c.Salt*31 + int64(w)*3 + 1, Tail: c.Tail, N1: n1, N2: n2, Shape: shapes[w%4]}
		if v := stBig(bc); !v.OK {
			return &v
		}
		return nil
	}); v != nil {
		return *v
	}
	return pass()
}

func rng2(salt int64, w, k int) int {
	x := uint64(salt)*6364136223846793005 + uint64(w)*1442695040888963407 + uint64(k)*2862933555777941757 + 1
	x ^= x >> 29
	x *= 0xbf58476d1ce4e5b9
	x ^= x >> 32
	return int(x % 1000003)
}

func stMinInt(a, b int) int {
	if a < b {
		return a
	}
	return b
}

// ---------------------------------------------------------------- aux (outside the model)

func stSimpson(f func(float64) float64, a, b float64, n int) float64 {
	h := (b - a) / float64(n)
	s := f(a) + f(b)
	for i := 1; i < n; i++ {
		w := 2.0
		if i%2 == 1 {
			w = 4
		}
		s += w * f(a+float64(i)*h)
	}
	return s * h / 3
}

func stLogUniform(rng *rand.Rand, lo, hi float64) float64 {
	return math.Exp(math.Log(lo) + rng.Float64()*(math.Log(hi)-math.Log(lo)))
}

var stAuxDof = []float64{1, 1.5, 2, 2.5, 3, 4.7, 7, 10, 29.3, 100, 617.25, 1e3, 1e4, 33333.3, 5e4, 99999.5, 1e5}

func stAux(c *stCase) Verdict {
	rng := newRand(c.Salt)
	aux := func(sig, conc string, format string, a ...interface{}) Verdict {
		return Verdict{Signature: "aux-" + sig, Detail: "auxiliary probe (outside the model): " + fmt.Sprintf(format, a...), Concrete: conc}
	}
	switch c.Probe {
	case "tdist":
		var v float64
		if k := int(c.Salt % 1000); k < len(stAuxDof) {
			v = stAuxDof[k]
		} else {
			v = stLogUniform(rng, 1, 1e5)
		}
		d := stats.TDist{V: v}
		conc := fmt.Sprintf("TDist{V:%v}", v)
		// "for all arguments x over the real line": up to the largest float and the infinities
		grid := []float64{0, 1e-300, 1e-9, 1e-6, 1e-3, 0.01, 0.1, 0.25, 0.5, 0.75, 1, 1.5, 2, 3, 4, 6, 10, 30, 100, 1e3, 1e6,
			1e12, 1e50, 1e100, 1e154, 2e154, 1e155, 1e200, 1e300, math.MaxFloat64, math.Inf(1)}
		for i := 0; i < 6; i++ {
			grid = append(grid, stLogUniform(rng, 1e-4, 1e3))
		}
		sort.Float64s(grid)
		prev := 0.5
		for _, x := range grid {
			f, fm := d.CDF(x), d.CDF(-x)
			if math.IsNaN(f) || math.IsNaN(fm) || f < 0 || f > 1 || fm < 0 || fm > 1 {
				return aux("tdist-range", conc, "CDF(%v)=%v CDF(%v)=%v outside [0,1]", x, f, -x, fm)
			}
			if math.Abs(f+fm-1) > 1e-12 {
				return aux("tdist-reflection", conc, "CDF(%v)+CDF(%v)=%v", x, -x, f+fm)
			}
			if f < prev-1e-12 {
				return aux("tdist-monotone", conc, "CDF(%v)=%v below CDF at the previous grid point %v", x, f, prev)
			}
			prev = f
			if p := d.PDF(x); math.IsNaN(p) || p < 0 || p != d.PDF(-x) {
				return aux("tdist-pdf", conc, "PDF(%v)=%v PDF(%v)=%v", x, p, -x, d.PDF(-x))
			}
		}
		if d.CDF(0) != 0.5 {
			return aux("tdist-reflection", conc, "CDF(0)=%v", d.CDF(0))
		}
		for _, x := range []float64{0.5, 1, 2, 4} {
			in := stSimpson(d.PDF, 0, x, 4000)
			if got := d.CDF(x) - 0.5; math.Abs(got-in) > 1e-8 {
				return aux("tdist-integral", conc, "CDF(%v)-1/2=%v, Simpson integral of the density %v", x, got, in)
			}
		}
		inv := stats.InvCDF(d)
		// (1, 3, 7, 15, ... and their negatives are where the generic inverse probes while it brackets)
		for _, x := range []float64{-3, -1, -0.1, 0.5, 2, 1, 3, 7, 15, 31, 63, -7, -15, -31, 0, 0.25, 4, 8, 16} {
			// (far in the tails the distribution function is flat at float resolution: there the
			// inverse is judged by the probability it reaches, not by x)
			if got := inv(d.CDF(x)); math.IsNaN(got) || (math.Abs(got-x) > 1e-6*math.Max(1, math.Abs(x)) && math.Abs(d.CDF(got)-d.CDF(x)) > 1e-12) {
				return aux("tdist-inverse", conc, "InvCDF(CDF(%v))=%v", x, got)
			}
		}
		// far out in the tails ("all arguments x over the real line"): wherever the distribution
		// function itself still separates x(1-d), x and x(1+d) by 1e-13 (about 900 ulps of a
		// probability), a monotone function's inverse of CDF(x) lies within x(1 -+ d). The generic
		// inverse brackets by doubling: the ladder climbs through every doubling (2^33 and more
		// for 1..1.3 degrees of freedom) until the tail is no longer resolved.
		for k := 0; k <= 1000; k++ {
			ax := math.Ldexp(1+rng.Float64(), k)
			if 1-d.CDF(ax/2) < 2e-13 {
				break
			}
			for _, x := range []float64{ax, -ax} {
				y := d.CDF(x)
				for _, dl := range []float64{1e-6, 1e-4, 1e-2, 0.5} {
					a, b := d.CDF(x-ax*dl), d.CDF(x+ax*dl)
					if !(y-a >= 1e-13 && b-y >= 1e-13) {
						continue
					}
					if got := inv(y); math.IsNaN(got) || got < x-ax*dl || got > x+ax*dl {
						return aux("tdist-inverse-far", conc, "InvCDF(CDF(%v))=%v, although CDF(%v)=%v < CDF(%v)=%v < CDF(%v)=%v", x, got, x-ax*dl, a, x, y, x+ax*dl, b)
					}
					break
				}
			}
		}
	case "normal":
		mu := rng.NormFloat64() * 100
		sigma := stLogUniform(rng, 1e-3, 1e3)
		if c.Salt%1000 == 0 {
			mu, sigma = 0, 1
		}
		d := stats.NormalDist{Mu: mu, Sigma: sigma}
		conc := fmt.Sprintf("NormalDist{Mu:%v, Sigma:%v}", mu, sigma)
		zs := []float64{0, 1e-6, 1e-3, 0.1, 0.5, 1, 1.5, 2, 3, 4, 5, 6, 8, 10, 20, 40}
		for i := 0; i < 6; i++ {
			zs = append(zs, rng.Float64()*8)
		}
		sort.Float64s(zs)
		prev := 0.5
		for _, z := range zs {
			f, fm := d.CDF(mu+z*sigma), d.CDF(mu-z*sigma)
			if math.IsNaN(f) || math.IsNaN(fm) || f < 0 || f > 1 || fm < 0 || fm > 1 {
				return aux("normal-range", conc, "CDF(mu%+v sigma) = %v / %v outside [0,1]", z, f, fm)
			}
			// mu +- z sigma are rounded separately: compare in units of the density
			if math.Abs(f+fm-1) > 1e-12+1e-13*math.Abs(mu)/sigma {
				return aux("normal-reflection", conc, "CDF(mu+%v sigma)+CDF(mu-%v sigma)=%v", z, z, f+fm)
			}
			if f < prev-1e-13*(1+math.Abs(mu)/sigma) {
				return aux("normal-monotone", conc, "CDF at z=%v is %v, below the previous grid point %v", z, f, prev)
			}
			prev = f
			if p := d.PDF(mu + z*sigma); math.IsNaN(p) || p < 0 {
				return aux("normal-pdf", conc, "PDF(mu+%v sigma)=%v", z, p)
			}
		}
		for _, z := range []float64{0.5, 1, 2, 4} {
			in := stSimpson(d.PDF, mu, mu+z*sigma, 4000)
			if got := d.CDF(mu+z*sigma) - 0.5; math.Abs(got-in) > 1e-9+1e-13*math.Abs(mu)/sigma {
				return aux("normal-integral", conc, "CDF(mu+%v sigma)-1/2=%v, Simpson integral of the density %v", z, got, in)
			}
		}
		for _, z := range []float64{-6, -3, -1, -0.1, 0, 0.5, 2, 3.5} {
			x := mu + z*sigma
			got := d.InvCDF(d.CDF(x))
			if math.IsNaN(got) || math.Abs(got-x) > 1e-8*sigma*math.Max(1, math.Abs(z))+1e-12*math.Abs(mu) {
				return aux("normal-inverse", conc, "InvCDF(CDF(%v))=%v (z=%v)", x, got, z)
			}
		}
		if !math.IsInf(d.InvCDF(0), -1) || !math.IsInf(d.InvCDF(1), 1) || math.Abs(d.InvCDF(0.5)-mu) > 1e-12*math.Max(sigma, math.Abs(mu)) {
			return aux("normal-inverse", conc, "InvCDF(0)=%v InvCDF(1/2)=%v InvCDF(1)=%v", d.InvCDF(0), d.InvCDF(0.5), d.InvCDF(1))
		}
	case "beta":
		// parameters as the t distribution produces them (dof/2, 1/2) and general ones
		a := stLogUniform(rng, 1, 1e5) / 2
		b := 0.5
		if c.Salt%2 == 1 {
			b = stLogUniform(rng, 1, 1e5) / 2
		}
		if k := int(c.Salt % 1000); k < len(stAuxDof) {
			a, b = stAuxDof[k]/2, 0.5
		}
		conc := fmt.Sprintf("I_x(%v, %v)", a, b)
		xs := []float64{1e-12, 1e-6, 1e-3, 0.01, 0.1, 0.25, 0.5, 0.75, 0.9, 0.99, 0.999, 1 - 1e-6, 1 - 1e-12, a / (a + b)}
		for i := 0; i < 8; i++ {
			xs = append(xs, rng.Float64())
		}
		sort.Float64s(xs)
		if z, o := stats.VerifBetaInc(0, a, b), stats.VerifBetaInc(1, a, b); z != 0 || o != 1 {
			return aux("beta-ends", conc, "I_0=%v I_1=%v", z, o)
		}
		prev := 0.0
		for _, x := range xs {
			i1, i2 := stats.VerifBetaInc(x, a, b), stats.VerifBetaInc(1-x, b, a)
			if math.IsNaN(i1) || math.IsNaN(i2) || i1 < -1e-12 || i1 > 1+1e-12 {
				return aux("beta-range", conc, "I_%v(a,b)=%v I_%v(b,a)=%v", x, i1, 1-x, i2)
			}
			if math.Abs(i1+i2-1) > 1e-9 {
				return aux("beta-symmetry", conc, "I_%v(a,b) + I_%v(b,a) = %v", x, 1-x, i1+i2)
			}
			if i1 < prev-1e-10 {
				return aux("beta-monotone", conc, "I_%v(a,b)=%v below the value %v at the previous grid point", x, i1, prev)
			}
			prev = i1
		}
		// the function of (x, a, b) does not depend on what was evaluated before: the same first
		// parameter with another second one in between (as a table over degrees of freedom does)
		a2 := stLogUniform(rng, 1, 1e5) / 2
		for _, x := range xs {
			j1 := stats.VerifBetaInc(1-x, b, a)
			j2 := stats.VerifBetaInc(1-x, b, a2)
			j1b := stats.VerifBetaInc(1-x, b, a)
			k2 := stats.VerifBetaInc(x, a2, b)
			if j1 != j1b && !(math.IsNaN(j1) && math.IsNaN(j1b)) {
				return aux("beta-history", conc, "I_%v(%v,%v) = %v, and %v after evaluating I_%v(%v,%v)", 1-x, b, a, j1, j1b, 1-x, b, a2)
			}
			if math.IsNaN(j2) || math.IsNaN(k2) || math.Abs(j2+k2-1) > 1e-9 {
				return aux("beta-symmetry", conc, "I_%v(%v,%v) + I_%v(%v,%v) = %v (evaluated right after I(%v,%v))", 1-x, b, a2, x, a2, b, j2+k2, b, a)
			}
		}
	default:
		stBad("unknown auxiliary probe %q", c.Probe)
	}
	return pass()
}
