// Family "summaries" (property C13): benchmath summaries and comparisons.
//
// Replays the cases printed by spec/Summaries_gen.tla on the real
// benchmath.AssumeNothing / AssumeExact / AssumeNormal, Comparison.FormatDelta /
// String and Summary.PctRangeString. Every expectation is a table or value computed by
// the specification (coverage table and minimal acceptable order statistics,
// minimal sufficient n, mode set, mean, exact permutation p-value, the true row
// of the rendering tables); this file only concretises the abstract samples
// (seed-chosen increasing maps, shuffles, rescalings, swaps) and compares.
//
// The as-built predictions carried by the cases (asb...) and smAsBuiltP below
// are used for one purpose only: to give a deviation that has already been
// established against the specification a precise signature.
package main

import (
	"encoding/json"
	"fmt"
	"math"
	"math/big"
	"math/rand"
	"os"
	"sort"
	"regexp"
	"strconv"
	"strings"
	"sync"

	"golang.org/x/perf/benchmath"
)

func init() { register("summaries", famSummaries) }

type smRat [2]int64

func (r smRat) f() float64 { return float64(r[0]) / float64(r[1]) }

type smCase struct {
	Kind  string `json:"kind"`
	Model string `json:"model"` // cmp / cmplarge cases: which assumption (added by the plan)

	// none / nonelarge
	N     int     `json:"n"`
	C     smRat   `json:"c"`
	Pow   int64   `json:"pow"`
	Cum   []int64 `json:"cum"`
	Rmin  []int   `json:"rmin"`
	MedLo int     `json:"medLo"`
	MedHi int     `json:"medHi"`
	MinN  int     `json:"minN"`

	// sample
	Xs     []int64 `json:"xs"`
	Modes  []int64 `json:"modes"`
	Differ bool    `json:"differ"`
	Sum    int64   `json:"sum"`
	VarNum int64   `json:"varnum"`

	// cmp / cmplarge
	A       []int    `json:"a"`
	B       []int    `json:"b"`
	N1      int      `json:"n1"`
	N2      int      `json:"n2"`
	Tied    bool     `json:"tied"`
	Total   int64    `json:"total"`
	Exact   smRat    `json:"exact"`
	Asb12   int64    `json:"asb12"`
	Asb21   int64    `json:"asb21"`
	Asbt12  int64    `json:"asbt12"`
	Asbt21  int64    `json:"asbt21"`
	DNone   []string `json:"dnone"`
	DNormal []string `json:"dnormal"`
	DExact  []string `json:"dexact"`

	// delta / range
	P     smRat    `json:"P"`
	Alpha smRat    `json:"alpha"`
	Old   smRat    `json:"old"`
	New   smRat    `json:"new"`
	Want  []string `json:"want"`
	LoInf int      `json:"loinf"`
	HiInf int      `json:"hiinf"`
	Lo    smRat    `json:"lo"`
	Hi    smRat    `json:"hi"`
	Asb   []string `json:"asb"`

	// cacheorder
	Calls [][3]int64 `json:"calls"`
	Keys  []smCase   `json:"keys"` // the "none" cases of the keys called (added by the plan)

	// grids (added by the plan from the spec's grid record)
	Alphas []smRat `json:"alphas"`
	Confs  []smRat `json:"confs"`

	Serial int `json:"serial"` // running number (added by the plan), salts the concretisation
}

func famSummaries(mode string, args []string) error {
	switch mode {
	case "replay":
		return replayLoop("summaries", args, func(raw json.RawMessage) Verdict {
			var c smCase
			if err := json.Unmarshal(raw, &c); err != nil {
				panic(fmt.Sprintf("bad case: %v", err))
			}
			switch c.Kind {
			case "none":
				return smReplayNone(&c)
			case "nonelarge":
				return smReplayNone(&c)
			case "sample":
				return smReplaySample(&c)
			case "cmp", "cmplarge":
				return smReplayCmp(&c)
			case "normallarge":
				return smReplayNormalLarge(&c)
			case "delta":
				return smReplayDelta(&c)
			case "range":
				return smReplayRange(&c)
			case "cacheorder":
				return smReplayCache(&c)
			}
			panic("unknown kind " + c.Kind)
		})
	}
	return fmt.Errorf("summaries: unknown mode %q", mode)
}

// ---------------------------------------------------------------- helpers

const smTol = 1e-12

var smStrictAsBuilt = os.Getenv("VERIF_SM_ASBUILT") == "1"

// smEqRat: float x equals the rational num/den (DESIGN section 3 rule).
func smEqRat(x float64, num, den int64) bool {
	p, q := float64(num), float64(den)
	m := math.Max(math.Abs(p), math.Abs(x*q))
	return math.Abs(x*q-p) <= smTol*m || (p == 0 && x == 0)
}

func smClose(x, y, rel, abs float64) bool {
	if math.IsNaN(x) || math.IsNaN(y) {
		return false
	}
	if x == y {
		return true
	}
	return math.Abs(x-y) <= rel*math.Max(math.Abs(x), math.Abs(y))+abs
}

func smText(chars []string) string {
	var sb strings.Builder
	for _, c := range chars {
		if c == "INF" {
			sb.WriteString("∞")
		} else {
			sb.WriteString(c)
		}
	}
	return sb.String()
}

func smSample(vals []float64, thr *benchmath.Thresholds) *benchmath.Sample {
	return benchmath.NewSample(append([]float64(nil), vals...), thr)
}

func smShuffled(rng *rand.Rand, vals []float64) []float64 {
	out := append([]float64(nil), vals...)
	rng.Shuffle(len(out), func(i, j int) { out[i], out[j] = out[j], out[i] })
	return out
}

func smScaled(vals []float64, s float64) []float64 {
	out := make([]float64, len(vals))
	for i, v := range vals {
		out[i] = v * s
	}
	return out
}

func smWarnStrings(ws []error) []string {
	var out []string
	for _, w := range ws {
		out = append(out, w.Error())
	}
	return out
}

// smMentionsCount: the warning names k as the number of samples needed (wording is free).
func smMentionsCount(w string, k int) bool {
	want := strconv.Itoa(k)
	for _, tok := range strings.FieldsFunc(w, func(r rune) bool { return r == ' ' || r == ',' || r == ';' || r == '(' || r == ')' }) {
		if tok == want {
			return true
		}
	}
	return false
}

// positive rescalings applied to the specification's integer samples: all exact
// in float64 (powers of two of either magnitude, and 3 on small integers)
var smScales = []float64{1, 1.0 / (1 << 30), 1 << 40, 3}

// ---------------------------------------------------------------- (1) assume-nothing summary

// smIncreasing returns n integer-valued floats in ascending order; strictly
// increasing unless ties is set. Negative values and zero occur.
func smIncreasing(rng *rand.Rand, n int, ties bool) []float64 {
	out := make([]float64, n)
	v := float64(rng.Intn(2*n+7) - n - 3)
	for i := range out {
		if i > 0 {
			if ties {
				v += float64(rng.Intn(3)) // 0 = tie
			} else {
				v += float64(1 + rng.Intn(4))
			}
		}
		out[i] = v
	}
	return out
}

// smCheckNone checks one Summary of the assume-nothing model against the contract
// tables of the case. sorted = the sample in ascending order, cf = the level requested.
func smCheckNone(c *smCase, sum benchmath.Summary, sorted []float64, cf float64) (sig, detail string) {
	n := len(sorted)
	maxAbs := 0.0
	for _, v := range sorted {
		maxAbs = math.Max(maxAbs, math.Abs(v))
	}
	// centre = sample median
	med := (sorted[c.MedLo-1] + sorted[c.MedHi-1]) / 2
	if math.IsInf(med, 0) { // values near the top of the float range: halve first (exact there)
		med = sorted[c.MedLo-1]/2 + sorted[c.MedHi-1]/2
	}
	// (among subnormals the midpoint of two neighbours need not be representable: one step is allowed)
	if math.Abs(sum.Center-med) > math.Max(smTol*maxAbs, 5e-324) {
		return "none-centre-not-median", fmt.Sprintf("centre %v, median %v", sum.Center, med)
	}
	if math.IsNaN(sum.Lo) || math.IsNaN(sum.Hi) || math.IsInf(sum.Lo, 1) || math.IsInf(sum.Hi, -1) {
		return "none-end-invalid", fmt.Sprintf("lo %v hi %v", sum.Lo, sum.Hi)
	}
	// ends are sample values or infinite: candidate order statistics
	var ls, rs []int
	if math.IsInf(sum.Lo, -1) {
		ls = []int{0}
	}
	if math.IsInf(sum.Hi, 1) {
		rs = []int{n + 1}
	}
	for i, v := range sorted {
		if v == sum.Lo {
			ls = append(ls, i+1)
		}
		if v == sum.Hi {
			rs = append(rs, i+1)
		}
	}
	if len(ls) == 0 || len(rs) == 0 {
		return "none-end-not-sample-value", fmt.Sprintf("lo %v hi %v are not both values of the sample", sum.Lo, sum.Hi)
	}
	if !(sum.Lo <= sum.Center && sum.Center <= sum.Hi) {
		return "none-interval-does-not-bracket-centre", fmt.Sprintf("lo %v centre %v hi %v", sum.Lo, sum.Center, sum.Hi)
	}
	infinite := math.IsInf(sum.Lo, -1) || math.IsInf(sum.Hi, 1)
	// warning exactly when an end is infinite, naming the minimal sufficient n
	ws := smWarnStrings(sum.Warnings)
	if infinite {
		if len(ws) == 0 {
			return "none-infinite-without-warning", fmt.Sprintf("lo %v hi %v no warning", sum.Lo, sum.Hi)
		}
		if c.MinN > 0 {
			if n >= c.MinN {
				return "none-infinite-despite-sufficient-n", fmt.Sprintf("n=%d suffices for level %v (need %d) but lo %v hi %v", n, cf, c.MinN, sum.Lo, sum.Hi)
			}
			ok := false
			for _, w := range ws {
				if smMentionsCount(w, c.MinN) {
					ok = true
				}
			}
			if !ok {
				return "none-warning-wrong-count", fmt.Sprintf("warnings %q do not name %d samples", ws, c.MinN)
			}
		}
	} else if len(ws) != 0 {
		return "none-warning-on-finite-interval", fmt.Sprintf("lo %v hi %v warnings %q", sum.Lo, sum.Hi, ws)
	}
	// reported confidence >= requested
	if !(sum.Confidence >= cf-smTol) {
		return "none-confidence-below-requested", fmt.Sprintf("reported %v requested %v", sum.Confidence, cf)
	}
	if sum.Confidence > 1+smTol {
		return "none-confidence-above-one", fmt.Sprintf("reported %v", sum.Confidence)
	}
	if c.Kind == "nonelarge" {
		return "", ""
	}
	// exact clause (n <= 30): some reading (l, r) of the ends must bracket the median
	// indices, reach the requested level (r >= rmin[l]) and have exactly the reported coverage
	okIdx, okCov := false, false
	for _, l := range ls {
		for _, r := range rs {
			if l > c.MedLo || r < c.MedHi {
				continue
			}
			okIdx = true
			if r < c.Rmin[l] {
				continue
			}
			okCov = true
			if smEqRat(sum.Confidence, c.Cum[r]-c.Cum[l], c.Pow) {
				return "", ""
			}
		}
	}
	if !okIdx {
		return "none-interval-does-not-bracket-centre", fmt.Sprintf("order statistics %v..%v do not bracket the median positions %d,%d", ls, rs, c.MedLo, c.MedHi)
	}
	if !okCov {
		return "none-coverage-below-requested", fmt.Sprintf("order statistics %v..%v cover less than %d/%d", ls, rs, c.C[0], c.C[1])
	}
	return "none-confidence-not-exact-coverage", fmt.Sprintf("reported %v, exact coverage of %v..%v differs (2^n=%d)", sum.Confidence, ls, rs, c.Pow)
}

var smNeededDone bool

var smNeedRe = regexp.MustCompile(`need (>=|>) ([0-9]+) samples`)

// smNeededSamples: the warning of an infinite interval says how many samples are needed - so a
// sample of that many (distinct) values gets a finite interval at this level and one value fewer
// does not; "more than N" means N values do not suffice.  Levels at and next to 1 - 2^(1-k), where
// the answer changes from k to k+1, for every k up to 52.
func smNeededSamples() Verdict {
	thr := benchmath.DefaultThresholds
	mk := func(n int) *benchmath.Sample {
		v := make([]float64, n)
		for i := range v {
			v[i] = float64(3*i + 1)
		}
		return smSample(v, &thr)
	}
	infinite := func(n int, cf float64) bool {
		sum := benchmath.AssumeNothing.Summary(mk(n), cf)
		return math.IsInf(sum.Lo, 0) || math.IsInf(sum.Hi, 0)
	}
	for k := 2; k <= 52+700; k++ {
		at := 1 - math.Ldexp(1, 1-k)
		if k > 52 {
			// ... and 700 levels spread evenly over the orders of magnitude of 1 - level
			at = 1 - math.Pow(10, -0.3-14.7*float64(k-53)/700)
		}
		for _, cf := range []float64{at, math.Nextafter(at, 0), math.Nextafter(at, 1)} {
			if cf <= 0 || cf >= 1 {
				continue
			}
			sum := benchmath.AssumeNothing.Summary(mk(1), cf)
			ws := smWarnStrings(sum.Warnings)
			if len(ws) == 0 {
				return fail("none-infinite-without-warning", "one value at level %v: no warning", cf)
			}
			m := smNeedRe.FindStringSubmatch(strings.Join(ws, " | "))
			if m == nil {
				continue // wording is free; the count is judged where it can be read
			}
			n, _ := strconv.Atoi(m[2])
			if n < 1 || n > 70 {
				continue
			}
			if m[1] == ">=" {
				if infinite(n, cf) {
					return fail("none-warning-wrong-count", "level %v: the warning says %q, but %d values still give an infinite interval", cf, m[0], n)
				}
				if n > 2 && !infinite(n-1, cf) {
					return fail("none-warning-wrong-count", "level %v: the warning says %q, but %d values already give a finite interval", cf, m[0], n-1)
				}
			} else if !infinite(n, cf) {
				return fail("none-warning-wrong-count", "level %v: the warning says %q, but %d values give a finite interval", cf, m[0], n)
			}
		}
	}
	return pass()
}

func smReplayNone(c *smCase) Verdict {
	if !smNeededDone { // once per process, with the first assume-nothing case
		smNeededDone = true
		if v := smNeededSamples(); !v.OK {
			return v
		}
	}
	rng := newRand(int64(c.Serial)*7919 + 13)
	cf := c.C.f()
	thr := benchmath.DefaultThresholds
	type variant struct {
		name string
		vals []float64
	}
	base := smIncreasing(rng, c.N, false)
	vs := []variant{{"base", base}, {"shuffle", smShuffled(rng, base)}}
	for _, s := range smScales[1:] {
		vs = append(vs, variant{fmt.Sprintf("scale*%v", s), smShuffled(rng, smScaled(base, s))})
	}
	neg := smIncreasing(rng, c.N, false)
	shift := neg[len(neg)-1] + float64(1+rng.Intn(5))
	for i := range neg {
		neg[i] -= shift
	}
	vs = append(vs, variant{"all-negative", smShuffled(rng, neg)})
	vs = append(vs, variant{"ties", smShuffled(rng, smIncreasing(rng, c.N, true))})
	// "any magnitude": the same spacing near the top of the float range (the two middle values add
	// up to more than the largest float) and among the subnormals
	huge, tiny := make([]float64, len(base)), make([]float64, len(base))
	for i := range base {
		huge[i] = math.Ldexp(base[i]-base[0]+1000, 1013)
		tiny[i] = math.Ldexp(base[i]-base[0]+1000, -1074)
	}
	if !math.IsInf(huge[len(huge)-1], 0) {
		vs = append(vs, variant{"near-max-float", smShuffled(rng, huge)}, variant{"subnormal", smShuffled(rng, tiny)})
	}
	var first benchmath.Summary
	for i, v := range vs {
		s := smSample(v.vals, &thr)
		sum := benchmath.AssumeNothing.Summary(s, cf)
		sorted := append([]float64(nil), v.vals...)
		sort.Float64s(sorted)
		if sig, det := smCheckNone(c, sum, sorted, cf); sig != "" {
			vd := fail(sig, "AssumeNothing.Summary n=%d level=%d/%d variant=%s: %s", c.N, c.C[0], c.C[1], v.name, det)
			vd.Concrete = fmt.Sprint(v.vals)
			vd.Got = fmt.Sprintf("%+v", sum)
			return vd
		}
		if i == 0 {
			// neighbouring levels: a request one float above / below this level is a request of
			// its own - the answer must honour it (reported confidence >= requested, or an
			// infinite end with a warning), whatever was asked before
			for _, lv := range []float64{math.Nextafter(cf, 1), math.Nextafter(cf, 0)} {
				if lv <= 0 || lv >= 1 {
					continue
				}
				nb := benchmath.AssumeNothing.Summary(smSample(v.vals, &thr), lv)
				infinite := math.IsInf(nb.Lo, 0) || math.IsInf(nb.Hi, 0)
				if nb.Confidence < lv && !(infinite && len(nb.Warnings) > 0) {
					vd := fail("none-confidence-below-requested-at-neighbouring-level", "AssumeNothing.Summary n=%d: level %v (one float from %d/%d, asked right after it) answered with confidence %v", c.N, lv, c.C[0], c.C[1], nb.Confidence)
					vd.Got = fmt.Sprintf("%+v", nb)
					return vd
				}
			}
		}
		// metamorphic: shuffles and rescalings of the same sample give the rescaled summary
		if i == 0 {
			first = sum
		} else if i <= len(smScales) {
			sc := 1.0
			if i >= 2 {
				sc = smScales[i-1]
			}
			if sum.Center != first.Center*sc || sum.Lo != first.Lo*sc || sum.Hi != first.Hi*sc || sum.Confidence != first.Confidence {
				vd := fail("none-not-invariant", "AssumeNothing.Summary n=%d level=%d/%d: variant %s gives %+v, base gives %+v", c.N, c.C[0], c.C[1], v.name, sum, first)
				vd.Concrete = fmt.Sprint(v.vals)
				return vd
			}
		}
	}
	return pass()
}

// ---------------------------------------------------------------- (2)(3) exact and normal model

func smReplaySample(c *smCase) Verdict {
	rng := newRand(int64(c.Serial)*104729 + 5)
	thr := benchmath.DefaultThresholds
	n := len(c.Xs)
	for _, sc := range smScales {
		vals := make([]float64, n)
		for i, x := range c.Xs {
			vals[i] = float64(x) * sc
		}
		vals = smShuffled(rng, vals)
		// exact model
		for _, cr := range c.Confs[:1] {
			sum := benchmath.AssumeExact.Summary(smSample(vals, &thr), cr.f())
			ok := false
			for _, m := range c.Modes {
				if sum.Center == float64(m)*sc {
					ok = true
				}
			}
			if !ok {
				vd := fail("exact-centre-not-mode", "AssumeExact.Summary(%v): centre %v is not a most frequent value (modes %v * %v)", vals, sum.Center, c.Modes, sc)
				vd.Concrete = fmt.Sprint(vals)
				return vd
			}
			if (len(sum.Warnings) > 0) != c.Differ {
				vd := fail("exact-warning-iff-values-differ", "AssumeExact.Summary(%v): warnings %q, values differ = %v", vals, smWarnStrings(sum.Warnings), c.Differ)
				vd.Concrete = fmt.Sprint(vals)
				return vd
			}
		}
		// normal model
		for _, cr := range c.Confs {
			cf := cr.f()
			sum := benchmath.AssumeNormal.Summary(smSample(vals, &thr), cf)
			// centre = mean = sum*sc/n
			mean := float64(c.Sum) * sc / float64(n)
			maxAbs := 0.0
			for _, v := range vals {
				maxAbs = math.Max(maxAbs, math.Abs(v))
			}
			if math.Abs(sum.Center-mean) > smTol*maxAbs {
				vd := fail("normal-centre-not-mean", "AssumeNormal.Summary(%v): centre %v, mean %d*%v/%d", vals, sum.Center, c.Sum, sc, n)
				vd.Concrete = fmt.Sprint(vals)
				return vd
			}
			up, down := sum.Hi-sum.Center, sum.Center-sum.Lo
			if !(up >= 0 && down >= 0) || !(smClose(up, down, 1e-9, 1e-12*maxAbs) || (math.IsInf(up, 1) && math.IsInf(down, 1))) {
				vd := fail("normal-interval-not-symmetric", "AssumeNormal.Summary(%v, %v): centre %v lo %v hi %v", vals, cf, sum.Center, sum.Lo, sum.Hi)
				vd.Concrete = fmt.Sprint(vals)
				return vd
			}
			// auxiliary (numeric, outside the model): half-width = t(n-1, level) * s / sqrt(n)
			// with s^2 = varnum / (n (n-1)) from the specification, so the implied t
			// must depend on (n, level) only
			if n >= 2 && c.VarNum > 0 && !math.IsInf(up, 0) {
				sd := math.Sqrt(float64(c.VarNum)/float64(n*(n-1))) * sc
				t := up * math.Sqrt(float64(n)) / sd
				if msg := smTNote(n, cr, t); msg != "" {
					vd := fail("normal-t-quantile-inconsistent", "AssumeNormal.Summary(%v, %v): %s", vals, cf, msg)
					vd.Concrete = fmt.Sprint(vals)
					return vd
				}
				// "the mean with its t interval": Student's t with n-1 degrees of freedom puts the
				// reported confidence (at least the requested one) between -t and t
				if cov := 1 - 2*smTUpper(t, float64(n-1)); !(sum.Confidence >= cf-smTol) || math.Abs(cov-sum.Confidence) > 1e-8 {
					vd := fail("normal-interval-not-t-interval", "AssumeNormal.Summary(%v, %v): half width %v = %v standard errors; Student's t with %d degrees of freedom puts %v between -+ that, reported confidence %v", vals, cf, up, t, n-1, cov, sum.Confidence)
					vd.Concrete = fmt.Sprint(vals)
					return vd
				}
			}
		}
	}
	return pass()
}

// smTNote remembers the t quantile implied by the first sample of each (n, level)
// and compares later ones with it (auxiliary consistency check).
var smTSeen = map[string]float64{}

func smTNote(n int, c smRat, t float64) string {
	key := fmt.Sprintf("%d:%d/%d", n, c[0], c[1])
	if old, ok := smTSeen[key]; ok {
		if !smClose(old, t, 1e-9, 0) {
			return fmt.Sprintf("implied t quantile %v differs from %v seen for the same n=%d and level", t, old, n)
		}
		return ""
	}
	smTSeen[key] = t
	return ""
}

// ---------------------------------------------------------------- normal model, samples of 1..70 values

// smTUpper is the textbook upper tail P(T > t), t >= 0, of Student's t distribution with v >= 1
// degrees of freedom, from the density alone: with x = sqrt(v) cot(psi),
//
//	P = Gamma((v+1)/2) / (sqrt(pi) Gamma(v/2)) * Int_0^a sin^(v-1)(psi) dpsi,   a = atan(sqrt(v)/t),
//
// by the tanh-sinh rule over the part of [0, a] where the integrand exceeds e^-100 of its
// maximum (agrees to 2e-13 with the finite series of Abramowitz & Stegun 26.7.3/4 for integer
// v). Independent of the distribution code the summaries are computed with.
func smTUpper(t, v float64) float64 {
	if t == 0 {
		return 0.5
	}
	if math.IsInf(t, 1) {
		return 0
	}
	a := math.Atan2(math.Sqrt(v), t)
	lg1, _ := math.Lgamma((v + 1) / 2)
	lg2, _ := math.Lgamma(v / 2)
	lsa := math.Log(math.Sin(a))
	lo := 0.0
	if v > 1 {
		lo = math.Asin(math.Sin(a) * math.Exp(-100/(v-1)))
	}
	f := func(psi float64) float64 {
		if v == 1 {
			return 1
		}
		if psi <= 0 {
			return 0
		}
		return math.Exp((v - 1) * (math.Log(math.Sin(psi)) - lsa))
	}
	half := (a - lo) / 2
	const h = 1.0 / 64
	sum := 0.0
	for k := -400; k <= 400; k++ {
		u := math.Pi / 2 * math.Sinh(float64(k)*h)
		w := math.Pi / 2 * math.Cosh(float64(k)*h) / (math.Cosh(u) * math.Cosh(u))
		var x float64
		if u > 0 {
			x = a - half*(2/(1+math.Exp(2*u)))
		} else {
			x = lo + half*(2/(1+math.Exp(-2*u)))
		}
		sum += w * f(x)
	}
	return math.Exp(lg1-lg2+(v-1)*lsa) / math.Sqrt(math.Pi) * sum * h * half
}

// smMeanVar: exact mean and variance (n-1) of the floats, as rationals.
func smMeanVar(xs []float64) (mean, vr *big.Rat) {
	n := int64(len(xs))
	mean, vr = new(big.Rat), new(big.Rat)
	for _, x := range xs {
		mean.Add(mean, new(big.Rat).SetFloat64(x))
	}
	mean.Quo(mean, new(big.Rat).SetInt64(n))
	if n < 2 {
		return
	}
	for _, x := range xs {
		d := new(big.Rat).Sub(new(big.Rat).SetFloat64(x), mean)
		vr.Add(vr, d.Mul(d, d))
	}
	vr.Quo(vr, new(big.Rat).SetInt64(n-1))
	return
}

// smWelchExact: Welch's t^2 and the Welch-Satterthwaite degrees of freedom of two samples with at
// least two values each, in exact rationals; ok = false when both variances vanish.
func smWelchExact(x, y []float64) (t2, dof float64, ok bool) {
	m1, v1 := smMeanVar(x)
	m2, v2 := smMeanVar(y)
	if v1.Sign() == 0 && v2.Sign() == 0 {
		return 0, 0, false
	}
	n1, n2 := new(big.Rat).SetInt64(int64(len(x))), new(big.Rat).SetInt64(int64(len(y)))
	a1, a2 := new(big.Rat).Quo(v1, n1), new(big.Rat).Quo(v2, n2)
	se2 := new(big.Rat).Add(a1, a2)
	d := new(big.Rat).Sub(m1, m2)
	rt2 := new(big.Rat).Quo(new(big.Rat).Mul(d, d), se2)
	one := big.NewRat(1, 1)
	den := new(big.Rat).Add(
		new(big.Rat).Quo(new(big.Rat).Mul(a1, a1), new(big.Rat).Sub(n1, one)),
		new(big.Rat).Quo(new(big.Rat).Mul(a2, a2), new(big.Rat).Sub(n2, one)))
	rdof := new(big.Rat).Quo(new(big.Rat).Mul(se2, se2), den)
	t2, _ = rt2.Float64()
	dof, _ = rdof.Float64()
	return t2, dof, true
}

// smReplayNormalLarge: the normal model's summary of samples of c.N values (1..70) at level c.C.
// The samples are drawn here (integers, few levels with many repetitions, full mantissas,
// rescaled, shifted, shuffled); mean and variance are evaluated exactly.
func smReplayNormalLarge(c *smCase) Verdict {
	rng := newRand(int64(c.Serial)*7368787 + 29)
	thr := benchmath.DefaultThresholds
	n, cf := c.N, c.C.f()
	for shape := 0; shape < 4; shape++ {
		vals := make([]float64, n)
		switch shape {
		case 0: // integers around a seed-chosen offset
			off := float64(rng.Intn(2001) - 1000)
			for i := range vals {
				vals[i] = off + float64(rng.Intn(401)-200)
			}
		case 1: // few levels, many repetitions (possibly constant)
			k := 1 + rng.Intn(4)
			for i := range vals {
				vals[i] = float64(rng.Intn(k)*3 + 10)
			}
		case 2: // full mantissas
			for i := range vals {
				vals[i] = rng.NormFloat64()*0.3 + 1
			}
		case 3: // times 2^k, negative values
			k := rng.Intn(81) - 40
			for i := range vals {
				vals[i] = -math.Ldexp(float64(1+rng.Intn(1000)), k)
			}
		}
		maxAbs := 0.0
		for _, v := range vals {
			maxAbs = math.Max(maxAbs, math.Abs(v))
		}
		rm, rv := smMeanVar(vals)
		mean, _ := rm.Float64()
		vr, _ := rv.Float64()
		sum := benchmath.AssumeNormal.Summary(smSample(vals, &thr), cf)
		mk := func(sig, format string, args ...interface{}) Verdict {
			vd := fail(sig, "AssumeNormal.Summary(%d values, %v): %s", n, cf, fmt.Sprintf(format, args...))
			vd.Concrete = fmt.Sprint(vals)
			vd.Got = fmt.Sprintf("%+v", sum)
			return vd
		}
		if !(math.Abs(sum.Center-mean) <= smTol*maxAbs) {
			return mk("normal-centre-not-mean", "centre %v, mean %v", sum.Center, mean)
		}
		if n < 2 {
			continue // one value has no t interval
		}
		up, down := sum.Hi-sum.Center, sum.Center-sum.Lo
		if !(up >= 0 && down >= 0) || !smClose(up, down, 1e-9, 1e-12*maxAbs) {
			return mk("normal-interval-not-symmetric", "centre %v lo %v hi %v", sum.Center, sum.Lo, sum.Hi)
		}
		if !(sum.Confidence >= cf-smTol) || sum.Confidence > 1+smTol {
			return mk("normal-confidence-below-requested", "reported confidence %v", sum.Confidence)
		}
		if rv.Sign() == 0 {
			if !(up <= 1e-12*maxAbs) {
				return mk("normal-interval-not-t-interval", "constant sample: lo %v hi %v around %v", sum.Lo, sum.Hi, sum.Center)
			}
			continue
		}
		t := up * math.Sqrt(float64(n)) / math.Sqrt(vr)
		if cov := 1 - 2*smTUpper(t, float64(n-1)); math.Abs(cov-sum.Confidence) > 1e-8 {
			return mk("normal-interval-not-t-interval", "half width %v = %v standard errors; Student's t with %d degrees of freedom puts %v between -+ that, reported confidence %v",
				up, t, n-1, cov, sum.Confidence)
		}
	}
	return pass()
}

// ---------------------------------------------------------------- (5) comparison

// smAsBuiltP predicts what the third-party U-test returns for a tied pattern:
// twice the lower tail of the distribution of U1 (given the tie vector) at
// min(U1, U2), 1 if U1 = U2. With trunc it also applies the truncated division of
// the two-value base case. Used only to classify deviations (signature).
func smAsBuiltP(a, b []int, trunc bool) float64 {
	K := len(a)
	n1, n2 := 0, 0
	for i := range a {
		n1 += a[i]
		n2 += b[i]
	}
	twoU := func(r []int) int {
		below, u := 0, 0
		for i := range r {
			t := a[i] + b[i]
			u += r[i] * (2*below + (t - r[i]))
			below += t - r[i]
		}
		return u
	}
	u1 := twoU(a)
	u2 := 2*n1*n2 - u1
	if K == 1 || u1 == u2 {
		return 1
	}
	us := u1
	if u2 < us {
		us = u2
	}
	choose := func(n, k int) float64 {
		if k < 0 || k > n {
			return 0
		}
		r := 1.0
		for i := 1; i <= k; i++ {
			r = r * float64(n-k+i) / float64(i)
		}
		return math.Round(r)
	}
	t0, t1 := a[0]+b[0], 0
	if K >= 2 {
		t1 = a[1] + b[1]
	}
	if trunc && K == 2 && n1 <= t0 && us < n1*(t0-n1) && us > n1*(t0-n1)-(t0+t1) {
		return 2 * choose(t0, n1) / choose(n1+n2, n1)
	}
	// dp[k][u] = number of ways to give k of the values seen so far to sample 1 with 2U = u
	type key struct{ k, below, u int }
	cur := map[key]float64{{0, 0, 0}: 1}
	for i := 0; i < K; i++ {
		t := a[i] + b[i]
		next := map[key]float64{}
		for st, w := range cur {
			for r := 0; r <= t && st.k+r <= n1; r++ {
				nk := key{st.k + r, st.below + t - r, st.u + r*(2*st.below+(t-r))}
				next[nk] += w * choose(t, r)
			}
		}
		cur = next
	}
	cnt := 0.0
	for st, w := range cur {
		if st.k == n1 && st.u <= us {
			cnt += w
		}
	}
	return 2 * cnt / choose(n1+n2, n1)
}

type smPair struct{ x, y []float64 }

// smEmbed realises the pattern (a, b) with level i at value f(i).
func smEmbed(a, b []int, f func(level int) float64) smPair {
	var p smPair
	for i := range a {
		for j := 0; j < a[i]; j++ {
			p.x = append(p.x, f(i+1))
		}
		for j := 0; j < b[i]; j++ {
			p.y = append(p.y, f(i+1))
		}
	}
	return p
}

func smAssumption(model string) benchmath.Assumption {
	switch model {
	case "none":
		return benchmath.AssumeNothing
	case "exact":
		return benchmath.AssumeExact
	case "normal":
		return benchmath.AssumeNormal
	}
	panic("model " + model)
}

func smSwapPat(a, b []int) ([]int, []int) { return b, a }

func smReplayCmp(c *smCase) Verdict {
	rng := newRand(int64(c.Serial)*15485863 + 17)
	a, b := c.A, c.B
	large := c.Kind == "cmplarge"
	if large {
		a, b = smLargePattern(rng, c.N1, c.N2, c.Tied)
	}
	K := len(a)
	asm := smAssumption(c.Model)
	type variant struct {
		name   string
		linear bool // values are a positive multiple of the level numbers: centres scale, delta text applies
		pr     smPair
	}
	var vs []variant
	for _, s := range smScales {
		s := s
		vs = append(vs, variant{fmt.Sprintf("level*%v", s), true, smEmbed(a, b, func(l int) float64 { return float64(l) * s })})
	}
	// any increasing map of the levels keeps the rank pattern (negative values and zero included)
	inc := smIncreasing(rng, K, false)
	vs = append(vs, variant{"increasing-map", false, smEmbed(a, b, func(l int) float64 { return inc[l-1] })})
	var expText []string
	switch c.Model {
	case "none":
		expText = c.DNone
	case "normal":
		expText = c.DNormal
	case "exact":
		expText = c.DExact
	}
	var baseP float64
	for ai, ar := range c.Alphas {
		alpha := ar.f()
		thr := benchmath.Thresholds{CompareAlpha: alpha}
		for vi, v := range vs {
			if c.Model != "none" && !v.linear && c.Model != "exact" {
				// the normal model's p depends on the values, not only on the ranks
				continue
			}
			x, y := smShuffled(rng, v.pr.x), smShuffled(rng, v.pr.y)
			s1, s2 := smSample(x, &thr), smSample(y, &thr)
			c12 := asm.Compare(s1, s2)
			c21 := asm.Compare(s2, s1)
			mk := func(sig, format string, args ...interface{}) Verdict {
				vd := fail(sig, "%s.Compare pattern a=%v b=%v alpha=%v variant=%s: %s", c.Model, a, b, alpha, v.name, fmt.Sprintf(format, args...))
				vd.Concrete = fmt.Sprintf("s1=%v s2=%v", x, y)
				vd.Got = fmt.Sprintf("Compare(s1,s2)=%+v Compare(s2,s1)=%+v", c12, c21)
				return vd
			}
			// sizes
			if c12.N1 != len(x) || c12.N2 != len(y) || c21.N1 != len(y) || c21.N2 != len(x) {
				return mk("compare-sizes", "sizes reported %d+%d / %d+%d", c12.N1, c12.N2, c21.N1, c21.N2)
			}
			// threshold carried (models that perform a test)
			if c.Model == "none" || c.Model == "normal" {
				if c12.Alpha != alpha || c21.Alpha != alpha {
					sig := "compare-alpha-not-carried"
					if c.Model == "normal" && c12.Alpha == 0 && c21.Alpha == 0 {
						sig = "normal-compare-no-alpha"
					}
					return mk(sig, "Comparison.Alpha = %v, samples were created with threshold %v", c12.Alpha, alpha)
				}
			}
			// P: in [0,1], symmetric
			p12, p21 := c12.P, c21.P
			if smStrictAsBuilt && c.Model == "none" && !large {
				// developer self-test (VERIF_SM_ASBUILT=1): the as-built model of the
				// specification must predict the shipped code exactly on every pattern
				tot := float64(c.Total)
				if !smClose(p12, float64(c.Asbt12)/tot, 1e-9, 0) || !smClose(p21, float64(c.Asbt21)/tot, 1e-9, 0) {
					return mk("asbuilt-model-mismatch", "P=%v/%v, as-built model %d/%d and %d/%d", p12, p21, c.Asbt12, c.Total, c.Asbt21, c.Total)
				}
			}
			inUnit := p12 >= 0 && p12 <= 1+smTol && p21 >= 0 && p21 <= 1+smTol
			sym := smClose(p12, p21, 1e-9, 1e-15)
			if c.Model == "none" {
				sym = smClose(p12, p21, smTol, 0)
			}
			if !inUnit || !sym {
				sig := "compare-p-asymmetric"
				if !inUnit {
					sig = "compare-p-outside-unit-interval"
				}
				if c.Model == "none" && smHasTies(a, b) && len(x) != len(y) {
					var e12, e21, t12, t21 float64
					if large {
						bs, as := smSwapPat(a, b)
						e12, e21 = smAsBuiltP(a, b, false), smAsBuiltP(bs, as, false)
						t12, t21 = smAsBuiltP(a, b, true), smAsBuiltP(bs, as, true)
					} else {
						tot := float64(c.Total)
						e12, e21 = float64(c.Asb12)/tot, float64(c.Asb21)/tot
						t12, t21 = float64(c.Asbt12)/tot, float64(c.Asbt21)/tot
						// the harness's classifier and the specification's as-built model must agree
						bs, as := smSwapPat(a, b)
						if !smClose(e12, smAsBuiltP(a, b, false), smTol, 0) || !smClose(t21, smAsBuiltP(bs, as, true), smTol, 0) {
							panic("as-built predictions of spec and harness disagree")
						}
					}
					if smClose(p12, e12, 1e-9, 0) && smClose(p21, e21, 1e-9, 0) {
						sig = "utest-two-sided-ties-unequal-sizes"
					} else if K == 2 && smClose(p12, t12, 1e-9, 0) && smClose(p21, t21, 1e-9, 0) {
						sig = "utest-tied-cdf-truncdiv-two-values"
					}
				}
				return mk(sig, "P(s1,s2)=%v P(s2,s1)=%v; the property requires one value in [0,1] for both orders", p12, p21)
			}
			// normal model: the p-value is Welch's - twice the upper tail of |t| of Student's t with the
			// Welch-Satterthwaite degrees of freedom, both evaluated in exact rationals on the samples
			if c.Model == "normal" && len(c12.Warnings) == 0 && len(x) >= 2 && len(y) >= 2 {
				if t2, dof, ok := smWelchExact(x, y); ok {
					want := 1.0
					if t2 > 0 {
						want = 2 * smTUpper(math.Sqrt(t2), dof)
					}
					if !smClose(p12, want, 1e-9, 1e-13) {
						return mk("normal-compare-p-not-welch", "P=%v; Welch's t^2=%v with %v degrees of freedom has the two-sided p-value %v", p12, t2, dof, want)
					}
				}
			}
			// exact permutation value for small untied samples
			if c.Model == "none" && !large && !c.Tied {
				if !smEqRat(p12, c.Exact[0], c.Exact[1]) {
					return mk("compare-p-not-exact-untied", "P=%v, exact two-sided permutation value %d/%d", p12, c.Exact[0], c.Exact[1])
				}
			}
			// a function of the rank pattern only: all variants and thresholds agree
			if ai == 0 && vi == 0 {
				baseP = p12
			} else {
				tol := smTol
				if c.Model == "normal" {
					tol = 1e-9
				}
				if !smClose(p12, baseP, tol, 1e-15) {
					return mk("compare-p-not-invariant", "P=%v but %v for the first variant of the same pattern", p12, baseP)
				}
			}
			// rendering: shown as a percentage exactly when P does not exceed the samples' threshold
			sum1 := asm.Summary(s1, 0.95)
			sum2 := asm.Summary(s2, 0.95)
			txt := c12.FormatDelta(sum1.Center, sum2.Center)
			hinge := smClose(p12, alpha, 1e-9, 1e-15) && p12 != alpha
			if c.Model == "none" || c.Model == "normal" {
				if !hinge && (txt == "~") != (p12 > alpha) {
					sig := "delta-shown-iff-significant"
					if c.Model == "normal" && c12.Alpha == 0 {
						sig = "normal-compare-no-alpha"
					}
					return mk(sig, "P=%v threshold=%v but FormatDelta(%v, %v) = %q", p12, alpha, sum1.Center, sum2.Center, txt)
				}
			}
			if txt != "~" && v.linear && !large && len(expText) > 0 {
				// means that are equal as rationals may differ in the last bit as floats
				// (summation order); such inputs are not used to judge "0.00%"
				ulpNoise := smText(expText) == "0.00%" && sum1.Center != sum2.Center &&
					smClose(sum1.Center, sum2.Center, smTol, 0) && (txt == "+0.00%" || txt == "-0.00%")
				if txt != smText(expText) && !ulpNoise {
					return mk("delta-text", "FormatDelta(%v, %v) = %q, want %q", sum1.Center, sum2.Center, txt, smText(expText))
				}
			}
			// String reports both sizes
			str := c12.String()
			wantN := fmt.Sprintf("n=%d+%d", len(x), len(y))
			if len(x) == len(y) {
				if !strings.HasSuffix(str, wantN) && !strings.HasSuffix(str, fmt.Sprintf("n=%d", len(x))) {
					return mk("compare-string-sizes", "String() = %q", str)
				}
			} else if !strings.HasSuffix(str, wantN) {
				return mk("compare-string-sizes", "String() = %q, want suffix %q", str, wantN)
			}
		}
	}
	return pass()
}

func smHasTies(a, b []int) bool {
	for i := range a {
		if a[i]+b[i] > 1 {
			return true
		}
	}
	return false
}

// smLargePattern draws a rank pattern with the given sizes; tied = few levels.
func smLargePattern(rng *rand.Rand, n1, n2 int, tied bool) (a, b []int) {
	N := n1 + n2
	if !tied {
		lab := make([]int, N)
		for i := 0; i < n1; i++ {
			lab[i] = 1
		}
		rng.Shuffle(N, func(i, j int) { lab[i], lab[j] = lab[j], lab[i] })
		for _, l := range lab {
			a = append(a, l)
			b = append(b, 1-l)
		}
		return
	}
	for {
		K := 2 + rng.Intn(N/2)
		a, b = make([]int, K), make([]int, K)
		for i := 0; i < n1; i++ {
			a[rng.Intn(K)]++
		}
		for i := 0; i < n2; i++ {
			b[rng.Intn(K)]++
		}
		// drop empty levels
		var a2, b2 []int
		for i := range a {
			if a[i]+b[i] > 0 {
				a2, b2 = append(a2, a[i]), append(b2, b[i])
			}
		}
		if len(a2) >= 2 && smHasTies(a2, b2) {
			return a2, b2
		}
	}
}

// ---------------------------------------------------------------- (6) rendering tables

func smReplayDelta(c *smCase) Verdict {
	cmp := benchmath.Comparison{P: c.P.f(), Alpha: c.Alpha.f(), N1: 5, N2: 5}
	got := cmp.FormatDelta(c.Old.f(), c.New.f())
	want := smText(c.Want)
	if got != want {
		sig := "format-delta-table"
		if (got == "~") != (want == "~") {
			sig = "format-delta-tilde-iff-p-exceeds-alpha"
		}
		vd := fail(sig, "Comparison{P:%v, Alpha:%v}.FormatDelta(%v, %v) = %q, want %q", cmp.P, cmp.Alpha, c.Old.f(), c.New.f(), got, want)
		vd.Got, vd.Want = got, want
		return vd
	}
	return pass()
}

func smEnd(inf int, v smRat) float64 {
	if inf != 0 {
		return math.Inf(inf)
	}
	return v.f()
}

func smReplayRange(c *smCase) Verdict {
	// interval ends many orders of magnitude away from the centre: the rendered number is still
	// 100 times the larger relative deviation (judged by value, whatever the digits' layout)
	for _, h := range []float64{3, 1e6, 1e15, 9.3e16, 1e17, 1e19, 1e30, 1e300} {
		s := benchmath.Summary{Center: 1, Lo: 1, Hi: h, Confidence: 0.95}
		got := s.PctRangeString()
		num := strings.TrimSuffix(strings.TrimPrefix(got, "±"), "%")
		x, err := strconv.ParseFloat(num, 64)
		want := 100 * (h - 1)
		if err != nil || !strings.HasSuffix(got, "%") || math.Abs(x-want) > 0.5+1e-9*want {
			vd := fail("pct-range-extreme", "Summary{Center:1, Lo:1, Hi:%v}.PctRangeString() = %q, the larger relative deviation is %v%%", h, got, want)
			vd.Got = got
			return vd
		}
	}
	scales := smScales
	if cf, lf, hf := c.C.f(), smEnd(c.LoInf, c.Lo), smEnd(c.HiInf, c.Hi); cf == math.Trunc(cf) && math.Abs(cf) < 1<<20 &&
		(math.IsInf(lf, 0) || lf == math.Trunc(lf) && math.Abs(lf) < 1<<20) && (math.IsInf(hf, 0) || hf == math.Trunc(hf) && math.Abs(hf) < 1<<20) {
		// "any magnitude": whole numbers scale exactly by powers of two, down among the subnormals
		// (where the reciprocal of the centre is no longer finite) and up near the top of the range
		scales = append(append([]float64(nil), smScales...), math.Ldexp(1, -1040), math.Ldexp(1, -1060), math.Ldexp(1, -1022), math.Ldexp(1, 900), math.Ldexp(1, 1000))
	}
	for _, sc := range scales {
		s := benchmath.Summary{Center: c.C.f() * sc, Lo: smEnd(c.LoInf, c.Lo) * sc, Hi: smEnd(c.HiInf, c.Hi) * sc, Confidence: 0.95}
		got := s.PctRangeString()
		want := smText(c.Want)
		if got != want {
			sig := "pct-range-table"
			if s.Center < 0 && got == smText(c.Asb) {
				sig = "pct-range-negative-centre"
			}
			vd := fail(sig, "Summary{Center:%v, Lo:%v, Hi:%v}.PctRangeString() = %q, want %q (larger relative deviation of the ends from the centre)", s.Center, s.Lo, s.Hi, got, want)
			vd.Got, vd.Want = got, want
			return vd
		}
	}
	return pass()
}

// ---------------------------------------------------------------- (4) cache call orders

func smReplayCache(c *smCase) Verdict {
	rng := newRand(int64(c.Serial)*32452843 + 29)
	const G = 8
	type call struct {
		key  *smCase
		cf   float64
		vals []float64
	}
	// a level a few ulps above the grid point: keys no earlier case has touched
	var calls []call
	for _, k := range c.Calls {
		var kc *smCase
		for i := range c.Keys {
			if int64(c.Keys[i].N) == k[0] && c.Keys[i].C[0] == k[1] && c.Keys[i].C[1] == k[2] {
				kc = &c.Keys[i]
			}
		}
		if kc == nil {
			panic("cache order refers to a key without contract tables")
		}
		cf := kc.C.f()
		for i := 0; i <= c.Serial%512; i++ {
			cf = math.Nextafter(cf, 2)
		}
		calls = append(calls, call{kc, cf, smIncreasing(rng, kc.N, false)})
	}
	thr := benchmath.DefaultThresholds
	// sequential pass in the order given (deterministic), then the concurrent one
	for i, cl := range calls {
		sum := benchmath.AssumeNothing.Summary(smSample(cl.vals, &thr), cl.cf)
		sorted := append([]float64(nil), cl.vals...)
		sort.Float64s(sorted)
		if sig, det := smCheckNone(cl.key, sum, sorted, cl.cf); sig != "" {
			vd := fail("cache-"+sig, "call order %v, sequential call %d (n=%d, level=%v): %s", c.Calls, i+1, cl.key.N, cl.cf, det)
			vd.Got = fmt.Sprintf("%+v", sum)
			return vd
		}
	}
	type obs struct {
		idx int
		sum benchmath.Summary
	}
	results := make([][]obs, G)
	var wg sync.WaitGroup
	start := make(chan struct{})
	for g := 0; g < G; g++ {
		wg.Add(1)
		go func(g int) {
			defer wg.Done()
			<-start
			for round := 0; round < 2; round++ {
				for j := range calls {
					i := (j + g) % len(calls)
					if g%2 == 1 {
						i = (len(calls) - 1 - j + g) % len(calls)
					}
					cl := calls[i]
					sum := benchmath.AssumeNothing.Summary(smSample(cl.vals, &thr), cl.cf)
					results[g] = append(results[g], obs{i, sum})
				}
			}
		}(g)
	}
	close(start)
	wg.Wait()
	firstByKey := map[string]benchmath.Summary{}
	for g := 0; g < G; g++ {
		for _, o := range results[g] {
			cl := calls[o.idx]
			sorted := append([]float64(nil), cl.vals...)
			sort.Float64s(sorted)
			if sig, det := smCheckNone(cl.key, o.sum, sorted, cl.cf); sig != "" {
				vd := fail("cache-"+sig, "call order %v, goroutine %d, lookup (n=%d, level=%v): %s", c.Calls, g, cl.key.N, cl.cf, det)
				vd.Got = fmt.Sprintf("%+v", o.sum)
				return vd
			}
			key := fmt.Sprintf("%d:%v", o.idx, cl.cf)
			if f, ok := firstByKey[key]; ok {
				if f.Center != o.sum.Center || f.Lo != o.sum.Lo || f.Hi != o.sum.Hi || f.Confidence != o.sum.Confidence || len(f.Warnings) != len(o.sum.Warnings) {
					return fail("cache-answer-depends-on-history", "call order %v: lookup (n=%d, level=%v) answered %+v and %+v", c.Calls, cl.key.N, cl.cf, f, o.sum)
				}
			} else {
				firstByKey[key] = o.sum
			}
		}
	}
	return pass()
}
