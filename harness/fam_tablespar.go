package main

// Family "tablespar" (C15): benchtab.Builder.ToTables under schedules.
//
//	replay  every TLC-generated schedule (total order of worker begin/end events
//	        of TablesPar.tla) is IMPOSED on the real goroutines through the
//	        verif hook, which blocks each worker at its begin/end point until the
//	        schedule says go; the rendered text and CSV must equal, byte for
//	        byte, those of an un-hooked single-threaded run.  The same binary
//	        built with -race turns the model's RaceFree into a run-time check.
//	record  the hook only observes: runs at several GOMAXPROCS on larger inputs,
//	        one event per hook point with a sequence number taken under the
//	        hook's lock, validated by TablesPar_trace.tla.
//	repeat  byte-identity of the benchstat BINARY over repetitions, GOMAXPROCS
//	        values and permutations of result lines.

import (
	"errors"
	"context"
	"bytes"
	"encoding/json"
	"fmt"
	"math/rand"
	"os"
	"os/exec"
	"path/filepath"
	"regexp"
	"runtime"
	"strconv"
	"strings"
	"sync"
	"time"

	"golang.org/x/perf/benchfmt"
	"golang.org/x/perf/benchmath"
	"golang.org/x/perf/benchproc"
	"golang.org/x/perf/cmd/benchstat/internal/benchtab"
)

func init() { register("tablespar", famTablesPar) }

type tpW struct {
	Kind string `json:"kind"`
	T    int    `json:"t"`
	R    string `json:"r"`
	C    string `json:"c"`
}

func (w tpW) id() string { return fmt.Sprintf("%s|%d|%s|%s", w.Kind, w.T, w.R, w.C) }

type tpEv struct {
	E string `json:"e"`
	W tpW    `json:"w"`
}

type tpCase struct {
	ID      int      `json:"id"`
	NTables int      `json:"ntables"`
	Rows    []string `json:"rows"`
	Cols    []string `json:"cols"`
	Sparse  bool     `json:"sparse"`
	Sched   []tpEv   `json:"sched"`
}

// tpResults renders the model's shape as benchmark results: table t <-> unit
// "u<t>", row <-> benchmark name, column <-> value of config key "col".  The
// baseline column cols[0] is observed first.  Missing cells as in
// TablesPar.tla (SparseTable1).
func tpResults(c *tpCase, rng *rand.Rand) []*benchfmt.Result {
	var out []*benchfmt.Result
	missing := func(t int, r, col string) bool {
		if !c.Sparse || t != 1 {
			return false
		}
		return (r == c.Rows[len(c.Rows)-1] && col == c.Cols[0]) || (r == c.Rows[0] && col == c.Cols[len(c.Cols)-1])
	}
	for rep := 0; rep < 4; rep++ {
		for _, col := range c.Cols {
			for _, r := range c.Rows {
				res := &benchfmt.Result{Name: benchfmt.Name(r), Iters: 1}
				res.Config = []benchfmt.Config{{Key: "col", Value: []byte(col), File: true}, {Key: "note", Value: []byte(fmt.Sprintf("n%d", rep%2)), File: true}}
				for t := 1; t <= c.NTables; t++ {
					if missing(t, r, col) {
						continue
					}
					v := float64(100*t+10*len(r)) + float64(rng.Intn(50)) + float64(rep)
					res.Values = append(res.Values, benchfmt.Value{Value: v, Unit: fmt.Sprintf("u%d/op", t)})
				}
				if len(res.Values) > 0 {
					out = append(out, res)
				}
			}
		}
	}
	return out
}

func tpBuild(results []*benchfmt.Result) (*benchtab.Builder, error) {
	filter, err := benchproc.NewFilter("*")
	if err != nil {
		return nil, err
	}
	var parser benchproc.ProjectionParser
	tableBy, _, err := parser.ParseWithUnit("", filter)
	if err != nil {
		return nil, err
	}
	rowBy, err := parser.Parse(".fullname", filter)
	if err != nil {
		return nil, err
	}
	colBy, err := parser.Parse("col", filter)
	if err != nil {
		return nil, err
	}
	residue := parser.Residue()
	b := benchtab.NewBuilder(tableBy, rowBy, colBy, residue)
	for _, r := range results {
		b.Add(r.Clone())
	}
	return b, nil
}

func tpRender(b *benchtab.Builder) (string, error) {
	th := benchmath.DefaultThresholds
	tables := b.ToTables(benchtab.TableOpts{Confidence: 0.95, Thresholds: &th, Units: benchfmt.UnitMetadataMap{}})
	var txt, csv, warn bytes.Buffer
	if err := tables.ToText(&txt, false); err != nil {
		return "", err
	}
	if err := tables.ToCSV(&csv, &warn); err != nil {
		return "", err
	}
	return txt.String() + "\n--csv--\n" + csv.String() + "\n--warn--\n" + warn.String(), nil
}

// gate imposes a schedule / records events.
type tpGate struct {
	mu      sync.Mutex
	cond    *sync.Cond
	sched   []string // "begin|cell|1|r1|c1" ...
	next    int
	tables  map[*benchtab.Table]int
	events  []map[string]interface{}
	seq     int
	impose  bool
	failed  string
	deadline time.Time
}

func tpKeyName(k benchproc.Key) string {
	if k.IsZero() {
		return "-"
	}
	s := k.String()
	if i := strings.LastIndex(s, ":"); i >= 0 {
		return s[i+1:]
	}
	return s
}

func (g *tpGate) hook(point string, table *benchtab.Table, row, col benchproc.Key) {
	g.mu.Lock()
	defer g.mu.Unlock()
	t := 0
	if table != nil {
		if point == "table" {
			g.tables[table] = len(g.tables) + 1
		}
		t = g.tables[table]
	}
	w := tpW{T: t, R: tpKeyName(row), C: tpKeyName(col)}
	kind, what := point, ""
	if i := strings.Index(point, "."); i >= 0 {
		kind, what = point[:i], point[i+1:]
	}
	w.Kind = kind
	if g.impose && (what == "begin" || what == "end") {
		me := what + "|" + w.id()
		for g.failed == "" && (g.next >= len(g.sched) || g.sched[g.next] != me) {
			if time.Now().After(g.deadline) {
				g.failed = fmt.Sprintf("gate timeout waiting for %s at schedule position %d", me, g.next)
				g.cond.Broadcast()
				break
			}
			g.cond.Wait()
		}
		if g.failed == "" {
			g.next++
		}
		g.cond.Broadcast()
	}
	g.seq++
	g.events = append(g.events, map[string]interface{}{"ev": point, "seq": g.seq, "w": w})
}

func famTablesPar(mode string, args []string) error {
	switch mode {
	case "replay":
		runtime.GOMAXPROCS(16)
		return replayLoop("tablespar", args, func(raw json.RawMessage) Verdict {
			var c tpCase
			if err := json.Unmarshal(raw, &c); err != nil {
				return fail("badcase", "%v", err)
			}
			return tpReplay(&c)
		})
	case "record":
		return tpRecord(args)
	case "repeat":
		return tpRepeat(args)
	case "genfiles":
		// genfiles <dir> <n>: write n generated inputs, print their paths as JSON
		if len(args) < 2 {
			return fmt.Errorf("genfiles <dir> <n>")
		}
		n, _ := strconv.Atoi(args[1])
		var all [][]string
		for i := 0; i < n; i++ {
			all = append(all, tpGenFiles(newRand(int64(1000+i)), args[0], i, false))
		}
		b, _ := json.Marshal(all)
		fmt.Println(string(b))
		return nil
	}
	return fmt.Errorf("tablespar: unknown mode %q", mode)
}

func tpReplay(c *tpCase) Verdict {
	rng := rand.New(rand.NewSource(seed()*977 + int64(c.ID)))
	results := tpResults(c, rng)
	// reference: no hook
	benchtab.VerifHook = nil
	b0, err := tpBuild(results)
	if err != nil {
		return fail("harness", "%v", err)
	}
	ref, err := tpRender(b0)
	if err != nil {
		return fail("harness", "%v", err)
	}
	g := &tpGate{tables: map[*benchtab.Table]int{}, impose: true, deadline: time.Now().Add(20 * time.Second)}
	g.cond = sync.NewCond(&g.mu)
	for _, e := range c.Sched {
		g.sched = append(g.sched, e.E+"|"+e.W.id())
	}
	// wake waiters periodically so that the timeout is noticed
	stop := make(chan struct{})
	go func() {
		tk := time.NewTicker(200 * time.Millisecond)
		defer tk.Stop()
		for {
			select {
			case <-stop:
				return
			case <-tk.C:
				g.mu.Lock()
				g.cond.Broadcast()
				g.mu.Unlock()
			}
		}
	}()
	benchtab.VerifHook = g.hook
	b1, err := tpBuild(results)
	if err != nil {
		close(stop)
		return fail("harness", "%v", err)
	}
	got, err := tpRender(b1)
	benchtab.VerifHook = nil
	close(stop)
	if err != nil {
		return fail("harness", "%v", err)
	}
	if got != ref {
		return Verdict{OK: false, Signature: "output-depends-on-schedule", Detail: "text/CSV under the imposed schedule differs from the sequential run", Want: ref, Got: got}
	}
	if g.failed != "" {
		// the schedule could not be imposed: the code's worker set differs from the model's
		// no verdict: the property does not say how the work is spread over goroutines, so a
		// schedule of the model that the code cannot be brought to follow only means that the
		// code no longer has the model's fan-out (counted as skipped, reported by the plan)
		return Verdict{OK: true, Detail: fmt.Sprintf("skipped: schedule not realisable: %s; events so far %d", g.failed, len(g.events))}
	}
	if g.next != len(g.sched) {
		return Verdict{OK: true, Detail: fmt.Sprintf("skipped: schedule not realisable: run finished after %d of %d scheduled events", g.next, len(g.sched))}
	}
	// the workers the code ran are exactly the model's
	return pass()
}

// tpRecord: observe un-imposed runs. args: out.ndjson ntraces
func tpRecord(args []string) error {
	if len(args) < 2 {
		return fmt.Errorf("record <out> <n>")
	}
	n, _ := strconv.Atoi(args[1])
	ew, err := newEventWriter(args[0])
	if err != nil {
		return err
	}
	procs := []int{1, 2, 4, 16, 3}
	for t := 0; t < n; t++ {
		rng := newRand(int64(t))
		c := &tpCase{ID: t, NTables: 2, Rows: []string{"r1", "r2", "r3"}, Cols: []string{"c1", "c2", "c3"}, Sparse: true}
		results := tpResults(c, rng)
		gp := procs[t%len(procs)]
		old := runtime.GOMAXPROCS(gp)
		g := &tpGate{tables: map[*benchtab.Table]int{}}
		g.cond = sync.NewCond(&g.mu)
		benchtab.VerifHook = g.hook
		b, err := tpBuild(results)
		if err != nil {
			return err
		}
		_, err = tpRender(b)
		benchtab.VerifHook = nil
		runtime.GOMAXPROCS(old)
		if err != nil {
			return err
		}
		// the shape of the run (for the trace specifications that take it from the trace)
		cells, colws := [][]interface{}{}, [][]interface{}{}
		for _, e := range g.events {
			w := e["w"].(tpW)
			switch e["ev"] {
			case "cell.spawn":
				cells = append(cells, []interface{}{w.T, w.R, w.C})
			case "col.spawn":
				colws = append(colws, []interface{}{w.T, w.C})
			}
		}
		base := make([]string, len(g.tables))
		for tb, no := range g.tables {
			if len(tb.Cols) > 0 {
				base[no-1] = tpKeyName(tb.Cols[0])
			}
		}
		ew.emit(map[string]interface{}{"ev": "reset", "t": t, "limit": 2 * gp, "nt": len(g.tables), "cells": cells, "cols": colws, "base": base})
		for _, e := range g.events {
			e["t"] = t
			ew.emit(e)
		}
	}
	ew.emit(map[string]interface{}{"ev": "reset", "t": -1, "limit": 0, "nt": 1, "cells": [][]interface{}{}, "cols": [][]interface{}{}, "base": []string{"-"}})
	return ew.close()
}

// tpRepeat: the benchstat binary on generated files: byte-identical text and CSV
// over repetitions and GOMAXPROCS, and cell contents invariant under permuting
// result lines within a configuration block.  args: benchstat-binary nruns outfile
func tpRepeat(args []string) error {
	if len(args) < 3 {
		return fmt.Errorf("repeat <benchstat> <n> <out.json>")
	}
	bin := args[0]
	n, _ := strconv.Atoi(args[1])
	dir, err := os.MkdirTemp(os.Getenv("VERIF_WORK"), "tp")
	if err != nil {
		return err
	}
	defer os.RemoveAll(dir)
	type rep struct {
		Runs     int      `json:"runs"`
		Inputs   int      `json:"inputs"`
		Failures []string `json:"failures"`
		Sample   string   `json:"sample"`
	}
	var r rep
	for i := 0; i < n; i++ {
		rng := newRand(int64(1000 + i))
		files := tpGenFiles(rng, dir, i, false)
		r.Inputs++
		for _, flags := range [][]string{nil, {"-row", ".name,/k", "-col", "goos"}, {"-table", "goos,cpu", "-row", ".name,/x,/k"}} {
			for _, format := range []string{"text", "csv"} {
				var ref []byte
				for k, gp := range []string{"1", "2", "16", "4", "1", "8", "3"} {
					so, se, err := tpBenchstat(bin, append(append([]string{"-format", format}, flags...), files...), append(os.Environ(), "GOMAXPROCS="+gp))
					out := []byte(so + se)
					if err == errTpTimeout {
						r.Failures = append(r.Failures, fmt.Sprintf("input %d flags %v format %s: benchstat did not terminate (20 s / 8 GB) at GOMAXPROCS=%s; files %v", i, flags, format, gp, files))
						break
					}
					if err != nil {
						return fmt.Errorf("benchstat: %v\n%s", err, out)
					}
					r.Runs++
					if k == 0 {
						ref = out
						if r.Sample == "" {
							r.Sample = string(out)
						}
					} else if !bytes.Equal(ref, out) {
						r.Failures = append(r.Failures, fmt.Sprintf("input %d flags %v format %s: run %d (GOMAXPROCS=%s) differs from the first run", i, flags, format, k, gp))
					}
				}
			}
		}
		// permuting benchmark lines inside each configuration block: rows may
		// move, cell contents may not -> compare the CSV as a set of lines per table
		rng2 := newRand(int64(1000 + i))
		files2 := tpGenFiles(rng2, dir, i, true)
		for _, flags := range [][]string{nil, {"-table", "pkg", "-row", ".name"}, {"-row", ".name,/k", "-col", "goos"}} {
			run := func(fs []string) (string, string, error) {
				return tpBenchstat(bin, append(append([]string{"-format", "csv"}, flags...), fs...), nil)
			}
			a, wa, err1 := run(files)
			b, wb, err2 := run(files2)
			if err1 == errTpTimeout || err2 == errTpTimeout {
				r.Failures = append(r.Failures, fmt.Sprintf("input %d flags %v: benchstat did not terminate (20 s / 8 GB)", i, flags))
				continue
			}
			if err1 != nil || err2 != nil {
				return fmt.Errorf("benchstat %v: %v %v", flags, err1, err2)
			}
			r.Runs += 2
			if d := tpCellDiff(a, b, files, files2); d != "" {
				r.Failures = append(r.Failures, fmt.Sprintf("input %d flags %v: permuting result lines changed cell content: %s", i, flags, d))
			}
			if d := tpCellDiff(tpWarnings(a, wa), tpWarnings(b, wb), files, files2); d != "" {
				r.Failures = append(r.Failures, fmt.Sprintf("input %d flags %v: permuting result lines changed a cell's warnings: %s", i, flags, d))
			}
		}
	}
	data, _ := json.Marshal(r)
	return os.WriteFile(args[2], data, 0o644)
}

var errTpTimeout = errors.New("timeout")

// tpBenchstat runs the binary with a bound on time (20 s) and on address space (8 GB): a run that
// does not come back, or that eats memory until it is stopped, is reported as errTpTimeout.
func tpBenchstat(bin string, args []string, env []string) (stdout, stderr string, err error) {
	ctx, cancel := context.WithTimeout(context.Background(), 20*time.Second)
	defer cancel()
	sh := append([]string{"-c", `ulimit -v 8000000; exec "$0" "$@"`, bin}, args...)
	cmd := exec.CommandContext(ctx, "/bin/sh", sh...)
	if env != nil {
		cmd.Env = env
	}
	var so, se bytes.Buffer
	cmd.Stdout, cmd.Stderr = &so, &se
	err = cmd.Run()
	if ctx.Err() != nil || (err != nil && (strings.Contains(se.String(), "out of memory") || strings.Contains(se.String(), "cannot allocate memory") || strings.Contains(err.Error(), "killed"))) {
		return so.String(), se.String(), errTpTimeout
	}
	return so.String(), se.String(), err
}

// tpGenFiles writes 2-3 benchmark files; with permute the benchmark lines of
// every configuration block are shuffled (same multiset of lines per block).
func tpGenFiles(rng *rand.Rand, dir string, i int, permute bool) []string {
	nfiles := 2 + rng.Intn(2)
	names := []string{"Alpha", "Beta/k=1", "Beta/k=2", "Beta/k=3-2", "Gamma-8", "Gamma-4", "Delta/x=y-4"}
	var files []string
	perm := rand.New(rand.NewSource(int64(i)*7 + 5))
	for f := 0; f < nfiles; f++ {
		var sb strings.Builder
		nblocks := 1 + rng.Intn(3)
		if i%2 == 1 {
			// a unit summarised under the exact assumption (its cells have several equally frequent values)
			sb.WriteString("Unit widgets assume=exact\n")
		}
		for b := 0; b < nblocks; b++ {
			fmt.Fprintf(&sb, "goos: os%d\npkg: p\n", b)
			if rng.Intn(2) == 0 {
				fmt.Fprintf(&sb, "cpu: c%d\n", rng.Intn(2)) // a key only some blocks have
			} else if b > 0 {
				sb.WriteString("cpu:\n")
			}
			sb.WriteString("\n")
			var lines []string
			order := rng.Perm(len(names))
			for _, ni := range order {
				nm := names[ni]
				// blocks carry different subsets of the benchmarks, in different orders
				if rng.Intn(5) < 2 {
					continue
				}
				reps := 3 + rng.Intn(5)
				for k := 0; k < reps; k++ {
					l := fmt.Sprintf("Benchmark%s %d %d ns/op %d B/op", nm, 100+k, 1000+rng.Intn(200)+100*f, 64*(1+rng.Intn(3)))
					if i%2 == 1 {
						l += fmt.Sprintf(" %d widgets", 100+4*rng.Intn(2))
					}
					if i%3 == 2 {
						// a custom metric in which a run now and then reports NaN
						if rng.Intn(4) == 0 {
							l += " NaN flaps"
						} else {
							l += fmt.Sprintf(" 0.%d flaps", 5+rng.Intn(5))
						}
					}
					lines = append(lines, l)
				}
			}
			if permute {
				perm.Shuffle(len(lines), func(a, b int) { lines[a], lines[b] = lines[b], lines[a] })
			}
			sb.WriteString(strings.Join(lines, "\n"))
			sb.WriteString("\n\n")
		}
		suffix := "a"
		if permute {
			suffix = "b"
		}
		p := filepath.Join(dir, fmt.Sprintf("in%d-%d%s.txt", i, f, suffix))
		os.WriteFile(p, []byte(sb.String()), 0o644)
		files = append(files, p)
	}
	return files
}

var tpWarnRe = regexp.MustCompile(`^([A-Z]+)([0-9]+): (.*)$`)

// tpWarnings rewrites the CSV warnings (stderr, "B7: message") as
// "column|row label|message" lines, so that they can be compared when rows move.
func tpWarnings(stdout, stderr string) string {
	lines := strings.Split(stdout, "\n")
	var out []string
	for _, w := range strings.Split(stderr, "\n") {
		m := tpWarnRe.FindStringSubmatch(w)
		if m == nil {
			if w != "" {
				out = append(out, w)
			}
			continue
		}
		n, _ := strconv.Atoi(m[2])
		label := "?"
		if n >= 1 && n <= len(lines) {
			label = strings.SplitN(lines[n-1], ",", 2)[0]
		}
		out = append(out, m[1]+"|"+label+"|"+m[3])
	}
	return strings.Join(out, "\n")
}

// tpCellDiff compares two CSV outputs as multisets of data lines (row order may
// differ); file names in headers are normalised.
func tpCellDiff(a, b string, fa, fb []string) string {
	norm := func(s string, files []string) map[string]int {
		for k, f := range files {
			s = strings.ReplaceAll(s, f, fmt.Sprintf("FILE%d", k))
		}
		m := map[string]int{}
		for _, l := range strings.Split(s, "\n") {
			if strings.HasPrefix(l, "geomean") {
				// a summary over rows in row order, not a cell: its last digits
				// may depend on the summation order
				continue
			}
			m[l]++
		}
		return m
	}
	ma, mb := norm(a, fa), norm(b, fb)
	for l, n := range ma {
		if mb[l] != n {
			return fmt.Sprintf("line %q occurs %d times vs %d", l, n, mb[l])
		}
	}
	for l, n := range mb {
		if ma[l] != n {
			return fmt.Sprintf("line %q occurs %d times vs %d", l, ma[l], n)
		}
	}
	return ""
}
