package main

// Family "tablespar" (C15): benchtab.Builder.ToTables under schedules.
//
//	replay  every TLC-generated schedule (total order of worker begin/end events
//	        of TablesPar.tla) is IMPOSED on the real goroutines through the
//	        verif hook, which blocks each worker at its begin/end point until the
//	        schedule says go; the rendered text and CSV must equal, byte for
//	        byte, those of an un-hooked single-threaded run.  The same binary
//	        built with -race turns the model's RaceFree into a run-time check.
//	record  the hook only observes: runs at several GOMAXPROCS on larger inputs,
//	        one event per hook point with a sequence number taken under the
//	        hook's lock, validated by TablesPar_trace.tla.
//	repeat  byte-identity of the benchstat BINARY over repetitions, GOMAXPROCS
//	        values and permutations of result lines.

import (
	"errors"
	"context"
	"bytes"
	"encoding/json"
	"fmt"
	"math/rand"
	"os"
	"os/exec"
	"path/filepath"
	"regexp"
	"runtime"
	"strconv"
	"strings"
	"sync"
	"time"

	"golang.org/x/perf/benchfmt"
	"golang.org/x/perf/benchmath"
	"golang.org/x/perf/benchproc"
	"golang.org/x/perf/cmd/benchstat/internal/benchtab"
)

func init() { register("tablespar", famTablesPar) }

type tpW struct {
	Kind string `json:"kind"`
	T    int    `json:"t"`
	R    string `json:"r"`
	C    string `json:"c"`
}

func (w tpW) id() string { return fmt.Sprintf("%s|%d|%s|%s", w.Kind, w.T, w.R, w.C) }

type tpEv struct {
	E string `json:"e"`
	W tpW    `json:"w"`
}

type tpCase struct {
	ID      int      `json:"id"`
	NTables int      `json:"ntables"`
	Rows    []string `json:"rows"`
	Cols    []string `json:"cols"`
	Sparse  bool     `json:"sparse"`
	Sched   []tpEv   `json:"sched"`
}

// tpResults renders the model's shape as benchmark results: table t <-> unit
// "u<t>", row <-> benchmark name, column <-> value of config key "col".  The
// baseline column cols[0] is observed first.  Missing cells as in
// TablesPar.tla (SparseTable1).
func tpResults(c *tpCase, rng *rand.Rand) []*benchfmt.Result {
	var out []*benchfmt.Result
	missing := func(t int, r, col string) bool {
		if !c.Sparse || t != 1 {
			return false
		}
		return (r == c.Rows[len(c.Rows)-1] && col == c.Cols[0]) || (r == c.Rows[0] && col == c.Cols[len(c.Cols)-1])
	}
	for rep := 0; rep < 4; rep++ {
		for _, col := range c.Cols {
			for _, r := range c.Rows {
				res := &benchfmt.Result{Name: benchfmt.Name(r), Iters: 1}
				res.Config = []benchfmt.Config{{Key: "col", Value: []byte(col), File: true}, {Key: "note", Value: []byte(fmt.Sprintf("n%d", rep%2)), File: true}}
				for t := 1; t <= c.NTables; t++ {
					if missing(t, r, col) {
						continue
					}
					v := float64(100*t+10*len(r)) + float64(rng.Intn(50)) + float64(rep)
					res.Values = append(res.Values, benchfmt.Value{Value: v, Unit: fmt.Sprintf("u%d/op", t)})
				}
				if len(res.Values) > 0 {
					out = append(out, res)
				}
			}
		}
	}
	return out
}

func tpBuild(results []*benchfmt.Result) (*benchtab.Builder, error) {
	filter, err := benchproc.NewFilter("*")
	if err != nil {
		return nil, err
	}
	var parser benchproc.ProjectionParser
	tableBy, _, err := parser.ParseWithUnit("", filter)
	if err != nil {
		return nil, err
	}
	rowBy, err := parser.Parse(".fullname", filter)
	if err != nil {
		return nil, err
	}
	colBy, err := parser.Parse("col", filter)
	if err != nil {
		return nil, err
	}
	residue := parser.Residue()
	b := benchtab.NewBuilder(tableBy, rowBy, colBy, residue)
	for _, r := range results {
		b.Add(r.Clone())
	}
	return b, nil
}

func tpRender(b *benchtab.Builder) (string, error) {
	th := benchmath.DefaultThresholds
	tables := b.ToTables(benchtab.TableOpts{Confidence: 0.95, Thresholds: &th, Units: benchfmt.UnitMetadataMap{}})
	var txt, csv, warn bytes.Buffer
	if err := tables.ToText(&txt, false); err != nil {
		return "", err
	}
	if err := tables.ToCSV(&csv, &warn); err != nil {
		return "", err
	}
	return txt.String() + "\n--csv--\n" + csv.String() + "\n--warn--\n" + warn.String(), nil
}

// gate imposes a schedule / records events.
type tpGate struct {
	mu      sync.Mutex
	cond    *sync.Cond
	sched   []string // "begin|cell|1|r1|c1" ...
	next    int
	tables  map[*benchtab.Table]int
	events  []map[string]interface{}
	seq     int
	impose  bool
	failed  string
	deadline time.Time
}

func tpKeyName(k benchproc.Key) string {
	if k.IsZero() {
		return "-"
	}
	s := k.String()
	if i := strings.LastIndex(s, ":"); i >= 0 {
		return s[i+1:]
	}
	return s
}

func (g *tpGate) hook(point string, table *benchtab.Table, row, col benchproc.Key) {
	g.mu.Lock()
	defer g.mu.Unlock()
	t := 0
	if table != nil {
		if point == "table" {
			g.tables[table] = len(g.tables) + 1
		}
		t = g.tables[table]
	}
	w := tpW{T: t, R: tpKeyName(row), C: tpKeyName(col)}
	kind, what := point, ""
	if i := strings.Index(point, "."); i >= 0 {
		kind, what = point[:i], point[i+1:]
	}
	w.Kind = kind
	if g.impose && (what == "begin" || what == "end") {
		me := what + "|" + w.id()
		for g.failed == "" && (g.next >= len(g.sched) || g.sched[g.next] != me) {
			if time.Now().After(g.deadline) {
				g.failed = fmt.Sprintf("gate timeout waiting for %s at schedule position %d", me, g.next)
				g.cond.Broadcast()
				break
			}
			g.cond.Wait()
		}
		if g.failed == "" {
			g.next++
		}
		g.cond.Broadcast()
	}
	g.seq++
	g.events = append(g.events, map[string]interface{}{"ev": point, "seq": g.seq, "w": w})
}

func famTablesPar(mode string, args []string) error {
	switch mode {
	case "replay":
		runtime.GOMAXPROCS(16)
		return replayLoop("tablespar", args, func(raw json.RawMessage) Verdict {
			var c tpCase
			if err := json.Unmarshal(raw, &c); err != nil {
				return fail("badcase", "%v", err)
			}
			return tpReplay(&c)
		})
	case "record":
		return tpRecord(args)
	case "repeat":
		return tpRepeat(args)
	case "repeatbig":
		return tpRepeatBig(args)
	case "stress":
		return tpStress(args)
	case "recordbig":
		return tpRecordBig(args)
	case "genfiles":
		// genfiles <dir> <n>: write n generated inputs, print their paths as JSON
		if len(args) < 2 {
			return fmt.Errorf("genfiles <dir> <n>")
		}
		n, _ := strconv.Atoi(args[1])
		var all [][]string
		for i := 0; i < n; i++ {
			all = append(all, tpGenFiles(newRand(int64(1000+i)), args[0], i, false))
		}
		b, _ := json.Marshal(all)
		fmt.Println(string(b))
		return nil
	}
	return fmt.Errorf("tablespar: unknown mode %q", mode)
}

func tpReplay(c *tpCase) Verdict {
	rng := rand.New(rand.NewSource(seed()*977 + int64(c.ID)))
	results := tpResults(c, rng)
	// reference: no hook
	benchtab.VerifHook = nil
	b0, err := tpBuild(results)
	if err != nil {
		return fail("harness", "%v", err)
	}
	ref, err := tpRender(b0)
	if err != nil {
		return fail("harness", "%v", err)
	}
	g := &tpGate{tables: map[*benchtab.Table]int{}, impose: true, deadline: time.Now().Add(20 * time.Second)}
	g.cond = sync.NewCond(&g.mu)
	for _, e := range c.Sched {
		g.sched = append(g.sched, e.E+"|"+e.W.id())
	}
	// wake waiters periodically so that the timeout is noticed
	stop := make(chan struct{})
	go func() {
		tk := time.NewTicker(200 * time.Millisecond)
		defer tk.Stop()
		for {
			select {
			case <-stop:
				return
			case <-tk.C:
				g.mu.Lock()
				g.cond.Broadcast()
				g.mu.Unlock()
			}
		}
	}()
	benchtab.VerifHook = g.hook
	b1, err := tpBuild(results)
	if err != nil {
		close(stop)
		return fail("harness", "%v", err)
	}
	got, err := tpRender(b1)
	benchtab.VerifHook = nil
	close(stop)
	if err != nil {
		return fail("harness", "%v", err)
	}
	if got != ref {
		return Verdict{OK: false, Signature: "output-depends-on-schedule", Detail: "text/CSV under the imposed schedule differs from the sequential run", Want: ref, Got: got}
	}
	if g.failed != "" {
		// the schedule could not be imposed: the code's worker set differs from the model's
		// no verdict: the property does not say how the work is spread over goroutines, so a
		// schedule of the model that the code cannot be brought to follow only means that the
		// code no longer has the model's fan-out (counted as skipped, reported by the plan)
		return Verdict{OK: true, Detail: fmt.Sprintf("skipped: schedule not realisable: %s; events so far %d", g.failed, len(g.events))}
	}
	if g.next != len(g.sched) {
		return Verdict{OK: true, Detail: fmt.Sprintf("skipped: schedule not realisable: run finished after %d of %d scheduled events", g.next, len(g.sched))}
	}
	// the workers the code ran are exactly the model's
	return pass()
}

// tpRecord: observe un-imposed runs. args: out.ndjson ntraces
func tpRecord(args []string) error {
	if len(args) < 2 {
		return fmt.Errorf("record <out> <n>")
	}
	n, _ := strconv.Atoi(args[1])
	ew, err := newEventWriter(args[0])
	if err != nil {
		return err
	}
	procs := []int{1, 2, 4, 16, 3}
	for t := 0; t < n; t++ {
		rng := newRand(int64(t))
		c := &tpCase{ID: t, NTables: 2, Rows: []string{"r1", "r2", "r3"}, Cols: []string{"c1", "c2", "c3"}, Sparse: true}
		results := tpResults(c, rng)
		if err := tpRecordRun(ew, t, results, procs[t%len(procs)], false); err != nil {
			return err
		}
	}
	ew.emit(map[string]interface{}{"ev": "reset", "t": -1, "limit": 0, "nt": 1, "cells": [][]interface{}{}, "cols": [][]interface{}{}, "base": []string{"-"}})
	return ew.close()
}

// tpRecordRun observes one un-imposed run of ToTables at the given GOMAXPROCS and writes its
// events, preceded by the reset event that carries the shape of the run.
func tpRecordRun(ew *eventWriter, t int, results []*benchfmt.Result, gp int, dyn bool) error {
	old := runtime.GOMAXPROCS(gp)
	g := &tpGate{tables: map[*benchtab.Table]int{}}
	g.cond = sync.NewCond(&g.mu)
	benchtab.VerifHook = g.hook
	b, err := tpBuild(results)
	if err != nil {
		benchtab.VerifHook = nil
		runtime.GOMAXPROCS(old)
		return err
	}
	_, err = tpRender(b)
	benchtab.VerifHook = nil
	runtime.GOMAXPROCS(old)
	if err != nil {
		return err
	}
	if dyn {
		return tpEmitDyn(ew, t, g, gp)
	}
	// the shape of the run (for the trace specifications that take it from the trace)
	cells, colws := [][]interface{}{}, [][]interface{}{}
	for _, e := range g.events {
		w := e["w"].(tpW)
		switch e["ev"] {
		case "cell.spawn":
			cells = append(cells, []interface{}{w.T, w.R, w.C})
		case "col.spawn":
			colws = append(colws, []interface{}{w.T, w.C})
		}
	}
	base := make([]string, len(g.tables))
	for tb, no := range g.tables {
		if len(tb.Cols) > 0 {
			base[no-1] = tpKeyName(tb.Cols[0])
		}
	}
	ew.emit(map[string]interface{}{"ev": "reset", "t": t, "limit": 2 * gp, "nt": len(g.tables), "cells": cells, "cols": colws, "base": base})
	for _, e := range g.events {
		e["t"] = t
		ew.emit(e)
	}
	return nil
}

// tpEmitDyn writes a recorded run in the vocabulary of TablesParDyn_trace (the one the recorder
// overlaid into cmd/benchstat's tests uses): rows and columns are numbered per table in order of
// first appearance, column workers have row 0, the other events carry r = c = 0.
func tpEmitDyn(ew *eventWriter, t int, g *tpGate, gp int) error {
	nt := len(g.tables)
	rows := make([]map[string]int, nt+1)
	cols := make([]map[string]int, nt+1)
	for i := range rows {
		rows[i], cols[i] = map[string]int{}, map[string]int{}
	}
	no := func(m map[string]int, k string) int {
		if n, ok := m[k]; ok {
			return n
		}
		m[k] = len(m) + 1
		return m[k]
	}
	cells, colws := [][]int{}, [][]int{}
	var evs []map[string]interface{}
	for _, e := range g.events {
		w := e["w"].(tpW)
		ev := e["ev"].(string)
		ow := map[string]interface{}{"kind": "main", "t": w.T, "r": 0, "c": 0}
		switch {
		case ev == "table":
			ow["kind"] = "table"
		case strings.HasPrefix(ev, "cell."):
			r, c := no(rows[w.T], w.R), no(cols[w.T], w.C)
			ow = map[string]interface{}{"kind": "cell", "t": w.T, "r": r, "c": c}
			if ev == "cell.spawn" {
				cells = append(cells, []int{w.T, r, c})
			}
		case strings.HasPrefix(ev, "col."):
			c := no(cols[w.T], w.C)
			ow = map[string]interface{}{"kind": "col", "t": w.T, "r": 0, "c": c}
			if ev == "col.spawn" {
				colws = append(colws, []int{w.T, c})
			}
		}
		evs = append(evs, map[string]interface{}{"ev": ev, "w": ow, "t": t})
	}
	base := make([]int, nt)
	for tb, n := range g.tables {
		base[n-1] = 1
		if len(tb.Cols) > 0 {
			base[n-1] = no(cols[n], tpKeyName(tb.Cols[0]))
		}
	}
	ew.emit(map[string]interface{}{"ev": "reset", "t": t, "limit": 2 * gp, "nt": nt, "cells": cells, "cols": colws, "base": base})
	for _, e := range evs {
		ew.emit(e)
	}
	return nil
}

// ---------------------------------------------------------------- big shapes
//
// Everything above runs ToTables on at most 2 x 3 x 3 cells, i.e. never with more cells than
// the fan-out bound 2*GOMAXPROCS admits at GOMAXPROCS >= 5, and with a handful of results per
// cell.  The drivers below use MANY cells (far more than 2*GOMAXPROCS, so that a cell worker is
// started while earlier ones are still running and the semaphore is saturated all the time),
// cells of very different weight (2 .. 300 results, so that workers overtake each other), large
// residue sets (every result of a cell has its own `run` value) and different cells varying in
// different keys.

// tpBigResults: nt units x nr names x nc values of `col`; cell (r, c) merges R(r,c) results
// that all differ in `run` and, besides, in key k<(r+c)%4> only.
func tpBigResults(rng *rand.Rand, nt, nr, nc int, sparse bool) []*benchfmt.Result {
	var out []*benchfmt.Result
	for c := 0; c < nc; c++ {
		for r := 0; r < nr; r++ {
			n := 2 + rng.Intn(12)
			if (r*7+c*3)%5 == 0 {
				n = 120 + rng.Intn(180)
			}
			vk := (r + c) % 4
			for i := 0; i < n; i++ {
				res := &benchfmt.Result{Name: benchfmt.Name(fmt.Sprintf("B%d", r)), Iters: 1}
				res.Config = []benchfmt.Config{
					{Key: "col", Value: []byte(fmt.Sprintf("c%d", c)), File: true},
					{Key: "run", Value: []byte(fmt.Sprintf("%d", i)), File: true},
				}
				for k := 0; k < 4; k++ {
					v := "x"
					if k == vk {
						v = fmt.Sprintf("v%d", i%3)
					}
					res.Config = append(res.Config, benchfmt.Config{Key: fmt.Sprintf("k%d", k), Value: []byte(v), File: true})
				}
				for t := 1; t <= nt; t++ {
					if sparse && t == 1 && ((r == nr-1 && c == 0) || (r == 0 && c == nc-1)) {
						continue
					}
					v := float64(100*t+10*r) + float64(rng.Intn(50)) + float64(c)
					res.Values = append(res.Values, benchfmt.Value{Value: v, Unit: fmt.Sprintf("u%d/op", t)})
				}
				if len(res.Values) > 0 {
					out = append(out, res)
				}
			}
		}
	}
	// results of different cells arrive interleaved (the first result stays: it fixes the baseline column)
	rest := out[1:]
	rng.Shuffle(len(rest), func(a, b int) { rest[a], rest[b] = rest[b], rest[a] })
	return out
}

// tpStress: un-imposed runs of ToTables on big shapes at GOMAXPROCS 2, 16, 3, 4, 8, 1; text and
// CSV must equal, byte for byte, those of the run at GOMAXPROCS 1 (where the workers run one
// after the other).  Run in the -race build as well: there the race detector judges the
// accesses of workers that overlap because the semaphore admitted them.  args: n out.json
func tpStress(args []string) error {
	if len(args) < 2 {
		return fmt.Errorf("stress <n> <out.json>")
	}
	n, _ := strconv.Atoi(args[0])
	type rep struct {
		Runs     int      `json:"runs"`
		MaxCells int      `json:"max_cells"`
		Failures []string `json:"failures"`
	}
	var r rep
	defer runtime.GOMAXPROCS(runtime.GOMAXPROCS(-1))
	for i := 0; i < n; i++ {
		rng := newRand(int64(5000 + i))
		nt, nr, nc := 1+rng.Intn(3), 10+rng.Intn(30), 2+rng.Intn(4)
		results := tpBigResults(rng, nt, nr, nc, i%2 == 1)
		if nt*nr*nc > r.MaxCells {
			r.MaxCells = nt * nr * nc
		}
		benchtab.VerifHook = nil
		runtime.GOMAXPROCS(1)
		b0, err := tpBuild(results)
		if err != nil {
			return err
		}
		ref, err := tpRender(b0)
		if err != nil {
			return err
		}
		r.Runs++
		for k, gp := range []int{2, 16, 3, 4, 8, 1, 2} {
			runtime.GOMAXPROCS(gp)
			b1, err := tpBuild(results)
			if err != nil {
				return err
			}
			got, err := tpRender(b1)
			if err != nil {
				return err
			}
			r.Runs++
			if got != ref {
				r.Failures = append(r.Failures, fmt.Sprintf("shape %d (%d units x %d rows x %d columns, %d results): run %d at GOMAXPROCS=%d differs from the run at GOMAXPROCS=1: %s",
					i, nt, nr, nc, len(results), k, gp, tpFirstDiff(ref, got)))
			}
		}
	}
	data, _ := json.Marshal(r)
	return os.WriteFile(args[1], data, 0o644)
}

func tpFirstDiff(a, b string) string {
	la, lb := strings.Split(a, "\n"), strings.Split(b, "\n")
	for i := 0; i < len(la) || i < len(lb); i++ {
		x, y := "<none>", "<none>"
		if i < len(la) {
			x = la[i]
		}
		if i < len(lb) {
			y = lb[i]
		}
		if x != y {
			if len(x) > 300 {
				x = x[:300]
			}
			if len(y) > 300 {
				y = y[:300]
			}
			return fmt.Sprintf("line %d: %q vs %q", i+1, x, y)
		}
	}
	return "no difference"
}

// tpRecordBig: hook traces of un-imposed runs on shapes with 50-100 cell workers at
// GOMAXPROCS 1, 2, 3 (fan-out bound 2, 4, 6: saturated throughout).  args: out.ndjson n
func tpRecordBig(args []string) error {
	if len(args) < 2 {
		return fmt.Errorf("recordbig <out> <n>")
	}
	n, _ := strconv.Atoi(args[1])
	ew, err := newEventWriter(args[0])
	if err != nil {
		return err
	}
	procs := []int{2, 1, 3, 2}
	for t := 0; t < n; t++ {
		rng := newRand(int64(7000 + t))
		nr, nc := 5+rng.Intn(4), 4+rng.Intn(3)
		results := tpBigResults(rng, 2, nr, nc, t%2 == 0)
		if err := tpRecordRun(ew, t, results, procs[t%len(procs)], true); err != nil {
			return err
		}
	}
	ew.emit(map[string]interface{}{"ev": "reset", "t": -1, "limit": 0, "nt": 1, "cells": [][]interface{}{}, "cols": [][]interface{}{}, "base": []int{1}})
	return ew.close()
}

// tpRepeat: the benchstat binary on generated files: byte-identical text and CSV
// over repetitions and GOMAXPROCS, and cell contents invariant under permuting
// result lines within a configuration block.  args: benchstat-binary nruns outfile
func tpRepeat(args []string) error {
	if len(args) < 3 {
		return fmt.Errorf("repeat <benchstat> <n> <out.json>")
	}
	bin := args[0]
	n, _ := strconv.Atoi(args[1])
	dir, err := os.MkdirTemp(os.Getenv("VERIF_WORK"), "tp")
	if err != nil {
		return err
	}
	defer os.RemoveAll(dir)
	var r tpRep
	gps := []string{"1", "2", "16", "4", "1", "8", "3"}
	for i := 0; i < n; i++ {
		rng := newRand(int64(1000 + i))
		files := tpGenFiles(rng, dir, i, false)
		// permuting benchmark lines inside each configuration block: rows may
		// move, cell contents may not -> compare the CSV as a set of lines per table
		rng2 := newRand(int64(1000 + i))
		files2 := tpGenFiles(rng2, dir, i, true)
		err := tpRepeatInput(bin, &r, fmt.Sprintf("input %d", i), files, files2, gps,
			[][]string{nil, {"-row", ".name,/k", "-col", "goos"}, {"-table", "goos,cpu", "-row", ".name,/x,/k"}},
			[][]string{nil, {"-table", "pkg", "-row", ".name"}, {"-row", ".name,/k", "-col", "goos"}})
		if err != nil {
			return err
		}
		// the same with -filter expressions, on inputs whose lines spell the same (tidied) unit in two ways
		// (ns/op next to sec/op, MB/s next to B/s, ns/GC next to sec/GC) and carry sub-name and file keys:
		// what a filter keeps is a function of the line alone, so the cells may not depend on which line of a
		// block comes first
		filesM := tpGenFilesMixed(newRand(int64(5000+i)), dir, i, false)
		filesM2 := tpGenFilesMixed(newRand(int64(5000+i)), dir, i, true)
		var ff [][]string
		for _, f := range tpFilterExprs {
			ff = append(ff, []string{"-filter", f})
		}
		ff = append(ff, []string{"-filter", tpFilterExprs[i%len(tpFilterExprs)], "-row", ".name", "-col", "goos,.file"},
			[]string{"-filter", tpFilterExprs[(i+3)%len(tpFilterExprs)], "-table", ".unit,goos", "-row", ".fullname", "-ignore", "pkg"})
		err = tpRepeatInput(bin, &r, fmt.Sprintf("mixed-spelling input %d", i), filesM, filesM2, []string{"1", "16", "3"},
			[][]string{{"-filter", tpFilterExprs[(2*i)%len(tpFilterExprs)]}, {"-filter", tpFilterExprs[(2*i+1)%len(tpFilterExprs)]}}, ff)
		if err != nil {
			return err
		}
	}
	data, _ := json.Marshal(r)
	return os.WriteFile(args[2], data, 0o644)
}

// filter expressions of the mixed-spelling inputs: units in the reported and in the tidied spelling, negations,
// alternatives, regular expressions, combinations with name, sub-name and file keys. Every expression keeps
// something of every generated input (each block has lines in both spellings of every unit).
var tpFilterExprs = []string{
	".unit:ns/op",
	"-.unit:ns/op",
	".unit:sec/op",
	".unit:MB/s",
	"-.unit:MB/s",
	".unit:(ns/op OR B/s)",
	".unit:/^(ns|MB)\\//",
	"-.unit:(ns/GC OR B/op)",
	".unit:ns/GC OR /k:1",
	"-(.unit:sec/GC OR .unit:MB/s) AND -.name:Alpha",
	"goos:os0 OR .unit:ns/op",
	"/k:(1 OR 2) OR -/k:*",
}

// tpGenFilesMixed writes 2 benchmark files in which every line spells each of its units in one of two ways
// that tidy to the same unit (N ns/op | N*1e-9 sec/op, N MB/s | N*1e6 B/s, N ns/GC | N*1e-9 sec/GC); with
// permute the benchmark lines of every configuration block are shuffled.
func tpGenFilesMixed(rng *rand.Rand, dir string, i int, permute bool) []string {
	names := []string{"Alpha", "Beta/k=1", "Beta/k=2", "Beta/k=3-2", "Gamma-8", "Delta/x=y-4"}
	var files []string
	perm := rand.New(rand.NewSource(int64(i)*11 + 3))
	for f := 0; f < 2; f++ {
		var sb strings.Builder
		nblocks := 1 + rng.Intn(2)
		for b := 0; b < nblocks; b++ {
			fmt.Fprintf(&sb, "goos: os%d\npkg: p\n\n", b)
			var lines []string
			for _, ni := range rng.Perm(len(names)) {
				if rng.Intn(6) == 0 {
					continue
				}
				reps := 4 + rng.Intn(4)
				for k := 0; k < reps; k++ {
					l := fmt.Sprintf("Benchmark%s %d", names[ni], 100+k)
					ns := 1000 + rng.Intn(200) + 100*f
					if rng.Intn(2) == 0 {
						l += fmt.Sprintf(" %d ns/op", ns)
					} else {
						l += fmt.Sprintf(" %se-09 sec/op", strconv.Itoa(ns))
					}
					mb := 50 + rng.Intn(20)
					if rng.Intn(2) == 0 {
						l += fmt.Sprintf(" %d MB/s", mb)
					} else {
						l += fmt.Sprintf(" %d000000 B/s", mb)
					}
					l += fmt.Sprintf(" %d B/op", 64*(1+rng.Intn(3)))
					gc := 10 + rng.Intn(10)
					if rng.Intn(2) == 0 {
						l += fmt.Sprintf(" %d ns/GC", gc)
					} else {
						l += fmt.Sprintf(" %de-09 sec/GC", gc)
					}
					lines = append(lines, l)
				}
			}
			if permute {
				perm.Shuffle(len(lines), func(a, b int) { lines[a], lines[b] = lines[b], lines[a] })
			}
			sb.WriteString(strings.Join(lines, "\n"))
			sb.WriteString("\n\n")
		}
		suffix := "a"
		if permute {
			suffix = "b"
		}
		p := filepath.Join(dir, fmt.Sprintf("mix%d-%d%s.txt", i, f, suffix))
		os.WriteFile(p, []byte(sb.String()), 0o644)
		files = append(files, p)
	}
	return files
}

// tpRepeatBig: the same comparisons on LARGE inputs (args: benchstat-binary n outfile); input i is
// of kind i%4:
//
//	0 "names"  1030..1600 distinct benchmarks (more than any table of 1024 entries holds), printed in
//	           3-4 passes as `go test -count N` does, in two files with different subsets
//	1 "sweep"  five benchmarks measured in 1030..1400 runs that each have their own `run` value, the
//	           `commit` changing every 100 runs (long history; > 1024 distinct configurations)
//	3 "units"  30-45 benchmarks with 1..70 runs each and 90 custom units with scale prefixes
//	2 "grid"   30-45 benchmarks x 2 files x 2 units (more cells than 2*GOMAXPROCS at every setting used),
//	           cells of very different size whose results all differ in `run` and, besides, in ONE of
//	           four keys that depends on the benchmark
func tpRepeatBig(args []string) error {
	if len(args) < 3 {
		return fmt.Errorf("repeatbig <benchstat> <n> <out.json>")
	}
	bin := args[0]
	n, _ := strconv.Atoi(args[1])
	dir, err := os.MkdirTemp(os.Getenv("VERIF_WORK"), "tpbig")
	if err != nil {
		return err
	}
	defer os.RemoveAll(dir)
	var r tpRep
	gps := []string{"1", "2", "16", "4", "1", "3"}
	for i := 0; i < n; i++ {
		kind := []string{"names", "sweep", "grid", "units"}[i%4]
		files, nl := tpGenBig(newRand(int64(3000+i)), dir, i, kind, false)
		files2, _ := tpGenBig(newRand(int64(3000+i)), dir, i, kind, true)
		if nl > r.Lines {
			r.Lines = nl
		}
		var flagsets, permFlagsets [][]string
		switch kind {
		case "names":
			flagsets = [][]string{nil, {"-row", ".name", "-col", ".file,/k"}}
			permFlagsets = [][]string{nil, {"-table", "pkg", "-row", ".fullname"}}
		case "sweep":
			flagsets = [][]string{{"-ignore", "run"}, {"-table", "", "-row", ".fullname"}, {"-table", "commit", "-row", ".name", "-col", ".file"}}
			permFlagsets = [][]string{{"-ignore", "run"}, {"-table", "", "-row", ".fullname"}}
		case "grid":
			flagsets = [][]string{{"-table", ""}, {"-table", "goos", "-ignore", "run"}}
			permFlagsets = [][]string{{"-table", ""}, {"-table", "", "-ignore", "k1,k2"}}
		case "units":
			flagsets = [][]string{nil, {"-row", ".name", "-col", ".file,/k"}}
			permFlagsets = [][]string{nil}
		}
		g := gps
		if kind == "units" {
			g = []string{"1", "16", "3"}
		}
		if err := tpRepeatInput(bin, &r, fmt.Sprintf("big input %d (%s, %d lines)", i, kind, nl), files, files2, g, flagsets, permFlagsets); err != nil {
			return err
		}
	}
	data, _ := json.Marshal(r)
	return os.WriteFile(args[2], data, 0o644)
}

// tpGenBig writes the files of one big input; with permute the benchmark lines of every
// configuration block are shuffled.  Returns the paths and the total number of lines.
func tpGenBig(rng *rand.Rand, dir string, i int, kind string, permute bool) ([]string, int) {
	perm := rand.New(rand.NewSource(int64(i)*13 + 7))
	suffix := "a"
	if permute {
		suffix = "b"
	}
	total := 0
	var files []string
	write := func(f int, blocks [][]string) {
		// a block = configuration lines (those ending in a colon-value, kept in place) followed by benchmark lines
		var sb strings.Builder
		for _, blk := range blocks {
			var head, lines []string
			for _, l := range blk {
				if strings.HasPrefix(l, "Benchmark") {
					lines = append(lines, l)
				} else {
					head = append(head, l)
				}
			}
			if permute {
				perm.Shuffle(len(lines), func(a, b int) { lines[a], lines[b] = lines[b], lines[a] })
			}
			for _, l := range head {
				sb.WriteString(l + "\n")
			}
			sb.WriteString("\n")
			for _, l := range lines {
				sb.WriteString(l + "\n")
			}
			sb.WriteString("\n")
			total += len(head) + len(lines) + 2
		}
		p := filepath.Join(dir, fmt.Sprintf("big%d-%d%s.txt", i, f, suffix))
		os.WriteFile(p, []byte(sb.String()), 0o644)
		files = append(files, p)
	}
	switch kind {
	case "names":
		k := 1030 + rng.Intn(570)
		words := []string{"Encode", "Decode", "Parse", "Walk", "Sum", "Sort", "Hash", "Copy"}
		name := func(j int) string {
			nm := fmt.Sprintf("%s%d", words[j%len(words)], j)
			if j%3 == 0 {
				nm += fmt.Sprintf("/k=%d", j%7)
			}
			if j%4 == 0 {
				nm += "-8"
			}
			return nm
		}
		for f := 0; f < 2; f++ {
			passes := 3 + rng.Intn(2)
			var blk []string
			blk = append(blk, "goos: linux", "pkg: p")
			for ps := 0; ps < passes; ps++ {
				for j := 0; j < k; j++ {
					if f == 1 && j%11 == 5 {
						continue // the second file lacks some benchmarks
					}
					blk = append(blk, fmt.Sprintf("Benchmark%s %d %d ns/op %d B/op", name(j), 100+ps, 1000+j%97+rng.Intn(40)+50*f, 64*(1+j%3)))
				}
			}
			write(f, [][]string{blk})
		}
	case "sweep":
		runs := 1030 + rng.Intn(370)
		names := []string{"Alpha", "Beta/k=1", "Beta/k=2", "Gamma-8", "Delta/x=y-4"}
		for f := 0; f < 2; f++ {
			var blocks [][]string
			for ru := 0; ru < runs; ru++ {
				blk := []string{fmt.Sprintf("run: %d", ru)}
				if ru%100 == 0 {
					blk = append([]string{"goos: linux", fmt.Sprintf("commit: c%02d", ru/100)}, blk...)
				}
				for j, nm := range names {
					if (ru+j)%9 == 8 {
						continue
					}
					blk = append(blk, fmt.Sprintf("Benchmark%s %d %d ns/op", nm, 100, 1000+10*j+rng.Intn(60)+30*f))
				}
				blocks = append(blocks, blk)
			}
			write(f, blocks)
		}
	case "units":
		// 30-45 benchmarks with 1..70 runs each (every sample size once), each line with sec/op and three of
		// 90 custom units with scale prefixes (process-wide caches keyed by sample size and by unit)
		nn := 30 + rng.Intn(16)
		unit := func(k int) string { return fmt.Sprintf("%s/w%d", []string{"ns", "MB", "us", "KB", "ms", "x"}[k%6], k) }
		for f := 0; f < 2; f++ {
			blk := []string{"goos: linux", "pkg: p"}
			for ps := 0; ps < 70; ps++ {
				for j := 0; j < nn; j++ {
					if ps > (j*13+f*5)%70 {
						continue
					}
					nm := fmt.Sprintf("U%d", j)
					if j%3 == 0 {
						nm += fmt.Sprintf("/k=%d", j%4)
					}
					l := fmt.Sprintf("Benchmark%s %d %d ns/op", nm, 100+ps, 1000+7*j+rng.Intn(50)+20*f)
					for q := 0; q < 3; q++ {
						l += fmt.Sprintf(" %d %s", 10+rng.Intn(90), unit((j*3+q*30+ps%2)%90))
					}
					blk = append(blk, l)
				}
			}
			write(f, [][]string{blk})
		}
	case "grid":
		nn := 30 + rng.Intn(16)
		for f := 0; f < 2; f++ {
			var blocks [][]string
			blocks = append(blocks, []string{"goos: linux", "k0: x", "k1: x", "k2: x", "k3: x"})
			maxRuns := 0
			runsOf := make([]int, nn)
			for j := range runsOf {
				runsOf[j] = 3 + rng.Intn(10)
				if (j*7+f*3)%5 == 0 {
					runsOf[j] = 90 + rng.Intn(120)
				}
				if runsOf[j] > maxRuns {
					maxRuns = runsOf[j]
				}
			}
			for ru := 0; ru < maxRuns; ru++ {
				// one block per (run, varying key): the benchmarks whose key k<v> varies are measured with k<v> = v<ru%3>
				for v := 0; v < 4; v++ {
					blk := []string{fmt.Sprintf("run: %d", ru)}
					for k := 0; k < 4; k++ {
						val := "x"
						if k == v {
							val = fmt.Sprintf("v%d", ru%3)
						}
						blk = append(blk, fmt.Sprintf("k%d: %s", k, val))
					}
					for j := 0; j < nn; j++ {
						if (j+f)%4 != v || ru >= runsOf[j] {
							continue
						}
						blk = append(blk, fmt.Sprintf("BenchmarkG%d %d %d ns/op %d B/op", j, 100, 1000+10*j+rng.Intn(80)+40*f, 64*(1+rng.Intn(3))))
					}
					if len(blk) > 5 {
						blocks = append(blocks, blk)
					}
				}
			}
			write(f, blocks)
		}
	}
	return files, total
}

type tpRep struct {
	Runs     int      `json:"runs"`
	Inputs   int      `json:"inputs"`
	Failures []string `json:"failures"`
	Sample   string   `json:"sample"`
	Lines    int      `json:"lines"`
}

// tpRepeatInput: one set of input files (and the same files with the benchmark lines of every
// configuration block permuted): byte-identical text and CSV over repetitions and GOMAXPROCS
// values for each flag set; cell contents and warnings invariant under the permutation.
func tpRepeatInput(bin string, r *tpRep, what string, files, files2 []string, gps []string, flagsets, permFlagsets [][]string) error {
	r.Inputs++
	for _, flags := range flagsets {
		for _, format := range []string{"text", "csv"} {
			var ref []byte
			for k, gp := range gps {
				so, se, err := tpBenchstat(bin, append(append([]string{"-format", format}, flags...), files...), append(os.Environ(), "GOMAXPROCS="+gp))
				out := []byte(so + se)
				if err == errTpTimeout {
					r.Failures = append(r.Failures, fmt.Sprintf("%s flags %v format %s: benchstat did not terminate (20 s / 8 GB) at GOMAXPROCS=%s; files %v", what, flags, format, gp, files))
					break
				}
				if err != nil {
					if _, isExit := err.(*exec.ExitError); isExit {
						// the tool gives up on (or crashes on) well-formed benchmark text
						r.Failures = append(r.Failures, fmt.Sprintf("%s flags %v format %s: benchstat failed at GOMAXPROCS=%s: %v: %s", what, flags, format, gp, err, tpTail(se, 600)))
						break
					}
					return fmt.Errorf("benchstat: %v\n%s", err, tpTail(string(out), 2000))
				}
				r.Runs++
				if k == 0 {
					ref = out
					if r.Sample == "" {
						r.Sample = tpTail(string(out), 4000)
					}
				} else if !bytes.Equal(ref, out) {
					r.Failures = append(r.Failures, fmt.Sprintf("%s flags %v format %s: run %d (GOMAXPROCS=%s) differs from the first run: %s", what, flags, format, k, gp, tpFirstDiff(string(ref), string(out))))
				}
			}
		}
	}
	for _, flags := range permFlagsets {
		run := func(fs []string) (string, string, error) {
			return tpBenchstat(bin, append(append([]string{"-format", "csv"}, flags...), fs...), nil)
		}
		a, wa, err1 := run(files)
		b, wb, err2 := run(files2)
		if err1 == errTpTimeout || err2 == errTpTimeout {
			r.Failures = append(r.Failures, fmt.Sprintf("%s flags %v: benchstat did not terminate (20 s / 8 GB)", what, flags))
			continue
		}
		if err1 != nil || err2 != nil {
			_, x1 := err1.(*exec.ExitError)
			_, x2 := err2.(*exec.ExitError)
			if x1 || x2 {
				r.Failures = append(r.Failures, fmt.Sprintf("%s flags %v: benchstat failed: %v %v: %s %s", what, flags, err1, err2, tpTail(wa, 300), tpTail(wb, 300)))
				continue
			}
			return fmt.Errorf("benchstat %v: %v %v", flags, err1, err2)
		}
		r.Runs += 2
		if d := tpCellDiff(a, b, files, files2); d != "" {
			r.Failures = append(r.Failures, fmt.Sprintf("%s flags %v: permuting result lines changed cell content: %s", what, flags, d))
		}
		if d := tpCellDiff(tpWarnings(a, wa), tpWarnings(b, wb), files, files2); d != "" {
			r.Failures = append(r.Failures, fmt.Sprintf("%s flags %v: permuting result lines changed a cell's warnings: %s", what, flags, d))
		}
	}
	return nil
}

func tpTail(s string, n int) string {
	if len(s) > n {
		return "..." + s[len(s)-n:]
	}
	return s
}

var errTpTimeout = errors.New("timeout")

// tpBenchstat runs the binary with a bound on time (20 s) and on address space (8 GB): a run that
// does not come back, or that eats memory until it is stopped, is reported as errTpTimeout.
func tpBenchstat(bin string, args []string, env []string) (stdout, stderr string, err error) {
	ctx, cancel := context.WithTimeout(context.Background(), 20*time.Second)
	defer cancel()
	sh := append([]string{"-c", `ulimit -v 8000000; exec "$0" "$@"`, bin}, args...)
	cmd := exec.CommandContext(ctx, "/bin/sh", sh...)
	if env != nil {
		cmd.Env = env
	}
	var so, se bytes.Buffer
	cmd.Stdout, cmd.Stderr = &so, &se
	err = cmd.Run()
	if ctx.Err() != nil || (err != nil && (strings.Contains(se.String(), "out of memory") || strings.Contains(se.String(), "cannot allocate memory") || strings.Contains(err.Error(), "killed"))) {
		return so.String(), se.String(), errTpTimeout
	}
	return so.String(), se.String(), err
}

// tpGenFiles writes 2-3 benchmark files; with permute the benchmark lines of
// every configuration block are shuffled (same multiset of lines per block).
func tpGenFiles(rng *rand.Rand, dir string, i int, permute bool) []string {
	nfiles := 2 + rng.Intn(2)
	names := []string{"Alpha", "Beta/k=1", "Beta/k=2", "Beta/k=3-2", "Gamma-8", "Gamma-4", "Delta/x=y-4"}
	var files []string
	perm := rand.New(rand.NewSource(int64(i)*7 + 5))
	for f := 0; f < nfiles; f++ {
		var sb strings.Builder
		nblocks := 1 + rng.Intn(3)
		if i%2 == 1 {
			// a unit summarised under the exact assumption (its cells have several equally frequent values)
			sb.WriteString("Unit widgets assume=exact\n")
		}
		for b := 0; b < nblocks; b++ {
			fmt.Fprintf(&sb, "goos: os%d\npkg: p\n", b)
			if rng.Intn(2) == 0 {
				fmt.Fprintf(&sb, "cpu: c%d\n", rng.Intn(2)) // a key only some blocks have
			} else if b > 0 {
				sb.WriteString("cpu:\n")
			}
			sb.WriteString("\n")
			var lines []string
			order := rng.Perm(len(names))
			for _, ni := range order {
				nm := names[ni]
				// blocks carry different subsets of the benchmarks, in different orders
				if rng.Intn(5) < 2 {
					continue
				}
				reps := 3 + rng.Intn(5)
				for k := 0; k < reps; k++ {
					l := fmt.Sprintf("Benchmark%s %d %d ns/op %d B/op", nm, 100+k, 1000+rng.Intn(200)+100*f, 64*(1+rng.Intn(3)))
					if i%2 == 1 {
						l += fmt.Sprintf(" %d widgets", 100+4*rng.Intn(2))
					}
					if i%3 == 2 {
						// a custom metric in which a run now and then reports NaN
						if rng.Intn(4) == 0 {
							l += " NaN flaps"
						} else {
							l += fmt.Sprintf(" 0.%d flaps", 5+rng.Intn(5))
						}
					}
					lines = append(lines, l)
				}
			}
			if permute {
				perm.Shuffle(len(lines), func(a, b int) { lines[a], lines[b] = lines[b], lines[a] })
			}
			sb.WriteString(strings.Join(lines, "\n"))
			sb.WriteString("\n\n")
		}
		suffix := "a"
		if permute {
			suffix = "b"
		}
		p := filepath.Join(dir, fmt.Sprintf("in%d-%d%s.txt", i, f, suffix))
		os.WriteFile(p, []byte(sb.String()), 0o644)
		files = append(files, p)
	}
	return files
}

var tpWarnRe = regexp.MustCompile(`^([A-Z]+)([0-9]+): (.*)$`)

// tpWarnings rewrites the CSV warnings (stderr, "B7: message") as
// "column|row label|message" lines, so that they can be compared when rows move.
func tpWarnings(stdout, stderr string) string {
	lines := strings.Split(stdout, "\n")
	var out []string
	for _, w := range strings.Split(stderr, "\n") {
		m := tpWarnRe.FindStringSubmatch(w)
		if m == nil {
			if w != "" {
				out = append(out, w)
			}
			continue
		}
		n, _ := strconv.Atoi(m[2])
		label := "?"
		if n >= 1 && n <= len(lines) {
			label = strings.SplitN(lines[n-1], ",", 2)[0]
		}
		out = append(out, m[1]+"|"+label+"|"+m[3])
	}
	return strings.Join(out, "\n")
}

// tpCellDiff compares two CSV outputs as multisets of data lines (row order may
// differ); file names in headers are normalised.
func tpCellDiff(a, b string, fa, fb []string) string {
	norm := func(s string, files []string) map[string]int {
		for k, f := range files {
			s = strings.ReplaceAll(s, f, fmt.Sprintf("FILE%d", k))
		}
		m := map[string]int{}
		for _, l := range strings.Split(s, "\n") {
			if strings.HasPrefix(l, "geomean") {
				// a summary over rows in row order, not a cell: its last digits
				// may depend on the summation order
				continue
			}
			m[l]++
		}
		return m
	}
	ma, mb := norm(a, fa), norm(b, fb)
	for l, n := range ma {
		if mb[l] != n {
			return fmt.Sprintf("line %q occurs %d times vs %d", l, n, mb[l])
		}
	}
	for l, n := range mb {
		if ma[l] != n {
			return fmt.Sprintf("line %q occurs %d times vs %d", l, ma[l], n)
		}
	}
	return ""
}
