package main

// Family "units" (C04): normalisation of measurements to base units.
//
// replay <cases> <verdicts> <classes-csv> [benchstat-binary]
//
//	Every case is one written unit (symbols) with what Units.tla's DECLARATIVE
//	definition says tidying must give: the base unit, the decimal exponent e of
//	the scale factor, the number k of rewritten components, whether the unit
//	changed, whether it contains a blank, and - only to give the known deviation a
//	precise name - the value classes for which the AS-BUILT reader model keeps the
//	written unit.  The real code is driven through
//	  * benchunit.Tidy for a value of every IEEE class (unit, scaling, idempotence,
//	    repeated call = cache),
//	  * a one-line benchfmt.Reader input carrying one measurement per value class
//	    (all four Value fields; one unit name for the whole metric), and the
//	    already normalised pair fed back in,
//	  * UnitMetadataMap.Get/GetAssumption/GetBetter with metadata declared under
//	    either spelling and looked up by both,
//	  * benchproc.NewFilter(".unit:...") naming the written and the base unit.
//	Units containing blanks cannot be carried by a benchmark line (they would split
//	the field) and go through Tidy only.  With a benchstat binary as 4th argument
//	the case is instead written to a file (a zero and two ordinary values) and the
//	binary must print exactly one table, headed by the base unit.
//
// record <out.ndjson> <n>
//
//	Random units of up to 30 runes (multi-byte runes, several kinds of blank,
//	invalid bytes) are tidied repeatedly from 8 goroutines (cold and warm cache)
//	and, when they contain no blank, read through benchfmt.Reader with a value of
//	every class.  One event per distinct observation; Units_trace.tla re-evaluates
//	the declarative definition on each.

import (
	"bytes"
	"context"
	"encoding/csv"
	"encoding/json"
	"fmt"
	"hash/fnv"
	"math"
	"math/big"
	"math/rand"
	"os"
	"os/exec"
	"path/filepath"
	"regexp"
	"sort"
	"strconv"
	"strings"
	"sync"
	"time"
	"unicode"
	"unicode/utf8"

	"golang.org/x/perf/benchfmt"
	"golang.org/x/perf/benchmath"
	"golang.org/x/perf/benchproc"
	"golang.org/x/perf/benchunit"
)

func init() { register("units", famUnits) }

// signature of the deviation that Units.tla names KeepRawUnitWhenValueUnchanged
const unSigRaw = "raw-unit-kept-value-unchanged"

type unCase struct {
	U       []string `json:"u"`
	Unit    []string `json:"unit"`
	E       int      `json:"e"`
	K       int      `json:"k"`
	Changed bool     `json:"changed"`
	Blank   bool     `json:"blank"`
	Raw     []string `json:"raw"`
}

type unFail struct {
	sig    string
	detail string
}

type unFails []unFail

func (f *unFails) add(sig, format string, a ...interface{}) {
	*f = append(*f, unFail{sig, fmt.Sprintf(format, a...)})
}

func famUnits(mode string, args []string) error {
	switch mode {
	case "replay":
		if len(args) < 3 {
			return fmt.Errorf("units replay needs <cases> <verdicts> <classes-csv> [benchstat]")
		}
		classes := strings.Split(args[2], ",")
		for _, c := range classes {
			if _, ok := unClassGen[c]; !ok {
				return fmt.Errorf("units: the specification names a value class %q this harness cannot concretise", c)
			}
		}
		bs := ""
		if len(args) > 3 {
			bs = args[3]
		}
		return replayLoop("units", args, func(raw json.RawMessage) Verdict {
			var c unCase
			if err := json.Unmarshal(raw, &c); err != nil {
				return fail("badcase", "%v", err)
			}
			return unGuard(func() Verdict {
				if bs != "" {
					return unBenchstat(&c, bs)
				}
				return unReplay(&c, classes)
			})
		})
	case "record":
		return unRecord(args)
	}
	return fmt.Errorf("units: unknown mode %q", mode)
}

// unGuard runs one case under a watchdog.  Code under test that does not return is
// reported with signature "hang"; the spinning goroutine cannot be stopped, so the
// cases after it are not run (they pass with a note - the check is red anyway).
const unHangTimeout = 20 * time.Second

var unHung bool

func unGuard(f func() Verdict) Verdict {
	if unHung {
		v := pass()
		v.Detail = "not run: an earlier case did not return"
		return v
	}
	ch := make(chan Verdict, 1)
	go func() {
		defer func() {
			if r := recover(); r != nil {
				ch <- Verdict{OK: false, Signature: "panic", Detail: fmt.Sprint("panic: ", r)}
			}
		}()
		ch <- f()
	}()
	select {
	case v := <-ch:
		return v
	case <-time.After(unHangTimeout):
		unHung = true
		return fail("hang", "the case did not return within %v (unit symbols are in the case)", unHangTimeout)
	}
}

// ------------------------------------------------------------ concretisation

// runes standing for the abstract symbol "x" (any character that is neither a
// separator nor one of n, s, M, B) and for " " (any Unicode space)
var unOtherRunes = []string{"x", "o", "p", "é", "µ", "字", "N", "S", "m", "b", "k", "%", "_", "2", "😀", "i"}
var unSpaceRunes = []string{" ", "\t", "\u00a0", "\u2003", "\u3000", "\n", "\r", "\u0085"}

type unConc struct {
	rng    *rand.Rand
	others []string
	spaces []string
}

func newUnConc(c *unCase) *unConc {
	h := fnv.New64a()
	for _, s := range c.U {
		h.Write([]byte(s))
		h.Write([]byte{0})
	}
	return &unConc{rng: newRand(int64(h.Sum64() >> 1))}
}

// str turns a symbol sequence into a Go string; the j-th "x" / " " of the written
// unit and of the expected unit are the same rune (tidying keeps every symbol it
// does not rewrite, in order).
func (cc *unConc) str(syms []string) string {
	var b strings.Builder
	nx, nsp := 0, 0
	for _, s := range syms {
		switch s {
		case "x":
			for len(cc.others) <= nx {
				cc.others = append(cc.others, unOtherRunes[cc.rng.Intn(len(unOtherRunes))])
			}
			b.WriteString(cc.others[nx])
			nx++
		case " ":
			for len(cc.spaces) <= nsp {
				cc.spaces = append(cc.spaces, unSpaceRunes[cc.rng.Intn(len(unSpaceRunes))])
			}
			b.WriteString(cc.spaces[nsp])
			nsp++
		default:
			b.WriteString(s)
		}
	}
	return b.String()
}

// value classes of Units.tla (ValueClasses) -> a float64 of that class
var unClassGen = map[string]func(r *rand.Rand) float64{
	"zero":    func(r *rand.Rand) float64 { return 0 },
	"negzero": func(r *rand.Rand) float64 { return math.Copysign(0, -1) },
	"finite": func(r *rand.Rand) float64 {
		switch r.Intn(6) {
		case 0:
			return float64(1 + r.Intn(9))
		case 1:
			return float64(r.Int63n(1<<40))*float64(1+r.Intn(3)) + 1
		case 2:
			// whole numbers of 17..21 digits, on both sides of 2^63 and 2^64 (written as plain digits)
			return math.Trunc([]float64{9.3e18 + r.Float64()*0.6e18, float64(r.Uint64()), 1e16 + r.Float64()*9e17,
				1.84e19 + r.Float64()*1e18, r.Float64() * 1e21}[r.Intn(5)])
		}
		v := (0.5 + r.Float64()) * math.Pow(10, float64(r.Intn(160)-80))
		if r.Intn(3) == 0 {
			v = -v
		}
		return v
	},
	"sub": func(r *rand.Rand) float64 {
		bits := uint64(1)
		if r.Intn(3) > 0 {
			bits = uint64(r.Int63n(1<<52-1)) + 1
		}
		v := math.Float64frombits(bits)
		if r.Intn(3) == 0 {
			v = -v
		}
		return v
	},
	"big": func(r *rand.Rand) float64 {
		switch r.Intn(3) {
		case 0:
			return 1e308
		case 1:
			return math.MaxFloat64
		}
		return (1 + r.Float64()*0.7) * 1e303 * math.Pow(10, float64(r.Intn(5)))
	},
	"posinf": func(r *rand.Rand) float64 { return math.Inf(1) },
	"neginf": func(r *rand.Rand) float64 { return math.Inf(-1) },
	"nan":    func(r *rand.Rand) float64 { return math.NaN() },
}

// unValueText writes v the way a benchmark line might carry it.
func unValueText(v float64, r *rand.Rand) string {
	switch {
	case math.IsNaN(v):
		return []string{"NaN", "nan"}[r.Intn(2)]
	case math.IsInf(v, 1):
		return []string{"+Inf", "Inf", "inf", "+Infinity"}[r.Intn(4)]
	case math.IsInf(v, -1):
		return []string{"-Inf", "-inf", "-Infinity"}[r.Intn(3)]
	case v == 0 && !math.Signbit(v):
		return []string{"0", "0.0", "0e0", "0.00", "+0"}[r.Intn(5)]
	case v == 0:
		return []string{"-0", "-0.0", "-0e0"}[r.Intn(3)]
	}
	switch r.Intn(3) {
	case 0:
		return strconv.FormatFloat(v, 'e', -1, 64)
	case 1:
		if v == math.Trunc(v) && math.Abs(v) < 1e22 {
			return strconv.FormatFloat(v, 'f', -1, 64)
		}
	}
	return strconv.FormatFloat(v, 'g', -1, 64)
}

// ------------------------------------------------------------ float helpers

func unOrd(f float64) int64 {
	b := int64(math.Float64bits(f) &^ (1 << 63))
	if math.Signbit(f) {
		return -b
	}
	return b
}

var unTen = big.NewInt(10)

// unScaledOK reports whether got is v * 10^e up to `ulps` units in the last place
// (of the correctly rounded product; over- and underflow included).
func unScaledOK(v float64, e int, got float64, ulps int64) bool {
	switch {
	case math.IsNaN(v):
		return math.IsNaN(got)
	case math.IsInf(v, 0):
		return got == v
	case v == 0:
		return got == 0
	case math.IsNaN(got):
		return false
	}
	r := new(big.Rat).SetFloat64(v)
	p := new(big.Rat).SetInt(new(big.Int).Exp(unTen, big.NewInt(int64(unAbs(e))), nil))
	if e < 0 {
		r.Quo(r, p)
	} else {
		r.Mul(r, p)
	}
	want, _ := r.Float64()
	d := unOrd(got) - unOrd(want)
	if d < 0 {
		d = -d
	}
	return d <= ulps
}

func unAbs(x int) int {
	if x < 0 {
		return -x
	}
	return x
}

func unFloatStr(v float64) string {
	return strconv.FormatFloat(v, 'g', -1, 64)
}

// ------------------------------------------------------------ replay

type unVal struct {
	cls    string
	v      float64 // the float the text denotes (strconv.ParseFloat of text)
	text   string
	rawHit bool // the reader showed exactly the as-built behaviour on this value
}

func unHas(list []string, s string) bool {
	for _, x := range list {
		if x == s {
			return true
		}
	}
	return false
}

func unReplay(c *unCase, classes []string) Verdict {
	cc := newUnConc(c)
	written := cc.str(c.U)
	want := cc.str(c.Unit)
	ulps := int64(2)
	if int64(c.K)+1 > ulps {
		ulps = int64(c.K) + 1 // k roundings in the factor, one in the product
	}
	if c.Changed != (want != written) {
		return fail("badcase", "case says changed=%v but %q -> %q", c.Changed, written, want)
	}
	vals := make([]*unVal, 0, len(classes))
	for _, cls := range classes {
		v := unClassGen[cls](cc.rng)
		text := unValueText(v, cc.rng)
		pv, err := strconv.ParseFloat(text, 64)
		if err != nil {
			return fail("harness", "cannot parse own value text %q: %v", text, err)
		}
		vals = append(vals, &unVal{cls: cls, v: pv, text: text})
	}
	var fails unFails

	// 1. benchunit.Tidy: unit, scaling, idempotence, repeated call
	for _, x := range vals {
		tv, tu := benchunit.Tidy(x.v, written)
		if tu != want {
			fails.add("tidy-unit-mismatch", "Tidy(%s, %q) unit = %q, want %q", x.text, written, tu, want)
			break
		}
		if !unScaledOK(x.v, c.E, tv, ulps) {
			fails.add("tidy-scale-mismatch", "Tidy(%s, %q) value = %s, want %s * 10^%d (%d ulp)", x.text, written, unFloatStr(tv), x.text, c.E, ulps)
			break
		}
		tv2, tu2 := benchunit.Tidy(x.v, written)
		if tu2 != tu || !sameFloat(tv, tv2) {
			fails.add("tidy-not-a-function", "second Tidy(%s, %q) = (%s, %q), first (%s, %q)", x.text, written, unFloatStr(tv2), tu2, unFloatStr(tv), tu)
			break
		}
		iv, iu := benchunit.Tidy(tv, tu)
		if iu != tu || !sameFloat(iv, tv) {
			fails.add("tidy-not-idempotent", "Tidy(Tidy(%s, %q)) = (%s, %q), want (%s, %q)", x.text, written, unFloatStr(iv), iu, unFloatStr(tv), tu)
			break
		}
	}

	if !c.Blank && written != "" {
		// 2. reader: one line, one measurement per value class
		res := unReadLine(&fails, written, vals)
		if res != nil {
			unCheckStored(&fails, c, res, written, want, vals, ulps)
			// 5. filters on the record just read
			unCheckFilter(&fails, res, "written", written, vals)
			if want != written {
				unCheckFilter(&fails, res, "base", want, vals)
				unCheckFilterStream(&fails, res, written, want, vals)
			}
		}
		// 3. the already normalised measurement fed back in changes nothing
		if c.Changed {
			tvals := make([]*unVal, 0, len(vals))
			for _, x := range vals {
				tv, _ := benchunit.Tidy(x.v, written)
				text := unFloatStr(tv)
				if math.IsInf(tv, 1) {
					text = "+Inf"
				}
				tvals = append(tvals, &unVal{cls: x.cls, v: tv, text: text})
			}
			if res2 := unReadLine(&fails, want, tvals); res2 != nil {
				for i, x := range tvals {
					v := res2.Values[i]
					if v.Unit != want || !sameFloat(v.Value, x.v) || (v.OrigUnit != "" && (v.OrigUnit != want || !sameFloat(v.OrigValue, x.v))) {
						fails.add("reader-renormalises", "already normalised %q %q read as %s", x.text, want, unValueStr(v))
						break
					}
				}
			}
		}
		// 4. unit metadata under either spelling
		unCheckMetadata(&fails, cc, written, want)
	}

	if len(fails) == 0 {
		return pass()
	}
	// one verdict per case: a deviation that is not the named as-built one wins
	pick := fails[0]
	for _, f := range fails {
		if f.sig != unSigRaw {
			pick = f
			break
		}
	}
	var all []string
	for _, f := range fails {
		all = append(all, f.sig+": "+f.detail)
	}
	v := fail(pick.sig, "%s", pick.detail)
	v.Concrete = written
	v.Want = map[string]interface{}{"unit": want, "e": c.E, "origKept": c.Changed}
	v.Got = all
	return v
}

func unValueStr(v benchfmt.Value) string {
	return fmt.Sprintf("{Value:%s Unit:%q OrigValue:%s OrigUnit:%q}", unFloatStr(v.Value), v.Unit, unFloatStr(v.OrigValue), v.OrigUnit)
}

// unSharedReader (record mode): one Reader for every line of the run, primed with
// more distinct units than its string table holds, so that every new unit is read
// by a reader with a long history.
var unSharedReader *benchfmt.Reader

func unPrimeSharedReader() error {
	var b strings.Builder
	for l := 0; l < 4; l++ {
		b.WriteString("BenchmarkPrime 1")
		for i := 0; i < 300; i++ {
			fmt.Fprintf(&b, " 1 fill%d-ns/op", l*300+i)
		}
		b.WriteString("\n")
	}
	r := benchfmt.NewReader(strings.NewReader(b.String()), "prime.txt")
	n := 0
	for r.Scan() {
		res, ok := r.Result().(*benchfmt.Result)
		if !ok || len(res.Values) != 300 {
			return fmt.Errorf("priming the shared reader: %v", r.Result())
		}
		n++
	}
	if n != 4 || r.Err() != nil {
		return fmt.Errorf("priming the shared reader: %d results, err %v", n, r.Err())
	}
	unSharedReader = r
	return nil
}

// unReadLine reads "BenchmarkX 1 <v1> <unit> <v2> <unit> ..." with the real reader.
func unReadLine(fails *unFails, unit string, vals []*unVal) *benchfmt.Result {
	var b strings.Builder
	b.WriteString("BenchmarkX 1")
	for _, x := range vals {
		b.WriteString(" " + x.text + " " + unit)
	}
	line := b.String()
	r := unSharedReader
	if r != nil {
		r.Reset(strings.NewReader(line+"\n"), "c04.txt")
	} else {
		r = benchfmt.NewReader(strings.NewReader(line+"\n"), "c04.txt")
	}
	if !r.Scan() {
		fails.add("reader-no-record", "no record for %q (err %v)", line, r.Err())
		return nil
	}
	res, ok := r.Result().(*benchfmt.Result)
	if !ok {
		fails.add("reader-rejects-line", "%q read as %T %v", line, r.Result(), r.Result())
		return nil
	}
	if len(res.Values) != len(vals) {
		fails.add("reader-value-count", "%q read with %d values", line, len(res.Values))
		return nil
	}
	return res
}

// unCheckStored compares what the reader stored with the specification's reader
// rule: the stored unit is the tidied unit for every value class, the value is
// scaled by 10^e, the pair as written is kept alongside when the unit changed;
// a unit with nothing to normalise passes through untouched.
func unCheckStored(fails *unFails, c *unCase, res *benchfmt.Result, written, want string, vals []*unVal, ulps int64) {
	for i, x := range vals {
		v := res.Values[i]
		in := fmt.Sprintf("BenchmarkX 1 ... %s %s", x.text, written)
		if c.Changed {
			if v.Unit == written && v.OrigUnit == "" && sameFloat(v.Value, x.v) && unHas(c.Raw, x.cls) {
				// exactly what the as-built model (KeepRawUnitWhenValueUnchanged) predicts
				x.rawHit = true
				fails.add(unSigRaw, "%q (value class %s): stored %s; want Unit %q (with OrigUnit %q) as for every other value of this metric", in, x.cls, unValueStr(v), want, written)
				continue
			}
			if v.Unit != want {
				fails.add("reader-unit-mismatch", "%q (class %s): stored %s; want Unit %q", in, x.cls, unValueStr(v), want)
				continue
			}
			if v.OrigUnit != written || !sameFloat(v.OrigValue, x.v) {
				fails.add("reader-original-not-kept", "%q (class %s): stored %s; want OrigValue %s OrigUnit %q", in, x.cls, unValueStr(v), x.text, written)
				continue
			}
			if !unScaledOK(x.v, c.E, v.Value, ulps) {
				fails.add("reader-scale-mismatch", "%q (class %s): stored %s; want Value = %s * 10^%d (%d ulp)", in, x.cls, unValueStr(v), x.text, c.E, ulps)
			}
			continue
		}
		if v.Unit != written {
			fails.add("reader-passthrough-unit-altered", "%q (class %s): stored %s; nothing to normalise", in, x.cls, unValueStr(v))
			continue
		}
		if !sameFloat(v.Value, x.v) {
			fails.add("reader-passthrough-value-altered", "%q (class %s): stored %s; nothing to normalise", in, x.cls, unValueStr(v))
			continue
		}
		// the statement does not forbid an "original" identical to the pair itself
		if v.OrigUnit != "" && (v.OrigUnit != written || !sameFloat(v.OrigValue, x.v)) {
			fails.add("reader-original-wrong", "%q (class %s): stored %s", in, x.cls, unValueStr(v))
		}
	}
}

// bare filter words: [^-*"():@,][^ ():@,]* and a leading "/" starts a regexp
func unBareWordOK(s string) bool {
	if s == "" || s == "AND" || s == "OR" {
		return false
	}
	for i, r := range s {
		if r == '(' || r == ')' || r == ':' || r == '@' || r == ',' || r == '"' || r == '\\' || unicode.IsSpace(r) {
			return false
		}
		if i == 0 && (r == '-' || r == '*' || r == '/') {
			return false
		}
	}
	return true
}

func unCheckFilter(fails *unFails, res *benchfmt.Result, which, q string, vals []*unVal) {
	forms := []string{strconv.Quote(q)}
	if unBareWordOK(q) {
		forms = append(forms, q)
	}
	// the same unit named by an anchored regular expression
	forms = append(forms, "/^"+strings.ReplaceAll(regexp.QuoteMeta(q), "/", `\/`)+"$/")
	for fi, form := range forms {
		expr := ".unit:" + form
		f, err := benchproc.NewFilter(expr)
		if err != nil {
			if fi == 0 {
				fails.add("filter-rejects-quoted-unit", "NewFilter(%q): %v", expr, err)
			}
			continue // bare-word syntax is C07's business
		}
		m, _ := f.Match(res)
		for i, x := range vals {
			if x.rawHit {
				continue // consequence of the deviation already reported for this value
			}
			if !m.Test(i) {
				fails.add("filter-miss-"+which, "filter %s does not match measurement %s (written %s %s)", expr, unValueStr(res.Values[i]), x.text, res.Values[i].OrigUnit)
				return
			}
		}
	}
}

// unCheckFilterStream applies ONE filter naming the written unit to a stream in which the
// same metric is first written directly in its base unit and then in the written unit:
// the term is judged per measurement (base or written unit), so the first record does not
// match and the second does, whatever the filter has seen before.
func unCheckFilterStream(fails *unFails, res *benchfmt.Result, written, base string, vals []*unVal) {
	if strings.ContainsAny(base, " \t") || base == "" {
		return
	}
	f, err := benchproc.NewFilter(".unit:" + strconv.Quote(written))
	if err != nil {
		return // reported by unCheckFilter
	}
	rd := benchfmt.NewReader(strings.NewReader("BenchmarkY 1 3 "+base+" 4 "+base+"\n"), "c04s.txt")
	if !rd.Scan() {
		return
	}
	first, ok := rd.Result().(*benchfmt.Result)
	if !ok || len(first.Values) != 2 || first.Values[0].Unit != base {
		return // the base unit is itself rewritten or not readable: not this probe's subject
	}
	m1, _ := f.Match(first)
	if m1.Any() {
		fails.add("filter-stream-base-written-matched", "filter .unit:%q matches a measurement written and reported as %q", written, base)
		return
	}
	m2, _ := f.Match(res)
	for i, x := range vals {
		if x.rawHit {
			continue
		}
		if !m2.Test(i) {
			fails.add("filter-stream-miss-written", "filter .unit:%q, after seeing %q written directly, no longer matches %s written as %s", written, base, unValueStr(res.Values[i]), written)
			return
		}
	}
}

func unCheckMetadata(fails *unFails, cc *unConc, written, base string) {
	spell := []string{written}
	if base != written {
		spell = append(spell, base)
	}
	better := []string{"higher", "lower"}[cc.rng.Intn(2)]
	wantBetter := 1
	if better == "lower" {
		wantBetter = -1
	}
	for _, d := range spell {
		in := "Unit " + d + " better=" + better + " assume=exact\n"
		r := benchfmt.NewReader(strings.NewReader(in), "c04u.txt")
		n := 0
		for r.Scan() {
			switch rec := r.Result().(type) {
			case *benchfmt.UnitMetadata:
				n++
			default:
				fails.add("metadata-line-rejected", "%q read as %T %v", in, rec, rec)
				return
			}
		}
		if n != 2 {
			fails.add("metadata-line-rejected", "%q gave %d metadata records", in, n)
			return
		}
		um := r.Units()
		for _, q := range spell {
			g := um.Get(q, "better")
			if g == nil || g.Value != better {
				fails.add("metadata-lookup-miss", "declared %q; Get(%q, better) = %v", strings.TrimSpace(in), q, g)
				return
			}
			if um.GetAssumption(q) != benchmath.AssumeExact {
				fails.add("metadata-lookup-miss", "declared %q; GetAssumption(%q) is not AssumeExact", strings.TrimSpace(in), q)
				return
			}
			if got := um.GetBetter(q); got != wantBetter {
				fails.add("metadata-lookup-miss", "declared %q; GetBetter(%q) = %d", strings.TrimSpace(in), q, got)
				return
			}
		}
	}
}

// ------------------------------------------------------------ benchstat binary

// unBenchstat: a file with a zero and two ordinary measurements of one metric must
// come out of benchstat as ONE table, headed by the base unit.
func unBenchstat(c *unCase, bin string) Verdict {
	if c.Blank || len(c.U) == 0 {
		return pass()
	}
	cc := newUnConc(c)
	written := cc.str(c.U)
	want := cc.str(c.Unit)
	a, b := 1+cc.rng.Intn(9), 10+cc.rng.Intn(90)
	text := fmt.Sprintf("BenchmarkX 1 0 %s\nBenchmarkX 1 %d %s\nBenchmarkX 1 %d %s\n", written, a, written, b, written)
	dir := os.Getenv("VERIF_WORK")
	if dir == "" {
		dir = os.TempDir()
	}
	path := filepath.Join(dir, fmt.Sprintf("c04-bs-%d.txt", os.Getpid()))
	if err := os.WriteFile(path, []byte(text), 0o644); err != nil {
		panic(err)
	}
	defer os.Remove(path)
	var out, errb bytes.Buffer
	cctx, cancel := context.WithTimeout(context.Background(), unHangTimeout*3/4)
	defer cancel()
	cmd := exec.CommandContext(cctx, bin, "-format", "csv", path)
	cmd.Stdout, cmd.Stderr = &out, &errb
	err := cmd.Run()
	if cctx.Err() != nil {
		v := fail("hang", "benchstat did not finish within %v on %q", unHangTimeout*3/4, text)
		v.Concrete = text
		return v
	}
	if err != nil {
		v := fail("benchstat-fails", "benchstat on %q: %v: %s", text, err, errb.String())
		v.Concrete = text
		return v
	}
	var units []string
	cr := csv.NewReader(bytes.NewReader(out.Bytes()))
	cr.FieldsPerRecord = -1
	for {
		rec, err := cr.Read()
		if err != nil {
			break
		}
		if len(rec) >= 3 && rec[0] == "" && rec[2] == "CI" {
			units = append(units, rec[1])
		}
	}
	if len(units) == 1 && units[0] == want {
		return pass()
	}
	sort.Strings(units)
	sig := "benchstat-table-units"
	exp := []string{written, want}
	sort.Strings(exp)
	if c.Changed && unHas(c.Raw, "zero") && len(units) == 2 && units[0] == exp[0] && units[1] == exp[1] {
		sig = unSigRaw // zero under the written unit, the rest under the base unit
	}
	v := fail(sig, "benchstat prints tables for units %q, want one table for %q; input %q", units, want, text)
	v.Concrete = text
	v.Want = []string{want}
	v.Got = units
	return v
}

// ------------------------------------------------------------ record

// tokens of Units_trace.tla: separators and n, s, M, B, e, c ... as themselves,
// blanks as " ", "sp1".., every other rune / invalid byte as an opaque token
var unSpaceTok = map[rune]string{' ': " ", '\t': "sp1", '\u00a0': "sp2", '\u2003': "sp3", '\u3000': "sp4"}

func unTokens(s string) []string {
	out := []string{}
	for i := 0; i < len(s); {
		r, n := utf8.DecodeRuneInString(s[i:])
		switch {
		case r == utf8.RuneError && n == 1:
			out = append(out, fmt.Sprintf("b%02x", s[i]))
		case unSpaceTok[r] != "":
			out = append(out, unSpaceTok[r])
		case unicode.IsSpace(r):
			out = append(out, fmt.Sprintf("spx%x", r)) // not generated; would be rejected by the spec
		case r < 0x80 && r > 0x20 && r != '"' && r != '\\':
			out = append(out, string(r))
		default:
			out = append(out, fmt.Sprintf("r%x", r))
		}
		i += n
	}
	return out
}

var unRecPieces = []string{"ns", "MB", "ns", "MB", "n", "s", "M", "B", "sec", "op", "x", "tons", "MBs", "nsec", "kB", "é", "µs", "字", "😀", "\xff", "%", "_", "2", "bytes", "NS", "mb"}
var unRecSeps = []string{"/", "*", "-", "/", "*", "-", " ", "\t", "\u00a0", "\u2003", "\u3000", "//", "*/", "/*", "--", " /", "- "}

func unRandomUnit(r *rand.Rand, blanks bool) string {
	for {
		var b strings.Builder
		n := 1 + r.Intn(9)
		limit := 30
		if r.Intn(8) == 0 {
			// long units (a dozen or more name parts joined by '-', '/' and '*')
			n = 10 + r.Intn(40)
			limit = 400
		}
		for i := 0; i < n; i++ {
			if i > 0 || r.Intn(6) == 0 {
				for {
					s := unRecSeps[r.Intn(len(unRecSeps))]
					if blanks || strings.IndexFunc(s, unicode.IsSpace) < 0 {
						b.WriteString(s)
						break
					}
				}
			}
			if r.Intn(8) > 0 {
				b.WriteString(unRecPieces[r.Intn(len(unRecPieces))])
			}
		}
		s := b.String()
		if s != "" && utf8.RuneCountInString(s) <= limit {
			return s
		}
	}
}

// unObservedExp derives the decimal exponent from the factor Tidy applied to 1.
func unObservedExp(factor float64) int {
	if !(factor > 0) || math.IsInf(factor, 0) {
		return 99999
	}
	e := int(math.Round(math.Log10(factor)))
	p := new(big.Rat).SetInt(new(big.Int).Exp(unTen, big.NewInt(int64(unAbs(e))), nil))
	if e < 0 {
		p.Inv(p)
	}
	want, _ := p.Float64()
	d := unOrd(factor) - unOrd(want)
	if d < 0 {
		d = -d
	}
	if d > 16 {
		return 99999
	}
	return e
}

// a panic inside the code under test becomes an observation, not a dead recorder
const unPanicMark = "\x00panic: "

func unSafeTidy(v float64, unit string) (tv float64, tu string) {
	defer func() {
		if r := recover(); r != nil {
			tv, tu = math.NaN(), unPanicMark+fmt.Sprint(r)
		}
	}()
	return benchunit.Tidy(v, unit)
}

func unSafeReadLine(fails *unFails, unit string, vals []*unVal) (res *benchfmt.Result) {
	defer func() {
		if r := recover(); r != nil {
			fails.add("panic", "reading a line with unit %q: panic: %v", unit, r)
			res = nil
		}
	}()
	return unReadLine(fails, unit, vals)
}

type unTidyObs struct {
	unit   string
	factor float64
}

func unRecord(args []string) error {
	if len(args) < 2 {
		return fmt.Errorf("units record needs <out> <n>")
	}
	n, err := strconv.Atoi(args[1])
	if err != nil {
		return err
	}
	ew, err := newEventWriter(args[0])
	if err != nil {
		return err
	}
	rng := newRand(4004)
	if err := unPrimeSharedReader(); err != nil {
		return err
	}
	classes := make([]string, 0, len(unClassGen))
	for c := range unClassGen {
		classes = append(classes, c)
	}
	sort.Strings(classes)
	for done := 0; done < n; {
		// a batch of fresh units, tidied from G goroutines in different orders, three rounds each
		batch := make([]string, 0, 40)
		for len(batch) < 40 && done+len(batch) < n {
			batch = append(batch, unRandomUnit(rng, rng.Intn(3) == 0))
		}
		// the batch runs under a watchdog: code under test that does not return is an
		// observation ("hang"), after which nothing more is recorded
		result := make(chan []map[string]interface{}, 1)
		go func() {
			var evs []map[string]interface{}
			emit := func(e map[string]interface{}) { evs = append(evs, e) }
			unRecordBatch(batch, rng, classes, emit)
			result <- evs
		}()
		select {
		case evs := <-result:
			for _, e := range evs {
				ew.emit(e)
			}
		case <-time.After(unHangTimeout):
			ew.emit(map[string]interface{}{"ev": "tidy", "u": []string{}, "unit": []string{"hang"}, "e": 0, "calls": 0,
				"hang": true, "raw": strings.Join(batch, "\n")})
			return ew.close()
		}
		done += len(batch)
	}
	return ew.close()
}

func unRecordBatch(batch []string, rng *rand.Rand, classes []string, emit func(map[string]interface{})) {
	const G = 8
	{
		obs := make([][]unTidyObs, G)
		seeds := make([]int64, G)
		for g := range seeds {
			seeds[g] = rng.Int63()
		}
		var wg sync.WaitGroup
		for g := 0; g < G; g++ {
			wg.Add(1)
			go func(g int) {
				defer wg.Done()
				r := rand.New(rand.NewSource(seeds[g]))
				o := make([]unTidyObs, 0, 3*len(batch))
				for round := 0; round < 3; round++ {
					for _, i := range r.Perm(len(batch)) {
						f, tu := unSafeTidy(1, batch[i])
						o = append(o, unTidyObs{batch[i] + "\x00" + tu, f})
					}
				}
				obs[g] = o
			}(g)
		}
		wg.Wait()
		// distinct observations per unit
		type key struct {
			in, out string
			bits    uint64
		}
		count := map[key]int{}
		for _, o := range obs {
			for _, x := range o {
				p := strings.IndexByte(x.unit, 0)
				count[key{x.unit[:p], x.unit[p+1:], math.Float64bits(x.factor)}]++
			}
		}
		keys := make([]key, 0, len(count))
		for k := range count {
			keys = append(keys, k)
		}
		sort.Slice(keys, func(i, j int) bool {
			if keys[i].in != keys[j].in {
				return keys[i].in < keys[j].in
			}
			if keys[i].out != keys[j].out {
				return keys[i].out < keys[j].out
			}
			return keys[i].bits < keys[j].bits
		})
		for _, k := range keys {
			emit(map[string]interface{}{"ev": "tidy", "u": unTokens(k.in), "unit": unTokens(k.out),
				"e": unObservedExp(math.Float64frombits(k.bits)), "calls": count[k], "raw": k.in,
				"panic": strings.HasPrefix(k.out, unPanicMark)})
		}
		// reader, for the units a line can carry
		for _, unit := range batch {
			if strings.IndexFunc(unit, unicode.IsSpace) >= 0 {
				continue
			}
			factor, tu := unSafeTidy(1, unit)
			if strings.HasPrefix(tu, unPanicMark) {
				continue // already logged as a tidy event
			}
			e := unObservedExp(factor)
			vals := make([]*unVal, 0, len(classes))
			for _, cls := range classes {
				v := unClassGen[cls](rng)
				text := unValueText(v, rng)
				pv, _ := strconv.ParseFloat(text, 64)
				vals = append(vals, &unVal{cls: cls, v: pv, text: text})
			}
			var fails unFails
			res := unSafeReadLine(&fails, unit, vals)
			if res == nil {
				emit(map[string]interface{}{"ev": "read", "u": unTokens(unit), "cls": "none", "unit": []string{"?"}, "orig": "other",
					"e": e, "scaled": false, "asbuilt": false, "raw": unit, "line": fails[0].detail,
					"panic": fails[0].sig == "panic"})
				continue
			}
			for i, x := range vals {
				v := res.Values[i]
				orig := "other"
				if v.OrigUnit == "" {
					orig = "none"
				} else if v.OrigUnit == unit && sameFloat(v.OrigValue, x.v) {
					orig = "written"
				}
				// the as-built reader keeps the written pair when value*factor == value
				asbuilt := v.Unit == unit && v.OrigUnit == "" && sameFloat(v.Value, x.v) && x.v*factor == x.v
				emit(map[string]interface{}{"ev": "read", "u": unTokens(unit), "cls": x.cls, "unit": unTokens(v.Unit), "orig": orig,
					"e": e, "scaled": unScaledOK(x.v, e, v.Value, 12), "asbuilt": asbuilt, "raw": unit,
					"line": "BenchmarkX 1 " + x.text + " " + unit, "stored": unValueStr(v)})
			}
		}
	}
}
