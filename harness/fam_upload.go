package main

// Family "upload" (C20).
//
//	replay, case tag "fault": a model fault scenario (plan, the step at which the single
//	    fault strikes, expected post-state) is concretised into every kind of fault that
//	    can strike at that step - failing fs.FS create / write / close, a file without
//	    benchmark lines, an unexpected form field, the request body cut at the matching
//	    byte offsets (thorough: every byte offset) - and run against the real /upload
//	    handler after an earlier successful upload.  Observed: HTTP status, everything
//	    db.Query("") returns, ListUploads, the file store.
//	replay, case tag "ids": two goroutines calling DB.NewUpload are stepped through a
//	    model interleaving of read / insert / commit (and day changes) by the verif hook
//	    gate; the observed outcomes are logged as events for Upload_idtrace.tla.

import (
	"bytes"
	"context"
	"database/sql"
	"encoding/json"
	"errors"
	"fmt"
	"io"
	"mime/multipart"
	"net/http"
	"net/http/httptest"
	"os"
	"path/filepath"
	"regexp"
	"sort"
	"strings"
	"sync"
	"sync/atomic"
	"time"

	"golang.org/x/perf/storage"
	sapp "golang.org/x/perf/storage/app"
	"golang.org/x/perf/storage/db"
	_ "golang.org/x/perf/storage/db/sqlite3"
	"golang.org/x/perf/storage/fs"
	"golang.org/x/perf/storage/fs/local"
)

func init() { register("upload", famUpload) }

type upFaultAt struct {
	Phase string `json:"phase"`
	File  int    `json:"file"`
	Rec   int    `json:"rec"`
}

type upCase struct {
	ID         int       `json:"id"`
	Tag        string    `json:"tag"`
	Files      int       `json:"files"`
	Recs       int       `json:"recs"`
	Fault      upFaultAt `json:"fault"`
	OK         bool      `json:"ok"`
	Visible    [][]int   `json:"visible"`
	Stored     []int     `json:"stored"`
	FailedFile int       `json:"failedfile"`
	Scaled     bool      `json:"scaled"`
	// big
	Kind  string `json:"kind"`  // metric | config | name | namekv | noise | bigfile
	Len   int    `json:"len"`   // line length (metric, noise), value length (config, name, namekv), file size in bytes (bigfile)
	Pos   int    `json:"pos"`   // which file of the upload (0-based) is the large one
	Local bool   `json:"local"` // file store on the local file system (stored bytes are compared)
	// ids
	Steps []struct {
		U string `json:"u"`
		A string `json:"a"`
	} `json:"steps"`
}

// ---------------------------------------------------------------- faulty file store

var errInjected = errors.New("injected storage fault")

type upFS struct {
	inner       fs.FS
	mu          sync.Mutex
	creates     int
	failCreate  int // fail the n-th NewWriter (1-based), 0 = never
	failWriteOf int // file index (1-based create order) whose writes fail
	failWriteN  int // ... at the n-th Write call of that file
	failCloseOf int // file whose Close fails
	closedErr   []string
	fired       bool        // an injected fault was actually delivered
	writesBy    map[int]int // Write calls per file (create order)
}

type upWriter struct {
	fs.Writer
	parent *upFS
	idx    int
	writes int
}

func (f *upFS) NewWriter(ctx context.Context, name string, meta map[string]string) (fs.Writer, error) {
	f.mu.Lock()
	f.creates++
	n := f.creates
	f.mu.Unlock()
	if n == f.failCreate {
		f.fired = true
		return nil, errInjected
	}
	w, err := f.inner.NewWriter(ctx, name, meta)
	if err != nil {
		return nil, err
	}
	return &upWriter{Writer: w, parent: f, idx: n}, nil
}

func (w *upWriter) Write(p []byte) (int, error) {
	w.writes++
	w.parent.mu.Lock()
	if w.parent.writesBy == nil {
		w.parent.writesBy = map[int]int{}
	}
	w.parent.writesBy[w.idx]++
	w.parent.mu.Unlock()
	if w.idx == w.parent.failWriteOf && w.writes == w.parent.failWriteN {
		w.parent.fired = true
		return 0, errInjected
	}
	return w.Writer.Write(p)
}

func (w *upWriter) Close() error {
	if w.idx == w.parent.failCloseOf {
		// a failing close must not leave the file behind either
		w.parent.fired = true
		w.Writer.CloseWithError(errInjected)
		return errInjected
	}
	return w.Writer.Close()
}

// ---------------------------------------------------------------- app under test

type upApp struct {
	db   *db.DB
	mem  *fs.MemFS
	dir  string // local FS root ("" = MemFS)
	ffs  *upFS
	mux  *http.ServeMux
	dsn  string
	path string
}

var upCounter int64

func upNewApp(useLocal bool, fileDB bool) (*upApp, error) {
	n := atomic.AddInt64(&upCounter, 1)
	a := &upApp{}
	work := os.Getenv("VERIF_WORK")
	if work == "" {
		work = os.TempDir()
	}
	if fileDB {
		a.path = filepath.Join(work, fmt.Sprintf("c20-%d-%d.db", os.Getpid(), n))
		os.Remove(a.path)
		a.dsn = "file:" + a.path + "?_busy_timeout=150"
	} else {
		a.dsn = fmt.Sprintf("file:c20-%d-%d?mode=memory&cache=shared", os.Getpid(), n)
	}
	d, err := db.OpenSQL("sqlite3", a.dsn)
	if err != nil {
		return nil, err
	}
	a.db = d
	var inner fs.FS
	if useLocal {
		a.dir, err = os.MkdirTemp(work, "c20fs")
		if err != nil {
			return nil, err
		}
		inner = local.NewFS(a.dir)
	} else {
		a.mem = fs.NewMemFS()
		inner = a.mem
	}
	a.ffs = &upFS{inner: inner}
	app := &sapp.App{DB: d, FS: a.ffs, Auth: func(http.ResponseWriter, *http.Request) (string, error) { return "user", nil }}
	a.mux = http.NewServeMux()
	app.RegisterOnMux(a.mux)
	return a, nil
}

func (a *upApp) close() {
	a.db.Close()
	if a.path != "" {
		os.Remove(a.path)
		os.Remove(a.path + "-journal")
	}
	if a.dir != "" {
		os.RemoveAll(a.dir)
	}
}

func (a *upApp) post(contentType string, body io.Reader) (int, string) {
	req := httptest.NewRequest("POST", "/upload", body)
	req.Header.Set("Content-Type", contentType)
	rec := httptest.NewRecorder()
	a.mux.ServeHTTP(rec, req)
	return rec.Code, rec.Body.String()
}

// files lists stored files (relative names) with their content.
func (a *upApp) files() (map[string]string, error) {
	out := map[string]string{}
	if a.mem != nil {
		for _, f := range a.mem.Files() {
			out[f] = "" // MemFS does not expose content
		}
		return out, nil
	}
	err := filepath.Walk(a.dir, func(p string, info os.FileInfo, err error) error {
		if err != nil || info.IsDir() {
			return err
		}
		b, err := os.ReadFile(p)
		if err != nil {
			return err
		}
		rel, _ := filepath.Rel(a.dir, p)
		out[filepath.ToSlash(rel)] = string(b)
		return nil
	})
	return out, err
}

// records returns "upload-part|name" for every record any query can return.
func (a *upApp) records() ([]string, error) {
	q := a.db.Query("")
	defer q.Close()
	var out []string
	for q.Next() {
		r := q.Result()
		out = append(out, r.Labels["upload-part"]+"|"+r.NameLabels["name"])
	}
	if err := q.Err(); err != nil {
		return nil, err
	}
	sort.Strings(out)
	return out, nil
}

func (a *upApp) listed() (map[string]int, error) {
	ul := a.db.ListUploads("", nil, 0)
	defer ul.Close()
	out := map[string]int{}
	for ul.Next() {
		i := ul.Info()
		out[i.UploadID] = i.Count
	}
	return out, ul.Err()
}

// ---------------------------------------------------------------- bodies

type upBody struct {
	data     []byte
	ctype    string
	partHdr  []int   // offset where the headers of file part f begin (boundary line), 0-based f
	content  []int   // offset where the content of file part f begins
	recEnd   [][]int // recEnd[f][j] = offset just after the j-th record line (j=0: start of content)
	closing  int     // offset where the closing delimiter begins
	tailAt   []int   // offsets where the trailing form fields begin
	nameOf   map[string]bool
}

// upBuildBody builds the multipart body for a plan. badFile (1-based, 0 = none) gets
// content without any benchmark line; extraField (1-based position among parts, 0 = none)
// inserts an unexpected form field before that file part.
// upBuildBodyTail is upBuildBody followed by the given form fields (name=value) after the
// last file, e.g. commit=1 then abort=1 as storage.Client sends when Commit fails half way.
func upBuildBodyTail(files, recs, salt int, tail ...string) *upBody {
	return upBuildBodyX(files, recs, 0, 0, salt, tail)
}

func upBuildBody(files, recs, badFile, extraField int, salt int) *upBody {
	return upBuildBodyX(files, recs, badFile, extraField, salt, nil)
}

// upUnnamedFrom: files with an index >= this are sent without a file name (0 = all named).
var upUnnamedFrom = 0

func upBuildBodyX(files, recs, badFile, extraField int, salt int, tail []string) *upBody {
	var buf bytes.Buffer
	mw := multipart.NewWriter(&buf)
	mw.SetBoundary(fmt.Sprintf("verifboundary%dx", salt))
	b := &upBody{ctype: mw.FormDataContentType(), nameOf: map[string]bool{}}
	for f := 1; f <= files; f++ {
		if extraField == f {
			w, _ := mw.CreateFormField("bogus")
			w.Write([]byte("x"))
		}
		b.partHdr = append(b.partHdr, buf.Len())
		fname := fmt.Sprintf("f%d.txt", f)
		if upUnnamedFrom > 0 && f >= upUnnamedFrom {
			fname = ""
		}
		w, _ := mw.CreateFormFile("file", fname)
		b.content = append(b.content, buf.Len())
		ends := []int{buf.Len()}
		fmt.Fprintf(w, "goos: linux\nkey%d: v%d\n", f, salt)
		if badFile == f {
			fmt.Fprintf(w, "this file has\nno benchmark lines at all\nPASS\n")
		} else {
			for j := 1; j <= recs; j++ {
				// distinct labels per record so that records are not coalesced
				fmt.Fprintf(w, "rec: r%d\n", j)
				name := fmt.Sprintf("F%dR%d", f, j)
				fmt.Fprintf(w, "Benchmark%s 1 %d ns/op\n", name, 10*f+j)
				ends = append(ends, buf.Len())
			}
		}
		b.recEnd = append(b.recEnd, ends)
	}
	if extraField == files+1 {
		w, _ := mw.CreateFormField("bogus")
		w.Write([]byte("x"))
	}
	b.tailAt = nil
	for _, f := range tail {
		kv := strings.SplitN(f, "=", 2)
		b.tailAt = append(b.tailAt, buf.Len())
		w, _ := mw.CreateFormField(kv[0])
		w.Write([]byte(kv[1]))
	}
	pre := buf.Len()
	mw.Close()
	b.data = buf.Bytes()
	// the closing delimiter is "\r\n--boundary--\r\n"; it begins at pre
	b.closing = pre
	return b
}

// ---------------------------------------------------------------- fault scenarios

type upErrReader struct{ err error }

func (r upErrReader) Read([]byte) (int, error) { return 0, r.err }

type upVariant struct {
	name  string
	setup func(a *upApp)
	body  func() (string, io.Reader)
}

func upReplayFault(c *upCase) Verdict {
	salt := c.ID
	full := upBuildBody(c.Files, c.Recs, 0, 0, salt)
	// A request body cut off by the connection: net/http's body reader reports
	// io.ErrUnexpectedEOF (Content-Length not reached / chunked stream not terminated),
	// which is what the handler sees here after n bytes.
	cut := func(n int) func() (string, io.Reader) {
		return func() (string, io.Reader) {
			return full.ctype, io.MultiReader(bytes.NewReader(full.data[:n]), upErrReader{io.ErrUnexpectedEOF})
		}
	}
	whole := func() (string, io.Reader) { return full.ctype, bytes.NewReader(full.data) }
	f := c.Fault.File
	var vs []upVariant
	switch c.Fault.Phase {
	case "none":
		if c.Files >= 2 && !c.Scaled {
			// a named file followed by unnamed ones: server labels are per file
			vs = append(vs, upVariant{"no-fault-unnamed-after-named", nil, func() (string, io.Reader) {
				upUnnamedFrom = 2
				defer func() { upUnnamedFrom = 0 }()
				b := upBuildBody(c.Files, c.Recs, 0, 0, salt)
				return b.ctype, bytes.NewReader(b.data)
			}})
		}
		vs = append(vs, upVariant{"no-fault", nil, whole},
			upVariant{"no-fault-with-commit-field", nil, func() (string, io.Reader) {
				b := upBuildBodyTail(c.Files, c.Recs, salt, "commit=1")
				return b.ctype, bytes.NewReader(b.data)
			}})
		// a body cut after the closing delimiter is complete is not a fault
	case "open": // before file f is created
		vs = append(vs,
			upVariant{"create-error", func(a *upApp) { a.ffs.failCreate = f + 1 }, whole}, // +1: the earlier upload created one file
			upVariant{"unexpected-field", nil, func() (string, io.Reader) {
				b := upBuildBody(c.Files, c.Recs, 0, f, salt)
				return b.ctype, bytes.NewReader(b.data)
			}},
			// inside the headers of part f: the boundary line that ends the previous
			// part has been sent, the new file has not been created yet
			upVariant{"cut-inside-part-headers", nil, cut(full.content[f-1] - 10)},
		)
		if f == 1 {
			vs = append(vs, upVariant{"cut-empty-body", nil, cut(0)})
		}
	case "file": // created, header not yet written
		vs = append(vs, upVariant{"header-write-error", func(a *upApp) { a.ffs.failWriteOf, a.ffs.failWriteN = f+1, 1 }, whole})
		// "a storage write error at any point": every Write call this file receives in a fault-free
		// run (metadata lines, the separator, each chunk of content), one at a time
		nw, err := upCountWrites(full, f+1, salt)
		if err != nil {
			return fail("harness", "%v", err)
		}
		for k := 2; k <= nw; k++ {
			k := k
			vs = append(vs, upVariant{fmt.Sprintf("write-error-%d-of-%d", k, nw), func(a *upApp) { a.ffs.failWriteOf, a.ffs.failWriteN = f+1, k }, whole})
		}
	case "body":
		j := c.Fault.Rec
		ends := full.recEnd[f-1]
		if j == 0 {
			vs = append(vs, upVariant{"no-benchmark-lines", nil, func() (string, io.Reader) {
				b := upBuildBody(c.Files, c.Recs, f, 0, salt)
				return b.ctype, bytes.NewReader(b.data)
			}})
		}
		if j < c.Recs {
			vs = append(vs,
				upVariant{"cut-after-record", nil, cut(ends[j])},
				upVariant{"cut-mid-line", nil, cut((ends[j] + ends[j+1]) / 2)},
			)
		} else {
			vs = append(vs,
				upVariant{"close-error", func(a *upApp) { a.ffs.failCloseOf = f + 1 }, whole},
				upVariant{"cut-at-end-of-content", nil, cut(ends[j])},
			)
		}
		if j == 0 {
			// the first write after the header (5 metadata lines + a blank line) is the
			// tee of the first chunk of content, before any record has been parsed
			vs = append(vs, upVariant{"content-write-error", func(a *upApp) { a.ffs.failWriteOf, a.ffs.failWriteN = f+1, 7 }, whole})
		}
	case "closed-all": // every file stored, nothing committed yet
		tailBody := func(tail ...string) func() (string, io.Reader) {
			return func() (string, io.Reader) {
				b := upBuildBodyTail(c.Files, c.Recs, salt, tail...)
				return b.ctype, bytes.NewReader(b.data)
			}
		}
		vs = append(vs,
			upVariant{"unexpected-field-after-last-file", nil, tailBody("bogus=x")},
			// the client asked to commit, then gave up (what storage.Client does when Commit fails half way)
			upVariant{"abort-after-commit-field", nil, tailBody("commit=1", "abort=1")},
			upVariant{"unexpected-field-after-commit-field", nil, tailBody("commit=1", "bogus=x")},
			upVariant{"cut-after-commit-field", nil, func() (string, io.Reader) {
				b := upBuildBodyTail(c.Files, c.Recs, salt, "commit=1")
				return b.ctype, io.MultiReader(bytes.NewReader(b.data[:b.closing]), upErrReader{io.ErrUnexpectedEOF})
			}},
		)
	default:
		return fail("badcase", "unknown fault phase %q", c.Fault.Phase)
	}
	if thorough() && c.Fault.Phase == "none" && !c.Scaled {
		// every byte offset before the closing delimiter is complete must fail cleanly
		for n := 0; n < len(full.data)-4; n++ {
			vs = append(vs, upVariant{fmt.Sprintf("cut-at-%d", n), nil, cut(n)})
		}
	}
	for vi, v := range vs {
		isCut := strings.HasPrefix(v.name, "cut-at-")
		for _, useLocal := range []bool{false, true} {
			if useLocal && !thorough() && vi%2 == 1 {
				continue
			}
			if isCut && useLocal {
				continue
			}
			exp := c
			if isCut {
				// an arbitrary cut: either outcome, but all or nothing (decided in upRunVariant)
				exp = &upCase{Files: c.Files, Recs: c.Recs, OK: false, FailedFile: -1, Visible: c.Visible}
			}
			if ver := upRunVariant(exp, v, useLocal, salt, isCut); !ver.OK {
				ver.Detail = fmt.Sprintf("fault %+v variant %s localfs=%v: %s", c.Fault, v.name, useLocal, ver.Detail)
				return ver
			}
		}
	}
	return pass()
}

func upAllVisible(files, recs int) [][]int {
	var v [][]int
	for f := 1; f <= files; f++ {
		for r := 1; r <= recs; r++ {
			v = append(v, []int{f, r})
		}
	}
	return v
}

// upCountWrites runs the upload without any fault (after the same earlier upload as
// upRunVariant) and returns how many Write calls the file with the given create index got.
func upCountWrites(full *upBody, idx int, salt int) (int, error) {
	a, err := upNewApp(false, false)
	if err != nil {
		return 0, err
	}
	defer a.close()
	early := upBuildBody(1, 2, 0, 0, salt+7777)
	if code, resp := a.post(early.ctype, bytes.NewReader(early.data)); code != 200 {
		return 0, fmt.Errorf("earlier upload failed: %d %s", code, resp)
	}
	if code, resp := a.post(full.ctype, bytes.NewReader(full.data)); code != 200 {
		return 0, fmt.Errorf("fault-free upload failed: %d %s", code, resp)
	}
	a.ffs.mu.Lock()
	defer a.ffs.mu.Unlock()
	return a.ffs.writesBy[idx], nil
}

var upIDRe = regexp.MustCompile(`^[0-9]{8}\.[0-9]+$`)

func upRunVariant(c *upCase, v upVariant, useLocal bool, salt int, anyStored bool) Verdict {
	a, err := upNewApp(useLocal, false)
	if err != nil {
		return fail("harness", "%v", err)
	}
	defer a.close()
	// an earlier, successful upload
	early := upBuildBody(1, 2, 0, 0, salt+7777)
	code, resp := a.post(early.ctype, bytes.NewReader(early.data))
	if code != 200 {
		return fail("harness", "earlier upload failed: %d %s", code, resp)
	}
	var st struct {
		UploadID string   `json:"uploadid"`
		FileIDs  []string `json:"fileids"`
	}
	if err := json.Unmarshal([]byte(resp), &st); err != nil || !upIDRe.MatchString(st.UploadID) {
		return fail("id-format", "earlier upload: status %q", resp)
	}
	earlyID := st.UploadID
	earlyRecs, err := a.records()
	if err != nil {
		return fail("harness", "%v", err)
	}
	if len(earlyRecs) != 2 {
		return fail("harness", "earlier upload shows %d records, want 2", len(earlyRecs))
	}
	if v.setup != nil {
		v.setup(a)
	}
	ctype, body := v.body()
	code, resp = a.post(ctype, body)
	ok := code == 200
	if v.setup != nil && !a.ffs.fired && ok {
		// the storage fault was never delivered (the server wrote this file with fewer calls than
		// the position chosen): a fault-free upload, which must then be complete
		all := make([]int, c.Files)
		for i := range all {
			all[i] = i + 1
		}
		c = &upCase{Files: c.Files, Recs: c.Recs, OK: true, Visible: upAllVisible(c.Files, c.Recs), Stored: all}
	}
	if anyStored && ok {
		// a cut so late that the server had everything: then all of it must be there
		c = &upCase{Files: c.Files, Recs: c.Recs, OK: true, Visible: c.Visible}
	}
	if ok && !c.OK && v.setup != nil && a.ffs.fired && strings.Contains(v.name, "write-error") {
		return fail("storage-write-error-ignored", "a Write call of the file store returned an error and the upload was nevertheless accepted: HTTP %d %q", code, strings.TrimSpace(resp))
	}
	if ok != c.OK {
		return fail("status", "HTTP %d %q, want success=%v", code, strings.TrimSpace(resp), c.OK)
	}
	recs, err := a.records()
	if err != nil {
		return fail("harness", "query after the upload: %v", err)
	}
	// expected records
	want := append([]string(nil), earlyRecs...)
	newID := ""
	if ok {
		if err := json.Unmarshal([]byte(resp), &st); err != nil || !upIDRe.MatchString(st.UploadID) {
			return fail("id-format", "upload status %q", resp)
		}
		newID = st.UploadID
		if newID == earlyID {
			return fail("id-reused", "upload ID %s reused", newID)
		}
		if !(upIDLess(earlyID, newID)) {
			return fail("id-order", "upload ID %s does not follow %s", newID, earlyID)
		}
		for _, fr := range c.Visible {
			want = append(want, fmt.Sprintf("%s/%d|F%dR%d", newID, fr[0]-1, fr[0], fr[1]))
		}
	}
	sort.Strings(want)
	if strings.Join(recs, ",") != strings.Join(want, ",") {
		sig := "records-visible-after-failure"
		if ok {
			sig = "records-missing-after-success"
		} else if len(recs) < len(want) {
			sig = "earlier-upload-damaged"
		}
		return Verdict{OK: false, Signature: sig, Detail: fmt.Sprintf("queryable records %v, want %v", recs, want)}
	}
	if ok {
		// every record must be queryable through every kind of label it carries
		count := func(q string) (int, error) {
			qq := a.db.Query(q)
			defer qq.Close()
			n := 0
			for qq.Next() {
				n++
			}
			return n, qq.Err()
		}
		type probe struct {
			q    string
			want int
		}
		probes := []probe{{"upload:" + newID, len(c.Visible)}, {"upload:" + newID + " goos:linux", len(c.Visible)}, {"upload:" + newID + " by:user", len(c.Visible)}}
		for f := 1; f <= c.Files; f++ {
			named := c.Recs
			if v.name == "no-fault-unnamed-after-named" && f >= 2 {
				named = 0 // an unnamed file carries no upload-file label at all
			}
			probes = append(probes,
				probe{fmt.Sprintf("upload-part:%s/%d", newID, f-1), c.Recs},
				probe{fmt.Sprintf("upload:%s upload-file:f%d.txt", newID, f), named},
				probe{fmt.Sprintf("upload:%s name:F%dR%d", newID, f, c.Recs), 1},
				probe{fmt.Sprintf("upload:%s key%d:v%d rec:r%d", newID, f, salt, c.Recs), 1},
				probe{fmt.Sprintf("upload:%s name:F%dR1", newID, f), 1},
			)
		}
		for _, p := range probes {
			n, err := count(p.q)
			if err != nil {
				return fail("harness", "query %q: %v", p.q, err)
			}
			if n != p.want {
				return Verdict{OK: false, Signature: "records-not-queryable-by-label", Detail: fmt.Sprintf("query %q returns %d records, want %d (upload of %d files x %d records)", p.q, n, p.want, c.Files, c.Recs)}
			}
		}
	}
	listed, err := a.listed()
	if err != nil {
		return fail("harness", "listing: %v", err)
	}
	wantListed := map[string]int{earlyID: 2}
	if ok {
		wantListed[newID] = len(c.Visible)
	}
	if len(listed) != len(wantListed) {
		return fail("listing", "listing shows %v, want %v", listed, wantListed)
	}
	for k, n := range wantListed {
		if listed[k] != n {
			return fail("listing", "listing shows %v, want %v", listed, wantListed)
		}
	}
	// a listing limited to one upload shows the newest upload that HAS records: an upload that failed
	// takes no place in it
	{
		ul := a.db.ListUploads("", nil, 1)
		var ids []string
		for ul.Next() {
			ids = append(ids, ul.Info().UploadID)
		}
		lerr := ul.Err()
		ul.Close()
		wantTop := earlyID
		if ok && len(c.Visible) > 0 {
			wantTop = newID
		}
		if lerr != nil || len(ids) != 1 || ids[0] != wantTop {
			return fail("listing-limit", "listing with limit 1 shows %v (err %v), want [%s]", ids, lerr, wantTop)
		}
	}
	// file store
	files, err := a.files()
	if err != nil {
		return fail("harness", "%v", err)
	}
	var stored []string
	for f := range files {
		if !strings.HasPrefix(f, "uploads/"+earlyID+"/") {
			stored = append(stored, f)
		}
	}
	sort.Strings(stored)
	if _, okf := files["uploads/"+earlyID+"/0.txt"]; !okf {
		return fail("earlier-upload-damaged", "the earlier upload's file is gone: %v", files)
	}
	if anyStored {
		// arbitrary cut offset: only the all-or-nothing part is prescribed (records above);
		// stored files must at least be complete files of this upload
		return pass()
	}
	// the failed upload got an ID too; find it from the stored names or skip
	var wantStored []string
	for _, f := range c.Stored {
		wantStored = append(wantStored, fmt.Sprintf("/%d.txt", f-1))
	}
	if len(stored) != len(wantStored) {
		sig := "stored-files"
		if !ok && len(stored) > len(wantStored) {
			sig = "failed-file-not-removed"
		}
		return Verdict{OK: false, Signature: sig, Detail: fmt.Sprintf("stored files of this upload %v, want parts %v", stored, wantStored)}
	}
	for i, s := range stored {
		if !strings.HasSuffix(s, wantStored[i]) {
			return fail("stored-files", "stored files of this upload %v, want parts %v", stored, wantStored)
		}
		if content := files[s]; a.dir != "" {
			hdr, _, found := strings.Cut(content, "\n\n")
			if !found || !strings.Contains("\n"+hdr, "\nupload: ") || !strings.Contains("\n"+hdr, "\nupload-part: ") || !strings.Contains(content, "\n\ngoos: linux\n") {
				return fail("stored-header", "stored file %s lacks the server's metadata header: %q", s, content)
			}
		}
	}
	return pass()
}

func upIDLess(a, b string) bool {
	var d1, n1, d2, n2 int
	fmt.Sscanf(a, "%d.%d", &d1, &n1)
	fmt.Sscanf(b, "%d.%d", &d2, &n2)
	return d1 < d2 || (d1 == d2 && n1 < n2)
}

// ---------------------------------------------------------------- ID interleavings

type upIDEvent struct {
	Ev   string `json:"ev"`
	U    string `json:"u"`
	OK   bool   `json:"ok"`
	Day  int    `json:"day"`
	N    int    `json:"n"`
	Err  string `json:"err,omitempty"`
	Case int    `json:"case"`
}

var upBaseDay = time.Date(2031, 3, 14, 12, 0, 0, 0, time.UTC)

func upParseID(id string) (day, n int, ok bool) {
	if id == "" {
		return 0, 0, true
	}
	if !upIDRe.MatchString(id) {
		return 0, 0, false
	}
	var d int
	fmt.Sscanf(id, "%d.%d", &d, &n)
	switch d {
	case 20310314:
		return 1, n, true
	case 20310315:
		return 2, n, true
	}
	return 0, 0, false
}

// upReplayIDs drives the interleaving and returns the observed events.
func upReplayIDs(c *upCase) ([]upIDEvent, Verdict) {
	a, err := upNewApp(false, true)
	if err != nil {
		return nil, fail("harness", "%v", err)
	}
	defer a.close()
	defer func() { db.VerifHook = nil; db.VerifSetNow(nil) }()
	var dayOff int32
	db.VerifSetNow(func() time.Time { return upBaseDay.Add(time.Duration(atomic.LoadInt32(&dayOff)) * 24 * time.Hour) })

	type arrival struct {
		point, id string
		done      bool
		res       string
		err       error
	}
	arrive := map[string]chan arrival{"u1": make(chan arrival, 4), "u2": make(chan arrival, 4)}
	resume := map[string]chan struct{}{"u1": make(chan struct{}, 4), "u2": make(chan struct{}, 4)}
	var cur atomic.Value
	cur.Store("")
	db.VerifHook = func(point, id string) {
		u := cur.Load().(string)
		arrive[u] <- arrival{point: point, id: id}
		<-resume[u]
	}
	started := map[string]bool{}
	finished := map[string]bool{}
	var events []upIDEvent
	wait := func(u string) (arrival, bool) {
		select {
		case ar := <-arrive[u]:
			return ar, true
		case <-time.After(10 * time.Second):
			return arrival{}, false
		}
	}
	for _, s := range c.Steps {
		if s.A == "nextday" {
			atomic.AddInt32(&dayOff, 1)
			events = append(events, upIDEvent{Ev: "nextday", Case: c.ID})
			continue
		}
		u := s.U
		if finished[u] {
			// the real code already gave up at an earlier step (e.g. database is locked)
			continue
		}
		cur.Store(u)
		if !started[u] {
			started[u] = true
			go func(u string) {
				up, err := a.db.NewUpload(context.Background())
				res := ""
				if err == nil {
					res = up.ID
					up.Abort()
				}
				arrive[u] <- arrival{done: true, res: res, err: err}
			}(u)
		} else {
			resume[u] <- struct{}{}
		}
		ar, ok := wait(u)
		if !ok {
			return events, fail("hang", "uploader %s did not reach its next step within 10s (step %s)", u, s.A)
		}
		ev := upIDEvent{Ev: s.A, U: u, Case: c.ID}
		switch {
		case ar.done:
			finished[u] = true
			if ar.err != nil {
				ev.OK, ev.Err = false, ar.err.Error()
			} else {
				// returned without passing the expected hook point
				return events, fail("hook-order", "uploader %s returned %q at step %s without reaching the hook", u, ar.res, s.A)
			}
		default:
			want := map[string]string{"read": "newupload.read", "insert": "newupload.inserted", "commit": "newupload.committed"}[s.A]
			if ar.point != want {
				return events, fail("hook-order", "uploader %s arrived at %s, want %s", u, ar.point, want)
			}
			d, n, okid := upParseID(ar.id)
			if !okid {
				return events, fail("id-format", "uploader %s: ID %q at %s is not YYYYMMDD.N", u, ar.id, ar.point)
			}
			ev.OK, ev.Day, ev.N = true, d, n
			if s.A == "commit" {
				// let it finish (BeginTx of the records transaction) and return
				resume[u] <- struct{}{}
				fin, ok := wait(u)
				if !ok || !fin.done {
					return events, fail("hang", "uploader %s did not return after commit", u)
				}
				finished[u] = true
				if fin.err != nil {
					ev.OK, ev.Err = false, fin.err.Error()
				} else if fin.res != ar.id {
					return events, fail("id-mismatch", "uploader %s returned %q after committing %q", u, fin.res, ar.id)
				}
			}
		}
		events = append(events, ev)
	}
	// release whoever is still parked (schedule ended): abort them
	for u := range started {
		if !finished[u] {
			cur.Store(u)
			for i := 0; i < 4 && !finished[u]; i++ {
				resume[u] <- struct{}{}
				ar, ok := wait(u)
				if !ok {
					return events, fail("hang", "uploader %s did not finish", u)
				}
				if ar.done {
					finished[u] = true
				}
			}
		}
	}
	return events, pass()
}

// ---------------------------------------------------------------- in-flight observations

// upInflight: concurrent storage.Client uploads against a real HTTP server on a
// file-backed database while an observer keeps querying; events for Upload_vis.tla.
// args: out.ndjson ntraces
func upInflight(args []string) error {
	if len(args) < 2 {
		return fmt.Errorf("inflight <out.ndjson> <n>")
	}
	var n int
	fmt.Sscanf(args[1], "%d", &n)
	ew, err := newEventWriter(args[0])
	if err != nil {
		return err
	}
	for t := 0; t < n; t++ {
		rng := newRand(int64(9100 + t))
		a, err := upNewApp(false, true)
		if err != nil {
			return err
		}
		srv := httptest.NewServer(a.mux)
		cl := &storage.Client{BaseURL: srv.URL, HTTPClient: srv.Client()}
		var mu sync.Mutex
		emit := func(ev map[string]interface{}) {
			ev["t"] = t
			ew.emit(ev)
		}
		mu.Lock()
		emit(map[string]interface{}{"ev": "reset"})
		mu.Unlock()
		observe := func() {
			// one query; the snapshot is taken by the database, the event is logged afterwards,
			// so client events that happen in between could make the observation look stale:
			// the client side therefore takes the same lock around its phase changes
			mu.Lock()
			defer mu.Unlock()
			q := a.db.Query("")
			counts := map[string]int{}
			for q.Next() {
				counts[q.Result().Labels["who"]]++
			}
			err := q.Err()
			q.Close()
			if err != nil {
				return // database busy: no observation
			}
			seen := [][]interface{}{}
			var ks []string
			for k := range counts {
				ks = append(ks, k)
			}
			sort.Strings(ks)
			for _, k := range ks {
				seen = append(seen, []interface{}{k, counts[k]})
			}
			emit(map[string]interface{}{"ev": "observe", "seen": seen})
		}
		nup := 2 + rng.Intn(3)
		var wg sync.WaitGroup
		stop := make(chan struct{})
		obsDone := make(chan struct{})
		go func() {
			defer close(obsDone)
			for {
				select {
				case <-stop:
					observe()
					return
				default:
					observe()
					time.Sleep(time.Duration(200+rng.Intn(300)) * time.Microsecond)
				}
			}
		}()
		type plan struct {
			who    string
			files  int
			recs   int
			abort  bool
			delay  time.Duration
		}
		var plans []plan
		for i := 0; i < nup; i++ {
			plans = append(plans, plan{who: fmt.Sprintf("u%d", i+1), files: 1 + rng.Intn(2), recs: 1 + rng.Intn(4), abort: rng.Intn(4) == 0,
				delay: time.Duration(rng.Intn(3)) * time.Millisecond})
		}
		for _, p := range plans {
			wg.Add(1)
			go func(p plan) {
				defer wg.Done()
				time.Sleep(p.delay)
				mu.Lock()
				emit(map[string]interface{}{"ev": "begin", "u": p.who, "total": p.files * p.recs})
				mu.Unlock()
				u := cl.NewUpload(context.Background())
				for f := 1; f <= p.files; f++ {
					w, err := u.CreateFile(fmt.Sprintf("%s-f%d.txt", p.who, f))
					if err != nil {
						break
					}
					fmt.Fprintf(w, "who: %s\n", p.who)
					for r := 1; r <= p.recs; r++ {
						fmt.Fprintf(w, "rec: r%d\nBenchmark%sF%dR%d 1 %d ns/op\n", r, strings.ToUpper(p.who), f, r, r)
						if r%2 == 0 {
							time.Sleep(100 * time.Microsecond)
						}
					}
				}
				if p.abort {
					mu.Lock()
					emit(map[string]interface{}{"ev": "abort", "u": p.who})
					mu.Unlock()
					u.Abort()
					return
				}
				mu.Lock()
				emit(map[string]interface{}{"ev": "commit.call", "u": p.who})
				mu.Unlock()
				_, err := u.Commit()
				mu.Lock()
				emit(map[string]interface{}{"ev": "commit.ret", "u": p.who, "ok": err == nil})
				mu.Unlock()
			}(p)
		}
		wg.Wait()
		close(stop)
		<-obsDone
		srv.Close()
		a.close()
	}
	ew.emit(map[string]interface{}{"ev": "reset", "t": -1})
	return ew.close()
}

// upLockedRead: an observer reads while another connection holds the database exclusively
// (what a commit in progress does): the query and the listing must either report an error
// or return the complete committed content - never a silently empty or partial result
// (Upload_vis: "database busy: no observation").
func upLockedRead(c *upCase) Verdict {
	a, err := upNewApp(false, true)
	if err != nil {
		return fail("harness", "%v", err)
	}
	defer a.close()
	body := upBuildBody(c.Files, c.Recs, 0, 0, 4242+c.ID)
	if code, resp := a.post(body.ctype, bytes.NewReader(body.data)); code != 200 {
		return fail("harness", "upload failed: %d %s", code, resp)
	}
	want := c.Files * c.Recs
	count := func() (int, error) {
		q := a.db.Query("")
		n := 0
		for q.Next() {
			n++
		}
		err := q.Err()
		q.Close()
		return n, err
	}
	list := func() (int, error) {
		ul := a.db.ListUploads("", nil, 10)
		n := 0
		for ul.Next() {
			n += ul.Info().Count
		}
		err := ul.Err()
		ul.Close()
		return n, err
	}
	if n, err := count(); err != nil || n != want {
		return fail("harness", "unlocked read: %d records, err %v, want %d", n, err, want)
	}
	raw, err := sql.Open("sqlite3", a.dsn)
	if err != nil {
		return fail("harness", "%v", err)
	}
	defer raw.Close()
	conn, err := raw.Conn(context.Background())
	if err != nil {
		return fail("harness", "%v", err)
	}
	defer conn.Close()
	if _, err := conn.ExecContext(context.Background(), "BEGIN EXCLUSIVE"); err != nil {
		return fail("harness", "BEGIN EXCLUSIVE: %v", err)
	}
	n1, err1 := count()
	n2, err2 := list()
	conn.ExecContext(context.Background(), "ROLLBACK")
	if err1 == nil && n1 != want {
		return fail("read-error-swallowed", "Query(\"\") while the database is locked by another connection: %d of %d records and Err() == nil", n1, want)
	}
	if err2 == nil && n2 != want {
		return fail("read-error-swallowed", "ListUploads while the database is locked by another connection: counts sum to %d, want %d, and Err() == nil", n2, want)
	}
	if n, err := count(); err != nil || n != want {
		return fail("records-lost-after-lock", "after the lock was released: %d records, err %v, want %d", n, err, want)
	}
	return pass()
}

// upWideFault: an upload whose first file makes the server send many INSERT batches (c.Recs
// records of ~250 labels each: one batch per record) and whose LAST part then fails (a file
// without benchmark lines, an abort field, an unexpected field).  All-or-nothing does not depend
// on how much was already sent to the database; without the fault everything is queryable.
func upWideFault(c *upCase) Verdict {
	for _, kind := range []string{"none", "empty-file", "abort-field", "unexpected-field"} {
		a, err := upNewApp(false, false)
		if err != nil {
			return fail("harness", "%v", err)
		}
		early := upBuildBody(1, 2, 0, 0, 991+c.ID)
		if code, resp := a.post(early.ctype, bytes.NewReader(early.data)); code != 200 {
			a.close()
			return fail("harness", "earlier upload failed: %d %s", code, resp)
		}
		before, _ := a.records()
		var buf bytes.Buffer
		mw := multipart.NewWriter(&buf)
		fw, _ := mw.CreateFormFile("file", "wide.txt")
		for k := 0; k < 250; k++ {
			fmt.Fprintf(fw, "k%03d: v%d\n", k, k%7)
		}
		for r := 0; r < c.Recs; r++ {
			fmt.Fprintf(fw, "BenchmarkWide%04d 1 %d ns/op\n", r, r+1)
		}
		switch kind {
		case "empty-file":
			fw2, _ := mw.CreateFormFile("file", "empty.txt")
			fmt.Fprintf(fw2, "goos: linux\n")
		case "abort-field":
			mw.WriteField("abort", "1")
		case "unexpected-field":
			mw.WriteField("surprise", "1")
		}
		if kind == "none" {
			mw.WriteField("commit", "1")
		}
		mw.Close()
		code, resp := a.post(mw.FormDataContentType(), bytes.NewReader(buf.Bytes()))
		after, err := a.records()
		listed, err2 := a.listed()
		a.close()
		if err != nil || err2 != nil {
			return fail("harness", "query after the upload: %v %v", err, err2)
		}
		if kind == "none" {
			if code != 200 || len(after) != len(before)+c.Recs {
				return fail("wide-upload-incomplete", "upload of %d records with 250 labels each: HTTP %d %q, %d records queryable afterwards (had %d before)", c.Recs, code, strings.TrimSpace(resp), len(after), len(before))
			}
			continue
		}
		if code == 200 {
			return fail("status", "upload of %d wide records ending in %s: HTTP 200 %q, want failure", c.Recs, kind, strings.TrimSpace(resp))
		}
		if len(after) != len(before) || len(listed) != 1 {
			return fail("partial-upload-visible-after-late-fault", "upload of %d records with 250 labels each, then %s: HTTP %d, but %d records of it can be queried and %d uploads are listed", c.Recs, kind, code, len(after)-len(before), len(listed))
		}
	}
	return pass()
}

// ---------------------------------------------------------------- large inputs
//
// All-or-nothing and "every record of every file is queryable" do not depend on how long a
// line, a label value or a file is; the model has two records of a few bytes.  Case tag
// "big": an upload of c.Files files after an earlier successful upload, one of its files
// carrying
//
//	metric   a result line of c.Len bytes (many metrics)
//	noise    a line of c.Len bytes that is neither a result nor a configuration line
//	config   a configuration value of c.Len bytes (in force for the results after it)
//	name     an unnamed sub-name part of c.Len bytes
//	namekv   a key=value sub-name part whose value has c.Len bytes
//	bigfile  c.Len bytes of ordinary content (runs of repeated results under changing labels)
//
// The server may accept or refuse such an upload (refusing is demanded to be an error reply,
// and ordinary sizes must be accepted); the judgement is the statement's either-or:
// accepted = every result of every file is returned by the queries that select it (whole
// store, per upload, per part, by the large value itself, by range terms just below and
// above it), the listing counts its records, every file is stored completely behind the
// server's header; refused = nothing of it is visible or stored.  In both cases queries
// keep working, the earlier upload is untouched and a later upload gets a fresh, larger ID
// and is complete.

type upBigProbe struct {
	q    string // appended to "upload:<id> "
	want int
}

type upBigFile struct {
	name    string
	content []byte
	names   []string // value of the label "name" of every result, in order
	nrec    int      // records = maximal runs of results with identical labels
	probes  []upBigProbe
}

func upFill(n int, salt int) string {
	const abc = "abcdefghijklmnopqrstuvwxyz0123456789"
	b := make([]byte, n)
	for i := range b {
		b[i] = abc[(i*7+salt+i/36)%len(abc)]
	}
	return string(b)
}

func upBigFiles(c *upCase) []upBigFile {
	var out []upBigFile
	for f := 0; f < c.Files; f++ {
		var sb bytes.Buffer
		bf := upBigFile{name: fmt.Sprintf("big%d.txt", f)}
		fmt.Fprintf(&sb, "goos: linux\nfkey%d: v%d\n", f, c.ID)
		large := f == c.Pos%c.Files
		if large && c.Kind == "bigfile" {
			// runs of 40 results (a benchmark repeated, as with -count) under a label that changes per run
			run := 0
			for sb.Len() < c.Len {
				run++
				fmt.Fprintf(&sb, "run: r%d\n", run)
				for i := 0; i < 40; i++ {
					fmt.Fprintf(&sb, "BenchmarkBigF%dRun%d-8 \t%8d\t%12d ns/op\t%10d B/op\t%8d allocs/op\t%s\n", f, run, 1000+i, 100000+run*41+i, 4096+i, 17+i%3, "12.5 MB/s")
					bf.names = append(bf.names, fmt.Sprintf("BigF%dRun%d", f, run))
				}
				bf.nrec++
			}
			bf.probes = append(bf.probes,
				upBigProbe{"run:r1", 40}, upBigProbe{fmt.Sprintf("run:r%d", run), 40}, upBigProbe{fmt.Sprintf("run:r%d", (run+1)/2), 40},
				upBigProbe{fmt.Sprintf("name:BigF%dRun%d", f, run), 40}, upBigProbe{fmt.Sprintf("fkey%d:v%d", f, c.ID), len(bf.names)})
		} else {
			for j := 1; j <= 3; j++ {
				fmt.Fprintf(&sb, "rec: r%d\n", j)
				name := fmt.Sprintf("F%dR%d", f, j)
				line := fmt.Sprintf("Benchmark%s 1 %d ns/op", name, 10*f+j)
				if large && j == 2 {
					switch c.Kind {
					case "metric":
						var lb strings.Builder
						lb.WriteString(line)
						for k := 0; lb.Len() < c.Len; k++ {
							m := fmt.Sprintf(" %d m%d/op", k+1, k)
							if lb.Len()+len(m) > c.Len || c.Len-lb.Len()-len(m) < 8 {
								m = " 1 " + upFill(c.Len-lb.Len()-3, k)
							}
							lb.WriteString(m)
						}
						line = lb.String()
					case "noise":
						sb.WriteString("--- " + upFill(c.Len-4, f) + "\n")
					case "config":
						v := upFill(c.Len, f+3)
						sb.WriteString("cmd: " + v + "\n")
						// in force for results 2 and 3 of this file
						bf.probes = append(bf.probes, upBigProbe{"cmd:" + v, 2})
						if c.Len > 1 {
							bf.probes = append(bf.probes, upBigProbe{"cmd>" + v[:c.Len-1], 2}, upBigProbe{"cmd:" + v[:c.Len-1], 0}, upBigProbe{"cmd<" + v[:c.Len-1], 0})
						}
						bf.probes = append(bf.probes, upBigProbe{"cmd<" + v + "~", 2}, upBigProbe{"cmd:" + v + "a", 0}, upBigProbe{"cmd>" + v + "~", 0}, upBigProbe{"cmd>" + v, 0}, upBigProbe{"cmd<" + v, 0})
					case "name", "namekv":
						v := upFill(c.Len, f+5)
						key := "sub1"
						if c.Kind == "namekv" {
							key = "wide"
							line = fmt.Sprintf("Benchmark%s/wide=%s 1 %d ns/op", name, v, 10*f+j)
						} else {
							line = fmt.Sprintf("Benchmark%s/%s 1 %d ns/op", name, v, 10*f+j)
						}
						bf.probes = append(bf.probes, upBigProbe{key + ":" + v, 1}, upBigProbe{key + "<" + v + "~", 1}, upBigProbe{key + ":" + v + "a", 0})
						if c.Len > 1 {
							bf.probes = append(bf.probes, upBigProbe{key + ">" + v[:c.Len-1], 1}, upBigProbe{key + ":" + v[:c.Len-1], 0})
						}
					}
				}
				sb.WriteString(line + "\n")
				bf.names = append(bf.names, name)
				bf.nrec++
				bf.probes = append(bf.probes, upBigProbe{"name:" + name, 1}, upBigProbe{fmt.Sprintf("rec:r%d fkey%d:v%d", j, f, c.ID), 1})
			}
		}
		bf.content = sb.Bytes()
		out = append(out, bf)
	}
	return out
}

func upBig(c *upCase) Verdict {
	if c.Files < 1 {
		c.Files = 1
	}
	a, err := upNewApp(c.Local, false)
	if err != nil {
		return fail("harness", "%v", err)
	}
	defer a.close()
	what := fmt.Sprintf("upload of %d files, file %d with %s of %d bytes", c.Files, c.Pos%c.Files, c.Kind, c.Len)
	small := func(salt int) (string, []string, Verdict) {
		b := upBuildBody(1, 2, 0, 0, salt)
		code, resp := a.post(b.ctype, bytes.NewReader(b.data))
		var st struct {
			UploadID string `json:"uploadid"`
		}
		if code != 200 {
			return "", nil, fail("status", "%s: an ordinary upload (1 file, 2 records) is refused: HTTP %d %q", what, code, strings.TrimSpace(resp))
		}
		if err := json.Unmarshal([]byte(resp), &st); err != nil || !upIDRe.MatchString(st.UploadID) {
			return "", nil, fail("id-format", "upload status %q", resp)
		}
		return st.UploadID, []string{st.UploadID + "/0|F1R1", st.UploadID + "/0|F1R2"}, pass()
	}
	earlyID, want, v := small(c.ID + 7777)
	if !v.OK {
		return v
	}
	files := upBigFiles(c)
	var buf bytes.Buffer
	mw := multipart.NewWriter(&buf)
	for _, bf := range files {
		w, _ := mw.CreateFormFile("file", bf.name)
		w.Write(bf.content)
	}
	mw.Close()
	code, resp := a.post(mw.FormDataContentType(), bytes.NewReader(buf.Bytes()))
	ok := code == 200
	if !ok && (c.Kind != "bigfile" && c.Len <= 4096 || c.Kind == "bigfile" && c.Len <= 1<<20) {
		return fail("status", "%s: HTTP %d %q, want success", what, code, strings.TrimSpace(resp))
	}
	outcome := "refused"
	newID := ""
	total, nrec := 0, 0
	if ok {
		outcome = "accepted"
		var st struct {
			UploadID string   `json:"uploadid"`
			FileIDs  []string `json:"fileids"`
		}
		if err := json.Unmarshal([]byte(resp), &st); err != nil || !upIDRe.MatchString(st.UploadID) {
			return fail("id-format", "upload status %q", resp)
		}
		newID = st.UploadID
		if newID == earlyID || !upIDLess(earlyID, newID) {
			return fail("id-order", "upload ID %s does not follow %s", newID, earlyID)
		}
		if len(st.FileIDs) != len(files) {
			return fail("file-ids", "%s: accepted with file ids %v", what, st.FileIDs)
		}
		for f, bf := range files {
			for _, n := range bf.names {
				want = append(want, fmt.Sprintf("%s/%d|%s", newID, f, n))
			}
			total += len(bf.names)
			nrec += bf.nrec
		}
	}
	judge := func(stage string) Verdict {
		recs, err := a.records()
		if err != nil {
			return fail("query-fails-after-"+outcome+"-upload", "%s, %s (HTTP %d), %s: Query(\"\") fails: %v", what, outcome, code, stage, err)
		}
		sort.Strings(want)
		if len(recs) != len(want) || strings.Join(recs, ",") != strings.Join(want, ",") {
			sig := "records-visible-after-failure"
			if ok {
				sig = "records-missing-after-success"
			}
			if len(recs) < 2 {
				sig = "earlier-upload-damaged"
			}
			firstDiff := ""
			for i := range want {
				if i >= len(recs) || recs[i] != want[i] {
					firstDiff = want[i]
					break
				}
			}
			return fail(sig, "%s, %s (HTTP %d), %s: %d results can be queried, want %d; first missing or different: %s", what, outcome, code, stage, len(recs), len(want), firstDiff)
		}
		return pass()
	}
	if v := judge("right after"); !v.OK {
		return v
	}
	count := func(q string) (int, error) {
		qq := a.db.Query(q)
		defer qq.Close()
		n := 0
		for qq.Next() {
			n++
		}
		return n, qq.Err()
	}
	short := func(q string) string {
		if len(q) > 120 {
			return fmt.Sprintf("%s...(%d bytes)...%s", q[:60], len(q), q[len(q)-30:])
		}
		return q
	}
	if ok {
		probes := []upBigProbe{{"", total}, {"goos:linux by:user", total}}
		for f, bf := range files {
			probes = append(probes, upBigProbe{fmt.Sprintf("upload-part:%s/%d", newID, f), len(bf.names)}, upBigProbe{"upload-file:" + bf.name, len(bf.names)})
			probes = append(probes, bf.probes...)
		}
		for _, p := range probes {
			q := strings.TrimSpace("upload:" + newID + " " + p.q)
			n, err := count(q)
			if err != nil {
				return fail("query-fails-after-accepted-upload", "%s: query %q fails: %v", what, short(q), err)
			}
			if n != p.want {
				return fail("records-not-queryable-by-label", "%s: query %q returns %d results, want %d", what, short(q), n, p.want)
			}
		}
		// through the HTTP search endpoint as well
		req := httptest.NewRequest("GET", "/search?q=upload:"+newID, nil)
		rec := httptest.NewRecorder()
		a.mux.ServeHTTP(rec, req)
		if got := strings.Count("\n"+rec.Body.String(), "\nBenchmark"); rec.Code != 200 || got != total {
			tail := rec.Body.String()
			if len(tail) > 160 {
				tail = tail[len(tail)-160:]
			}
			return fail("search-incomplete-after-accepted-upload", "%s: GET /search?q=upload:%s: HTTP %d with %d of %d result lines; reply ends %q", what, newID, rec.Code, got, total, tail)
		}
	}
	listed, err := a.listed()
	if err != nil {
		return fail("query-fails-after-"+outcome+"-upload", "%s: listing fails: %v", what, err)
	}
	wantListed := map[string]int{earlyID: 2}
	if ok {
		wantListed[newID] = nrec
	}
	if fmt.Sprint(listed) != fmt.Sprint(wantListed) {
		return fail("listing", "%s, %s: listing shows %v, want %v (records per upload)", what, outcome, listed, wantListed)
	}
	// file store
	stored, err := a.files()
	if err != nil {
		return fail("harness", "%v", err)
	}
	if _, okf := stored["uploads/"+earlyID+"/0.txt"]; !okf {
		return fail("earlier-upload-damaged", "the earlier upload's file is gone")
	}
	var mine []string
	for f := range stored {
		if !strings.HasPrefix(f, "uploads/"+earlyID+"/") {
			mine = append(mine, f)
		}
	}
	sort.Strings(mine)
	if !ok {
		// the files before the large one were complete when the failure happened and may stay; the
		// file being written must be gone and no later file may have been created
		for _, m := range mine {
			var idx int
			if _, err := fmt.Sscanf(m[strings.LastIndex(m, "/")+1:], "%d.txt", &idx); err != nil || idx >= c.Pos%c.Files {
				return fail("failed-file-not-removed", "%s refused (HTTP %d) but the file store holds %v", what, code, mine)
			}
		}
	}
	if ok {
		for f, bf := range files {
			p := fmt.Sprintf("uploads/%s/%d.txt", newID, f)
			content, okf := stored[p]
			if !okf {
				return fail("stored-files", "%s accepted but %s is not in the file store (%v)", what, p, mine)
			}
			if a.dir == "" {
				continue
			}
			hdr, rest, found := strings.Cut(content, "\n\n")
			if !found || !strings.Contains("\n"+hdr, "\nupload: "+newID+"\n") || !strings.Contains("\n"+hdr, "\nupload-part: ") {
				return fail("stored-header", "stored file %s lacks the server's metadata header: %q", p, short(content))
			}
			if rest != string(bf.content) {
				sig := "stored-file-content-differs"
				if len(rest) < len(bf.content) && rest == string(bf.content[:len(rest)]) {
					sig = "stored-file-incomplete"
				}
				return fail(sig, "%s accepted: stored file %s holds %d bytes after the header, the file sent has %d", what, p, len(rest), len(bf.content))
			}
		}
		if len(mine) != len(files) {
			return fail("stored-files", "%s accepted: the file store holds %v, want %d files", what, mine, len(files))
		}
	}
	// a later upload: fresh larger ID, complete, everything else as before
	lateID, lateWant, v := small(c.ID + 8888)
	if !v.OK {
		return v
	}
	prev := earlyID
	if ok {
		prev = newID
	}
	if lateID == earlyID || lateID == newID {
		return fail("id-reused", "the upload after the %s one got ID %s again", outcome, lateID)
	}
	if !upIDLess(prev, lateID) {
		return fail("id-order", "upload ID %s does not follow %s", lateID, prev)
	}
	want = append(want, lateWant...)
	return judge("after a later upload")
}

// upLongHistory: c.Recs uploads, one after the other, to ONE server (two in five of them fail: a
// file without benchmark lines, an abort field, an unexpected field, a body cut short).  The
// statement's rules do not depend on how many uploads came before: after every step exactly the
// records of the successful uploads can be queried and are listed, IDs have the form
// YYYYMMDD.N, are never handed out twice and grow (as numbers) with creation order - also past
// .9, .10, .99, .100.
func upLongHistory(c *upCase) Verdict {
	a, err := upNewApp(false, false)
	if err != nil {
		return fail("harness", "%v", err)
	}
	defer a.close()
	var want []string
	wantListed := map[string]int{}
	seen := map[string]int{}
	last := ""
	for i := 1; i <= c.Recs; i++ {
		files, recs := 1+i%2, 1+i%3
		salt := c.ID*1000 + i
		kind := []string{"ok", "ok", "no-benchmark-lines", "ok-commit-field", "abort-field", "ok", "unexpected-field", "ok", "cut", "ok"}[(i+c.ID)%10]
		var b *upBody
		var body io.Reader
		switch kind {
		case "no-benchmark-lines":
			b = upBuildBody(files, recs, files, 0, salt)
		case "abort-field":
			b = upBuildBodyTail(files, recs, salt, "abort=1")
		case "unexpected-field":
			b = upBuildBody(files, recs, 0, files, salt)
		case "ok-commit-field":
			b = upBuildBodyTail(files, recs, salt, "commit=1")
		default:
			b = upBuildBody(files, recs, 0, 0, salt)
		}
		body = bytes.NewReader(b.data)
		if kind == "cut" {
			body = io.MultiReader(bytes.NewReader(b.data[:b.recEnd[files-1][recs]-3]), upErrReader{io.ErrUnexpectedEOF})
		}
		code, resp := a.post(b.ctype, body)
		okWanted := strings.HasPrefix(kind, "ok")
		if (code == 200) != okWanted {
			return fail("status", "upload %d of the history (%s, %d files x %d records): HTTP %d %q", i, kind, files, recs, code, strings.TrimSpace(resp))
		}
		if okWanted {
			var st struct {
				UploadID string `json:"uploadid"`
			}
			if err := json.Unmarshal([]byte(resp), &st); err != nil || !upIDRe.MatchString(st.UploadID) {
				return fail("id-format", "upload %d of the history: status %q", i, resp)
			}
			if j, dup := seen[st.UploadID]; dup {
				return fail("id-reused", "upload %d of the history got ID %s, which upload %d already had", i, st.UploadID, j)
			}
			if last != "" && !upIDLess(last, st.UploadID) {
				return fail("id-order", "upload %d of the history got ID %s after %s", i, st.UploadID, last)
			}
			seen[st.UploadID], last = i, st.UploadID
			for f := 1; f <= files; f++ {
				for r := 1; r <= recs; r++ {
					want = append(want, fmt.Sprintf("%s/%d|F%dR%d", st.UploadID, f-1, f, r))
				}
			}
			wantListed[st.UploadID] = files * recs
		}
		if i%7 != 0 && i != c.Recs && okWanted {
			continue
		}
		got, err := a.records()
		if err != nil {
			return fail("query-fails-after-many-uploads", "after upload %d of the history (%s): Query(\"\"): %v", i, kind, err)
		}
		w := append([]string(nil), want...)
		sort.Strings(w)
		if strings.Join(got, ",") != strings.Join(w, ",") {
			sig := "records-missing-after-success"
			if len(got) > len(w) {
				sig = "records-visible-after-failure"
			}
			return fail(sig, "after upload %d of the history (%s): %d records can be queried, want %d (last ID %s)", i, kind, len(got), len(w), last)
		}
		listed, err := a.listed()
		if err != nil {
			return fail("query-fails-after-many-uploads", "after upload %d of the history: listing: %v", i, err)
		}
		if len(listed) != len(wantListed) {
			return fail("listing", "after upload %d of the history (%s): %d uploads listed, want %d", i, kind, len(listed), len(wantListed))
		}
		for id, n := range wantListed {
			if listed[id] != n {
				return fail("listing", "after upload %d of the history: upload %s listed with %d records, want %d", i, id, listed[id], n)
			}
		}
	}
	return pass()
}

// ---------------------------------------------------------------- faults of the index
//
// The model's fault may strike at any step, including the steps that write the index: a flush
// in the middle of the upload and the last flush at commit.  The file store cannot make those
// fail; two things can.  (1) Content: a configuration key that is also a key derived from the
// benchmark name of a result under it (goos: linux + BenchmarkX/goos=linux; name:, sub1:,
// gomaxprocs:) gives the record two label rows with one primary key, which the database
// notices only when the queued rows are sent.  (2) The database itself: a trigger installed
// through a second connection makes the INSERT of a chosen record's label rows, or of the
// record row itself, fail ("a storage write ... error at any point").  Case tag "indexfault":
// an upload of c.Files files x c.Recs records with distinct labels whose record number K of
// the last file is the poisoned one, for EVERY K in 1..c.Recs (so the failing statement is a
// mid-upload flush for early K and the flush of Upload.Commit for late K, whatever the batch
// size is), after an earlier successful upload and followed by a later one.  Judgement, the
// statement's either-or: HTTP 200 = every record of the upload is queryable and listed;
// anything else = no record of it is returned by the whole-store query or the listings.
// Either way the earlier upload is untouched and the later upload succeeds completely.

var upIndexFaultKinds = []string{"config-key-equals-name-key", "config-key-name", "config-key-sub1", "config-key-gomaxprocs",
	"label-insert-fails", "record-insert-fails"}

func upIndexFaultBody(files, recs, k int, kind string, salt int) *upBody {
	var buf bytes.Buffer
	mw := multipart.NewWriter(&buf)
	mw.SetBoundary(fmt.Sprintf("verifboundary%dx", salt))
	b := &upBody{ctype: mw.FormDataContentType()}
	for f := 1; f <= files; f++ {
		w, _ := mw.CreateFormFile("file", fmt.Sprintf("f%d.txt", f))
		fmt.Fprintf(w, "goos: linux\nkey%d: v%d\n", f, salt)
		for j := 1; j <= recs; j++ {
			name := fmt.Sprintf("F%dR%d", f, j)
			rec := fmt.Sprintf("r%d", j)
			if f == files && j == k {
				switch kind {
				case "config-key-equals-name-key":
					name += "/goos=linux"
				case "config-key-name":
					fmt.Fprintf(w, "name: x\n")
				case "config-key-sub1":
					fmt.Fprintf(w, "sub1: x\n")
					name += "/part"
				case "config-key-gomaxprocs":
					fmt.Fprintf(w, "gomaxprocs: 4\n")
					name += "-8"
				case "label-insert-fails":
					rec = "verifpoison"
				case "record-insert-fails":
					name = "VerifPoison" + name
				}
			}
			fmt.Fprintf(w, "rec: %s\n", rec)
			fmt.Fprintf(w, "Benchmark%s 1 %d ns/op\n", name, 10*f+j)
		}
	}
	mw.Close()
	b.data = buf.Bytes()
	return b
}

func upIndexFault(c *upCase) Verdict {
	kind := c.Kind
	for k := 1; k <= c.Recs; k++ {
		files := 1 + (k+c.ID)%2
		if c.Files > 0 {
			files = c.Files
		}
		a, err := upNewApp(false, false)
		if err != nil {
			return fail("harness", "%v", err)
		}
		v := func() Verdict {
			defer a.close()
			switch kind {
			case "label-insert-fails", "record-insert-fails":
				side, err := sql.Open("sqlite3", a.dsn)
				if err != nil {
					return fail("harness", "%v", err)
				}
				defer side.Close()
				trg := "CREATE TRIGGER veriffault BEFORE INSERT ON RecordLabels WHEN NEW.Value = 'verifpoison' BEGIN SELECT RAISE(ABORT, 'injected index fault'); END"
				if kind == "record-insert-fails" {
					trg = "CREATE TRIGGER veriffault BEFORE INSERT ON Records WHEN instr(CAST(NEW.Content AS TEXT), 'VerifPoison') > 0 BEGIN SELECT RAISE(ABORT, 'injected index fault'); END"
				}
				if _, err := side.Exec(trg); err != nil {
					return fail("harness", "installing the fault trigger: %v", err)
				}
			}
			early := upBuildBody(1, 2, 0, 0, 991+c.ID)
			if code, resp := a.post(early.ctype, bytes.NewReader(early.data)); code != 200 {
				return fail("harness", "earlier upload failed: %d %s", code, resp)
			}
			before, err := a.records()
			if err != nil {
				return fail("harness", "%v", err)
			}
			b := upIndexFaultBody(files, c.Recs, k, kind, 7000+c.ID)
			code, resp := a.post(b.ctype, bytes.NewReader(b.data))
			what := fmt.Sprintf("upload of %d file(s) x %d records, record %d of the last file %s", files, c.Recs, k, kind)
			after, err := a.records()
			listed, err2 := a.listed()
			if err != nil || err2 != nil {
				return fail("query-fails-after-index-fault", "%s (HTTP %d): Query(\"\"): %v, ListUploads: %v", what, code, err, err2)
			}
			for _, r := range before {
				found := false
				for _, x := range after {
					if x == r {
						found = true
					}
				}
				if !found {
					return fail("earlier-upload-damaged-by-index-fault", "%s (HTTP %d): record %s of the earlier upload is gone", what, code, r)
				}
			}
			total := files * c.Recs
			nlisted := 1
			if code == 200 {
				if len(after) != len(before)+total {
					return fail("index-fault-upload-accepted-incomplete", "%s: HTTP 200 %q, but %d of its %d records can be queried", what, strings.TrimSpace(resp), len(after)-len(before), total)
				}
				nlisted = 2
			} else if len(after) != len(before) {
				return fail("partial-upload-visible-after-index-fault", "%s: HTTP %d %q, yet %d of its records are returned by Query(\"\") and %d uploads are listed", what, code, strings.TrimSpace(resp), len(after)-len(before), len(listed))
			}
			if len(listed) != nlisted {
				return fail("failed-upload-listed-after-index-fault", "%s: HTTP %d, %d uploads listed, want %d: %v", what, code, len(listed), nlisted, listed)
			}
			for _, lim := range []int{1, 2, 3} {
				ul := a.db.ListUploads("", nil, lim)
				n, cnt := 0, 0
				for ul.Next() {
					n++
					cnt += ul.Info().Count
				}
				lerr := ul.Err()
				ul.Close()
				w := nlisted
				if lim < w {
					w = lim
				}
				if lerr != nil || n != w {
					return fail("listing-wrong-after-index-fault", "%s: HTTP %d, ListUploads(\"\", limit %d) gives %d uploads (%d records, err %v), want %d", what, code, lim, n, cnt, lerr, w)
				}
			}
			late := upBuildBody(2, 3, 0, 0, 993+c.ID)
			code2, resp2 := a.post(late.ctype, bytes.NewReader(late.data))
			if code2 != 200 {
				return fail("upload-fails-after-index-fault", "%s (HTTP %d): the next ordinary upload fails: HTTP %d %q", what, code, code2, strings.TrimSpace(resp2))
			}
			final, err := a.records()
			if err != nil || len(final) != len(after)+6 {
				return fail("later-upload-incomplete-after-index-fault", "%s (HTTP %d): after the next upload of 6 records %d records can be queried, want %d (%v)", what, code, len(final), len(after)+6, err)
			}
			return pass()
		}()
		if !v.OK {
			return v
		}
	}
	return pass()
}

func famUpload(mode string, args []string) error {
	if mode == "inflight" {
		return upInflight(args)
	}
	if mode != "replay" {
		return fmt.Errorf("upload: unknown mode %q", mode)
	}
	var evOut *eventWriter
	if len(args) > 2 {
		var err error
		evOut, err = newEventWriter(args[2])
		if err != nil {
			return err
		}
		defer evOut.close()
	}
	return replayLoop("upload", args, func(raw json.RawMessage) Verdict {
		var c upCase
		if err := json.Unmarshal(raw, &c); err != nil {
			return fail("badcase", "%v", err)
		}
		switch c.Tag {
		case "fault":
			return upReplayFault(&c)
		case "lockedread":
			return upLockedRead(&c)
		case "widefault":
			return upWideFault(&c)
		case "big":
			return upBig(&c)
		case "history":
			return upLongHistory(&c)
		case "indexfault":
			return upIndexFault(&c)
		case "ids":
			evs, v := upReplayIDs(&c)
			if evOut != nil {
				evOut.emit(map[string]interface{}{"ev": "reset", "case": c.ID})
				for _, e := range evs {
					evOut.emit(e)
				}
			}
			return v
		}
		return fail("badcase", "unknown tag %q", c.Tag)
	})
}
