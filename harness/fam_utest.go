package main

// Family "utest" (C11): replay of the cases generated from spec/UTest.tla
// (UTest_gen.tla) on the real Mann-Whitney code:
//
//	class   one assignment class r of a tie vector T (r[k] of the t[k] equal values of
//	        group k go to sample 1) and one alternative hypothesis: concrete float
//	        samples realising the pattern under a seed-chosen strictly increasing map
//	        and shuffle; stats.MannWhitneyUTest must return U = u/2 exactly and
//	        P = want/total; for the two-sided alternative the legacy benchstat.UTest
//	        wrapper must agree.
//	dist    stats.UDist{N1, N2, T}.CDF/PMF at every half-integer against the spec's
//	        brute-force histogram.
//	error   empty sample / all values equal => the two documented errors.
//	approx  AUXILIARY, outside the model: sizes on both sides of the exact/approximate
//	        switch (the spec supplies only the branch decision UseExact); random
//	        samples; the harness evaluates the tie- and continuity-corrected normal
//	        approximation itself with math.Erfc, or, on the exact side, the exact tail
//	        by its own dynamic programme.
//
// Expected values always come from the spec's declarative side. The as-built
// predictions that accompany them (ab, ab_cdf, ab_pmf) are used only to name the
// defect class of a deviation; a wrong value no as-built switch predicts gets a
// generic signature.

import (
	"encoding/json"
	"fmt"
	"math"
	"math/rand"
	"os"
	"sort"
	"strings"

	"golang.org/x/perf/benchmath"
	"golang.org/x/perf/benchstat"
	"golang.org/x/perf/internal/stats"
)

func init() { register("utest", famUTest) }

// signatures of the three defect classes (DESIGN.md section 5, items 5-7)
const (
	utSigTrunc   = "tied-cdf-below-min-u"
	utSigTwo     = "two-sided-not-min-of-tails"
	utSigGreater = "greater-ignores-half-step"
)

type utAB struct {
	G10  int `json:"g10"`
	G01  int `json:"g01"`
	G11  int `json:"g11"`
	T100 int `json:"t100"`
	T101 int `json:"t101"`
	T010 int `json:"t010"`
	T001 int `json:"t001"`
	T011 int `json:"t011"`
	L1   int `json:"l1"`
}

type utCase struct {
	Kind    string `json:"kind"`
	Salt    int64  `json:"salt"`
	T       []int  `json:"T"`
	N1      int    `json:"n1"`
	Total   int    `json:"total"`
	Top     int    `json:"top"`
	Hist    []int  `json:"hist"`
	AbCdf   []int  `json:"ab_cdf"`
	AbPmf   []int  `json:"ab_pmf"`
	R       []int  `json:"r"`
	U       int    `json:"u"`
	Alt     string `json:"alt"`
	Want    int    `json:"want"`
	Ab      *utAB  `json:"ab"`
	Outcome string `json:"outcome"`
	N2      int    `json:"n2"`
	Ties    bool   `json:"ties"`
	Exact   bool   `json:"exact"`
	EL      int    `json:"el"` // MannWhitneyExactLimit / MannWhitneyTiesExactLimit set by the caller (0: defaults)
	TL      int    `json:"tl"`
}

func famUTest(mode string, args []string) error {
	switch mode {
	case "replay":
		return replayLoop("utest", args, utReplay)
	}
	return fmt.Errorf("utest: unknown mode %q", mode)
}

func utReplay(raw json.RawMessage) Verdict {
	var c utCase
	if err := json.Unmarshal(raw, &c); err != nil {
		utBad("cannot decode case: %v", err)
		return pass()
	}
	switch c.Kind {
	case "class":
		return utClass(&c)
	case "dist":
		return utDist(&c)
	case "error":
		return utError(&c)
	case "approx":
		return utApprox(&c)
	}
	utBad("unknown kind %q", c.Kind)
	return pass()
}

// ---------------------------------------------------------------- helpers

// ratEq compares a float result x with the rational p/q (DESIGN.md section 3).
func ratEq(x float64, p, q int) bool {
	if math.IsNaN(x) || math.IsInf(x, 0) {
		return false
	}
	xq := x * float64(q)
	fp := float64(p)
	return math.Abs(xq-fp) <= 1e-12*math.Max(math.Abs(fp), math.Abs(xq))
}

func utAlt(a string) stats.LocationHypothesis {
	switch a {
	case "less":
		return stats.LocationLess
	case "greater":
		return stats.LocationGreater
	}
	return stats.LocationDiffers
}

// utValues returns k strictly increasing finite floats; the style is chosen by rng.
func utValues(rng *rand.Rand, k int) []float64 {
	v := make([]float64, k)
	switch rng.Intn(7) {
	case 0: // small integers
		s := float64(rng.Intn(5))
		for i := range v {
			v[i] = s + float64(i)
		}
	case 1: // arbitrary reals
		x := rng.NormFloat64() * 1e3
		for i := range v {
			v[i] = x
			x += rng.ExpFloat64() + 1e-3
		}
	case 2: // crossing zero
		for i := range v {
			v[i] = float64(i - k/2)
		}
	case 3: // adjacent floats
		x := rng.NormFloat64() * math.Pow(10, float64(rng.Intn(40)-20))
		for i := range v {
			v[i] = x
			x = math.Nextafter(x, math.Inf(1))
		}
	case 4: // subnormals
		off := rng.Intn(3) * k
		for i := range v {
			v[i] = 5e-324 * float64(i+1+off)
		}
	case 5: // huge
		x := 1e300 * (1 + rng.Float64())
		for i := range v {
			v[i] = x
			x *= 1.0001
		}
	default: // typical benchmark values: ns/op with few digits
		x := float64(100 + rng.Intn(900))
		for i := range v {
			v[i] = x
			x += float64(1 + rng.Intn(20))
		}
	}
	for i := 1; i < k; i++ {
		if !(v[i-1] < v[i]) {
			utBad("utValues not strictly increasing: %v", v)
		}
	}
	return v
}

// utSamples realises (T, r) as two shuffled float samples.
func utSamples(rng *rand.Rand, t, r []int) (x1, x2 []float64) {
	vals := utValues(rng, len(t))
	x1, x2 = []float64{}, []float64{}
	// a tie group at zero is spelled with both signs: +0 and -0 are equal, hence tied
	zero := func(v float64) float64 {
		if v == 0 && rng.Intn(2) == 0 {
			return math.Copysign(0, -1)
		}
		return v
	}
	for k := range t {
		for i := 0; i < r[k]; i++ {
			x1 = append(x1, zero(vals[k]))
		}
		for i := 0; i < t[k]-r[k]; i++ {
			x2 = append(x2, zero(vals[k]))
		}
	}
	rng.Shuffle(len(x1), func(i, j int) { x1[i], x1[j] = x1[j], x1[i] })
	rng.Shuffle(len(x2), func(i, j int) { x2[i], x2[j] = x2[j], x2[i] })
	return
}

// utBad reports a defect of the harness or of a generated case: exit 2, never a verdict.
func utBad(format string, a ...interface{}) {
	fmt.Fprintf(os.Stderr, "utest harness: "+format+"\n", a...)
	os.Exit(2)
}

func utConcrete(x1, x2 []float64) string {
	return fmt.Sprintf("x1=%v x2=%v", x1, x2)
}

func utSum(t []int) int {
	s := 0
	for _, x := range t {
		s += x
	}
	return s
}

func utJoin(sigs ...string) string {
	sort.Strings(sigs)
	return strings.Join(sigs, "+")
}

// utClassify names the defect class of a wrong p-value: the smallest set of as-built
// switches whose prediction is exactly the observed value.
func utClassify(alt string, got float64, ab *utAB, total int) string {
	generic := "p-" + alt + "-wrong"
	if ab == nil {
		return generic
	}
	type cand struct {
		pred int
		sig  string
	}
	var cs []cand
	switch alt {
	case "less":
		cs = []cand{{ab.L1, utSigTrunc}}
	case "greater":
		cs = []cand{{ab.G10, utSigGreater}, {ab.G01, utSigTrunc}, {ab.G11, utJoin(utSigGreater, utSigTrunc)}}
	default:
		cs = []cand{{ab.T100, utSigTwo}, {ab.T010, utSigGreater}, {ab.T001, utSigTrunc},
			{ab.T101, utJoin(utSigTwo, utSigTrunc)}, {ab.T011, utJoin(utSigGreater, utSigTrunc)}}
	}
	for _, c := range cs {
		if ratEq(got, c.pred, total) {
			return c.sig
		}
	}
	return generic
}

// ---------------------------------------------------------------- class

func utClass(c *utCase) Verdict {
	rng := newRand(c.Salt)
	x1, x2 := utSamples(rng, c.T, c.R)
	conc := utConcrete(x1, x2)
	n1, n2 := len(x1), len(x2)
	if n1 != c.N1 || n1+n2 != utSum(c.T) {
		utBad("class does not match sizes")
		return pass()
	}
	in1 := append([]float64(nil), x1...)
	in2 := append([]float64(nil), x2...)
	res, err := stats.MannWhitneyUTest(x1, x2, utAlt(c.Alt))
	v := Verdict{Concrete: conc}
	v.Want = map[string]interface{}{"U2x": c.U, "p": fmt.Sprintf("%d/%d", c.Want, c.Total), "alt": c.Alt}
	if err != nil || res == nil {
		v.Signature, v.Detail = "unexpected-error", fmt.Sprintf("MannWhitneyUTest returned error %v for non-degenerate samples", err)
		return v
	}
	v.Got = map[string]interface{}{"U": utSan(res.U), "P": utSan(res.P), "N1": res.N1, "N2": res.N2}
	if res.N1 != n1 || res.N2 != n2 || res.AltHypothesis != utAlt(c.Alt) {
		v.Signature, v.Detail = "result-fields", "N1/N2/AltHypothesis do not describe the call"
		return v
	}
	if res.U != float64(c.U)/2 {
		v.Signature = "u-statistic"
		v.Detail = fmt.Sprintf("U=%v, pair counting gives %v", res.U, float64(c.U)/2)
		return v
	}
	if c.Alt == "two" {
		// the path benchstat itself takes for the two-sided test: benchmath's assume-nothing
		// comparison (judged first: stats.MannWhitneyUTest's own two-sided value is a listed finding)
		thr := benchmath.Thresholds{CompareAlpha: 0.05}
		s1 := benchmath.NewSample(append([]float64(nil), in1...), &thr)
		s2 := benchmath.NewSample(append([]float64(nil), in2...), &thr)
		for _, o := range []struct {
			name string
			cmp  benchmath.Comparison
		}{{"Compare(s1,s2)", benchmath.AssumeNothing.Compare(s1, s2)}, {"Compare(s2,s1)", benchmath.AssumeNothing.Compare(s2, s1)}} {
			if !ratEq(o.cmp.P, c.Want, c.Total) {
				v.Signature = "compare-two-sided"
				v.Detail = fmt.Sprintf("benchmath.AssumeNothing.%s: P=%v, twice the smaller exact tail capped at 1 is %d/%d=%v", o.name, o.cmp.P, c.Want, c.Total, float64(c.Want)/float64(c.Total))
				return v
			}
		}
	}
	if !ratEq(res.P, c.Want, c.Total) {
		v.Signature = utClassify(c.Alt, res.P, c.Ab, c.Total)
		v.Detail = fmt.Sprintf("alt=%s U=%v: P=%v, exact probability is %d/%d=%v", c.Alt, res.U, res.P, c.Want, c.Total,
			float64(c.Want)/float64(c.Total))
		return v
	}
	if c.Alt == "two" {
		if res.P < 0 || res.P > 1+1e-12 { // a last-ulp excess (1.0000000000000002) is not a verdict
			v.Signature, v.Detail = "two-sided-outside-unit-interval", fmt.Sprintf("P=%v", res.P)
			return v
		}
		// legacy wrapper (fresh copies: it must not depend on caller-side order)
		p, lerr := benchstat.UTest(&benchstat.Metrics{RValues: in1}, &benchstat.Metrics{RValues: in2})
		if lerr != nil || p != res.P {
			v.Signature = "legacy-disagrees"
			v.Detail = fmt.Sprintf("benchstat.UTest = (%v, %v), stats.MannWhitneyUTest P = %v", p, lerr, res.P)
			return v
		}
	}
	v.OK = true
	v.Want, v.Got, v.Concrete = nil, nil, ""
	return v
}

// ---------------------------------------------------------------- dist

func utDist(c *utCase) Verdict {
	n1, n2 := c.N1, utSum(c.T)-c.N1
	ties := false
	for _, t := range c.T {
		if t > 1 {
			ties = true
		}
	}
	dists := []stats.UDist{{N1: n1, N2: n2, T: c.T}}
	if !ties {
		dists = append(dists, stats.UDist{N1: n1, N2: n2}) // "T may be nil"
	}
	cum := make([]int, c.Top+1)
	s := 0
	for v := 0; v <= c.Top; v++ {
		s += c.Hist[v]
		cum[v] = s
	}
	if s != c.Total {
		utBad("histogram does not sum to total")
		return pass()
	}
	wantCDF := func(v int) int {
		if v < 0 {
			return 0
		}
		if v > c.Top {
			return c.Total
		}
		return cum[v]
	}
	wantPMF := func(v int) int {
		if v < 0 || v > c.Top {
			return 0
		}
		return c.Hist[v]
	}
	type cell struct {
		Fn   string      `json:"fn"`
		U    float64     `json:"u"`
		Got  interface{} `json:"got"`
		Want string      `json:"want"`
	}
	var bad []cell
	asBuiltOnly := true
	for _, d := range dists {
		sumPMF, run := 0.0, 0.0
		accOK := true
		for v := -1; v <= c.Top+1; v++ {
			u := float64(v) / 2
			g := d.CDF(u)
			if !ratEq(g, wantCDF(v), c.Total) {
				bad = append(bad, cell{"CDF", u, utSan(g), fmt.Sprintf("%d/%d", wantCDF(v), c.Total)})
				if !(v >= 0 && v <= c.Top && len(c.AbCdf) == c.Top+1 && ratEq(g, c.AbCdf[v], c.Total)) {
					asBuiltOnly = false
				}
			}
			// the mass function lives on half-integers with ties, on integers without
			// ("U must be integral", udist.go)
			if ties || v%2 == 0 {
				p := d.PMF(u)
				sumPMF += p
				run += p
				if !ratEq(p, wantPMF(v), c.Total) {
					bad = append(bad, cell{"PMF", u, utSan(p), fmt.Sprintf("%d/%d", wantPMF(v), c.Total)})
					if !(v >= 0 && v <= c.Top && len(c.AbPmf) == c.Top+1 && ratEq(p, c.AbPmf[v], c.Total)) {
						asBuiltOnly = false
					}
				}
				if math.Abs(run-g) > 1e-12 {
					accOK = false
				}
			}
		}
		if len(bad) == 0 && (math.Abs(sumPMF-1) > 1e-12 || !accOK) {
			return Verdict{Signature: "udist-pmf-does-not-accumulate", Detail: fmt.Sprintf("sum PMF = %v, running sums equal CDF: %v", sumPMF, accOK),
				Concrete: fmt.Sprintf("UDist{N1:%d,N2:%d,T:%v}", d.N1, d.N2, d.T)}
		}
	}
	if len(bad) == 0 {
		return pass()
	}
	v := Verdict{Concrete: fmt.Sprintf("UDist{N1:%d,N2:%d,T:%v}", n1, n2, c.T)}
	if asBuiltOnly {
		v.Signature = utSigTrunc
	} else if bad[0].Fn == "CDF" {
		v.Signature = "udist-cdf-wrong"
	} else {
		v.Signature = "udist-pmf-wrong"
	}
	v.Detail = fmt.Sprintf("%d cells differ from the brute-force distribution; first: %s(%v)=%v want %s", len(bad), bad[0].Fn, bad[0].U, bad[0].Got, bad[0].Want)
	if len(bad) > 8 {
		bad = bad[:8]
	}
	v.Got = bad
	return v
}

// ---------------------------------------------------------------- error

func utError(c *utCase) Verdict {
	rng := newRand(c.Salt)
	n := utSum(c.T)
	r := make([]int, len(c.T))
	// deal the first n1 pooled elements to sample 1 (any split realises the error class)
	left := c.N1
	for k := range c.T {
		r[k] = c.T[k]
		if r[k] > left {
			r[k] = left
		}
		left -= r[k]
	}
	x1, x2 := utSamples(rng, c.T, r)
	if c.Salt%2 == 1 { // nil and empty non-nil slices are both "empty"
		if len(x1) == 0 {
			x1 = nil
		}
		if len(x2) == 0 {
			x2 = nil
		}
	}
	_ = n
	allowed := map[error]bool{}
	lallowed := map[error]bool{}
	switch c.Outcome {
	case "ErrSampleSize":
		allowed[stats.ErrSampleSize], lallowed[benchstat.ErrSampleSize] = true, true
	case "ErrSamplesEqual":
		allowed[stats.ErrSamplesEqual], lallowed[benchstat.ErrSamplesEqual] = true, true
	case "ErrEither":
		allowed[stats.ErrSampleSize], lallowed[benchstat.ErrSampleSize] = true, true
		allowed[stats.ErrSamplesEqual], lallowed[benchstat.ErrSamplesEqual] = true, true
	default:
		utBad("unknown outcome %q", c.Outcome)
		return pass()
	}
	for _, alt := range []string{"less", "two", "greater"} {
		res, err := stats.MannWhitneyUTest(x1, x2, utAlt(alt))
		if err == nil {
			v := fail("error-not-reported", "%s: alt=%s returned a number (%+v) instead of %s", utConcrete(x1, x2), alt, res, c.Outcome)
			v.Concrete = utConcrete(x1, x2)
			return v
		}
		if !allowed[err] || res != nil {
			v := fail("wrong-error", "alt=%s returned (%v, %v), want %s", alt, res, err, c.Outcome)
			v.Concrete = utConcrete(x1, x2)
			return v
		}
	}
	p, err := benchstat.UTest(&benchstat.Metrics{RValues: x1}, &benchstat.Metrics{RValues: x2})
	if err == nil || !lallowed[err] {
		v := fail("legacy-disagrees", "benchstat.UTest = (%v, %v), want error %s", p, err, c.Outcome)
		v.Concrete = utConcrete(x1, x2)
		return v
	}
	return pass()
}

// ---------------------------------------------------------------- approx (auxiliary)

// utTieVector returns the tie vector and 2U (pair counting) of two samples.
func utTieVector(x1, x2 []float64) (t []int, u2x int) {
	for _, a := range x1 {
		for _, b := range x2 {
			if a > b {
				u2x += 2
			} else if a == b {
				u2x++
			}
		}
	}
	all := append(append([]float64(nil), x1...), x2...)
	sort.Float64s(all)
	for i := 0; i < len(all); {
		j := i
		for j < len(all) && all[j] == all[i] {
			j++
		}
		t = append(t, j-i)
		i = j
	}
	return
}

func utPhi(z float64) float64 { return 0.5 * math.Erfc(-z/math.Sqrt2) }

// utNormalApprox evaluates the tie- and continuity-corrected normal approximation.
func utNormalApprox(t []int, n1, n2, u2x int, alt string) float64 {
	N := float64(n1 + n2)
	ts := 0.0
	for _, x := range t {
		f := float64(x)
		ts += f*f*f - f
	}
	mu := float64(n1) * float64(n2) / 2
	sigma := math.Sqrt(float64(n1) * float64(n2) / 12 * ((N + 1) - ts/(N*(N-1))))
	d := float64(u2x)/2 - mu
	switch alt {
	case "less":
		return utPhi((d + 0.5) / sigma)
	case "greater":
		return utPhi(-(d - 0.5) / sigma)
	}
	if d > 0 {
		d -= 0.5
	} else if d < 0 {
		d += 0.5
	}
	z := d / sigma
	return 2 * math.Min(utPhi(z), utPhi(-z))
}

// utExactHist counts, for every 2U, the assignments of the pool with tie vector t to
// a first sample of size n1 (float64 counts: relative error ~1e-15, far below the
// auxiliary tolerance).
func utExactHist(t []int, n1 int) []float64 {
	n := utSum(t)
	top := 2 * n1 * (n - n1)
	cur := make([][]float64, n1+1)
	cur[0] = make([]float64, top+1)
	cur[0][0] = 1
	sofar := 0
	for _, tk := range t {
		next := make([][]float64, n1+1)
		for a := 0; a <= n1 && a <= sofar; a++ {
			if cur[a] == nil {
				continue
			}
			for r := 0; r <= tk && a+r <= n1; r++ {
				if (sofar+tk)-(a+r) > n-n1 {
					continue // more than n2 elements in the second sample
				}
				w := utChoose(tk, r)
				add := r * (2*(sofar-a) + (tk - r))
				if next[a+r] == nil {
					next[a+r] = make([]float64, top+1)
				}
				dst := next[a+r]
				for u, cnt := range cur[a] {
					if cnt != 0 {
						dst[u+add] += cnt * w
					}
				}
			}
		}
		cur = next
		sofar += tk
	}
	return cur[n1]
}

func utChoose(n, k int) float64 {
	if k < 0 || k > n {
		return 0
	}
	c := 1.0
	for i := 1; i <= k; i++ {
		c = c * float64(n-k+i) / float64(i)
	}
	return math.Round(c)
}

// utSan makes a reported float fit for JSON (NaN and infinities, which the code under test may
// return and which then have to be reported, become strings).
func utSan(x float64) interface{} {
	if math.IsNaN(x) || math.IsInf(x, 0) {
		return fmt.Sprint(x)
	}
	return x
}

func utAuxEq(got, want float64) bool {
	return math.Abs(got-want) <= 1e-12+1e-9*math.Max(math.Abs(got), math.Abs(want))
}

func utApprox(c *utCase) Verdict {
	if c.EL > 0 {
		oe, ot := stats.MannWhitneyExactLimit, stats.MannWhitneyTiesExactLimit
		stats.MannWhitneyExactLimit, stats.MannWhitneyTiesExactLimit = c.EL, c.TL
		defer func() { stats.MannWhitneyExactLimit, stats.MannWhitneyTiesExactLimit = oe, ot }()
	}
	rng := newRand(c.Salt)
	n1, n2 := c.N1, c.N2
	var x1, x2 []float64
	shift := []float64{0, 0, 0.3, -0.3, 1, -1}[rng.Intn(6)]
	if c.Ties {
		switch rng.Intn(3) {
		case 0:
			// a small alphabet; at least one tie and at least two distinct values
			k := 2 + rng.Intn(n1+n2-2)
			if k > 40 {
				k = 3 + rng.Intn(38)
			}
			vals := utValues(rng, k)
			for {
				x1, x2 = x1[:0], x2[:0]
				for i := 0; i < n1; i++ {
					j := int(float64(k) * (rng.Float64() + 0.15*shift))
					x1 = append(x1, vals[utClamp(j, 0, k-1)])
				}
				for i := 0; i < n2; i++ {
					x2 = append(x2, vals[rng.Intn(k)])
				}
				t, _ := utTieVector(x1, x2)
				if len(t) >= 2 && len(t) < n1+n2 {
					break
				}
			}
		case 1:
			// every value of sample 1 is distinct; the only ties are inside sample 2
			vals := utValues(rng, n1+n2)
			perm := rng.Perm(n1 + n2)
			for i := 0; i < n1; i++ {
				x1 = append(x1, vals[perm[i]])
			}
			for i := n1; i < n1+n2; i++ {
				x2 = append(x2, vals[perm[i]])
			}
			for d := 1 + rng.Intn(3); d > 0; d-- {
				x2[rng.Intn(n2-1)+1] = x2[0]
			}
		default:
			// both samples free of internal ties; a few values occur once in each
			vals := utValues(rng, n1+n2)
			perm := rng.Perm(n1 + n2)
			for i := 0; i < n1; i++ {
				x1 = append(x1, vals[perm[i]])
			}
			for i := n1; i < n1+n2; i++ {
				x2 = append(x2, vals[perm[i]])
			}
			for d, e := 0, 1+rng.Intn(3); d < e; d++ {
				x2[d] = x1[d]
			}
		}
		rng.Shuffle(len(x2), func(i, j int) { x2[i], x2[j] = x2[j], x2[i] })
	} else {
		vals := utValues(rng, n1+n2)
		// sample 1 draws positions with a location shift: order the positions by a
		// noisy key and give sample 1 the low (shift < 0) or high (shift > 0) end
		idx := rng.Perm(n1 + n2)
		if shift != 0 {
			key := make([]float64, n1+n2)
			for p := range key {
				key[p] = shift*float64(p) + rng.NormFloat64()*float64(n1+n2)*0.5
			}
			sort.Slice(idx, func(a, b int) bool { return key[idx[a]] > key[idx[b]] })
		}
		for i, p := range idx {
			if i < n1 {
				x1 = append(x1, vals[p])
			} else {
				x2 = append(x2, vals[p])
			}
		}
	}
	t, u2x := utTieVector(x1, x2)
	hasTies := len(t) < n1+n2
	if hasTies != c.Ties {
		utBad("tie generation failed")
		return pass()
	}
	v := Verdict{Concrete: utConcrete(x1, x2)}
	var hist []float64
	var total float64
	if c.Exact {
		hist = utExactHist(t, n1)
		for _, h := range hist {
			total += h
		}
	}
	tail := func(lo, hi int) float64 { // P(lo <= 2U <= hi)
		s := 0.0
		for u := lo; u <= hi && u < len(hist); u++ {
			if u >= 0 {
				s += hist[u]
			}
		}
		return s / total
	}
	top := 2 * n1 * n2
	wants := map[string]float64{}
	for _, alt := range []string{"less", "two", "greater"} {
		res, err := stats.MannWhitneyUTest(x1, x2, utAlt(alt))
		if err != nil || res == nil {
			v.Signature, v.Detail = "unexpected-error", fmt.Sprintf("auxiliary: alt=%s error %v", alt, err)
			return v
		}
		if res.U != float64(u2x)/2 {
			v.Signature, v.Detail = "u-statistic", fmt.Sprintf("auxiliary: U=%v, pair counting gives %v", res.U, float64(u2x)/2)
			return v
		}
		var want float64
		sig := "normal-approximation"
		if c.Exact {
			less, greater := tail(0, u2x), tail(u2x, top)
			switch alt {
			case "less":
				want = less
			case "greater":
				want = greater
			default:
				want = math.Min(1, 2*math.Min(less, greater))
			}
			sig = "p-" + alt + "-wrong"
			if !utAuxEq(res.P, want) {
				// name the defect class if an as-built formula explains the value
				switch alt {
				case "greater":
					if utAuxEq(res.P, 1-tail(0, u2x-2)) {
						sig = utSigGreater
					}
				case "two":
					ab := 1.0
					if 2*u2x != top {
						ab = 2 * tail(0, utMin(u2x, top-u2x))
					}
					if utAuxEq(res.P, ab) {
						sig = utSigTwo
					} else if utAuxEq(res.P, math.Min(1, 2*math.Min(less, 1-tail(0, u2x-2)))) {
						sig = utSigGreater
					}
				}
			}
		} else {
			want = utNormalApprox(t, n1, n2, u2x, alt)
		}
		wants[alt] = want
		if !utAuxEq(res.P, want) {
			v.Signature = sig
			v.Detail = fmt.Sprintf("auxiliary (n1=%d n2=%d ties=%v exact=%v): alt=%s U=%v P=%v, independent evaluation gives %v",
				n1, n2, c.Ties, c.Exact, alt, res.U, res.P, want)
			v.Want, v.Got = utSan(want), utSan(res.P)
			return v
		}
		if alt == "two" {
			p, lerr := benchstat.UTest(&benchstat.Metrics{RValues: x1}, &benchstat.Metrics{RValues: x2})
			if lerr != nil || p != res.P {
				v.Signature = "legacy-disagrees"
				v.Detail = fmt.Sprintf("auxiliary: benchstat.UTest = (%v, %v), stats P = %v", p, lerr, res.P)
				return v
			}
		}
	}
	// the path benchstat itself takes for the two-sided test, at these sizes too: benchmath's
	// assume-nothing comparison, in both argument orders - twice the smaller one-sided value
	// capped at 1, unchanged when the samples are swapped (default limits only: benchmath's
	// U-test does not follow this package's exported limits)
	if c.EL == 0 {
		wantTwo := math.Min(1, 2*math.Min(wants["less"], wants["greater"]))
		thr := benchmath.Thresholds{CompareAlpha: 0.05}
		s1 := benchmath.NewSample(append([]float64(nil), x1...), &thr)
		s2 := benchmath.NewSample(append([]float64(nil), x2...), &thr)
		for _, o := range []struct {
			name string
			cmp  benchmath.Comparison
		}{{"Compare(s1,s2)", benchmath.AssumeNothing.Compare(s1, s2)}, {"Compare(s2,s1)", benchmath.AssumeNothing.Compare(s2, s1)}} {
			if !utAuxEq(o.cmp.P, wantTwo) {
				v.Signature = "compare-two-sided"
				v.Detail = fmt.Sprintf("auxiliary (n1=%d n2=%d ties=%v exact=%v): benchmath.AssumeNothing.%s: P=%v, twice the smaller one-sided value (less %v, greater %v) capped at 1 is %v",
					n1, n2, c.Ties, c.Exact, o.name, o.cmp.P, wants["less"], wants["greater"], wantTwo)
				v.Want, v.Got = utSan(wantTwo), utSan(o.cmp.P)
				return v
			}
		}
	}
	// all values equal, on the approximate side too: an error, not a number
	if !c.Exact {
		e1 := make([]float64, n1)
		e2 := make([]float64, n2)
		val := utValues(rng, 1)[0]
		for i := range e1 {
			e1[i] = val
		}
		for i := range e2 {
			e2[i] = val
		}
		for _, alt := range []string{"less", "two", "greater"} {
			if res, err := stats.MannWhitneyUTest(e1, e2, utAlt(alt)); err != stats.ErrSamplesEqual || res != nil {
				v.Signature = "error-not-reported"
				v.Detail = fmt.Sprintf("auxiliary: %d+%d equal values, alt=%s: (%v, %v), want ErrSamplesEqual", n1, n2, alt, res, err)
				v.Concrete = fmt.Sprintf("all %d+%d values = %v", n1, n2, val)
				return v
			}
		}
	}
	return pass()
}

func utClamp(x, lo, hi int) int {
	if x < lo {
		return lo
	}
	if x > hi {
		return hi
	}
	return x
}

func utMin(a, b int) int {
	if a < b {
		return a
	}
	return b
}
