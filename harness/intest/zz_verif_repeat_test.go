//go:build verif

package main

// In-process repetition of benchstat(): the output for an argument list must not
// depend on which argument lists were run before it in the same process (property
// C15: "a function of its arguments and file contents alone").  Compiled into
// cmd/benchstat's test binary by an overlay; driven by /verif/props/C15.py.

import (
	"bytes"
	"encoding/json"
	"os"
	"testing"
)

func TestVerifRepeat(t *testing.T) {
	plan := os.Getenv("VERIF_REPEAT_PLAN")
	if plan == "" {
		t.Skip("VERIF_REPEAT_PLAN not set")
	}
	data, err := os.ReadFile(plan)
	if err != nil {
		t.Fatal(err)
	}
	var p struct {
		Runs [][]string `json:"runs"` // argument lists, in the order to run them
		Out  string     `json:"out"`
	}
	if err := json.Unmarshal(data, &p); err != nil {
		t.Fatal(err)
	}
	type res struct {
		Args   []string `json:"args"`
		Stdout string   `json:"stdout"`
		Stderr string   `json:"stderr"`
		Err    string   `json:"err"`
	}
	var out []res
	for _, args := range p.Runs {
		var so, se bytes.Buffer
		r := res{Args: args}
		if err := benchstat(&so, &se, args); err != nil {
			r.Err = err.Error()
		}
		r.Stdout, r.Stderr = so.String(), se.String()
		out = append(out, r)
	}
	b, _ := json.Marshal(out)
	if err := os.WriteFile(p.Out, b, 0o644); err != nil {
		t.Fatal(err)
	}
}
