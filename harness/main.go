// Command verifharness binds the TLA+ specifications under /verif/spec to the
// real golang/perf code. It is compiled inside /repo's module by a build
// overlay (see /verif/lib/vlib.py), so it always judges the current tree.
//
// usage: vh <family> <mode> [args...]
//
//	replay <cases.ndjson> <verdicts.ndjson>   run TLC-generated cases through the real code
//	record <out.ndjson> <n>                   drive the real code, log events for trace validation
package main

import (
	"strings"
	"bufio"
	"encoding/json"
	"fmt"
	"math/rand"
	"os"
	"sort"
	"strconv"
)

type familyFn func(mode string, args []string) error

var families = map[string]familyFn{}

func register(name string, fn familyFn) { families[name] = fn }

func main() {
	if len(os.Args) < 3 {
		fmt.Fprintln(os.Stderr, "usage: vh <family> <mode> [args...]")
		var names []string
		for n := range families {
			names = append(names, n)
		}
		sort.Strings(names)
		fmt.Fprintln(os.Stderr, "families:", names)
		os.Exit(2)
	}
	fn, ok := families[os.Args[1]]
	if !ok {
		fmt.Fprintln(os.Stderr, "unknown family", os.Args[1])
		os.Exit(2)
	}
	if err := fn(os.Args[2], os.Args[3:]); err != nil {
		fmt.Fprintln(os.Stderr, "harness error:", err)
		os.Exit(2)
	}
}

// seed returns VERIF_SEED (default 1).
func seed() int64 {
	s, err := strconv.ParseInt(os.Getenv("VERIF_SEED"), 10, 64)
	if err != nil {
		return 1
	}
	return s
}

func newRand(salt int64) *rand.Rand { return rand.New(rand.NewSource(seed()*1000003 + salt)) }

func thorough() bool { return os.Getenv("VERIF_TIER") == "thorough" }

// Verdict is one line of verdicts.ndjson.
type Verdict struct {
	ID        json.RawMessage `json:"id"`
	OK        bool            `json:"ok"`
	Signature string          `json:"signature,omitempty"`
	Detail    string          `json:"detail,omitempty"`
	Want      interface{}     `json:"want,omitempty"`
	Got       interface{}     `json:"got,omitempty"`
	Concrete  string          `json:"concrete,omitempty"`
	Family    string          `json:"family,omitempty"`
}

// replayLoop reads cases line by line, calls f (which must not panic: panics
// are caught and reported as a failing verdict with signature "panic") and
// writes one verdict per case.
func replayLoop(family string, args []string, f func(raw json.RawMessage) Verdict) error {
	if len(args) < 2 {
		return fmt.Errorf("replay needs <cases> <verdicts>")
	}
	in, err := os.Open(args[0])
	if err != nil {
		return err
	}
	defer in.Close()
	out, err := os.Create(args[1])
	if err != nil {
		return err
	}
	defer out.Close()
	w := bufio.NewWriterSize(out, 1<<20)
	defer w.Flush()
	sc := bufio.NewScanner(in)
	sc.Buffer(make([]byte, 1<<20), 1<<28)
	enc := json.NewEncoder(w)
	for sc.Scan() {
		line := append([]byte(nil), sc.Bytes()...)
		if len(line) == 0 {
			continue
		}
		var hdr struct {
			ID json.RawMessage `json:"id"`
		}
		if err := json.Unmarshal(line, &hdr); err != nil {
			return fmt.Errorf("bad case line: %v", err)
		}
		v := safeCall(f, line)
		v.ID = hdr.ID
		v.Family = family
		if err := enc.Encode(&v); err != nil {
			return err
		}
		if !v.OK && strings.HasPrefix(v.Signature, "hang") {
			// the call that never returned is still running in its goroutine (it may spin and
			// allocate without bound): report what there is and leave - the remaining cases are
			// answered "not run", the confirmation pass runs the failing case on its own
			for sc.Scan() {
				line := sc.Bytes()
				if len(line) == 0 {
					continue
				}
				var h2 struct {
					ID json.RawMessage `json:"id"`
				}
				if err := json.Unmarshal(line, &h2); err != nil {
					break
				}
				nv := Verdict{OK: true, Detail: "skipped: not run after a hang in this process", ID: h2.ID, Family: family}
				if err := enc.Encode(&nv); err != nil {
					break
				}
			}
			w.Flush()
			out.Close()
			os.Exit(0)
		}
	}
	return sc.Err()
}

func safeCall(f func(raw json.RawMessage) Verdict, line []byte) (v Verdict) {
	defer func() {
		if r := recover(); r != nil {
			v = Verdict{OK: false, Signature: "panic", Detail: fmt.Sprint("panic: ", r)}
		}
	}()
	return f(line)
}

// eventWriter writes ndjson events.
type eventWriter struct {
	f *os.File
	w *bufio.Writer
	e *json.Encoder
	n int
}

func newEventWriter(path string) (*eventWriter, error) {
	f, err := os.Create(path)
	if err != nil {
		return nil, err
	}
	w := bufio.NewWriterSize(f, 1<<20)
	e := json.NewEncoder(w)
	e.SetEscapeHTML(false)
	return &eventWriter{f: f, w: w, e: e}, nil
}

func (ew *eventWriter) emit(ev interface{}) {
	if err := ew.e.Encode(ev); err != nil {
		panic(err)
	}
	ew.n++
}

func (ew *eventWriter) close() error {
	if err := ew.w.Flush(); err != nil {
		return err
	}
	return ew.f.Close()
}

func fail(sig, format string, a ...interface{}) Verdict {
	return Verdict{OK: false, Signature: sig, Detail: fmt.Sprintf(format, a...)}
}

func pass() Verdict { return Verdict{OK: true} }

func jsonStr(v interface{}) string {
	b, _ := json.Marshal(v)
	return string(b)
}
