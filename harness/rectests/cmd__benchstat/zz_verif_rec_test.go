//go:build verif

package main

// Overlaid into cmd/benchstat's test package by the verification driver (never part of
// /repo): records the scheduling points of Builder.ToTables while the repository's own
// tests run, one run = one "reset" event carrying the shape of the tables followed by the
// run's events in the order of the recorder's lock.  Output: $VERIF_TRACE (ndjson).

import (
	"encoding/json"
	"os"
	"runtime"
	"sync"

	"golang.org/x/perf/benchproc"
	"golang.org/x/perf/cmd/benchstat/internal/benchtab"
)

type verifRec struct {
	mu     sync.Mutex
	out    *os.File
	enc    *json.Encoder
	tables map[*benchtab.Table]int
	rows   []map[benchproc.Key]int
	cols   []map[benchproc.Key]int
	events []map[string]interface{}
	cells  [][3]int
	colws  [][2]int
	tabs   []*benchtab.Table
}

func (g *verifRec) rowNo(t int, k benchproc.Key) int {
	m := g.rows[t-1]
	if n, ok := m[k]; ok {
		return n
	}
	m[k] = len(m) + 1
	return m[k]
}

func (g *verifRec) colNo(t int, k benchproc.Key) int {
	m := g.cols[t-1]
	if n, ok := m[k]; ok {
		return n
	}
	m[k] = len(m) + 1
	return m[k]
}

func (g *verifRec) hook(point string, table *benchtab.Table, row, col benchproc.Key) {
	g.mu.Lock()
	defer g.mu.Unlock()
	t := 0
	if table != nil {
		var ok bool
		if t, ok = g.tables[table]; !ok {
			t = len(g.tables) + 1
			g.tables[table] = t
			g.tabs = append(g.tabs, table)
			g.rows = append(g.rows, map[benchproc.Key]int{})
			g.cols = append(g.cols, map[benchproc.Key]int{})
		}
	}
	w := map[string]interface{}{"kind": "main", "t": t, "r": 0, "c": 0}
	switch point {
	case "table":
		w["kind"] = "table"
	case "cell.spawn", "cell.begin", "cell.end":
		r, c := g.rowNo(t, row), g.colNo(t, col)
		w = map[string]interface{}{"kind": "cell", "t": t, "r": r, "c": c}
		if point == "cell.spawn" {
			g.cells = append(g.cells, [3]int{t, r, c})
		}
	case "col.spawn", "col.begin", "col.end":
		c := g.colNo(t, col)
		w = map[string]interface{}{"kind": "col", "t": t, "r": 0, "c": c}
		if point == "col.spawn" {
			g.colws = append(g.colws, [2]int{t, c})
		}
	}
	g.events = append(g.events, map[string]interface{}{"ev": point, "w": w})
	if point != "barrier2" {
		return
	}
	// the run is over: its shape is known now
	base := make([]int, len(g.tabs))
	for i, tb := range g.tabs {
		base[i] = 1
		if len(tb.Cols) > 0 {
			base[i] = g.colNo(i+1, tb.Cols[0])
		}
	}
	if len(g.tabs) > 0 {
		g.enc.Encode(map[string]interface{}{"ev": "reset", "limit": 2 * runtime.GOMAXPROCS(-1), "nt": len(g.tabs),
			"cells": g.cells, "cols": g.colws, "base": base})
		for _, e := range g.events {
			g.enc.Encode(e)
		}
	}
	g.tables, g.rows, g.cols, g.events, g.cells, g.colws, g.tabs = map[*benchtab.Table]int{}, nil, nil, nil, nil, nil, nil
}

func init() {
	p := os.Getenv("VERIF_TRACE")
	if p == "" {
		return
	}
	f, err := os.OpenFile(p, os.O_CREATE|os.O_WRONLY|os.O_APPEND, 0o644)
	if err != nil {
		panic(err)
	}
	g := &verifRec{out: f, enc: json.NewEncoder(f), tables: map[*benchtab.Table]int{}}
	benchtab.VerifHook = g.hook
}
