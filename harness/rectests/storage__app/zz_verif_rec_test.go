//go:build verif

package app

// Overlaid into storage/app's test package by the verification driver (never part of
// /repo): records the steps of DB.NewUpload while the repository's own tests run.
// A call is attributed to its goroutine; "read" events are held back until the
// insert reveals the day the call runs in.  Output: $VERIF_TRACE (ndjson), events
// reset / nextday / read / insert / commit as consumed by Upload_idtrace.tla, plus
// badformat for an ID that is not YYYYMMDD.N.

import (
	"encoding/json"
	"os"
	"regexp"
	"runtime"
	"strconv"
	"sync"

	"golang.org/x/perf/storage/db"
)

var verifIDRe = regexp.MustCompile(`^([0-9]{8})\.([1-9][0-9]*)$`)

type verifIDRec struct {
	mu      sync.Mutex
	enc     *json.Encoder
	calls   int
	day     string // the current day of this database, as a date string
	dayNo   int
	pending map[string]*verifIDCall // by goroutine
}

type verifIDCall struct {
	u      string
	lastID string
	read   bool // read event still to be written
}

func verifGID() string {
	var buf [64]byte
	n := runtime.Stack(buf[:], false)
	s := string(buf[:n]) // "goroutine 12 [running]:..."
	for i := 10; i < len(s); i++ {
		if s[i] == ' ' {
			return s[10:i]
		}
	}
	return s
}

func (g *verifIDRec) emit(m map[string]interface{}) { g.enc.Encode(m) }

func (g *verifIDRec) split(id string) (string, int, bool) {
	m := verifIDRe.FindStringSubmatch(id)
	if m == nil {
		return "", 0, false
	}
	n, err := strconv.Atoi(m[2])
	return m[1], n, err == nil
}

func (g *verifIDRec) flushRead(c *verifIDCall, ok bool) {
	if !c.read {
		return
	}
	c.read = false
	d, n := 0, 0
	if c.lastID != "" {
		ds, nn, okf := g.split(c.lastID)
		if !okf {
			g.emit(map[string]interface{}{"ev": "badformat", "id": c.lastID})
		} else {
			n = nn
			d = g.dayNo
			if ds != g.day {
				d = g.dayNo - 1 // an earlier day
			}
		}
	}
	g.emit(map[string]interface{}{"ev": "read", "u": c.u, "ok": ok, "day": d, "n": n})
}

func (g *verifIDRec) hook(point, id string) {
	g.mu.Lock()
	defer g.mu.Unlock()
	gid := verifGID()
	switch point {
	case "newupload.read":
		if old := g.pending[gid]; old != nil {
			// the previous call of this goroutine ended without an insert: NewUpload failed
			g.flushRead(old, false)
			delete(g.pending, gid)
		}
		if id == "" {
			// no upload at all: a fresh database
			g.emit(map[string]interface{}{"ev": "reset"})
			g.day, g.dayNo = "", 1
			g.calls = 0
		}
		g.calls++
		g.pending[gid] = &verifIDCall{u: "c" + strconv.Itoa(g.calls), lastID: id, read: true}
	case "newupload.inserted", "newupload.committed":
		c := g.pending[gid]
		ds, n, ok := g.split(id)
		if c == nil || !ok {
			g.emit(map[string]interface{}{"ev": "badformat", "id": id})
			return
		}
		if point == "newupload.inserted" {
			if g.day == "" {
				g.day = ds
			} else if ds > g.day {
				g.day = ds
				g.dayNo++
				g.emit(map[string]interface{}{"ev": "nextday"})
			}
			g.flushRead(c, true)
			g.emit(map[string]interface{}{"ev": "insert", "u": c.u, "ok": true, "day": g.dayNo, "n": n, "id": id})
		} else {
			g.emit(map[string]interface{}{"ev": "commit", "u": c.u, "ok": true, "day": g.dayNo, "n": n, "id": id})
			delete(g.pending, gid)
		}
	}
}

func init() {
	p := os.Getenv("VERIF_TRACE")
	if p == "" {
		return
	}
	f, err := os.OpenFile(p, os.O_CREATE|os.O_WRONLY|os.O_APPEND, 0o644)
	if err != nil {
		panic(err)
	}
	g := &verifIDRec{enc: json.NewEncoder(f), pending: map[string]*verifIDCall{}, dayNo: 1}
	db.VerifHook = g.hook
}
