//go:build verif

package app

// VerifAddToQuery exposes the front end's query builder (addToQuery, compare.go)
// to the verification harness (/verif, property C19). It is not part of the
// repository: the file is added to the package by a build overlay only.
var VerifAddToQuery = addToQuery
