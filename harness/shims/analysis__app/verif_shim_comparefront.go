//go:build verif

package app

// Shim of the verification harness (/verif, extension plan X03, family
// "comparefront"): exposes the unexported pieces of the comparison front end
// (compare.go, parse.go). It is not part of the repository: the file is added
// to the package by a build overlay only.

import (
	"context"

	"golang.org/x/perf/storage/benchfmt"
)

// VerifParseQueryString is parseQueryString.
func VerifParseQueryString(q string) (string, []string) { return parseQueryString(q) }

// VerifElideKeyValues is elideKeyValues.
func VerifElideKeyValues(content string, keys map[string]bool) string {
	return elideKeyValues(content, keys)
}

// VerifQueryKeys is queryKeys.
func VerifQueryKeys(q string) map[string]bool { return queryKeys(q) }

// VerifLinkify is linkify.
func VerifLinkify(labels benchfmt.Labels, label string) string { return linkify(labels, label) }

// VerifGroup wraps a resultGroup.
type VerifGroup struct{ g *resultGroup }

// VerifNewGroup returns an empty group with the given query string.
func VerifNewGroup(q string) *VerifGroup { return &VerifGroup{&resultGroup{Q: q}} }

// Add is resultGroup.add.
func (v *VerifGroup) Add(r *benchfmt.Result) { v.g.add(r) }

// SplitOn is resultGroup.splitOn.
func (v *VerifGroup) SplitOn(key string) []*VerifGroup { return verifWrap(v.g.splitOn(key)) }

// Q is the group's query string.
func (v *VerifGroup) Q() string { return v.g.Q }

// Results is the group's raw list of results.
func (v *VerifGroup) Results() []*benchfmt.Result { return v.g.results }

// LabelValues is a copy of the group's LabelValues.
func (v *VerifGroup) LabelValues() map[string]map[string]int {
	out := make(map[string]map[string]int)
	for k, vs := range v.g.LabelValues {
		m := make(map[string]int)
		for x, c := range vs {
			m[x] = c
		}
		out[k] = m
	}
	return out
}

// VerifValueCount is one line of valueSet.TopN.
type VerifValueCount struct {
	Value string
	Count int
}

// TopN is LabelValues[key].TopN(n); ok is false if the group has no such key.
func (v *VerifGroup) TopN(key string, n int) (out []VerifValueCount, ok bool) {
	vs, ok := v.g.LabelValues[key]
	if !ok {
		return nil, false
	}
	for _, vc := range vs.TopN(n) {
		out = append(out, VerifValueCount{vc.Value, vc.Count})
	}
	return out, true
}

func verifWrap(gs []*resultGroup) []*VerifGroup {
	var out []*VerifGroup
	for _, g := range gs {
		out = append(out, &VerifGroup{g})
	}
	return out
}

// VerifCompareData is the part of compareData the harness looks at.
type VerifCompareData struct {
	Q            string
	Error        string
	Benchstat    string
	Groups       []*VerifGroup
	Labels       map[string]bool
	CommonLabels benchfmt.Labels
}

// VerifCompareQuery is App.compareQuery.
func (a *App) VerifCompareQuery(ctx context.Context, q string) *VerifCompareData {
	d := a.compareQuery(ctx, q)
	return &VerifCompareData{Q: d.Q, Error: d.Error, Benchstat: string(d.Benchstat), Groups: verifWrap(d.Groups),
		Labels: d.Labels, CommonLabels: d.CommonLabels}
}

// VerifFetchCompareResults is App.fetchCompareResults.
func (a *App) VerifFetchCompareResults(ctx context.Context, q string) ([]*VerifGroup, error) {
	gs, err := a.fetchCompareResults(ctx, q)
	return verifWrap(gs), err
}
