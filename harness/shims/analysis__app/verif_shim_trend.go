//go:build verif

package app

// Shim of the verification harness (/verif, extension plan X07, family "trend"):
// exposes the unexported pieces of the trend page (trend.go). It is not part of
// the repository: the file is added to the package by a build overlay only.

import (
	"context"
	"fmt"

	"github.com/aclements/go-gg/table"
	"golang.org/x/perf/storage"
)

// VerifTrendColumn is one column of a table: exactly one of S, F, I is set.
type VerifTrendColumn struct {
	Name string
	S    []string
	F    []float64
	I    []int
}

func verifTrendColumns(t *table.Table) []VerifTrendColumn {
	var out []VerifTrendColumn
	for _, name := range t.Columns() {
		c := VerifTrendColumn{Name: name}
		switch col := t.Column(name).(type) {
		case []string:
			c.S = append([]string{}, col...)
		case []float64:
			c.F = append([]float64{}, col...)
		case []int:
			c.I = append([]int{}, col...)
		default:
			c.S = []string{fmt.Sprintf("column of type %T", col)}
		}
		out = append(out, c)
	}
	return out
}

// VerifTrendTable is queryToTable: the columns of the table, its length and the
// names of the result columns.
func VerifTrendTable(q *storage.Query) (cols []VerifTrendColumn, n int, resultCols []string) {
	t, rc := queryToTable(q)
	return verifTrendColumns(t), t.Len(), rc
}

// VerifTrendData is the part of trendData the harness looks at.
type VerifTrendData struct {
	Q        string
	Error    string
	PlotData string
	PlotType string
	Uploads  int
}

// VerifTrendQuery is App.trendQuery.
func (a *App) VerifTrendQuery(ctx context.Context, q, x string, raw bool) *VerifTrendData {
	d := a.trendQuery(ctx, q, plotOptions{x: x, raw: raw})
	return &VerifTrendData{Q: d.Q, Error: d.Error, PlotData: string(d.PlotData), PlotType: string(d.PlotType),
		Uploads: len(d.TrendUploads)}
}

// VerifTrendColIndex is colIndex{col}.F on a one-column table.
func VerifTrendColIndex(col string, vals []string) []int {
	name := col
	if name == "" {
		name = "commit"
	}
	t := new(table.Builder).Add(name, vals).Done()
	g := colIndex{col: col}.F(t)
	return g.Table(g.Tables()[0]).MustColumn("commit-index").([]int)
}

// VerifTrendTableToJS is tableToJS on a table built from the given columns; the
// chart columns are the table's columns in the given order, role[i] is the role of
// the i-th.
func VerifTrendTableToJS(cols []VerifTrendColumn, roles []string) string {
	var b table.Builder
	var columns []column
	for i, c := range cols {
		switch {
		case c.S != nil:
			b.Add(c.Name, c.S)
		case c.F != nil:
			b.Add(c.Name, c.F)
		default:
			b.Add(c.Name, c.I)
		}
		columns = append(columns, column{Name: c.Name, Role: roles[i]})
	}
	return string(tableToJS(b.Done(), columns))
}
