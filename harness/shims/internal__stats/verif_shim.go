//go:build verif

package stats

// VerifBetaInc exposes the regularized incomplete beta function (mathBetaInc,
// beta.go) to the verification harness (/verif, property C12, auxiliary probes
// only). It is not part of the repository: the file is added to the package by
// a build overlay only.
var VerifBetaInc = mathBetaInc
