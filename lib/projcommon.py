"""Shared plan for C08 and C09 (spec family Projection)."""
import vlib

RULE = ("(M+G) exhaustive TLC run of Projection.tla over the quick constants (every set of <=2 expressions from the menu in "
        "every parse order, residue, every stream of 3 results over 2 config keys x 2 values with both Config orders; and a second "
        "exhaustive run with 3 config keys arriving in every order under '.config@alpha,c1@num' and '.config,.name', where fields follow the growing group), "
        "invariants KeyEq, ExclusionSound, NoLoss, MatchesDocumentedOrder, StrictTotal; every complete behaviour is printed "
        "as a replay case with the declarative expectation and run on a real ProjectionParser/Projection; plus seeded "
        "-simulate behaviours over the full menu (10 expressions, <=3 per parser), 3 config keys, 5 value tokens "
        "(1000/1k/9/NaN/x; and 1Ki/1Z/1Zi/1Y/1Yi/1k for the SI and IEC suffixes), sub-name keys and gomaxprocs, streams of 5. distinct_nontrivial = distinct cases in which "
        "some projection interns at least two different keys.")


def run(ctx, focus):
    ctx.build()
    q = ctx.quick
    r = ctx.tlc("Projection_gen.tla", "Projection_gen_quick.cfg", timeout=1500, label="bfs+gen")
    cases = r.printed_json("case")
    # the .config group growing while other fields follow it: 3 config keys arriving in every order
    rg = ctx.tlc("Projection_gen.tla", "Projection_gen_grow.cfg", timeout=1500, label="bfs+gen")
    cases += rg.printed_json("case")
    nsim = 60 if q else 800
    r2 = ctx.tlc("Projection_gen.tla", "Projection_gen_sim.cfg", timeout=2400, simulate=nsim, depth=12, label="simulate+gen",
                 workers=8 if q else 16)
    cases += r2.printed_json("case")
    # SI / IEC suffixes up to Yi under the num order
    r2b = ctx.tlc("Projection_gen.tla", "Projection_gen_sim2.cfg", timeout=2400, simulate=max(10, nsim // 4), depth=12, label="simulate+gen",
                  workers=8 if q else 16)
    cases += r2b.printed_json("case")
    if not q:
        r3 = ctx.tlc("Projection_gen.tla", "Projection_gen_thorough.cfg", timeout=3000, label="bfs+gen")
        cases += r3.printed_json("case")
    cases = vlib.dedupe(cases)
    if len(cases) < 500:
        raise vlib.Infra("generator produced only %d cases" % len(cases))
    nontriv = sum(1 for c in cases if any(len(p["less"]) >= 2 for p in c["proj"]))
    ctx.add_samples([cases[len(cases) // 2]], 1)
    ctx.replay("projection", cases, "replay of Projection.tla behaviours on benchproc", extra_args=[focus])
    ctx.cov["distinct_nontrivial"] = nontriv
    ctx.cov["exhaustive"] = True
    return ctx.finish(RULE, assumptions=[
        "all projections of a parser are parsed before the first result is projected (as every caller does)",
        "names have distinct sub-name keys; the numeric value of 'num' tokens is a fixed table (1000, 1k, 9, 4, NaN, x)",
        "a field of the .config group exists from the first result that carries its key; a missing value counts as observed only from then on",
    ])
