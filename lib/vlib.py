"""Shared machinery of the /verif driver (python3 stdlib only).

A property plan (props/Cxx.py) gets a Ctx and uses it to
  * build the Go harness and the repo binaries from /repo's CURRENT working tree
    (overlay build, tag `verif`), exit 2 if that fails;
  * run TLC in one of three modes: exhaustive model checking (mc), case generation
    (gen: the spec prints JSON cases with PrintT) and trace validation (trace);
  * run the harness on generated cases / to record traces;
  * report deviations of the real code (confirmed by a second execution) as
    VIOLATION or KNOWN-FINDING and write the evidence file.

Exit codes: 0 ok, 1 violation (real code, reproduced, not a known finding),
2 infrastructure trouble (never a verdict).
"""
import json, os, re, shutil, subprocess, sys, time, hashlib, glob

VERIF = os.path.dirname(os.path.dirname(os.path.abspath(__file__)))
REPO = os.environ.get("VERIF_REPO", "/repo")
HARNESS_PKG_DIR = "cmd/benchstat/verifharness"
GOENV = {
    "GOFLAGS": "-mod=mod", "GOPROXY": "off", "GOSUMDB": "off", "GOTOOLCHAIN": "local",
    "CGO_ENABLED": "1",
}


class Infra(Exception):
    """Infrastructure trouble: exit 2, never a verdict."""


def log(*a):
    print("[verif]", *a, flush=True)


class TLCResult:
    def __init__(self, out, rc, wall):
        self.out = out
        self.rc = rc
        self.wall = wall
        self.generated = 0
        self.distinct = 0
        m = None
        for m in re.finditer(r"(\d+) states generated, (\d+) distinct states found", out):
            pass
        if m:
            self.generated = int(m.group(1))
            self.distinct = int(m.group(2))
        else:
            m = re.search(r"The number of states generated: (\d+)", out)
            if m:
                self.generated = int(m.group(1))
        self.error = None
        m = re.search(r"^Error: (.*)$", out, re.M)
        if m:
            self.error = m.group(1)
        self.ok = (rc == 0 and self.error is None)

    def printed_json(self, tag=None):
        """Objects printed by PrintT(ToJson(x)) — TLC shows them as an escaped
        string literal on a line of its own."""
        res = []
        for line in self.out.splitlines():
            if not line.startswith('"{') and not line.startswith('"['):
                continue
            try:
                obj = json.loads(json.loads(line))
            except Exception:
                continue
            if tag is None or (isinstance(obj, dict) and obj.get("tag") == tag):
                res.append(obj)
        return res


class Ctx:
    def __init__(self, prop, tier, seed, level):
        self.prop = prop
        self.tier = tier
        self.seed = seed
        self.level = level
        self.t0 = time.time()
        self.work = os.path.join(VERIF, ".work", "%s.%d" % (prop, os.getpid()))
        shutil.rmtree(self.work, ignore_errors=True)
        os.makedirs(self.work)
        self.specdir = os.path.join(self.work, "spec")
        shutil.copytree(os.path.join(VERIF, "spec"), self.specdir)
        self.replaydir = os.path.join(VERIF, "replays", prop)
        os.makedirs(self.replaydir, exist_ok=True)
        self.cov = {"states": 0, "transitions": 0, "traces_validated_against_impl": 0,
                    "evaluations": 0, "distinct_nontrivial": 0, "samples": [], "rule": "",
                    "tlc_runs": [], "exhaustive": False}
        self.assumptions = []
        self.violations = []      # confirmed, not known
        self.known_hits = {}      # signature -> count
        self.known = [k for k in load_known() if k["property"] == prop]
        self.built = False
        self.vh = os.path.join(self.work, "vh")
        self.quick = (tier == "quick")
        self.ncpu = min(16, os.cpu_count() or 4)

    # ---------------------------------------------------------------- build
    def goenv(self):
        e = dict(os.environ)
        e.update(GOENV)
        return e

    def build(self, binaries=(), race=False):
        """Build the harness (and optionally repo binaries) from /repo's working tree."""
        if not self.built:
            files = sorted(glob.glob(os.path.join(VERIF, "harness", "*.go")))
            # Files of other families that do not compile right now (work in progress by
            # someone else) are left out rather than failing this check; files this plan
            # needs (main.go, fam_<x>.go whose family name appears in props/<ID>.py) never are.
            plan = ""
            pp = os.path.join(VERIF, "props", self.prop + ".py")
            if os.path.exists(pp):
                plan = open(pp).read()
            def needed(f):
                b = os.path.basename(f)
                if not b.startswith("fam_"):
                    return True
                name = b[4:-3]
                return ('"%s"' % name) in plan or ("'%s'" % name) in plan or not plan
            excluded = []
            excluded_shims = []
            for attempt in range(8):
                ov = {"Replace": {}}
                for f in files:
                    if f in excluded:
                        continue
                    ov["Replace"][os.path.join(REPO, HARNESS_PKG_DIR, os.path.basename(f))] = f
                # shim files added to existing packages: harness/shims/<pkg path with __>/<file>.go
                for f in sorted(glob.glob(os.path.join(VERIF, "harness", "shims", "*", "*.go"))):
                    sd = os.path.basename(os.path.dirname(f))
                    if sd in excluded_shims:
                        continue
                    pkg = sd.replace("__", "/")
                    ov["Replace"][os.path.join(REPO, pkg, os.path.basename(f))] = f
                self.overlay = os.path.join(self.work, "overlay.json")
                with open(self.overlay, "w") as fh:
                    json.dump(ov, fh)
                try:
                    self._gobuild(["-tags", "verif", "-overlay", self.overlay, "-o", self.vh,
                                   "./" + HARNESS_PKG_DIR])
                    break
                except Infra as e:
                    bad = set(re.findall(r"harness/([\w.]+\.go):", str(e)))
                    drop = [f for f in files if os.path.basename(f) in bad and not needed(f) and f not in excluded]
                    # a shim that no longer fits the package it is overlaid into (e.g. the unexported
                    # function it exposes was renamed): leave it out together with the families using it
                    for sd in set(re.findall(r"harness/shims/([\w.]+)/", str(e))):
                        if sd in excluded_shims:
                            continue
                        excluded_shims.append(sd)
                        syms = set()
                        for sf in glob.glob(os.path.join(VERIF, "harness", "shims", sd, "*.go")):
                            syms |= set(re.findall(r"\b(Verif\w+)\b", open(sf).read()))
                        for f in files:
                            if f not in excluded and f not in drop and any(("." + y) in open(f).read() for y in syms):
                                if needed(f) and os.path.basename(f).startswith("fam_"):
                                    raise
                                drop.append(f)
                        log("harness build: leaving out shim %s (no longer fits its package)" % sd)
                    if not drop and not excluded_shims:
                        raise
                    if drop:
                        log("harness build: leaving out %s (does not compile at the moment)" % [os.path.basename(f) for f in drop])
                    excluded += drop
            else:
                raise Infra("harness does not build")
            self.built = True
        out = {}
        for b in binaries:
            dst = os.path.join(self.work, b + ("-race" if race else ""))
            if not os.path.exists(dst):
                args = ["-tags", "verif", "-overlay", self.overlay, "-o", dst]
                if race:
                    args.insert(0, "-race")
                self._gobuild(args + ["./cmd/" + b])
            out[b] = dst
        return out

    def _gobuild(self, args):
        p = subprocess.run(["go", "build"] + args, cwd=REPO, env=self.goenv(),
                           stdout=subprocess.PIPE, stderr=subprocess.STDOUT, text=True)
        if p.returncode != 0:
            raise Infra("go build failed (tree does not compile?):\n" + p.stdout[-4000:])

    # ---------------------------------------------------------------- harness
    def harness(self, args, timeout=1800, env=None, check=True):
        e = self.goenv()
        e["VERIF_SEED"] = str(self.seed)
        e["VERIF_TIER"] = self.tier
        e["VERIF_WORK"] = self.work
        if env:
            e.update(env)
        t = time.time()
        try:
            def limit():
                # a call of the code under test that never returns may also allocate without bound
                import resource
                resource.setrlimit(resource.RLIMIT_AS, (32 << 30, 32 << 30))
            p = subprocess.run([self.vh] + [str(a) for a in args], cwd=self.work, env=e, preexec_fn=limit,
                               stdout=subprocess.PIPE, stderr=subprocess.PIPE, text=True,
                               timeout=timeout)
        except subprocess.TimeoutExpired:
            raise Infra("harness timed out: %s" % (args,))
        if check and p.returncode != 0:
            raise Infra("harness %s failed rc=%d:\n%s\n%s" % (args, p.returncode, p.stdout[-2000:], p.stderr[-4000:]))
        log("harness %s: %.1fs" % (" ".join(str(a) for a in args[:3]), time.time() - t))
        return p

    # ---------------------------------------------------------------- TLC
    def tlc(self, module, cfg, workers=None, timeout=900, simulate=None, depth=None,
            extra=(), expect_ok=True, label=None, env=None, heap=None, count=True):
        """Run TLC on spec/<module>.tla with spec/<cfg>. Returns TLCResult."""
        if workers is None:
            workers = min(8, self.ncpu) if self.quick else self.ncpu
        md = os.path.join(self.work, "md-%s-%d" % (cfg.replace("/", "_"), int(time.time() * 1000) % 100000))
        cmd = ["timeout", str(timeout), "tlc", "-workers", str(workers), "-metadir", md,
               "-config", cfg, "-noGenerateSpecTE"]
        if simulate is not None:
            cmd += ["-simulate", "num=%d" % simulate, "-seed", str(self.seed)]
            if depth:
                cmd += ["-depth", str(depth)]
        cmd += list(extra) + [module]
        e = dict(os.environ)
        # the tlc wrapper takes 25% of RAM as heap; several checks run side by side
        if "JAVA_TOOL_OPTIONS" not in e:
            e["JAVA_TOOL_OPTIONS"] = "-Xss512m -Xmx%s" % (heap or ("6g" if self.quick else "12g"))
        if env:
            e.update(env)
        # TLC's own temporary directories go where the run's metadata goes (removed below), not into /tmp
        os.makedirs(md, exist_ok=True)
        if "-Djava.io.tmpdir" not in e["JAVA_TOOL_OPTIONS"]:
            e["JAVA_TOOL_OPTIONS"] += " -Djava.io.tmpdir=%s" % md
        t = time.time()
        p = subprocess.run(cmd, cwd=self.specdir, env=e, stdout=subprocess.PIPE,
                           stderr=subprocess.STDOUT, text=True, errors="replace")
        wall = time.time() - t
        shutil.rmtree(md, ignore_errors=True)
        r = TLCResult(p.stdout, p.returncode, wall)
        log("tlc %s/%s: rc=%d generated=%d distinct=%d %.1fs" % (module, cfg, p.returncode, r.generated, r.distinct, wall))
        if p.returncode == 124:
            raise Infra("TLC timed out after %ds on %s/%s" % (timeout, module, cfg))
        if expect_ok and not r.ok:
            tail = "\n".join(l for l in p.stdout.splitlines() if not l.startswith('"'))[-3000:]
            raise Infra("TLC did not finish cleanly on %s/%s (model or spec problem, not a verdict):\n%s" % (module, cfg, tail))
        if count:
            self.cov["states"] += r.distinct
            self.cov["transitions"] += r.generated
            self.cov["tlc_runs"].append({"module": module, "cfg": cfg, "mode": label or ("simulate" if simulate else "bfs"),
                                         "generated": r.generated, "distinct": r.distinct, "wall_s": round(wall, 1)})
        return r

    def trace_validate(self, module, cfg, trace_path, timeout=900, deque=False):
        """Validate an ndjson trace (recorded from the real code) against spec/<module>.
        The trace spec reads 'trace.ndjson' in its cwd; acceptance = high-water mark
        (TLCGet(1)) reached Len(Trace)+1, printed by the spec's POSTCONDITION.
        Returns (accepted, hwm) where hwm = number of events matched."""
        dst = os.path.join(self.specdir, "trace.ndjson")
        shutil.copyfile(trace_path, dst)
        env = None
        if deque:
            # depth-first queue: a trace specification with silent steps follows the trace instead of
            # exploring breadth-first around it
            env = {"JAVA_TOOL_OPTIONS": "-Xss512m -Xmx%s -Dtlc2.tool.queue.IStateQueue=StateDeque" % ("6g" if self.quick else "12g")}
        r = self.tlc(module, cfg, workers=1, timeout=timeout, expect_ok=False, label="trace", env=env)
        m = re.search(r"TRACE hwm=(\d+) len=(\d+)", r.out)
        if not m:
            tail = "\n".join(l for l in r.out.splitlines())[-3000:]
            raise Infra("trace validation did not report a high-water mark on %s:\n%s" % (module, tail))
        hwm, ln = int(m.group(1)), int(m.group(2))
        return (hwm >= ln and r.error is None), hwm, r

    # ---------------------------------------------------------------- verdicts
    def add_samples(self, items, limit=3):
        for it in items:
            if len(self.cov["samples"]) >= 12:
                return
            if limit <= 0:
                return
            self.cov["samples"].append(it)
            limit -= 1

    def report(self, failing, what):
        """failing: list of dicts (confirmed deviations of the real code), each with at
        least 'signature' (string computed by harness/plan) and 'detail'."""
        for f in failing:
            sig = f.get("signature", "")
            if os.environ.get("VERIF_DEBUG"):
                log("deviation sig=%s %s" % (sig, json.dumps(f, default=str)[:int(os.environ.get("VERIF_DEBUG"))]))
            k = self.match_known(sig, f)
            if k is not None:
                self.known_hits.setdefault(k["id"], 0)
                self.known_hits[k["id"]] += 1
                continue
            f["what"] = what
            self.violations.append(f)

    def match_known(self, sig, f):
        for k in self.known:
            if k.get("status") != "known":
                continue
            if k["signature"] == sig:
                return k
        return None

    def finish(self, rule, assumptions=(), explanation=None):
        self.cov["rule"] = rule
        if explanation:
            self.cov["explanation"] = explanation
        wall = time.time() - self.t0
        for k in self.known:
            if k.get("status") == "known" and k["id"] in self.known_hits:
                print("KNOWN-FINDING: property=%s %s (%d cases this run)" % (self.prop, k["what"], self.known_hits[k["id"]]), flush=True)
        nv = len(self.violations)
        replay = None
        if nv:
            replay = os.path.join(self.replaydir, "replay-%s-%d.json" % (self.tier, self.seed))
            with open(replay, "w") as fh:
                json.dump({"property": self.prop, "tier": self.tier, "seed": self.seed,
                           "violations": self.violations[:50]}, fh, indent=1, default=str)
        ev = {
            "property_id": self.prop, "tier": self.tier, "seed": self.seed, "level": self.level,
            "coverage": self.cov, "assumptions": list(self.assumptions) + list(assumptions),
            "wall_s": round(wall, 2), "violations": nv,
            "known_findings_hit": self.known_hits,
        }
        # runs against a scratch copy (VERIF_REPO, used for mutants and seeded changes) must not
        # overwrite the evidence of the real tree
        evdir = os.path.join(VERIF, "evidence") if REPO == "/repo" else os.path.join(VERIF, ".work", "evidence-scratch")
        if not re.match(r"^C\d\d$", self.prop) and REPO == "/repo":
            # extension plans (X..): growth of the specification beyond the listed properties
            evdir = os.path.join(VERIF, "evidence-ext")
        os.makedirs(evdir, exist_ok=True)
        tmp = os.path.join(evdir, ".%s.%d.tmp" % (self.prop, os.getpid()))
        with open(tmp, "w") as fh:
            json.dump(ev, fh, indent=1, default=str)
        os.replace(tmp, os.path.join(evdir, self.prop + ".json"))
        if not os.environ.get("VERIF_KEEP"):
            shutil.rmtree(self.work, ignore_errors=True)
        if nv:
            for v in self.violations[:5]:
                log("violation:", json.dumps(v, default=str)[:1500])
            print("VIOLATION property=%s replay=%s" % (self.prop, replay), flush=True)
            return 1
        log("%s %s ok: states=%d transitions=%d conformance=%d evaluations=%d wall=%.0fs" % (
            self.prop, self.tier, self.cov["states"], self.cov["transitions"],
            self.cov["traces_validated_against_impl"], self.cov["evaluations"], wall))
        return 0

    # ---------------------------------------------------------------- generic replay step
    def write_ndjson(self, name, items):
        p = os.path.join(self.work, name)
        with open(p, "w") as fh:
            for it in items:
                fh.write(json.dumps(it, separators=(",", ":")) + "\n")
        return p

    def read_ndjson(self, path):
        res = []
        with open(path) as fh:
            for line in fh:
                line = line.strip()
                if line:
                    res.append(json.loads(line))
        return res

    def replay(self, family, cases, what, extra_args=(), timeout=1800, confirm=True):
        """Run `vh <family> replay cases verdicts`, confirm failures by a second isolated
        run, report them.  Each verdict: {"id":…, "ok":bool, "signature":…, "detail":…}.
        Returns the list of verdicts."""
        by_id = {}
        for i, c in enumerate(cases):
            c.setdefault("id", i)
            by_id[c["id"]] = c
        cp = self.write_ndjson("cases-%s.ndjson" % family, cases)
        vp = os.path.join(self.work, "verdicts-%s.ndjson" % family)
        self.harness([family, "replay", cp, vp] + list(extra_args), timeout=timeout)
        verdicts = self.read_ndjson(vp)
        for v in verdicts:
            v["family"] = family
        if len(verdicts) != len(cases):
            raise Infra("harness returned %d verdicts for %d cases (%s)" % (len(verdicts), len(cases), family))
        bad = [v for v in verdicts if not v.get("ok")]
        broken = [v for v in bad if v.get("signature") in ("badcase", "harness")]
        if broken:
            raise Infra("harness could not run %d cases (%s): %s" % (len(broken), family, json.dumps(broken[0])[:1500]))
        self.cov.setdefault("skipped", 0)
        self.cov["skipped"] += sum(1 for v in verdicts if v.get("ok") and str(v.get("detail", "")).startswith("skipped"))
        self.cov["traces_validated_against_impl"] += len(verdicts)
        self.cov["evaluations"] += len(verdicts)
        if bad and confirm == "any":
            # schedule-dependent behaviour: a deviation class is confirmed when re-running the
            # failing cases (up to 3 times) fails again at least once; verdicts that never
            # recur are dropped
            sub = [by_id[v["id"]] for v in bad[:200]]
            again = {}
            for attempt in range(3):
                cp2 = self.write_ndjson("cases-%s-confirm.ndjson" % family, sub)
                vp2 = os.path.join(self.work, "verdicts-%s-confirm.ndjson" % family)
                self.harness([family, "replay", cp2, vp2] + list(extra_args), timeout=timeout)
                for w in self.read_ndjson(vp2):
                    if not w.get("ok"):
                        again[w["id"]] = w
                if again:
                    break
            if not again:
                raise Infra("%d deviations never recurred in 3 further runs (%s) - no verdict" % (len(bad), family))
            confirmed = []
            for v in bad:
                v["case"] = by_id[v["id"]]
                v["recurred"] = v["id"] in again
                confirmed.append(v)
            self.report(confirmed, what)
        elif bad and confirm:
            sub = [by_id[v["id"]] for v in bad[:200]]
            cp2 = self.write_ndjson("cases-%s-confirm.ndjson" % family, sub)
            vp2 = os.path.join(self.work, "verdicts-%s-confirm.ndjson" % family)
            self.harness([family, "replay", cp2, vp2] + list(extra_args), timeout=timeout)
            v2 = {v["id"]: v for v in self.read_ndjson(vp2)}
            confirmed = []
            for v in bad[:200]:
                w = v2.get(v["id"])
                if w is not None and not w.get("ok"):
                    v["case"] = by_id[v["id"]]
                    confirmed.append(v)
            if len(confirmed) < len(bad[:200]):
                # history-dependent behaviour (state carried from one call to the next): the failing
                # cases alone pass, so replay the WHOLE sequence again in the same order; a deviation
                # that recurs at the same case is the code's behaviour on that history
                vp3 = os.path.join(self.work, "verdicts-%s-confirm-full.ndjson" % family)
                self.harness([family, "replay", cp, vp3] + list(extra_args), timeout=timeout)
                v3 = {v["id"]: v for v in self.read_ndjson(vp3)}
                have = {v["id"] for v in confirmed}
                for v in bad[:200]:
                    w = v3.get(v["id"])
                    if v["id"] not in have and w is not None and not w.get("ok"):
                        v["case"] = by_id[v["id"]]
                        v["history_dependent"] = True
                        v["detail"] = "(only after the preceding cases of the run, not alone) " + str(v.get("detail", ""))
                        confirmed.append(v)
                if confirmed:
                    log("%d of %d deviations recur only with the preceding cases replayed before them" % (sum(1 for v in confirmed if v.get("history_dependent")), len(bad[:200])))
            if not confirmed:
                raise Infra("%d deviations did not reproduce on a second run (%s) — flaky harness, no verdict" % (len(bad[:200]) - len(confirmed), family))
            # the rest (beyond 200) is reported unconfirmed-but-same-class only through signatures
            for v in bad[200:]:
                v["case"] = by_id[v["id"]]
                confirmed.append(v)
            self.report(confirmed, what)
        elif bad:
            for v in bad:
                v["case"] = by_id[v["id"]]
            self.report(bad, what)
        return verdicts


def load_known():
    p = os.path.join(VERIF, "known_findings.json")
    if not os.path.exists(p):
        return []
    with open(p) as fh:
        return json.load(fh).get("findings", [])


def dedupe(cases, key=lambda c: json.dumps(c, sort_keys=True)):
    seen = set()
    out = []
    for c in cases:
        k = key(c)
        if k in seen:
            continue
        seen.add(k)
        out.append(c)
    return out
