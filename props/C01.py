"""C01 - write/read round trip (spec family FmtStream)."""
import json, os, re
import vlib

LEVEL = "model_checking"
TEXT = ("TLC explores every caller history (add/change/delete/re-add/file<->internal flips) of the writer/reader closed loop "
        "over 2-3 keys x 2 values exhaustively and proves RoundTrip, BeliefSound and NoInternalLeak on the model; every explored "
        "write transition is replayed on the real Writer/Reader, and recorded executions (random API histories, parsed text, "
        "benchfilter) are validated against the spec's reader. Exhaustive for the small alphabet, sampled beyond it.")
NOTE = ("Trusted: the harness's abstraction of emitted text into set/del/blank/bench/unit lines, TLC, the projection of Go values "
        "to tokens; float printing/parsing is checked by bit comparison in the harness only.")
TECHNIQUE = "TLA+ model checking (TLC) + per-transition replay into benchfmt.Writer/Reader + trace validation of recorded writes"
DESIGN_REF = "DESIGN.md section 4 C01"

RULE = ("(M) exhaustive TLC run of FmtStream.tla (caller edits x writer x reader, all histories over the "
        "configured keys/values; invariants BeliefSound, RoundTrip, NoInternalLeak, UnitsRoundTrip); "
        "(G) one replay case per explored WriteResult/WriteUnit transition (BFS-shortest caller history + that write), "
        "each run three ways (in-place edits, struct literals, parsed results) through benchfmt.Writer and a fresh "
        "benchfmt.Reader over all bytes written; (T) recorded histories (random API edits over <=12 keys, parsed random "
        "text, the benchfilter binary) validated event by event against the spec's reader. "
        "distinct_nontrivial = distinct replay cases whose path contains at least one edit between two writes "
        "plus recorded write events whose result differs from the previous one.")


def diff_sig(cfg, got):
    for k, v in cfg.items():
        if k not in got:
            return "cfg-missing-key"
        if got[k] != v:
            if v.endswith("\r") and v.rstrip("\r") == got[k].rstrip("\r"):
                return "cfg-value-trailing-cr"
            return "cfg-wrong-value"
    for k in got:
        if k not in cfg:
            return "cfg-stale-key"
    return ""


def run(ctx):
    bins = ctx.build(binaries=("benchfilter",))
    q = ctx.quick
    # (M)
    ctx.tlc("FmtStream.tla", "FmtStream_mc_quick.cfg" if q else "FmtStream_mc_thorough.cfg", timeout=1500)
    # (G)
    r = ctx.tlc("FmtStream_gen.tla", "FmtStream_gen_quick.cfg" if q else "FmtStream_gen_thorough.cfg", timeout=1500, label="gen")
    cases = vlib.dedupe(r.printed_json("case"))
    if len(cases) < 100:
        raise vlib.Infra("generator produced only %d cases" % len(cases))
    nontriv = 0
    for c in cases:
        acts = [s["a"] for s in c["path"]]
        if "write" in acts and any(a in ("set", "del") for a in acts[acts.index("write"):]):
            nontriv += 1
    ctx.add_samples([cases[len(cases) // 2]], 1)
    ctx.replay("fmtstream", cases, "replay of TLC-generated writer histories")
    # (T)
    ntr = 150 if q else 3000
    tp = os.path.join(ctx.work, "fs-trace.ndjson")
    ctx.harness(["fmtstream", "record", tp, ntr, bins["benchfilter"]])
    if os.path.exists(tp + ".toolfails"):
        # the reader or the benchfilter binary failed on generated, well-formed text
        tf = json.load(open(tp + ".toolfails"))
        ctx.report([{"signature": x["signature"], "family": "fmtstream-record", "detail": "trace %d: %s" % (x["t"], x["detail"])}
                    for x in tf[:5]], "recorded traces: a tool failed on well-formed input")
        ctx.cov["tool_failures_on_wellformed_input"] = len(tf)
    events = ctx.read_ndjson(tp)
    nw, nchg = validate(ctx, tp, events)
    ctx.cov["traces_validated_against_impl"] += ntr
    ctx.cov["evaluations"] += nw
    ctx.cov["distinct_nontrivial"] = nontriv + nchg
    ctx.cov["recorded_events"] = len(events)
    ctx.cov["exhaustive"] = True
    return ctx.finish(RULE, assumptions=[
        "values no line of text can carry (newline, leading blank) and names containing blanks are outside the domain",
        "float <-> text fidelity is checked by bit comparison in the harness, not modelled in TLA+",
        "unit-metadata streams have at most one record per (unit,key), as a reader produces them",
    ])


def validate(ctx, tp, events):
    """Validate the recorded events; on rejection classify the offending event, drop its
    trace and continue with the rest (at most 20 rounds)."""
    nw = sum(1 for e in events if e["ev"] == "write")
    nchg = 0
    prev = None
    for e in events:
        if e["ev"] == "write":
            if prev is not None and prev != e["cfg"]:
                nchg += 1
            prev = e["cfg"]
        elif e["ev"] == "reset":
            prev = None
    sample = [e for e in events if e["ev"] == "write"][:1]
    for s in sample:
        s = dict(s); s.pop("raw", None)
        ctx.add_samples([s], 1)
    cur = events
    for rnd in range(20):
        p = ctx.write_ndjson("trace-r%d.ndjson" % rnd, cur + [{"ev": "reset", "t": -1}])
        ok, hwm, r = ctx.trace_validate("FmtStream_trace.tla", "FmtStream_trace.cfg", p)
        if ok:
            return nw, nchg
        # offending event: invariant violation => the state's l-1; otherwise the first unmatched event
        bad = None
        if r.error and "Invariant" in r.error:
            ls = re.findall(r"^/\\ l = (\d+)", r.out, re.M)
            if ls:
                bad = int(ls[-1]) - 2
            inv = re.search(r"Invariant (\w+) is violated", r.error).group(1)
        else:
            bad = hwm
            inv = "not-consumable"
        if bad is None or bad < 0 or bad >= len(cur):
            raise vlib.Infra("trace rejected but offending event not found: %s" % (r.error,))
        e = cur[bad]
        if e["ev"] == "write":
            sig = diff_sig(e["cfg"], e["got"]) or ("measurement" if e.get("m") != e.get("gotm") else inv)
        else:
            sig = "unit-metadata" if e["ev"] == "unit" else inv
        ctx.report([{"signature": sig, "detail": "recorded event rejected by FmtStream_trace (%s)" % inv,
                     "event": e, "family": "fmtstream-trace"}], "trace validation")
        t = e.get("t")
        cur = [x for x in cur if x.get("t") != t]
    if ctx.violations:
        # many traces are rejected: the violations found so far are reported, the rest is not examined
        return nw, nchg
    raise vlib.Infra("more than 20 rejected traces, all of them known findings - the recorder hits a known finding too often")
