"""C02 - reader line and scoping rules (spec families FmtReader, FmtLine)."""
import json, os
import vlib

LEVEL = "model_checking"
TEXT = ("TLC explores the reader as a state machine over abstract lines and file switches (declarative configuration vs the "
        "code's slot/index store with swap-delete; labels with duplicate disambiguation; unit metadata across files; positioned "
        "errors) exhaustively for 2 keys x 2 values x <=3 inputs, and a character-level line classifier over all short lines; "
        "every explored record-producing transition and every short line is replayed through benchfmt.Files / benchfmt.Reader, "
        "with every returned result cloned and re-checked after reading ends.")
NOTE = ("Trusted: rendering of abstract lines to text in the harness, TLC. Numeric field values are tokens here (C03), unit "
        "rewriting is C04. Line lengths are bounded; byte soups beyond the alphabet are sampled, not exhausted.")
TECHNIQUE = "TLA+ model checking (TLC) + per-transition replay through benchfmt.Files/Reader + exhaustive short-line table + trace validation of byte soups"
DESIGN_REF = "DESIGN.md section 4 C02"

RULE = ("(M) exhaustive TLC on FmtReader.tla (invariants SlotsMatchCfg, IndexSound, Snapshot, LabelsDistinct, NoLeakAcrossFiles, "
        "action property UnitsPersist) and FmtLine.tla; (G) one replay case per explored record-producing transition of "
        "FmtReader_gen (main menu of 3 distinct inputs, and DupMode: one file given several times with fixed content), rendered "
        "with seed-chosen blanks/line endings/concrete keys and read through benchfmt.Files, all results cloned and re-compared "
        "at the end; every line of the FmtLine alphabet up to the length bound through benchfmt.Reader. "
        "distinct_nontrivial = distinct replay cases containing at least one configuration line before a benchmark line, plus "
        "distinct short lines that are not ignored.")


def run(ctx):
    ctx.build()
    q = ctx.quick
    ctx.tlc("FmtReader.tla", "FmtReader_mc_quick.cfg" if q else "FmtReader_mc_thorough.cfg", timeout=1500)
    ctx.tlc("FmtReader.tla", "FmtReader_mc_dup.cfg", timeout=600)
    cases = []
    for cfg in (("FmtReader_gen_quick.cfg" if q else "FmtReader_gen_thorough.cfg"), "FmtReader_gen_dup.cfg"):
        r = ctx.tlc("FmtReader_gen.tla", cfg, timeout=1500, label="gen")
        cases += r.printed_json("case")
    cases = vlib.dedupe(cases)
    if len(cases) < 1000:
        raise vlib.Infra("generator produced only %d cases" % len(cases))
    nontriv = 0
    for c in cases:
        acts = [s["a"] for s in c["path"]]
        if "bench" in acts and any(a in ("set", "del") for a in acts[:acts.index("bench")]):
            nontriv += 1
    ctx.add_samples([cases[len(cases) // 3]], 1)
    ctx.replay("fmtreader", cases, "replay of TLC-generated line sequences through benchfmt.Files")
    nl = run_fmtline(ctx)
    nsoup = run_soup(ctx)
    ctx.cov["distinct_nontrivial"] = nontriv + nl
    ctx.cov["exhaustive"] = True
    return ctx.finish(RULE, assumptions=[
        "numeric fields are tokens (valid / invalid); their values are property C03",
        "inputs naming the same path have the same content",
    ])


def run_soup(ctx):
    """(T) byte soups: recorded reads of generated files validated line by line by FmtSoup_trace."""
    ntr = 8 if ctx.quick else 80
    tp = os.path.join(ctx.work, "soup.ndjson")
    ctx.harness(["fmtline", "record", tp, ntr])
    events = ctx.read_ndjson(tp)
    ok, hwm, r = ctx.trace_validate("FmtSoup_trace.tla", "FmtSoup_trace.cfg", tp, timeout=3000)
    if not ok:
        bad = events[min(hwm, len(events) - 1)]
        # reproducible by construction (seeded generator): record again and compare the event
        tp2 = os.path.join(ctx.work, "soup2.ndjson")
        ctx.harness(["fmtline", "record", tp2, ntr])
        ok2, hwm2, r2 = ctx.trace_validate("FmtSoup_trace.tla", "FmtSoup_trace.cfg", tp2, timeout=3000)
        if ok2:
            raise vlib.Infra("soup trace rejection did not reproduce (event %d)" % hwm)
        kinds = [x.get("kind") for x in bad.get("recs", [])]
        ctx.report([{"signature": "soup-line-records", "family": "fmtline-soup",
                     "detail": "line %r: reader returned %s, not what the format prescribes (event %d)" % ("".join(bad.get("chars", []))[:200], kinds, hwm),
                     "event": {k: (v if k != "chars" else "".join(v)[:300]) for k, v in bad.items()}}], "byte-soup trace validation")
    ctx.cov["traces_validated_against_impl"] += ntr
    ctx.cov["soup_lines"] = sum(1 for e in events if e.get("ev") == "line")
    ctx.cov["evaluations"] += ctx.cov["soup_lines"]
    return ntr


def run_fmtline(ctx):
    q = ctx.quick
    r = ctx.tlc("FmtLine_gen.tla", "FmtLine_gen_quick.cfg" if q else "FmtLine_gen_thorough.cfg", timeout=2400, label="gen")
    cases = vlib.dedupe(r.printed_json("line"))
    if len(cases) < 1000:
        raise vlib.Infra("FmtLine generator produced only %d cases" % len(cases))
    ctx.add_samples([cases[len(cases) // 2]], 1)
    ctx.replay("fmtline", cases, "replay of all short lines through benchfmt.Reader")
    return sum(1 for c in cases if c.get("kind") != "ignored")
