"""C03 - numbers are read as correctly rounded float64 values and exact integers (spec family NumLit).

Claimed IN PART (DESIGN.md section 6): grammar, integer exactness, fast-path guard, error
reporting, and value agreement with the standard parser on the enumerated short texts and the
boundary families below -- NOT correct rounding across the whole float64 range.
"""
import json, os, random, struct, math
from fractions import Fraction
import vlib

LEVEL = "exploration"
TEXT = ("Partial claim. TLC checks, on every text up to the length bound over the numeric-literal alphabet "
        "{0 1 9 . e E + - _ x X p i n f a N} (plus targeted sub-alphabets for decimal, hexadecimal, special-value and integer "
        "texts), that a declarative literal grammar (decimal / hexadecimal float with mandatory p exponent / underscore placement / "
        "inf, infinity, nan spellings / base-10 integer with range rule) and a transcription of the reader's own scanners "
        "(underscoreOK, special, readFloat, decimal.set, ParseUint/ParseInt/Atoi, the integer fast path of atof) accept the same "
        "texts with the same denotation <<sign, digits, exponent>>, and that the fast path either falls back or returns exactly the "
        "denoted integer without ever exceeding MAX, for the parametric word sizes MAX = 99, 999, 32767. Every enumerated text, "
        "the spec-derived integer boundary families for MAX = 2^63-1 (around MAX, the fast-path threshold (MAX-10) div 10, 2^64 and "
        "its tenth; iteration counts of 1..25 digits) and driver-built float boundary families classified by the spec (float64 "
        "overflow / underflow / subnormal limits, halfway points between adjacent floats with their decimal neighbours, long "
        "mantissas up to and beyond 800 digits, hex ties, exact-path limits, exponent forms, near-misses) are read by the real "
        "benchfmt.Reader in the iteration-count and the measurement position: accept/reject against the spec's class (rejected or "
        "out of range => one SyntaxError for the line), integers exactly against the denotation, float bits against "
        "strconv.ParseFloat and ints against strconv.Atoi (the oracle the property names). NOT claimed: correct rounding across the "
        "float64 range - TLC has no floating point; beyond the enumerated texts and the boundary families nothing is asserted about values. "
        "Where the exact rational value of the spec's denotation (math/big, auxiliary) shows that the standard parser itself is not "
        "correctly rounded - decimal texts with more than 800 integer digits, the named deviation NumLit.LosesIntegerDigits - the "
        "expected value is the exactly rounded one and the as-built value is reported under the signature decimal-over-800-integer-digits.")
NOTE = ("Trusted: TLC, the Go standard library's strconv as the value oracle (as the property defines it), the line templates "
        "`BenchmarkX <text> 1 ns/x` and `BenchmarkX 1 <text> x` in the harness, math/big for the auxiliary exact-rational "
        "cross-check of the spec's denotation against strconv. The rounding algorithm itself (19-digit accumulator, exact path, "
        "decimal shifting, atofHex) is not modelled; it is only sampled by the differential replay. Texts longer than the bounds, "
        "exponents of more than 5 digits on mantissas of 10^4+ digits, and bytes outside printable ASCII are outside the check.")
TECHNIQUE = "TLA+ model checking (TLC) of a literal grammar vs scanner transcription + exhaustive short-text replay and spec-classified boundary families through benchfmt.Reader, differential against strconv"
DESIGN_REF = "DESIGN.md section 4 C03, section 6"

RULE = ("(M) exhaustive TLC on NumLit.tla: invariants GrammarTotal, UnderscoreAgree, DenotAgree, ScannersAgree, FastPathExact, AtofAgrees, "
        "AtoiAgrees, IntIsFloat, CaseBlind, DigitBlind over all texts of the grammar alphabets up to the bound; FastPathExact, "
        "AtofAgrees, AtoiAgrees, RangeRule, DigitArith, ThresholdRule over all digit/sign strings around the bounds for MAX in {99, 999, 32767}; "
        "DenotAgree, ScannersAgree with a 3-digit model of decimal.set's buffer (normative; NumLit_asbuilt.cfg with LosesIntegerDigits "
        "must produce the counterexample). "
        "(G) one replay case per distinct text printed by NumLit_gen (enumerated texts + BoundaryInts for MAX = 2^63-1) and per "
        "driver-built boundary text classified by NumLit_genfile; each case = two one-line inputs through benchfmt.Reader. "
        "distinct_nontrivial = distinct texts that are well-formed floats or integers (class not bad in at least one position). "
        "exhaustive refers to the enumerated alphabets up to the stated lengths only.")

MC_TIMEOUT = 3000


# --------------------------------------------------------------------------- boundary families (floats)
def f2bits(x):
    return struct.unpack("<Q", struct.pack("<d", x))[0]


def bits2f(b):
    return struct.unpack("<d", struct.pack("<Q", b))[0]


def exact_digits(fr):
    """fr: a non-negative dyadic Fraction. Returns (digits, point) with value = 0.digits * 10^point,
    digits without leading/trailing zeros (exact, finite because the denominator is a power of two)."""
    assert fr > 0
    num, den = fr.numerator, fr.denominator
    k = den.bit_length() - 1
    assert den == 1 << k
    n = num * (5 ** k)          # value = n / 10^k
    s = str(n)
    point = len(s) - k
    s2 = s.rstrip("0")
    return s2, point


def sci(digits, point):
    """d.ddd e(point-1)"""
    e = point - 1
    m = digits[0] + ("." + digits[1:] if len(digits) > 1 else "")
    return "%se%d" % (m, e)


def intmant(digits, point):
    """ddddd e(point-len)"""
    return "%se%d" % (digits, point - len(digits))


def positional(digits, point):
    if point <= 0:
        return "0." + "0" * (-point) + digits
    if point >= len(digits):
        return digits + "0" * (point - len(digits))
    return digits[:point] + "." + digits[point:]


def variants(digits, point, rnd, all_forms=False):
    """text forms of 0.digits*10^point"""
    out = [sci(digits, point)]
    forms = [intmant]
    if abs(point) + len(digits) < 420:
        forms.append(positional)
    if all_forms:
        for f in forms:
            out.append(f(digits, point))
    else:
        out.append(rnd.choice(forms)(digits, point))
    return out


def neighbours(digits, point, rnd, cuts=(), all_forms=False):
    """the exact value, just above (one more digit), just below (last digit decremented, 9s appended),
    and truncations / round-ups at the given numbers of digits"""
    out = []
    out += variants(digits, point, rnd, all_forms)
    out += variants(digits + "1", point, rnd, all_forms)
    out += variants(digits + "0" * 30 + "1", point, rnd)
    below = str(int(digits) - 1).rjust(len(digits), "0") + "9" * 3
    if int(below) > 0:
        out += variants(below.lstrip("0") or "0", point - (len(below) - len(below.lstrip("0"))), rnd, all_forms)
    for k in cuts:
        if k < len(digits):
            t = digits[:k]
            out += variants(t.rstrip("0") or "0", point, rnd) if int(t) else []
            up = str(int(t) + 1)
            p2 = point + (len(up) - len(t))
            out += variants(up.rstrip("0"), p2, rnd)
    return out


def random_double(rnd):
    kind = rnd.randrange(8)
    if kind == 0:       # subnormal
        b = rnd.randrange(1, 1 << 52)
        if rnd.random() < 0.3:
            b = rnd.choice([1, 2, 3, (1 << 52) - 1, (1 << 52) - 2, 1 << 51])
    elif kind == 1:     # smallest normals
        b = (rnd.randrange(1, 4) << 52) | rnd.randrange(1 << 52)
    elif kind == 2:     # largest
        b = (rnd.randrange(2043, 2047) << 52) | rnd.randrange(1 << 52)
    elif kind == 3:     # around 1 .. 2^64
        b = (rnd.randrange(1023, 1023 + 66) << 52) | rnd.randrange(1 << 52)
    elif kind == 4:     # mantissa patterns that make ties-to-even matter
        m = rnd.choice([0, 1, (1 << 52) - 1, (1 << 52) - 2, 1 << 51, (1 << 51) - 1, 0x5555555555555, 0xAAAAAAAAAAAAA])
        b = (rnd.randrange(1, 2047) << 52) | m
    elif kind == 5:     # typical benchmark magnitudes 1e-3 .. 1e12
        b = f2bits(10 ** rnd.uniform(-3, 12))
    else:
        b = (rnd.randrange(1, 2047) << 52) | rnd.randrange(1 << 52)
    return b


def frac_of_bits(b):
    e = (b >> 52) & 0x7FF
    m = b & ((1 << 52) - 1)
    if e == 0:
        return Fraction(m, 1 << 1074)
    return Fraction((1 << 52) | m) * (Fraction(2) ** (e - 1075))


def boundary_float_texts(seed, quick):
    rnd = random.Random(seed * 7919 + 3)
    T = []

    def add(*xs):
        for x in xs:
            T.append(x)

    # ---- static families
    maxf = Fraction((1 << 53) - 1) * (Fraction(2) ** 971)
    half_over = maxf + Fraction(2) ** 970           # smallest value that rounds to +Inf
    minsub = Fraction(1, 1 << 1074)
    minnorm = Fraction(1, 1 << 1022)
    specials = [maxf, half_over, Fraction(2) ** 1024, minsub, minsub / 2, minsub * 3 / 2, minsub * 5 / 2,
                minnorm, minnorm - minsub, minnorm - minsub / 2, minnorm + minsub / 2,
                Fraction((1 << 53) + 1), Fraction((1 << 53) + 3), Fraction((1 << 54) + 2), Fraction((1 << 54) + 6),
                Fraction(1 << 63), Fraction((1 << 63) - 512), Fraction((1 << 63) + 1024), Fraction(1 << 64),
                Fraction((1 << 64) - 1024), Fraction((1 << 64) + 2048)]
    for v in specials:
        d, p = exact_digits(v)
        add(*neighbours(d, p, rnd, cuts=(16, 17, 18, 19, 20, 21, 25, 40), all_forms=True))
    add("1e308", "1e309", "2e308", "0.1e310", "17976931348623157e292", "17976931348623158e292", "1.7976931348623157e308",
        "1.7976931348623158e308", "1.7976931348623159e308", "1.797693134862315807e308", "1.797693134862315808e308",
        "4.9e-324", "5e-324", "2.4e-324", "2.5e-324", "2.47e-324", "2.4703282292062327e-324", "2.4703282292062328e-324",
        "1e-323", "1e-324", "1e-400", "2.2250738585072011e-308", "2.2250738585072012e-308", "2.2250738585072014e-308",
        "2.2250738585072009e-308", "2.225073858507201e-308", "-4.9e-324", "-2.4e-324", "-1e-400", "-0", "-0.0", "-0e0", "+0", "0e999",
        "-1e999", "+1e999", "1e-999")
    # exact-path limits of atof64exact (mantissa < 2^53, |exp| <= 22, 15+22)
    for m in ("9007199254740991", "9007199254740992", "9007199254740993", "4503599627370496", "123456789012345", "1", "9", "1000000000000000",
              "999999999999999", "1000000000000001"):
        for e in (0, 1, 15, 21, 22, 23, 24, 36, 37, 38, 39, -1, -21, -22, -23, -24, -37):
            add("%se%d" % (m, e))
        add(m + ".0", m + ".5", m + ".50000000000000000000000001", m + ".49999999999999999999999999", "0." + m, "." + m + "e16")
    add("1e22", "1e23", "8.41e21", "9e15", "1e15", "1.0000000000000002", "1.00000000000000011102230246251565404236316680908203125",
        "1.00000000000000011102230246251565404236316680908203124", "1.00000000000000011102230246251565404236316680908203126",
        "0.1", "0.2", "0.3", "0.30000000000000004", "100.0", "12.5", "1234.5678", "3.14159e+00", "6.02e23", "6.62607015e-34")
    # long mantissas, the 800-digit buffer of decimal.set and its trunc flag
    for k in (15, 16, 17, 18, 19, 20, 21, 22, 23, 100, 307, 308, 309, 310, 400, 798, 799, 800, 801, 802, 1000, 1500):
        add("1" + "0" * k, "9" * k, "1" + "0" * (k - 1) + "1", "0." + "0" * k + "1", "0." + "9" * k, "1." + "0" * k + "1",
            "1" + "0" * k + "e-%d" % k, "0." + "0" * k + "1e%d" % (k + 1), "9" * k + "e-%d" % k,
            "1." + "0" * k, "0" * k + "1", "0" * k + ".5")
    d, p = exact_digits(Fraction((1 << 53) + 1))          # a tie; digits far beyond the buffer decide it
    for z in (700, 780, 790, 795, 800, 810, 900):
        add(d + "." + "0" * z + "1", d + "." + "0" * z, "9007199254740992." + "9" * z, d + "e0", "0." + d + "0" * z + "1e16")
    # ... every total length around the buffer size (the text just fits, fits exactly, overflows by one)
    for z in range(770, 816):
        add(d + "." + "0" * z + "1", d + "0" * z + "1e-%d" % (z + 1), d + "0" * z + "1", "0.000" + d + "0" * z + "1e19")
    d, p = exact_digits(minsub / 2)
    add(sci(d + "0" * 100 + "1", p), sci(d[:-1] + "4" + "9" * 200, p), positional(d + "1", p), positional(d, p))
    add("123456789" * 100, "0." + "123456789" * 100, ("123456789" * 40) + "e-360", ("987654321" * 89) + "e-1100")
    # exponent forms
    add("1e+0308", "1e+0309", "1E-00000324", "1e" + "0" * 30 + "1", "1e-" + "0" * 30 + "1", "1e10000", "1e99999", "1e100000",
        "1e-10000", "1e-99999", "1e-100000", "0e999999999999", "0.0e-999999999999", "1e-99999999999999999999",
        "1e99999999999999999999", "0x1p-99999", "0x1p99999", "0x0p99999999999", "0x0.0p-99999999999", "1e+", "1e-", "1e", "e1", ".e1",
        "1.e1", ".1e1", "1e1.0", "1e1e1", "1ee1", "1e+-1", "1e++1", "++1", "--1", "+-1", "1+", "1-", "1e1+", "+.5", "-.5e-1", "+5.",
        ".", "+", "-", "+.", "-.", "..", "1..", "1.2.3", ".5.", "0x", "0X", "+0x", "0x.", "0x.p1", "0xp1", "0x1", "0x1p", "0x1p+", "0x1p-",
        "0x1e5", "0x1.8", "0x1.8p", "0x1.8p1", "0X1.8P1", "0x1.8P+1", "-0X1.8p-1", "0x1p1.0", "0x1p1p1", "0x1pp1", "0x1.8.p1", "0xgp1",
        "0x1gp1", "0b1", "0b1p1", "0o7", "0o7p1", "017", "08", "09.5", "00x1p1", "0x0x1p1", "1x", "x1", "1p1", "1.5p1", "0x1e+5", "0x1e+5p1",
        "0xep1", "0xe.ep-0", "0xABCDEFp0", "0xabcdef.ABCDEFp+00", "0xfffffffffffff8p0", "0xffffffffffffffffp0")
    # the bytes next to the digits in ASCII ('/' = '0'-1, ':' = '9'+1) and other near-digits
    add("1:", ":1", "1:1", ":", "12:", "0:", "9:", "1/", "/1", "1/2", "/", "1;", "1`", "1@", "1'", "1,5", "1,000", "1'000", "1~", "1!", "1d5", "1D5", "1f", "1F", "1L", "0x1p0f", "1e5f", "$1", "1%", "1x", "1ns")
    # more than 800 integer digits (decimal.set's buffer): the value must still be the exact one
    for k in (801, 802, 805, 850, 1000):
        ds = "".join(rnd.choice("0123456789") for _ in range(k)).lstrip("0").rjust(k, "7")
        add(ds + "e-%d" % (k - 1), ds + ".5e-%d" % (k - 300), ds[:k - 1] + "." + ds[k - 1:] + "e-%d" % (k - 10), ds + "e-%d" % (k + 200))
    # underscores
    add("1_000", "1_0.5", "1_0.0_1e1_0", "1__0", "_1", "1_", "1_.0", "1._0", "1e_1", "1_e1", "1e1_", "1e+_1", "1e-1_0", "+_1", "-_1", "+1_0",
        "0x_1p0", "0x1_0p0", "0x_1_0.8p-0_1", "0x1_p1", "0_x1p1", "0x__1p1", "0x1p_1", "0x1p1_", "0x1._8p1", "0x1_.8p1", "0xa_bp1", "0x_ap0",
        "0xa_p0", "0b_1", "0o_7", "0_7", "0_0", "0_", "_0", "_", "__", "1_2_3", "1_2_3.4_5_6e7_8", "i_nf", "in_f", "inf_", "_inf", "na_n",
        "1_5e3", "1_5E-3", "9_223_372_036_854_775_807", "1_0", "-1_0", "1_000_000.000_001")
    # special values and near misses
    for w in ("inf", "infinity", "nan", "infinit", "infinityy", "in", "inff", "infi", "infin", "infini", "infinite", "na", "nann", "nan0",
              "0nan", "nane", "naninf", "infnan", "infinf", "inf.", "inf0", "infe1", "1inf", "i", "n", "innf", "ifn", "ind", "nam", "qnan", "snan"):
        for f in (str.lower, str.upper, str.capitalize, lambda s: "".join(c.upper() if i % 2 else c for i, c in enumerate(s))):
            for sg in ("", "+", "-", "++", "+-"):
                add(sg + f(w))
    # hex: limits and ties (53-bit significand: 13 hex digits after "1.")
    for e in (-1080, -1076, -1075, -1074, -1073, -1050, -1023, -1022, -1021, -1, 0, 1, 52, 53, 63, 64, 1022, 1023, 1024, 1025):
        for mant in ("1", "1.8", "1.0000000000000", "1.00000000000008", "1.00000000000018", "1.000000000000080000000001",
                     "1.00000000000007ffffffffff", "1.fffffffffffff", "1.fffffffffffff8", "1.fffffffffffff7ffffffffff", "1.fffffffffffff80000000001",
                     "1.ffffffffffffe8", "0.8", "0.0000000000000000000001", "10", "ffffffffffffffffffff", "0.00000000000010000000000008",
                     "3", "1.4", "1.c", "0.4", "0.c", "1.0000000000001", "1.00000000000004", "1.0000000000000c", "0"):
            add("0x%sp%d" % (mant, e))
    add("0x1p-1074", "0x1p-1075", "0x1.8p-1075", "0x1.0000000000001p-1075", "0x0.0000000000001p-1022", "0x0.00000000000008p-1022",
        "0x0.00000000000018p-1022", "0x0.fffffffffffff8p-1022", "0x1.fffffffffffffp1023", "0x1.fffffffffffff8p1023", "0x.8p1025", "-0x1p1024",
        "-0x1.fffffffffffff8p1023", "-0x0p0", "0x0p0", "+0x1P+0001")
    # exponent fields of 10..45 digits: accumulators that wrap (2^63, 2^64 and their multiples, plus or minus a
    # little, land on ordinary exponents if the scanner forgets to saturate), zero-padded ones that must not
    for base in (1 << 31, 1 << 32, 1 << 63, 1 << 64, 3 << 63, 5 << 64, 10 ** 19, 10 ** 20, 10 ** 30, 10 ** 44):
        for dlt in (0, 1, 5, 22, 35, 308, -1, -5, -35, -300):
            e = base + dlt
            for m in ("1", "1.5", "0x1", "0x1.8"):
                pe = "p" if m.startswith("0x") else "e"
                add("%s%s%d" % (m, pe, e), "%s%s-%d" % (m, pe, e))
    for z in (10, 19, 20, 21, 40):
        add("1e" + "0" * z + "5", "1e-" + "0" * z + "5", "0x1p" + "0" * z + "5", "1e+" + "9" * z, "1e-" + "9" * z, "0x1p-" + "9" * z)
    # the decimal shifter decides how many digits a multiplication by 2^k adds by comparing the digit prefix
    # with 5^k: digit strings at, just below and just above every 5^k (k = 1..60), full and cut short by one
    # or two digits, at magnitudes that need left shifts (point 1..40, 100, 300 places left of the digits)
    for k in range(1, 61):
        d = str(5 ** k)
        forms = {d, d + "1", d[:-1] or "5", (d[:-1] + "4") if len(d) > 1 else "4", d[:-1] + str(max(0, int(d[-1]) - 1)),
                 (d[:-2] or "1"), str(5 ** k - 1), str(5 ** k + 1), d + "000000001"}
        exps = (1, 2, 5, 9, 10, 11, 17, 20, 27, 28, 40, 100, 300)
        for f in sorted(forms):
            for e in (rnd.sample(exps, 3) if quick else exps):
                add("%s.%se-%d" % (f[0], f[1:], e) if len(f) > 1 else "%se-%d" % (f, e))
            add("0." + "0" * (k % 7) + f)
    # hex mantissas of 14..17 digits (57..68 bits): every shifted-out bit is sticky.  The kept 53 bits end in
    # 0 (even), the next bit is 1 (looks like a tie) and some lower bit other than the last is set.
    for nd, low in ((14, 3), (15, 7), (16, 11), (17, 15)):
        for i in range(6 if quick else 40):
            m53 = (1 << 52) | (rnd.getrandbits(51) << 1)
            r = rnd.randrange(1, 1 << (low - 2)) << 1 if low > 3 else 2
            M = (m53 << low) | (1 << (low - 1)) | r
            hx = "%x" % M
            ex = rnd.choice((0, -23, 7, -1060, 960))
            pt = rnd.randrange(1, len(hx))
            add("0x%sp%d" % (hx, ex), "0x%s.%sp%d" % (hx[:pt], hx[pt:], ex), "0X%sP%d" % (hx.upper(), ex - 4))
            add("0x%xp%d" % (M - r, ex), "0x%xp%d" % (M - r + 1, ex), "0x%xp%d" % (M - r - 1, ex))
    for nd in range(1, 25):
        for i in range(2 if quick else 12):
            hx = "".join(rnd.choice("0123456789abcdef") for _ in range(nd)).lstrip("0") or "f"
            pt = rnd.randrange(0, len(hx) + 1)
            add("0x%s.%sp%d" % (hx[:pt], hx[pt:], rnd.choice((0, -23, 30, -1050, 1000))))
    # ---- seeded families: halfway points between adjacent doubles, shortest representations, hex
    n = 120 if quick else 1000
    for i in range(n):
        b = random_double(rnd)
        x = bits2f(b)
        lo = frac_of_bits(b)
        hi = frac_of_bits(b + 1) if (b + 1) >> 52 < 2047 else lo + (lo - frac_of_bits(b - 1))
        mid = (lo + hi) / 2
        d, p = exact_digits(mid)
        sgn = rnd.choice(["", "", "-", "+"])
        for t in neighbours(d, p, rnd, cuts=(rnd.choice((17, 18, 19, 20, 21, 30)),)):
            add(sgn + t)
        add(sgn + repr(x), sgn + "%.17g" % x, sgn + "%.16e" % x, sgn + "%.20e" % x, sgn + x.hex())
        d, p = exact_digits(lo)
        add(sgn + sci(d, p))
        if i % 3 == 0:
            # hex text of the midpoint and its neighbours
            h = x.hex()              # 0x1.<13 digits>p<e>  or 0x0.<13 digits>p-1022
            mant, ex = h.split("p")
            add(sgn + mant + "8p" + ex, sgn + mant + "80000000000001p" + ex, sgn + mant + "7fffffffffffffp" + ex)
        if i % 4 == 0:
            # random digit strings with random exponents
            nd = rnd.choice((1, 5, 15, 16, 17, 18, 19, 20, 21, 25, 40, 100))
            ds = "".join(rnd.choice("0123456789") for _ in range(nd)).lstrip("0") or "7"
            e = rnd.choice((0, 1, -1, 22, -22, 23, -23, 300, -300, 308, -308, -320, -330, rnd.randrange(-340, 320)))
            dot = rnd.randrange(0, len(ds) + 1)
            add(sgn + ds[:dot] + "." + ds[dot:] + "e%d" % e, sgn + ds + "E%+d" % e)
    # tidy: ASCII, no blanks, not empty, distinct
    seen = set()
    out = []
    for t in T:
        if not t or t in seen:
            continue
        assert all(33 <= ord(c) < 127 for c in t), t
        seen.add(t)
        out.append(t)
    return out


# --------------------------------------------------------------------------- plan
def iter_cases(out, tag):
    """like TLCResult.printed_json but lazily (the thorough tier prints millions of lines)"""
    start = 0
    n = len(out)
    while start < n:
        end = out.find("\n", start)
        if end < 0:
            end = n
        if out.startswith('"{', start):
            line = out[start:end]
            try:
                obj = json.loads(json.loads(line))
            except Exception:
                obj = None
            if isinstance(obj, dict) and obj.get("tag") == tag:
                yield obj
        start = end + 1


def run(ctx):
    ctx.build()
    q = ctx.quick
    tier = "quick" if q else "thorough"
    # (M)
    ctx.tlc("NumLit.tla", "NumLit_mc_%s.cfg" % tier, timeout=MC_TIMEOUT)
    for mx in (99, 999, 32767):
        ctx.tlc("NumLit.tla", "NumLit_fp_%d_%s.cfg" % (mx, tier), timeout=MC_TIMEOUT)
    # decimal.set's digit buffer (capacity 3 in the model, 800 in the code): normative rule, and the
    # as-built deviation LosesIntegerDigits as a negative control (TLC must show the counterexample)
    ctx.tlc("NumLit.tla", "NumLit_mc_buf.cfg", timeout=600)
    ab = ctx.tlc("NumLit.tla", "NumLit_asbuilt.cfg", workers=2, timeout=600, expect_ok=False, count=False, label="asbuilt")
    if not (ab.error and "DenotAgree" in ab.error):
        raise vlib.Infra("NumLit_asbuilt.cfg did not produce the DenotAgree counterexample: %s" % (ab.error,))
    ctx.cov["asbuilt_counterexample"] = "LosesIntegerDigits=TRUE, BufCap=3 violates DenotAgree at a text with 4 integer digits"

    # (G) driver-built float boundary texts, classified by the spec
    texts = boundary_float_texts(ctx.seed, q)
    bf = []
    for k in range(0, len(texts), 5000):        # one TLC run per 5000 texts keeps the JSON table small
        part = texts[k:k + 5000]
        with open(os.path.join(ctx.specdir, "numlit_texts.ndjson"), "w") as fh:
            for t in part:
                fh.write(json.dumps(list(t)) + "\n")
        rf = ctx.tlc("NumLit_genfile.tla", "NumLit_gen_file.cfg", timeout=MC_TIMEOUT, label="gen")
        got = list(iter_cases(rf.out, "num"))
        if set("".join(c["t"]) for c in got) != set(part):
            raise vlib.Infra("the spec classified %d of %d boundary texts" % (len(got), len(part)))
        bf += got
        del rf
    seen = set()
    state = {"next_id": 0, "nontriv": 0, "total": 0, "by_src": {}}

    def take(objs, src_of):
        chunk = []
        for c in objs:
            key = "".join(c["t"])
            if key in seen:
                continue
            seen.add(key)
            c["src"] = src_of(c)
            c["id"] = state["next_id"]
            state["next_id"] += 1
            del c["tag"]
            if c["fc"] != "bad" or c["ic"] != "bad":
                state["nontriv"] += 1
            state["by_src"][c["src"]] = state["by_src"].get(c["src"], 0) + 1
            chunk.append(c)
            if len(chunk) >= 250000:
                yield chunk
                chunk = []
        if chunk:
            yield chunk

    for chunk in take(bf, lambda c: "bnd-float"):
        ctx.add_samples([{k: (v if not isinstance(v, list) else "".join(v)) for k, v in chunk[len(chunk) // 2].items()}], 1)
        ctx.replay("numlit", chunk, "replay of driver-built, spec-classified float boundary texts through benchfmt.Reader")
    del bf

    # (G) every enumerated text + the spec-derived integer boundary families
    rg = ctx.tlc("NumLit_gen.tla", "NumLit_gen_%s.cfg" % tier, timeout=MC_TIMEOUT, label="gen")
    n_enum = 0
    for chunk in take(iter_cases(rg.out, "num"), lambda c: "enum" if c["fam"] != 0 else "bnd-int"):
        n_enum += len(chunk)
        pick = [c for c in chunk[: 5000] if c["fc"] in ("dec", "hex") and len(c["t"]) >= 4][:1]
        ctx.add_samples([{k: (v if not isinstance(v, list) else "".join(v)) for k, v in c.items()} for c in pick], 1)
        ctx.replay("numlit", chunk, "replay of all short numeric texts and integer boundary families through benchfmt.Reader")
    del rg
    if state["by_src"].get("enum", 0) < 100000 or state["by_src"].get("bnd-int", 0) < 1000 or state["by_src"].get("bnd-float", 0) < 2000:
        raise vlib.Infra("generator produced too few cases: %r" % state["by_src"])
    vlib.log("numlit cases by source: %r" % state["by_src"])
    ctx.cov["cases_by_source"] = state["by_src"]
    ctx.cov["distinct_nontrivial"] = state["nontriv"]
    ctx.cov["exhaustive"] = True
    return ctx.finish(RULE, assumptions=[
        "the value oracle is the Go standard library's strconv.ParseFloat(text, 64) / strconv.Atoi(text), as the property states",
        "correct rounding is NOT established beyond the replayed texts; the rounding algorithm is not modelled",
        "int is 64 bits on this platform (the range rule is instantiated with MAX = 2^63-1)",
        "numeric fields are non-empty and contain no blanks (the line splitter is property C02)",
    ], explanation="auxiliary: for every well-formed decimal/hex text the harness also checks strconv's value against the exact "
                   "rational value of the spec's denotation rounded to nearest-even with math/big; a mismatch there is reported as "
                   "infrastructure trouble (spec or oracle problem), never as a verdict about the code")
