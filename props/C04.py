"""C04 - measurements are normalised to base units for every value, original kept (spec family Units)."""
import json, os, random, re
import vlib

LEVEL = "model_checking"
TEXT = ("Units.tla defines tidying twice - declaratively from the property statement (components split at / * - and blanks, "
        "numerator until '/', back after '*', every numerator component ns/MB becomes sec/B with decimal exponent -9/+6) and "
        "operationally as a transcription of benchunit/parse.go + tidy.go (fast-path table, substring pre-test, tokenizer "
        "offsets, right-to-left edits) - plus the reader, metadata and filter rules on top. TLC proves declarative = operational, "
        "Idempotent, Passthrough, OneNamePerMetric, StoredIsTidied, OrigKeptIffChanged and the either-spelling rules for ALL "
        "units of <= 5 (quick) / <= 7 (thorough) symbols over a 9-symbol alphabet x 8 IEEE value classes, and exhibits the "
        "counterexample of the as-built switch KeepRawUnitWhenValueUnchanged. Every explored unit of <= 5 symbols (thorough: "
        "plus all <= 6 / multi-component <= 7 ones containing ns/MB) is replayed on the real benchunit.Tidy, benchfmt.Reader "
        "(all four Value fields, every value class on one line), UnitMetadataMap and benchproc.NewFilter, a sample through the "
        "benchstat binary; recorded observations on random units of up to 30 runes (multi-byte, concurrent, cached) are judged "
        "by re-evaluating the declarative definition in TLC. Exhaustive within the symbol bound, sampled beyond it.")
NOTE = ("Trusted: TLC; the harness's concretisation of the abstract symbols 'x' (other character) and ' ' (Unicode space, via Go's "
        "unicode.IsSpace) and of value classes into floats/texts; the value oracle strconv.ParseFloat for the written text. "
        "Auxiliary numeric check, not decided by the spec: stored value = written value x 10^e within max(2, k+1) ulp of the "
        "correctly rounded product computed with math/big (k = rewritten components).")
TECHNIQUE = ("TLA+ model checking (TLC) of a declarative/operational function pair + replay of every explored unit into "
             "benchunit/benchfmt/benchproc/benchstat + spec-as-oracle validation of recorded calls")
DESIGN_REF = "DESIGN.md section 4 C04"

SIG_RAW = "raw-unit-kept-value-unchanged"

RULE = ("(M) exhaustive TLC run of Units.tla: every unit of length <= MaxLen (5 quick / 7 thorough) over "
        "{n,s,M,B,x,/,*,-,blank} plus 13 named units (ns/op, MB/s, B/op, allocs/op, the repository's table test ...), one state "
        "per unit, invariants DeclEqOp, Idempotent, Passthrough, ChangedIffRewritten, RewrStartsAgree, OneNamePerMetric, "
        "StoredIsTidied, OrigKeptIffChanged, MetadataEitherSpelling, FilterEitherSpelling (the reader invariants quantify over the "
        "8 value classes zero, negzero, finite, sub, big, posinf, neginf, nan); the as-built configuration must violate "
        "OneNamePerMetric. (G) one replay case per explored unit (quick: all 66 441; thorough: all of length <= 5, those "
        "containing ns/MB of length 6, those with two such substrings of length 7), each run on the real code with one concrete "
        "value per class: Tidy (unit, scaling, idempotence, second call), Reader line with 8 measurements (4 fields each) and "
        "the normalised pair fed back, metadata declared/looked up under both spellings, .unit filters quoted and bare under "
        "both spellings; units with a blank through Tidy only; a seed-chosen sample of rewritten units through the benchstat "
        "binary (one table, base unit). (T) recorded Tidy calls (8 goroutines x 3 rounds per unit) and Reader observations on "
        "random units <= 30 runes, each event accepted or rejected by the declarative definition in TLC. "
        "distinct_nontrivial = replayed units that contain ns or MB as a substring (they pass the pre-test and reach the "
        "tokenizer) + recorded units whose tidied form differs from the written one.")

CLASSES_DEFAULT = ["zero", "negzero", "finite", "sub", "big", "posinf", "neginf", "nan"]
JVM = {"JAVA_TOOL_OPTIONS": "-Xms4g -Xmx4g"}


def has_sub(u):
    return any((u[i], u[i + 1]) in (("n", "s"), ("M", "B")) for i in range(len(u) - 1))


def run(ctx):
    bins = ctx.build(binaries=("benchstat",))
    q = ctx.quick

    # (M) the model satisfies the property for every unit within the bound
    ctx.tlc("Units.tla", "Units_mc_quick.cfg" if q else "Units_mc_thorough.cfg", timeout=2400, env=JVM)

    # negative control on the model: the code as shipped, as a named switch, violates OneNamePerMetric
    r = ctx.tlc("Units.tla", "Units_asbuilt.cfg", workers=2, timeout=300, expect_ok=False, count=False, label="asbuilt")
    if not (r.error and "OneNamePerMetric" in r.error):
        raise vlib.Infra("Units_asbuilt.cfg did not produce the OneNamePerMetric counterexample: %s" % (r.error,))
    ctx.cov["asbuilt_counterexample"] = "KeepRawUnitWhenValueUnchanged=TRUE violates OneNamePerMetric at u = <<n,s>>"

    # (G) spec -> code
    r = ctx.tlc("Units_gen.tla", "Units_gen_quick.cfg" if q else "Units_gen_thorough.cfg", timeout=2400, label="gen", env=JVM)
    objs = r.printed_json()
    meta = [o for o in objs if isinstance(o, dict) and o.get("tag") == "meta"]
    classes = meta[0]["classes"] if meta else None
    if not classes or sorted(classes) != sorted(CLASSES_DEFAULT):
        raise vlib.Infra("generator did not announce the expected value classes: %r" % (classes,))
    cases = vlib.dedupe([o for o in objs if isinstance(o, dict) and o.get("tag") == "case"],
                        key=lambda c: json.dumps(c["u"]))
    del objs
    if len(cases) < 60000:
        raise vlib.Infra("generator produced only %d cases" % len(cases))
    for c in cases:
        c.pop("tag", None)
    nsub = sum(1 for c in cases if has_sub(c["u"]))
    nchanged = sum(1 for c in cases if c["changed"])
    nblank = sum(1 for c in cases if c["blank"])
    ctx.cov["replay_units"] = len(cases)
    ctx.cov["replay_units_rewritten"] = nchanged
    ctx.cov["replay_units_with_blank_tidy_only"] = nblank
    ctx.cov["value_classes"] = classes
    ctx.add_samples([c for c in cases if c["changed"] and not c["blank"] and len(c["u"]) >= 5][:1], 1)
    ctx.add_samples([c for c in cases if c["changed"] and c["blank"]][:1], 1)
    ctx.replay("units", cases, "replay of every explored unit (Tidy, Reader, metadata, filter)", extra_args=[",".join(classes)])
    ctx.cov["evaluations"] += len(cases) * (len(classes) - 1)      # one Tidy/Reader evaluation per value class

    # the same through the benchstat binary, for a seed-chosen sample of rewritten units
    cand = [c for c in cases if c["changed"] and not c["blank"]]
    rnd = random.Random(ctx.seed)
    rnd.shuffle(cand)
    named = [c for c in cand if any(s in ("o", "p") for s in c["u"])]
    sub = vlib.dedupe(named + cand[:150 if q else 1500], key=lambda c: json.dumps(c["u"]))
    same = [c for c in cases if not c["changed"] and not c["blank"] and c["u"]]
    rnd.shuffle(same)
    sub += same[:30 if q else 300]
    ctx.replay("units", sub, "benchstat binary: one table per metric", extra_args=[",".join(classes), bins["benchstat"]])
    ctx.cov["benchstat_runs"] = len(sub)

    # (T) code -> spec on long random units, concurrent and cached calls
    n = 300 if q else 5000
    tp = os.path.join(ctx.work, "units-trace.ndjson")
    ctx.harness(["units", "record", tp, n])
    events = ctx.read_ndjson(tp)
    if len(events) < n and not any(e.get("hang") for e in events):
        raise vlib.Infra("recorder produced only %d events" % len(events))
    ok, hwm, tr = ctx.trace_validate("Units_trace.tla", "Units_trace.cfg", tp, timeout=1800)
    if tr.error or hwm < len(events):
        tail = "\n".join(l for l in tr.out.splitlines() if not l.startswith('"'))[-2500:]
        raise vlib.Infra("Units_trace stopped at event %d of %d (spec problem, not a verdict): %s\n%s" % (hwm, len(events), tr.error, tail))
    rejected = sorted(set(o["line"] for o in tr.printed_json("reject")))
    bad = []
    for ln in rejected:
        e = events[ln - 1]
        if e.get("hang"):
            sig = "hang"
        elif e.get("panic"):
            sig = "panic"
        elif e["ev"] == "read" and e.get("asbuilt"):
            sig = SIG_RAW
        else:
            sig = "trace-%s-mismatch" % e["ev"]
        bad.append({"signature": sig, "family": "units-trace", "event": e,
                    "detail": "recorded %s rejected by the declarative definition: %s -> %s" % (
                        e["ev"], e.get("line", e.get("raw")), e.get("stored", e.get("unit")))})
    if bad:
        # confirm: record again with the same seed, the same events must come out
        tp2 = os.path.join(ctx.work, "units-trace-2.ndjson")
        ctx.harness(["units", "record", tp2, n])
        ev2 = ctx.read_ndjson(tp2)
        key = lambda e: json.dumps({k: e.get(k) for k in ("ev", "u", "cls", "unit", "orig", "e", "scaled")}, sort_keys=True)
        have = set(key(e) for e in ev2)
        if any(key(b["event"]) not in have for b in bad):
            # not the same events: a fault that depends on something unordered (map iteration, scheduling)
            # moves around.  It is a verdict only if the second recording is rejected too, by events of
            # the same class; otherwise nothing is concluded.
            ok2, hwm2, tr2 = ctx.trace_validate("Units_trace.tla", "Units_trace.cfg", tp2, timeout=1800)
            rej2 = sorted(set(o["line"] for o in tr2.printed_json("reject")))
            if tr2.error or hwm2 < len(ev2) or not rej2:
                raise vlib.Infra("rejected recorded events did not reproduce on a second recording - no verdict")
            cls2 = set("panic" if ev2[ln - 1].get("panic") else "trace-%s-mismatch" % ev2[ln - 1]["ev"] for ln in rej2)
            bad = [dict(b, detail=b["detail"] + " (not deterministic: a second recording was rejected at %d other events of the same class)" % len(rej2))
                   for b in bad if b["signature"] in cls2]
            if not bad:
                raise vlib.Infra("rejected recorded events did not reproduce on a second recording - no verdict")
            for b in bad:
                b["signature"] += "-unstable"
        ctx.report(bad, "trace validation of recorded Tidy/Reader observations")
    ctx.cov["traces_validated_against_impl"] += len(events)
    ctx.cov["evaluations"] += sum(e.get("calls", 1) for e in events)
    ctx.cov["recorded_events"] = len(events)
    ctx.cov["recorded_events_rejected"] = len(rejected)
    rec_changed = len(set(json.dumps(e["u"]) for e in events if e["ev"] == "tidy" and e["u"] != e["unit"]))
    ctx.add_samples([{k: e[k] for k in ("ev", "raw", "u", "unit", "e", "calls")} for e in events
                     if e["ev"] == "tidy" and e["u"] != e["unit"] and len(e["u"]) > 15][:1], 1)
    ctx.cov["distinct_nontrivial"] = nsub + rec_changed
    ctx.cov["exhaustive"] = True
    return ctx.finish(RULE, assumptions=[
        "unit strings containing a blank cannot be carried by a benchmark or Unit line (they split the field): Tidy only",
        "the empty unit cannot be written on a line: Tidy only",
        "when tidying leaves the unit unchanged an 'original' pair identical to the stored pair is accepted (the statement does "
        "not forbid it; the code as shipped does this for NaN)",
        "sign of a scaled zero is not compared; scaling is compared within max(2,k+1) ulp (auxiliary numeric check)",
        "replay uses one concrete value per IEEE class and case, chosen from VERIF_SEED; 'x' and ' ' are concretised per "
        "occurrence from 16 runes / 8 blanks including multi-byte ones",
        "benchstat is run on a sample only, with a zero and two ordinary values",
    ])


def replay(ctx, path):
    """./check C04 --replay FILE: re-run stored failing cases."""
    data = json.load(open(path))
    bins = ctx.build(binaries=("benchstat",))
    n = 0
    for v in data.get("violations", []):
        case = v.get("case")
        if case is None:
            continue
        extra = [",".join(CLASSES_DEFAULT)]
        if str(v.get("what", "")).startswith("benchstat"):
            extra.append(bins["benchstat"])
        ctx.replay("units", [case], "replay of " + os.path.basename(path), extra_args=extra, confirm=False)
        n += 1
    if n == 0:
        print("[verif] nothing replayable in", path)
        return 2
    return ctx.finish("replay of stored failing cases")
