"""C05 - benchmark names decompose consistently and key extraction follows suit (spec family Names)."""
import os
import vlib

LEVEL = "model_checking"
TEXT = ("TLC enumerates every name over the alphabet {a / = - 1 k} up to 6 (quick) / 8 (thorough) symbols and proves on the model that "
        "base+parts reproduce the name, that every part is a '/'-introduced segment except an optional last -digits part, that the base "
        "reported alone is the base of the decomposition, that the key table (.name, .fullname, /k, /gomaxprocs, plain keys, absent) agrees "
        "with the decomposition, and that a transcription of the code's algorithms (backward scan for -N, first-slash base, left-to-right "
        "split, prefix search with the GOMAXPROCS special case, key dispatch) computes exactly the declarative definition. Every enumerated "
        "name is then replayed on the real code: Name.Full/Base/Parts, one single-field projection per key kind (Key.Get) and literal "
        "filters that must match the expected value and no one-character variation of it. Exhaustive within the length bound; the letter "
        "class is sampled (ASCII letter, multi-byte rune, invalid UTF-8 byte) per seed.")
NOTE = ("Trusted: TLC, the harness's symbol->bytes map (a prefix code, so prefix/equality relations carry over), the reading of 'digits' as "
        "ASCII digits. Names longer than the bound and names mixing several different letters are covered only through the class abstraction.")
TECHNIQUE = "TLA+ model checking (TLC) of a declarative/operational function pair + exhaustive replay of the enumerated names into benchfmt.Name and benchproc projections/filters"
DESIGN_REF = "DESIGN.md section 4 C05"

RULE = ("(M) exhaustive TLC run of Names.tla: one state per name over {a,/,=,-,1,k} of length <= MaxLen (6 quick, 8 thorough), invariants "
        "ConcatOK, PartShape, BaseAlone, ExtractAgrees, DeclEqOp (declarative = operational for decomposition and for the 9 keys x both "
        "readings of k x 4 configuration maps), PartsNonEmpty; (G) one replay case per enumerated name (all names <= 6 quick, <= 8 thorough), "
        "expected values printed by the declarative side; each case is run under two concretisations (k an ordinary key word / k = "
        "gomaxprocs; a = ASCII letter, multi-byte rune or invalid byte, rotating with seed and name) through Name.Full/Base/Parts, 9 "
        "single-field projections and 9 x (exact + bare-word + <=2 variation) literal filters plus their conjunction. "
        "traces_validated_against_impl counts replayed names; distinct_nontrivial = replayed names with at least one part "
        "(a '/' segment or a GOMAXPROCS part).")

# thorough: names of length 8 are generated in MOD batches (symbol sum modulo MOD) to keep
# each batch of printed cases small
MOD = 6

GEN_CFG = """SPECIFICATION Spec
CONSTANTS
  MaxLen = %d
  MinLen = %d
  Mod = %d
  Class = %d
INVARIANTS Emit
CHECK_DEADLOCK FALSE
"""


def gen(ctx, cfg, expect_min, module="Names_gen.tla"):
    # the generator re-enumerates names the (M) run has already counted: keep its
    # states out of coverage.states/transitions, list the run separately
    r = ctx.tlc(module, cfg, timeout=1500, label="gen", count=False)
    ctx.cov.setdefault("gen_runs", []).append({"cfg": cfg, "generated": r.generated, "distinct": r.distinct, "wall_s": round(r.wall, 1)})
    cases = r.printed_json("case")
    del r
    # TLC's workers print in no fixed order: sort, and drop the tag
    seen = set()
    out = []
    for c in cases:
        if c["n"] in seen:
            continue
        seen.add(c["n"])
        c.pop("tag", None)
        out.append(c)
    out.sort(key=lambda c: (len(c["n"]), c["n"]))
    if len(out) < expect_min:
        raise vlib.Infra("generator %s produced only %d cases (expected >= %d)" % (cfg, len(out), expect_min))
    return out


def replay_cases(ctx, cases, stats):
    stats["n"] += len(cases)
    stats["nontrivial"] += sum(1 for c in cases if c["p"])
    stats["gmp"] += sum(1 for c in cases if c["p"] and c["p"][-1].startswith("-"))
    stats["explicit"] += sum(1 for c in cases if c["x1"]["k"] != c["x0"]["g"])
    ctx.replay("names", cases, "replay of TLC-enumerated names")


def run(ctx):
    ctx.build()
    q = ctx.quick
    # (M)
    ctx.tlc("Names.tla", "Names_mc_quick.cfg" if q else "Names_mc_thorough.cfg", timeout=1700)
    # (G)
    stats = {"n": 0, "nontrivial": 0, "gmp": 0, "explicit": 0}
    if q:
        cases = gen(ctx, "Names_gen_quick.cfg", 55987)
        pick = [c for c in cases if c["n"] in ("a/k=1-1", "-1", "a-1/k")]
        ctx.add_samples(pick, 3)
        replay_cases(ctx, cases, stats)
        expect = 55987
    else:
        cases = gen(ctx, "Names_gen_thorough.cfg", 335923)
        pick = [c for c in cases if c["n"] in ("a/k=1-1", "/k=/k=1", "a-1/k-")]
        ctx.add_samples(pick, 3)
        replay_cases(ctx, cases, stats)
        del cases
        for cl in range(MOD):
            cfg = "Names_gen_thorough_len8_c%d.cfg" % cl
            with open(os.path.join(ctx.specdir, cfg), "w") as fh:
                fh.write(GEN_CFG % (8, 8, MOD, cl))
            cases = gen(ctx, cfg, 1000)
            replay_cases(ctx, cases, stats)
            del cases
        expect = 2015539
    if stats["n"] != expect:
        raise vlib.Infra("replayed %d names, expected all %d" % (stats["n"], expect))
    # chunk exploration: names of up to 4 whole segments (repeated keys, extended keys, empty values)
    chunk_cases = gen(ctx, "Names_gen_chunks.cfg", 3000, module="Names_chunks.tla")
    replay_cases(ctx, chunk_cases, stats)
    ctx.cov["chunk_names"] = len(chunk_cases)
    ctx.cov["distinct_nontrivial"] = stats["nontrivial"]
    ctx.cov["names_with_gomaxprocs_part"] = stats["gmp"]
    ctx.cov["names_where_explicit_gomaxprocs_segment_decides"] = stats["explicit"]
    ctx.cov["exhaustive"] = True
    return ctx.finish(RULE, assumptions=[
        "'digits' in the statement are the ASCII digits 0-9; any other byte or rune (including Unicode digits) is an ordinary character",
        "within one name every occurrence of the symbol a is the same concrete character and every 1 the same digit; the code never compares letters with each other, only with '/', '-', '=' and the key text",
        "values and keys containing a backslash or a double quote are not used (quoting of such words is C07's subject)",
        "states/transitions count the (M) run only; the generator runs re-enumerate the same names and are listed under gen_runs",
    ])
