"""C06 - filter semantics (spec family FilterSem)."""
import json, os, re
import vlib

LEVEL = "model_checking"
TEXT = ("FilterSem.tla gives the filter language a declarative meaning (Holds, ordinary boolean connectives, .unit judged "
        "against base or written unit) and a transcription of benchproc/filter.go (closures returning (mask|nil, bool), NOT "
        "complementing whole words, AND/OR folding left with an adopted, in-place combined first mask and short-circuit, "
        "word-packed masks with the count applied in All/Any/Test, in-place Apply; masks and Values live in a store so that "
        "aliasing is expressible). TLC proves Test/All/Any/Apply/Match-purity/repeatability of the transcription against Holds "
        "for every expression of depth <= 2 (quick; thorough adds depth 3 and more atoms) on every result with up to 2W+1 "
        "measurements over two kinds (W = 2). Every generated expression is printed in five spellings (juxtaposition/AND, "
        "redundant or flattened parentheses, key:(a OR b), quoted and regexp values, fixed lists through "
        "ProjectionParser.Parse) and run through NewFilter + Match/Apply on results blown up to the real word size "
        "(positions 0,31,32,63,64 and a few more); expected answers come from Holds. Random deep expressions on results "
        "with 1-70 measurements are judged by TLC evaluating Holds. Exhaustive on the stated small domain, sampled beyond it.")
NOTE = ("Trusted: TLC; the harness's printer from trees to filter text and its map from model measurements to real positions "
        "(documented in FilterSem_gen.tla); Go's regexp package, used to compute the language of a regexp term over the finite "
        "universe of values (the spec has no regexp engine); the key extractors themselves are C05's subject - here a result is "
        "built so that the extracted value is the model's. .fullname terms and .fullname@(...) lists are not generated.")
TECHNIQUE = ("TLA+ model checking (TLC) of a declarative/operational pair + replay of every generated expression, in several "
             "spellings, into benchproc.NewFilter/Filter.Match/Filter.Apply/ProjectionParser.Parse + TLC as oracle on recorded evaluations")
DESIGN_REF = "DESIGN.md section 4 C06"

RULE = ("(M) exhaustive TLC runs of FilterSem.tla: quick = all expressions of depth <= 2 with binary AND/OR over the atoms "
        "{*, k1:v1, .unit:ns/op, .unit:B/op} plus key:(a) and ternary AND/OR over literals, on all 124 results with 1..5 "
        "measurements over {rescaled ns/op->sec/op, plain B/op} x {k1:v1 true, false}; thorough adds depth <= 2 over six atoms "
        "(two whole-result terms, a regexp) on 248 results, ternary nodes over all depth <= 1 expressions over three atoms, "
        "depth-3 expressions over three atoms with one shallow operand at the top, and all depth <= 3 binary expressions "
        "over two atoms, the last three on 12 word-boundary results (n = W, W+1, 2W+1); invariants TestOK, AllOK, AnyOK, MatchPure, ApplyOK, Repeatable; negative control (shared leaf masks) must fail. "
        "(G) one replay case per generated expression (depth <= 2 over eight atoms covering every kind of term, same-key "
        "disjunctions in context, ternary nodes, fixed lists on top; thorough adds depth 3), each on 10 model results in 2-3 "
        "real layouts and 5 spellings (+ projection spelling); zero-measurement results are outside the domain. "
        "(T) recorded evaluations of random expressions of depth <= 6 on random results with 1..70 measurements validated "
        "event by event against Holds. "
        "distinct_nontrivial = replay cases whose expression mixes a per-measurement term (.unit) with a whole-result term "
        "under at least one operator, plus recorded events with more than 32 measurements whose expression contains a .unit term.")


def has_op(e, ops):
    if e["op"] in ops:
        return True
    return any(has_op(a, ops) for a in e.get("args", []))


def mixed(e):
    return e["op"] in ("not", "and", "or") and has_op(e, ("unit", "unitre")) and has_op(e, ("cfg", "name", "sub", "in", "true"))


def run(ctx):
    bins = ctx.build(binaries=("benchfilter",))
    q = ctx.quick
    # (M) exhaustive
    if q:
        ctx.tlc("FilterSem.tla", "FilterSem_mc_quick.cfg", timeout=1500)
    else:
        for cfg in ("FilterSem_mc_quick.cfg", "FilterSem_mc_thorough.cfg", "FilterSem_mc_thorough1b.cfg",
                    "FilterSem_mc_thorough2.cfg", "FilterSem_mc_thorough3.cfg"):
            ctx.tlc("FilterSem.tla", cfg, timeout=3000)
    # negative control: a .unit leaf that hands out one shared mask must be caught by the invariants
    r = ctx.tlc("FilterSem.tla", "FilterSem_neg_shared.cfg", timeout=600, expect_ok=False, count=False, label="negative-control")
    if not (r.error and "Invariant" in r.error):
        raise vlib.Infra("negative control FilterSem_neg_shared.cfg was not rejected: the invariants do not bite (%s)" % (r.error,))
    ctx.cov["negative_control"] = "FilterSem_neg_shared.cfg (one shared mask per .unit leaf): " + r.error

    # (G) generation + replay
    r = ctx.tlc("FilterSem_gen.tla", "FilterSem_gen_quick.cfg" if q else "FilterSem_gen_thorough.cfg", timeout=3000, label="gen")
    hdrs = r.printed_json("results")
    if len(hdrs) != 1:
        raise vlib.Infra("generator printed %d result headers" % len(hdrs))
    hdr = hdrs[0]
    cases = vlib.dedupe(r.printed_json("case"))
    if len(cases) < 1000:
        raise vlib.Infra("generator produced only %d cases" % len(cases))
    for c in cases:
        c.pop("tag", None)
    hp = os.path.join(ctx.work, "filtersem-results.json")
    with open(hp, "w") as fh:
        json.dump(hdr, fh)
    nontriv = sum(1 for c in cases if mixed(c["e"]))
    ctx.add_samples([{"expr": cases[len(cases) // 2]["e"], "expected_on_result_6": cases[len(cases) // 2]["o"][5],
                      "result_6": hdr["rs"][5], "real_positions": hdr["layout"][5]}], 1)
    ctx.replay("filtersem", cases, "replay of generated filter expressions", extra_args=[hp])
    sp = os.path.join(ctx.work, "filtersem-stats.json")
    stats = {}
    if os.path.exists(sp):
        stats = json.load(open(sp))
    ctx.cov["replay_cases"] = len(cases)
    ctx.cov["replay_stats"] = stats
    ctx.cov["evaluations"] += stats.get("evaluations", 0)

    # (T) recorded evaluations judged by the spec
    nev = 400 if q else 6000
    tp = os.path.join(ctx.work, "filtersem-trace.ndjson")
    ctx.harness(["filtersem", "record", tp, nev, bins["benchfilter"]])
    if os.path.exists(tp + ".rejected"):
        # expressions printed from the documented grammar that NewFilter refused (twice)
        rej = json.load(open(tp + ".rejected"))
        ctx.report([{"signature": "wellformed-filter-rejected", "family": "filtersem-record",
                     "detail": "NewFilter(%r): %s" % (r["q"], r["err"])} for r in rej[:5]], "recorded evaluations: well-formed filters refused")
        ctx.cov["wellformed_filters_rejected"] = len(rej)
    events = ctx.read_ndjson(tp)
    nbin = sum(1 for e in events if e["ev"] == "apply")
    if len(events) - nbin != nev:
        raise vlib.Infra("recorder wrote %d library events, wanted %d" % (len(events) - nbin, nev))
    ctx.cov["benchfilter_binary_events"] = nbin
    big = sum(1 for e in events if len(e["res"]["meas"]) > 32 and has_op(e["expr"], ("unit", "unitre")))
    s = dict(events[0]); s["res"] = dict(s["res"]); s["res"]["meas"] = s["res"]["meas"][:3] + ["..."]; s["bits"] = s["bits"][:8]
    ctx.add_samples([s], 1)
    validate(ctx, events)
    ctx.cov["traces_validated_against_impl"] += len(events)
    ctx.cov["evaluations"] += len(events)
    ctx.cov["recorded_events"] = len(events)
    ctx.cov["distinct_nontrivial"] = nontriv + big
    ctx.cov["exhaustive"] = True
    return ctx.finish(RULE, assumptions=[
        "results with zero measurements cannot come from the reader and are outside the domain",
        "a regexp term is represented by its language over the finite universe of values in play, computed with Go's regexp package",
        "the extracted value of a key is taken as given (results are built so that it is the model's); extraction itself is C05",
        ".fullname terms and fixed lists on .fullname are not generated",
    ])


def event_sig(e):
    """Stable class of a rejected recorded event, recomputed from the event alone."""
    if e.get("err"):
        return "panic" if e["err"].startswith("panic") else "eval-error"
    n = len(e["res"]["meas"])
    wc = "w0" if n <= 32 else ("w1" if n <= 64 else "w2+")
    if not e.get("pure", True):
        return "match-mutates-result"
    if not e.get("again", True):
        return "not-repeatable"
    if e.get("outer"):
        return "test-out-of-range"
    kept = e.get("kept", [])
    bits = e.get("bits", [])
    want = [i + 1 for i, b in enumerate(bits) if b]
    if kept != want:
        return "apply-kept-mismatch"
    if e.get("ok") != (len(kept) > 0):
        return "apply-return-mismatch"
    if e.get("all") != all(bits):
        return "all-mismatch:" + wc
    if e.get("any") != any(bits):
        return "any-mismatch:" + wc
    return "test-mismatch:" + wc


MAX_REJECTS = 8


def validate(ctx, events):
    """High-water-mark validation; a rejected event is classified, reported, dropped, and the
    rest re-validated.  After MAX_REJECTS rejected events the remaining ones are left
    unjudged (the check fails anyway)."""
    cur = events
    for rnd in range(MAX_REJECTS + 1):
        p = ctx.write_ndjson("fs-trace-r%d.ndjson" % rnd, cur)
        ok, hwm, r = ctx.trace_validate("FilterSem_trace.tla", "FilterSem_trace.cfg", p)
        if ok:
            return
        if r.error and "Invariant" not in r.error and "TRACE" not in r.error:
            # an evaluation error inside TLC is a problem of the spec or of the event encoding
            if "Evaluating" in r.out or "evaluat" in r.error:
                raise vlib.Infra("trace validation failed to evaluate: %s" % r.error)
        if hwm >= len(cur):
            raise vlib.Infra("trace rejected but all events consumed: %s" % (r.error,))
        e = cur[hwm]
        ctx.report([{"signature": event_sig(e), "detail": "recorded evaluation rejected by FilterSem_trace: %s" % e.get("q"),
                     "event": e, "family": "filtersem-trace"}], "trace validation")
        cur = cur[:hwm] + cur[hwm + 1:]
        if rnd == MAX_REJECTS - 1:
            vlib.log("trace validation: %d events rejected, not judging the remaining %d" % (MAX_REJECTS, len(cur) - hwm))
            return
