"""C07 - expression syntax of filters and projections (spec family Lexer)."""
import collections, json, os, re
import vlib

LEVEL = "model_checking"
TEXT = ("TLC enumerates every text over the 17-symbol alphabet {a,space,\",\\,(,),:,@,comma,-,*,/,O,R,A,N,D} up to length 4 "
        "(thorough: 5) and over the 9-symbol core alphabet one character longer, plus all texts built from up to 4-5 token-sized "
        "chunks, and proves on the model: Go-style quoting "
        "round-trips for every string (as key, as value, in a term, in a fixed list), bare words of the documented shape denote "
        "themselves, the transcribed tokenizer/recursive-descent algorithm accepts exactly the declaratively defined language "
        "with the same tree, rejected texts get an error offset inside the text, the listed malformed shapes are rejected, and a "
        "termination measure decreases. Every enumerated text is replayed through benchproc.NewFilter and ProjectionParser.Parse: "
        "accept/reject, positioned error, and the denotation probed with Filter.Match / Key.Get on results holding the strings and "
        "one-character variations. Random byte strings (full byte range) quoted with strconv.Quote are checked against the "
        "Quote/Unquote-inverse rule. Exhaustive for the stated alphabet and lengths, sampled beyond.")
NOTE = ("Trusted: TLC; the harness's probing (evaluation of the spec's boolean tree on benchfmt.Results built by struct literal); "
        "strconv.Unquote and regexp.Compile as libraries (the spec's models of both are cross-checked on every text). Texts the "
        "documentation does not decide (AND without a following term, empty projection) are 'free'. Exact error offsets are not "
        "required, only 0..len(text). Character classes '[...]' inside regexps, Unicode blanks other than space, and the keys "
        ".name/.fullname/.unit are checked for accept/reject only (semantic table), not enumerated.")
TECHNIQUE = "TLA+ model checking (TLC, declarative vs operational lexer/parser) + exhaustive replay of short texts into benchproc + judged random quoting"
DESIGN_REF = "DESIGN.md section 4 C07"

RULE = ("(M) exhaustive TLC run of Lexer.tla: one state per text (all texts over the full alphabet up to MaxLen, over the core "
        "alphabet up to CoreLen); invariants TextProps (Unambiguous, FilterAgree, ProjAgree, ErrorOffsetInText, MeasureDecreases), "
        "UnquoteInverse, QuotedWordLexes, QuotedTermDenotes, BareWordDenotes, MalformedRejected, UnbalancedRejected; "
        "(G) one replay case per text (plus the semantic table) through NewFilter and ProjectionParser.Parse, the texts being "
        "those of (M) plus all concatenations of up to 4 (thorough: 5 over a 12-chunk core set) chunks from a set of 17 "
        "words / operators / keywords / terms (texts up to ~20 characters), on which TextProps is checked as well; "
        "(R) recorded random byte strings as quoted / bare keys and values, judged by the Quote/Unquote-inverse rule. "
        "distinct_nontrivial = replayed texts that are well formed as a filter or as a projection and whose denotation was "
        "probed on at least one result, plus recorded strings (counted separately in recorded_strings).")


def run(ctx):
    ctx.build()
    q = ctx.quick
    # (M)
    ctx.tlc("Lexer.tla", "Lexer_mc_quick.cfg" if q else "Lexer_mc_thorough.cfg", timeout=900 if q else 3000)
    # negative control of the model itself: the as-built switch must reproduce the counterexample
    ab = ctx.tlc("Lexer.tla", "Lexer_asbuilt.cfg", timeout=300, expect_ok=False, label="asbuilt", count=False)
    if ab.error is None or "QuotedWordLexes" not in ab.out:
        raise vlib.Infra("Lexer_asbuilt.cfg did not reproduce the QuoteEndsAtBackslashQuote counterexample")
    # (G) character exploration, then token exploration (whole words / operators / keywords as chunks;
    # that configuration also checks TextProps on every text it emits)
    cases = []
    seen = set()
    # Lexer_gen_sem.cfg: the semantically rejected terms (.config / empty key in a filter, .unit in a
    # projection) as chunks, in every position among well-formed terms and operators (<= 5 chunks)
    for cfg in (("Lexer_gen_quick.cfg", "Lexer_gen_tok_quick.cfg", "Lexer_gen_sem.cfg") if q else
                ("Lexer_gen_thorough.cfg", "Lexer_gen_tok_quick.cfg", "Lexer_gen_tok_thorough.cfg", "Lexer_gen_sem.cfg")):
        r = ctx.tlc("Lexer_gen.tla", cfg, timeout=900 if q else 3000, label="gen")
        for c in r.printed_json("case"):
            key = (c["kind"], tuple(c["s"]))
            if key not in seen:
                seen.add(key)
                cases.append(c)
        del r
    del seen
    if len(cases) < 1000:
        raise vlib.Infra("generator produced only %d cases" % len(cases))
    ntab = sum(1 for c in cases if c["kind"] != "text")
    verd = collections.Counter()
    for c in cases:
        verd["filter-" + c["f"]["v"]] += 1
        verd["proj-" + c["p"]["v"]] += 1
    sample = [c for c in cases if c["f"]["v"] == "accept" and len(c["s"]) >= 4][:1]
    sample += [c for c in cases if c["p"]["v"] == "accept" and len(c["s"]) >= 4 and c["p"]["fs"][0]["o"] == "fixed"][:1]
    ctx.add_samples([{"text": "".join(c["s"]), "filter": c["f"], "projection": c["p"]} for c in sample], 2)
    verdicts = ctx.replay("lexer", cases, "replay of TLC-enumerated texts through NewFilter / ProjectionParser.Parse")
    model = [v for v in verdicts if not v.get("ok") and v.get("signature", "").startswith("spec-library-model")]
    if model:
        raise vlib.Infra("the spec's model of a library disagrees with the library (fix the spec): %s" % model[0].get("detail"))
    stats = collections.Counter()
    nontriv = 0
    for v in verdicts:
        if not v.get("ok"):
            stats["fail:" + v.get("signature", "?")] += 1
            continue
        probed = False
        for tok in (v.get("concrete") or "").split():
            k, _, n = tok.partition("=")
            if k in ("fprobe", "pprobe"):
                stats[k + "_results"] += int(n)
                if int(n) > 0:
                    probed = True
                    stats[k + "_texts"] += 1
            else:
                stats[tok] += 1
        if probed:
            nontriv += 1
    # (R) recorded random strings, judged in the harness; run twice for reproducibility
    nrec = 3000 if q else 40000
    evs = []
    for rnd in range(2):
        tp = os.path.join(ctx.work, "lexer-rec%d.ndjson" % rnd)
        ctx.harness(["lexer", "record", tp, nrec])
        evs.append(ctx.read_ndjson(tp))
    if [(e["hex"], e["ok"], e.get("signature")) for e in evs[0]] != [(e["hex"], e["ok"], e.get("signature")) for e in evs[1]]:
        raise vlib.Infra("record mode is not reproducible")
    events = evs[0]
    bad = [e for e in events if not e["ok"]]
    per_sig = collections.Counter()
    rep = []
    for e in bad:
        per_sig[e["signature"]] += 1
        if per_sig[e["signature"]] <= 20:
            rep.append({"signature": e["signature"], "detail": e["detail"], "family": "lexer-record",
                        "input": e["str"], "hex": e["hex"], "mode": e["mode"]})
    ctx.report(rep, "recorded random strings as quoted/bare keys and values")
    ok_sample = [e for e in events if e["ok"] and e["mode"] == "quoted" and len(e["hex"]) >= 10][:1]
    ctx.add_samples([{"recorded_string": e["str"], "expressions": e["exprs"], "ok": True} for e in ok_sample], 1)
    nexpr = sum(e["exprs"] for e in events)
    ctx.cov["traces_validated_against_impl"] += len(events)
    ctx.cov["evaluations"] += nexpr
    ctx.cov["recorded_strings"] = len(events)
    ctx.cov["recorded_expressions"] = nexpr
    ctx.cov["recorded_failing"] = dict(per_sig)
    ctx.cov["replayed_texts"] = len(cases) - ntab
    ctx.cov["semantic_table_cases"] = ntab
    ctx.cov["spec_verdicts"] = dict(verd)
    ctx.cov["replay_stats"] = dict(stats)
    ctx.cov["distinct_nontrivial"] = nontriv + len(events)
    ctx.cov["exhaustive"] = True
    return ctx.finish(RULE, assumptions=[
        "texts the documentation does not decide (AND with no following term, empty projection) may be accepted or rejected",
        "the exact error offset is free; it must lie in 0..len(text)",
        "bare words AND / OR are operators in both languages, as the tokenizer is shared",
        "blank = the space character; other Unicode blanks, '[' ']' in regexps and multi-byte runes are outside the enumerated alphabet (multi-byte and invalid UTF-8 occur in the recorded strings)",
        "ProjectionParser.Parse is called with a match-everything filter (a nil filter panics by contract for fixed orders)",
    ])
