"""C08 - keys identify projected tuples; projections plus residue lose nothing (family Projection)."""
import projcommon
LEVEL = "model_checking"
TEXT = ("TLC checks on the Projection model (parser exclusions, growing field index space, row trimming and interning) that keys "
        "are in bijection with projected tuples under any field growth, that group/fullname exclusions are independent of parse "
        "order and that projections + residue lose nothing; every complete model behaviour (all parse orders) is replayed on the "
        "real ProjectionParser and compared on key identity (==), Key.Get, flattened field lists and NonSingularFields.")
NOTE = "Trusted: TLC, the rendering of model results to benchfmt.Result values, the expression menu mirrored in the harness."
TECHNIQUE = "TLA+ model checking (TLC, exhaustive + simulation) with every behaviour replayed into benchproc"
DESIGN_REF = "DESIGN.md section 4 C08"


def run(ctx):
    return projcommon.run(ctx, "c08")
