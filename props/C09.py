"""C09 - keys sort by the documented per-field orders, totally and reproducibly (family Projection)."""
import projcommon
LEVEL = "model_checking"
TEXT = ("TLC checks on the Projection model that the comparator the code uses (rank tables recorded while interning, bytewise "
        "fallback) is a strict total order and equals the documented per-field order (first observation incl. every key inside "
        ".config, alpha, num with NaN/non-numbers, fixed lists); every complete behaviour is replayed: Key.Less on all ordered "
        "pairs against the model's matrix and SortKeys on shuffled slices against the unique sorted permutation.")
NOTE = ("Trusted: TLC, the fixed table giving the numeric reading of the value tokens (the fuzzy number parser itself is not "
        "modelled), rendering of model results.")
TECHNIQUE = "TLA+ model checking (TLC, exhaustive + simulation) with every behaviour replayed into benchproc Key.Less/SortKeys"
DESIGN_REF = "DESIGN.md section 4 C09"


CONC_RULE = (" (P) family projection_conc: a seed-chosen sample of the same behaviours (quick 400, thorough 1500; those with a .config "
             "group and at least two keys first) with the comparisons made by 2..8 goroutines released together after all results "
             "have been projected (nothing else asked of the projection before): 20-40 rounds per behaviour, each preceded by a "
             "history step (none / one more result with a never-seen EMPTY-valued file configuration key = new field, old key, nothing "
             "observed anew / rendering a key), with 0, 70, 600 "
             "or 3000 constant file configuration keys in front; every goroutine asks Key.Less of all ordered pairs and SortKeys of "
             "shuffles against the model's matrix; a deviation that a fresh sequential run shows as well is left to family "
             "projection; signatures less-matrix/concurrent, sortkeys/concurrent, less-panic/concurrent.")


def run(ctx):
    import random
    orig = ctx.replay

    def replay(family, cases, what, extra_args=(), **kw):
        out = orig(family, cases, what, extra_args=extra_args, **kw)
        if family == "projection":
            rnd = random.Random(ctx.seed)
            def weight(c):
                grp = any(len(p["less"]) >= 2 and (".config" in p["flat"] or len(p["flat"]) > 2 or p["id"] in ("e1", "e5", "e6", "e7", "e11", "residue")) for p in c["proj"])
                return (0 if grp else 1, rnd.random())
            sub = sorted(cases, key=weight)[:400 if ctx.quick else 1500]
            sub = [dict(c) for c in sub]
            ctx.cov["concurrent_comparison_cases"] = len(sub)
            # schedule-dependent by nature: a deviation class is confirmed when it recurs in one of up to 3 re-runs
            orig("projection_conc", sub, "Key.Less / SortKeys from several goroutines after all results were projected", confirm="any", timeout=1500)
        return out
    ctx.replay = replay
    fin = ctx.finish

    def finish(rule, *a, **kw):
        return fin(rule + CONC_RULE, *a, **kw)
    ctx.finish = finish
    return projcommon.run(ctx, "c09")
