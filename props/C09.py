"""C09 - keys sort by the documented per-field orders, totally and reproducibly (family Projection)."""
import projcommon
LEVEL = "model_checking"
TEXT = ("TLC checks on the Projection model that the comparator the code uses (rank tables recorded while interning, bytewise "
        "fallback) is a strict total order and equals the documented per-field order (first observation incl. every key inside "
        ".config, alpha, num with NaN/non-numbers, fixed lists); every complete behaviour is replayed: Key.Less on all ordered "
        "pairs against the model's matrix and SortKeys on shuffled slices against the unique sorted permutation.")
NOTE = ("Trusted: TLC, the fixed table giving the numeric reading of the value tokens (the fuzzy number parser itself is not "
        "modelled), rendering of model results.")
TECHNIQUE = "TLA+ model checking (TLC, exhaustive + simulation) with every behaviour replayed into benchproc Key.Less/SortKeys"
DESIGN_REF = "DESIGN.md section 4 C09"


def run(ctx):
    return projcommon.run(ctx, "c09")
