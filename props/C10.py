"""C10 - scaled numbers (spec family Scale): prefix / precision / rounding on an exact
decimal grid, CommonScale, ClassOf, NoOpScaler."""
import collections
import vlib

LEVEL = "exploration"
TEXT = ("Claimed in part. Scale.tla puts every magnitude on an exact decimal grid (q*10^-5*1000^k resp. 1024^k, plus sub "
        "levels down to 1e-8 of the smallest prefix) and states the contract of the property declaratively: digits nearest "
        "to the value, four significant digits and a printed mantissa inside [1,1000) resp. [1,1024) whenever a prefix is "
        "in range, hand-over to the next prefix exactly where the mantissa rounds (never 1000.0, never 0.9999k), at least "
        "three digits below the smallest prefix, scale of the smallest non-zero magnitude, binary iff bytes in the numerator. "
        "TLC checks that a transcription of scale.go (threshold table walk, fallback precision loop, minimum loop) and of "
        "parse.go's tokenizer agrees with that contract for all grid points within +-W steps of every threshold of every "
        "prefix of both classes, all argument lists of <=3 pool values and all unit strings up to 5/6 characters; every one "
        "of those inputs is then replayed on the real benchunit.Scale / CommonScale / Scaler.Format / ClassOf and the printed "
        "text is compared with the contract's accept set. NOT claimed: agreement to the last ulp between the parsed threshold "
        "constants and strconv's rounding (the grid step is 1e-5 relative; at the thresholds themselves either side is "
        "accepted), magnitudes beyond about 1100 of the largest prefix, NaN/Inf.")
NOTE = ("Trusted: TLC, the grid-to-float64 conversion (correctly rounded strconv.ParseFloat of the exact decimal, exact "
        "Ldexp for 1024^k), the parser of the formatted text, the concretisation of white space / other runes in unit "
        "strings. NoOpScaler is checked in the harness only (auxiliary): read-back equality and no shorter decimal, on "
        "seed-chosen floats. Where the statement leaves a choice the contract accepts every choice: binary mantissas in "
        "[1000,1024) may print with one or no decimal; on [1023.9488,1023.95) both 1023.9Ki and 1.000Mi are accepted.")
TECHNIQUE = "TLA+ model checking (TLC) of declarative contract vs operational transcription + replay of every TLC input on the real benchunit code"
DESIGN_REF = "DESIGN.md section 4 C10, section 6"

RULE = ("(M) exhaustive TLC run of Scale.tla: one state per input (leaves of a root/bucket tree that only serves "
        "to spread the work over TLC's workers; states = inputs + ~200 tree nodes), invariants ScaleOpInDecl, ScaleDeclEqOp, "
        "DecimalHandOverUnique, BinaryHandOverBand, ScaleFourDigits, ScaleBelow, OutsideIsEdge, BoundaryIsThreshold, "
        "AcceptNonEmpty, CommonOK, ClassOK. Inputs: grid points q in [t-W, t+W] around every threshold/edge t "
        "(decimal 5, binary 10 per prefix) of each of the 8 SI and 5 IEC prefixes plus sub levels s=1..8 (W=30 quick, "
        "600 model checking / 200 replay thorough) plus a few mid-range mantissas; all argument lists of length <=3 over "
        "a pool of 10 (quick) / 14 (thorough) signed values incl. zero, per class; all unit strings of length <=5 (quick) "
        "/ <=6 (thorough) over {B,M,b,y,t,e,s,/,*,-,space,x}. (G) Scale_gen.tla prints one replay case per input "
        "(unit strings: all of length <=4/5 over the full alphabet, up to 5/6 over {B,M,/,*,space,x}, and 'bytes' with "
        "<=1/2 characters around it); each case is run through the real code. Grid points that are exactly thresholds "
        "(tie-sensitive: the two tie resolutions of the contract differ) are replayed against the union of both "
        "resolutions and counted separately as threshold_cases. distinct_nontrivial = replayed value cases that are not "
        "thresholds and lie within W grid steps of a threshold (i.e. not the mid-range extras) + common cases with >=2 "
        "distinct non-zero magnitudes + unit cases containing a bytes word (B, MB or bytes as a component on either side).")


def has_bytes_word(u):
    s = "".join(u)
    for sep in "*/- ":
        s = s.replace(sep, "\0")
    return any(w in ("B", "MB", "bytes") for w in s.split("\0"))


def run(ctx):
    ctx.build()
    q = ctx.quick
    # (M)
    jvm = {"JAVA_TOOL_OPTIONS": "-Xmx6g"}   # states are small; keep the JVM from growing to 1/4 of RAM
    ctx.tlc("Scale.tla", "Scale_mc_quick.cfg" if q else "Scale_mc_thorough.cfg", timeout=3000, env=jvm)
    # (G)
    r = ctx.tlc("Scale_gen.tla", "Scale_gen_quick.cfg" if q else "Scale_gen_thorough.cfg", timeout=3000, label="gen", env=jvm)
    cases = r.printed_json("case")
    nodes = r.printed_json("node")          # root and bucket states of the input tree, not inputs
    for c in cases:
        c.pop("tag", None)
    if len(cases) + len(nodes) != r.distinct:
        raise vlib.Infra("generator printed %d cases + %d nodes for %d states" % (len(cases), len(nodes), r.distinct))
    kinds = collections.Counter(c["kind"] for c in cases)
    if kinds["val"] < 3000 or kinds["common"] < 1000 or kinds["unit"] < 10000:
        raise vlib.Infra("generator produced too few cases: %s" % dict(kinds))
    extras = set([1000, 1234, 9999, 12345, 50000, 99949, 100000, 100049, 123456, 314159, 500000, 999999, 1000000, 1000049,
                  2718281, 5000000, 10000000, 10000499, 31415926, 50000000, 99000000, 99999999, 101000000, 105000000,
                  109999999])
    thr = [c for c in cases if c["kind"] == "val" and c["skip"]]
    near = [c for c in cases if c["kind"] == "val" and not c["skip"] and c["q"] not in extras and c["q"] != 0]
    common_nt = [c for c in cases if c["kind"] == "common"
                 and len({(v["k"], v["s"], v["q"]) for v in c["vals"] if v["q"] != 0}) >= 2]
    unit_nt = [c for c in cases if c["kind"] == "unit" and has_bytes_word(c["u"])]
    # auxiliary: NoOpScaler on seed-chosen floats (not from TLC)
    nnoop = 4000 if q else 200000
    aux = [{"kind": "noop", "n": nnoop // 8, "salt": i} for i in range(8)]
    ctx.add_samples([c for c in near if c["region"] == "inrange"][len(near) // 3:], 1)
    ctx.add_samples(common_nt[len(common_nt) // 2:], 1)
    ctx.add_samples(unit_nt[len(unit_nt) // 2:], 1)
    verdicts = ctx.replay("scale", cases + aux, "replay of TLC-generated scale / common-scale / unit-class cases")
    # the contract holds whatever was formatted before: the same cases again in a fresh process,
    # binary class first and smallest magnitudes first (the first run starts with the decimal class)
    def order(c):
        cls = c.get("cls", "")
        return (0 if cls == "bin" else 1, c.get("k", 0) if isinstance(c.get("k", 0), int) else 0, c.get("id", 0))
    re = sorted([c for c in cases if c["kind"] in ("val", "common")], key=order)
    verdicts += ctx.replay("scale", re, "the same cases in a fresh process, binary class and small magnitudes first")
    for v in verdicts:
        if not v.get("ok") and v.get("signature") in ("outside-model", "bad-case"):
            raise vlib.Infra("harness could not judge a case: %s" % (v,))
    # the 8 auxiliary entries are not TLC cases; count floats checked separately
    ctx.cov["traces_validated_against_impl"] -= len(aux)
    ctx.cov["evaluations"] += nnoop - len(aux)
    ctx.cov["auxiliary"] = {"noop_floats_checked": nnoop}
    ctx.cov["cases_by_kind"] = dict(kinds)
    ctx.cov["threshold_cases"] = len(thr)
    ctx.cov["distinct_nontrivial"] = len(near) + len(common_nt) + len(unit_nt)
    ctx.cov["exhaustive"] = True
    return ctx.finish(RULE, assumptions=[
        "magnitudes are exact decimals q*10^(-5-s)*Base^k with 1000 <= q < 1.1e8; ulp-level behaviour around the threshold constants is not modelled",
        "at grid points that are exactly thresholds either neighbouring outcome is accepted",
        "binary mantissas printing in [1000,1024) may carry one decimal (five digits) or none; on [1023.9488,1023.95) both prefixes are accepted",
        "below the smallest prefix / above the largest the prefix is the smallest / largest one and any number of decimals <= 12 with >= 3 significant digits is accepted",
        "NoOpScaler: harness-only check on seed-chosen floats (auxiliary)",
    ])
