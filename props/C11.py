"""C11 - Mann-Whitney U statistic and exact p-values (spec family UTest)."""
import json, os, re
import vlib

LEVEL = "model_checking"
TEXT = ("TLC tabulates, for every tie vector of a pool of up to 7 (thorough: 10) values and every split n1+n2, the exact "
        "distribution of U by brute force over all assignments and by the code's two algorithms transcribed on integer counts "
        "(untied dynamic programme; tied memoised recurrence with K=2 base case, pruning and the language's integer division), "
        "and proves them equal cell by cell, the mass function summing to the total and accumulating to the distribution "
        "function, the three p-values exact, the two-sided value in [0,1] and invariant under swapping the samples; a dealing "
        "machine enumerates the C(N,n1) assignments and proves rank-sum U = pair-count U on each. Every (tie vector, n1, "
        "assignment class, alternative) is replayed on stats.MannWhitneyUTest, every distribution cell on stats.UDist, the "
        "error classes on both entry points. Exhaustive for the enumerated pools; the large-sample clause is auxiliary.")
NOTE = ("Trusted: TLC, the concretisation of tie groups as floats, the 1e-12 rational/float comparison. The normal approximation "
        "(samples beyond the exact limits) is a closed-form float formula outside the model: the spec supplies only the branch "
        "decision; the harness re-evaluates the formula (math.Erfc) and, on the exact side of the switch, the exact tail by its "
        "own dynamic programme - flagged auxiliary.")
TECHNIQUE = "TLA+ model checking (TLC), declarative brute force vs transcribed algorithms + exhaustive replay of generated cases into internal/stats"
DESIGN_REF = "DESIGN.md section 4 C11"

RULE = ("(M) exhaustive TLC run of UTest.tla: every tie vector (composition) of N <= MaxN pooled values x every n1; invariants "
        "CdfMatchesBruteForce, PmfMatchesBruteForce, PmfSumsToTotal, PmfAccumulatesToCdf, CdfMonotoneToTotal, LessExact, "
        "GreaterExact, TwoSidedExact, TwoSidedInUnitInterval, TwoSidedSwapInvariant on the tabulated distributions and "
        "RankSumEqualsPairCount, ClassAbstractionSound on every terminal state of the dealing machine; a single-worker run "
        "(UTest_deal.cfg) counts the terminal states per (T, n1, U) and checks them against the weighted class enumeration and "
        "C(N,n1); the as-built configuration must reproduce the three deviations (negative control). "
        "(G) UTest_gen prints one record per (T, n1); expanded to one replay case per (T, n1) distribution [UDist.CDF/PMF at "
        "every half-integer from -1/2 to n1*n2+1/2], one per (T, n1, assignment class, alternative) [MannWhitneyUTest: U exact, "
        "P = count/total within 1e-12 relative; legacy benchstat.UTest agrees] and one per degenerate input [errors]. "
        "distinct_nontrivial = distinct (T, n1, class) triples whose tie vector has a tie (the tied recurrence is exercised) "
        "plus distinct (T, n1) distributions with ties. Auxiliary cases (sizes around the 25/50 limits) are counted separately.")


def expand(recs, branch, q, seed):
    cases = []
    nontriv = 0
    ncls = 0
    ndist = 0
    for rec in recs:
        T, n1 = rec["T"], rec["n1"]
        if rec["outcome"] != "ok":
            cases.append({"kind": "error", "T": T, "n1": n1, "outcome": rec["outcome"]})
            continue
        ndist += 1
        ties = rec["ties"]
        if not rec["exact"]:
            raise vlib.Infra("spec says a pool of %d values is beyond the exact limit" % sum(T))
        if ties:
            nontriv += 1
        cases.append({"kind": "dist", "T": T, "n1": n1, "total": rec["total"], "top": rec["top"], "hist": rec["hist"],
                      "ab_cdf": rec["ab_cdf"], "ab_pmf": rec["ab_pmf"]})
        for cl in rec["classes"]:
            ncls += 1
            if ties:
                nontriv += 1
            for alt in ("less", "two", "greater"):
                cases.append({"kind": "class", "T": T, "n1": n1, "total": rec["total"], "top": rec["top"],
                              "r": cl["r"], "u": cl["u"], "alt": alt, "want": cl[alt], "ab": cl["ab"]})
    # deterministic order and salts (TLC prints in worker order)
    cases.sort(key=lambda c: (c["kind"], c["T"], c["n1"], c.get("r", []), c.get("alt", "")))
    aux = []
    reps = 3 if q else 12
    for row in sorted(branch, key=lambda r: (r.get("el", 0), r["n1"], r["n2"], r["ties"])):
        for k in range(reps):
            aux.append({"kind": "approx", "n1": row["n1"], "n2": row["n2"], "ties": row["ties"], "exact": row["exact"],
                        "el": row.get("el", 0), "tl": row.get("tl", 0)})
    cases += aux
    for i, c in enumerate(cases):
        c["id"] = i
        c["salt"] = i * 7919 + 13
    return cases, nontriv, ncls, ndist, len(aux)


def run(ctx):
    ctx.build()
    q = ctx.quick
    # (M) exhaustive: distributions + dealing machine
    ctx.tlc("UTest.tla", "UTest_mc_quick.cfg" if q else "UTest_mc_thorough.cfg", timeout=2400)
    # terminal-state census of the dealing machine (registers are per worker: one worker)
    ctx.tlc("UTest.tla", "UTest_deal.cfg", workers=1, timeout=900, label="deal-census")
    # negative control: the as-built switches must reproduce the three deviations
    r = ctx.tlc("UTest.tla", "UTest_asbuilt.cfg", workers=4, timeout=600, expect_ok=False, count=False,
                extra=("-continue",), label="asbuilt")
    hit = set(re.findall(r"Invariant (\w+) is violated", r.out))
    need = {"CdfMatchesBruteForce", "GreaterExact", "TwoSidedExact"}
    if not need <= hit:
        raise vlib.Infra("as-built configuration did not reproduce %s (vacuous invariants?)" % sorted(need - hit))
    ctx.cov["asbuilt_control"] = sorted(hit)
    # (G)
    g = ctx.tlc("UTest_gen.tla", "UTest_gen_quick.cfg" if q else "UTest_gen_thorough.cfg", timeout=2400, label="gen")
    recs = g.printed_json("case")
    branch = g.printed_json("branch")
    if len(recs) < 100 or len(branch) != 1:
        raise vlib.Infra("generator produced %d records, %d branch tables" % (len(recs), len(branch)))
    if len(recs) * 2 != g.distinct:
        raise vlib.Infra("generator printed %d records for %d tabulated inputs" % (len(recs), g.distinct // 2))
    rows = list(branch[0]["rows"])
    # the limits are exported variables of the package: the branch follows them when a caller changes
    # them (the same table computed by the spec for other values of ExactLimit / TiesExactLimit)
    for cfg, el, tl in (("UTest_gen_limits_lo.cfg", 8, 5), ("UTest_gen_limits_hi.cfg", 50, 30)):
        g2 = ctx.tlc("UTest_gen.tla", cfg, timeout=900, label="gen-limits", count=False)
        b2 = g2.printed_json("branch")
        if len(b2) != 1:
            raise vlib.Infra("%s printed %d branch tables" % (cfg, len(b2)))
        for r in b2[0]["rows"]:
            if (r["n1"] <= 31 and r["n2"] <= 31) or not r["exact"]:
                rows.append(dict(r, el=el, tl=tl))
    cases, nontriv, ncls, ndist, naux = expand(recs, rows, q, ctx.seed)
    smp = [c for c in cases if c["kind"] == "class" and len(c["T"]) == 3 and max(c["T"]) == 2 and c["alt"] == "greater"]
    ctx.add_samples([{k: v for k, v in smp[len(smp) // 2].items() if k != "ab"}], 1)
    smp = [c for c in cases if c["kind"] == "dist" and c["T"] == [2, 1] and c["n1"] == 1]
    ctx.add_samples([{k: v for k, v in c.items() if not k.startswith("ab_")} for c in smp], 1)
    ctx.replay("utest", cases, "replay of TLC-generated Mann-Whitney cases", timeout=2400)
    ctx.cov["distinct_nontrivial"] = nontriv
    ctx.cov["tie_vector_inputs"] = ndist
    ctx.cov["assignment_classes"] = ncls
    ctx.cov["auxiliary"] = {
        "what": "large-sample clause: sizes {5,14,24,25,26,38,44,49,50,51,60,70}^2 with and without ties, random samples; benchmath's "
                "assume-nothing comparison in both argument orders = twice the smaller one-sided value capped at 1; normal approximation "
                "re-evaluated with math.Erfc where the spec's UseExact is false, exact tail by an independent dynamic programme "
                "where it is true (tolerance 1e-9 relative); all-equal large samples => ErrSamplesEqual",
        "cases": naux,
        "in_model": "only the branch decision UseExact(n1, n2, hasTies) with limits 50 / 25",
    }
    ctx.cov["exhaustive"] = True
    return ctx.finish(RULE, assumptions=[
        "sample values are finite floats; NaN is outside the domain",
        "the mass function of an untied distribution is evaluated at integral U only (udist.go: 'U must be integral'); "
        "the distribution function at every half-integer",
        "probabilities are compared as rationals count/C(N,n1) with relative tolerance 1e-12; the auxiliary large-sample "
        "comparisons use 1e-9",
    ])
