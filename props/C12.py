"""C12 - descriptive statistics and t statistics in exact rationals (spec family Stats); PARTIAL scope."""
import hashlib, json
import vlib

LEVEL = "other"
TEXT = ("PARTIAL. Decided here, on small integer samples (values 0..6, up to 5 values quick / 6 thorough, every order and "
        "multiplicity) with exact rationals: TLC proves the transcription of internal/stats (incremental mean, Welford variance, "
        "Bounds with and without the Sorted mark, R8 Percentile at p = 0, 1/12, .., 1, IQR, log-domain geometric mean of powers "
        "of two; Welch with Welch-Satterthwaite degrees of freedom, pooled, paired and one-sample t statistics as t^2 + sign + "
        "degrees of freedom; the error if-chains; the selection of tails for the three alternative hypotheses on an abstract "
        "symmetric distribution function) equal to the textbook definitions, percentiles monotone in p and inside [min, max], "
        "sorted and unsorted input agreeing; every enumerated sample is then replayed on the exported functions "
        "(floats against the spec's rationals at 1e-12, p-values only through the relations less+greater=1, two=2*upper(|t|)="
        "2*min(less,greater) between the code's own three answers). NOT decided by this technique: the clauses about the "
        "continuous distribution functions (Student-t / normal CDF monotone, in [0,1], reflection, agreement with numerical "
        "integration, inverse; incomplete-beta symmetry and convergence for real degrees of freedom) - TLA+/TLC has no reals; "
        "they are only probed by auxiliary harness-side relational checks, flagged auxiliary and never the ground of the claim. "
        "LARGE SAMPLES (2..130 every size, some up to 700 values; full mantissas, integers, widely varying magnitude, many ties, constant; "
        "sorted-marked or not): the same textbook definitions are evaluated by the harness in exact rationals (math/big) and compared "
        "with internal/stats; every t-test p-value (small and large samples) is compared with the upper tail of Student's t by an "
        "independent quadrature of the density; each sample lives in one array that is queried repeatedly (history), the "
        "order-sensitive paired test before and after the queries.")
NOTE = ("Level 'other': a model-checked core (exact rational statistics of small integer samples, exhaustive within the stated "
        "bounds, bound to the code by replay) plus auxiliary numeric probes. The distribution-function clauses of the statement "
        "are outside this technique (DESIGN.md section 6) and are not claimed; beyond the model's bounds (more than 6 values, values of "
        "widely varying magnitude) the expected values come from the harness's exact-rational evaluation of the same definitions "
        "(kind 'big'), not from TLC; weighted samples are not covered. Trusted: TLC, math/big, the float-vs-rational comparison, "
        "math.Pow/Ldexp in the geometric-mean comparison, math.Lgamma and the tanh-sinh quadrature of the t density (checked against "
        "the finite series of Abramowitz & Stegun 26.7.3/4 to 2e-13).")
TECHNIQUE = ("TLA+ model checking (TLC) of textbook definitions vs transcribed algorithms on exact rationals + exhaustive replay "
             "of the generated samples into internal/stats; auxiliary relational probes for the distribution functions")
DESIGN_REF = "DESIGN.md section 4 C12, section 6"

RULE = ("(M) exhaustive TLC run of Stats.tla: every sequence over 0..6 of length <= 5 (6) [MeanOK, VarOK, BoundsOK, SortOK, GeoOK on "
        "every order; PctOK, PctMonotoneBounded, IQROK, OneOK on the nondecreasing representative, to which SortOK/BoundsOK/MeanOK/"
        "VarOK reduce every order]; every pair of multisets of sizes 0..3 (thorough: 0..5 model-checked, 0..4 replayed) [TwoSampleOK: Welch and pooled t^2, sign, degrees "
        "of freedom, error table, swap symmetry; PairedByPositionOK, SwapErrsOK]; every multiset of up to 5 paired differences over "
        "-3..3 (-4..4) x 4 hypothesised means [PairedOK]; tail selection for sign(t) x 6 abstract values of F(|t|) [TailOK, "
        "TailSignTable]. TLC reports integer overflow, so every intermediate stayed below 2^31. "
        "(G) Stats_gen prints one case per multiset / pair / difference multiset with the declarative values; the harness runs every "
        "distinct order of a desc multiset unsorted plus the nondecreasing order with Sorted:true, each under the identity and one "
        "seed-chosen exact affine map, through Sample.{Mean,Variance,StdDev,Bounds,Percentile,IQR,GeoMean}, Mean, Variance, StdDev, "
        "Bounds, GeoMean, OneSampleTTest; tt/pd cases through TwoSampleWelchTTest, TwoSampleTTest, PairedTTest with the three "
        "alternatives. distinct_nontrivial = desc multisets with at least two distinct values + tt pairs where Welch or pooled "
        "returns a statistic + pd multisets with a statistic. Auxiliary probes are counted separately. "
        "(B) kind 'big' (harness oracle in exact rationals, sizes beyond TLC's integers): every n in 2..130 and 150, 200, 256, 300, 400, 512, 700 "
        "as n+n and as a lopsided pair, shapes unit / int / wide / ties (quick: half of them above n = 40), single values and constant "
        "samples; mean, variance, bounds, R8 percentiles at 30 levels incl. the clamping boundaries, IQR at 1e-12 of the data's scale; "
        "one-sample (3 hypothesised means), Welch, pooled, paired t^2 / sign / degrees of freedom at 1e-9 (plus the conditioning of the "
        "difference of means); every p-value of every t-test against Student's t upper tail by quadrature at 1e-9 relative; "
        "history: tt cases and big cases re-run the paired / Welch / pooled tests on the same arrays after "
        "Mean/Variance/Bounds/Percentile/IQR/StdDev were asked of them (signature suffix /after-queries). "
        "(P) kind 'conc' (the statistics are functions of their arguments): 2, 3, 4, 8, 16, 32 goroutines, each owning one sample "
        "(sizes 1..700 on both sides of 20/25/30/32/50/64, or 2..13; four shapes; three of four unsorted), released together, repeat "
        "Mean/Variance/StdDev/Bounds/Percentile (27 levels)/IQR for 40..3000 rounds against the exact-rational expectations computed "
        "beforehand (a sequential pass comes first), then as many complete 'big' cases (all t-tests and p-values) run side by side; "
        "signature suffix /concurrent; a panic in a goroutine is a verdict.")

EXPLANATION = ("Scope of this check: exact rational evaluation, in TLA+, of mean, variance (n-1), bounds, R8 percentiles on the grid "
               "p = j/12, IQR, geometric mean of powers of two, and of the Welch / pooled / paired / one-sample t statistics (t^2, sign, "
               "degrees of freedom), their error table and the tail algebra, for samples of small integers (values 0..6, n <= 5 quick, "
               "n <= 6 thorough; two-sample tests n1, n2 <= 3 quick, <= 5 model-checked / <= 4 replayed thorough), model-checked declarative-vs-operational and "
               "replayed exhaustively on internal/stats. The distribution-function clauses of C12 (t and normal CDF monotone / in [0,1] / "
               "reflection / integration / inverse, incomplete-beta symmetry and convergence for degrees of freedom 1..1e5) are functions "
               "of real arguments: not expressible in TLA+/TLC, NOT claimed; coverage['auxiliary'] lists the harness-only relational "
               "probes run for them.")


def salt_of(c):
    """Content-derived salt: the same case gets the same concretisation wherever it is re-run."""
    h = hashlib.sha256(json.dumps({k: v for k, v in c.items() if k not in ("id", "salt", "tail")}, sort_keys=True).encode()).digest()
    return int.from_bytes(h[:6], "big")


def aux_cases(q):
    out = []
    n_fixed = 17                      # len(stAuxDof) in the harness: salts k < 17 (mod 1000) take the fixed grid
    for probe, nrand in (("tdist", 40 if q else 400), ("beta", 60 if q else 600), ("normal", 30 if q else 300)):
        for k in range(n_fixed if probe != "normal" else 1):
            out.append({"kind": "aux", "probe": probe, "salt": k})
        for k in range(nrand):
            out.append({"kind": "aux", "probe": probe, "salt": 1000 * (k + 1) + 500 + (k % 2)})
    return out


def big_cases(q, rnd):
    """Samples of the sizes the statement quantifies over ("1 to several hundred values"): the harness evaluates the
    declarative definitions of Stats.tla in exact rationals on them. Every size 2..130 (so every size- or
    degrees-of-freedom-dependent switch of the code in that range has both sides visited, for equal and for lopsided
    pairs) and some sizes up to 700; shapes rotate (thorough: every shape at every size)."""
    shapes = ["unit", "int", "wide", "ties"]
    out = []
    def add(n1, n2, shape):
        out.append({"kind": "big", "n1": n1, "n2": n2, "shape": shape, "rep": len(out), "tail": None})
    sizes = list(range(2, 131)) + [150, 200, 256, 300, 400, 512, 700]
    for i, n in enumerate(sizes):
        for j, sh in enumerate(shapes):
            if q and (i + j) % 2 and n > 40:
                continue
            add(n, n, sh)
            m = rnd.choice([k for k in sizes if k <= 300])
            add(n, m, sh) if (i + j) % 2 else add(m, n, sh)
    for n in (1, 2, 3, 31, 101, 102, 103, 300):
        add(1, n, "unit"); add(n, 1, "int"); add(n, n, "const"); add(n, 2 * n + 1, "const")
    return out


def conc_cases(q):
    """Goroutines querying their OWN samples at the same time (the statistics are functions of their arguments):
    n1 = number of goroutines, n2 = rounds of Mean/Variance/StdDev/Bounds/Percentile/IQR each makes; then n1 complete
    'big' cases (t-tests, p-values) side by side."""
    out = []
    for rep, (w, rounds, shape) in enumerate([(2, 400, "mix"), (2, 3000, "small"), (3, 300, "mix"), (4, 300, "mix"), (8, 150, "mix"),
                                             (16, 100, "mix"), (4, 2000, "small"), (32, 40, "mix")]):
        for k in range(1 if q else 4):
            out.append({"kind": "conc", "n1": w, "n2": rounds, "shape": shape, "rep": rep * 10 + k, "tail": None})
    return out


def run(ctx):
    ctx.build()
    q = ctx.quick
    tier = "quick" if q else "thorough"
    jenv = {"JAVA_TOOL_OPTIONS": "-Xms2g -Xmx4g"}
    # (M)
    ctx.tlc("Stats.tla", "Stats_mc_%s.cfg" % tier, timeout=600 if q else 3000, env=jenv)
    # (G)
    g = ctx.tlc("Stats_gen.tla", "Stats_gen_%s.cfg" % tier, timeout=600 if q else 3000, env=jenv, label="gen")
    recs = g.printed_json("case")
    tails = g.printed_json("tail")
    if len(tails) != 1 or len(recs) != g.distinct:
        raise vlib.Infra("generator printed %d cases for %d inputs, %d tail tables" % (len(recs), g.distinct, len(tails)))
    tail = {str(r["sgn"]): r["smaller"] for r in tails[0]["rows"]}
    if sorted(tail) != ["-1", "0", "1"]:
        raise vlib.Infra("tail table incomplete: %s" % tail)
    cases = []
    nontriv = 0
    counts = {"desc": 0, "tt": 0, "pd": 0}
    orders = 0
    for r in recs:
        c = {k: v for k, v in r.items() if k != "tag"}
        c["tail"] = tail
        counts[c["kind"]] += 1
        if c["kind"] == "desc":
            if len(set(c["xs"])) >= 2:
                nontriv += 1
            # number of distinct orders the harness runs
            from math import factorial
            m = factorial(len(c["xs"]))
            for v in set(c["xs"]):
                m //= factorial(c["xs"].count(v))
            orders += m
        elif c["kind"] == "tt":
            if not c["welch"]["errs"] or not c["pooled"]["errs"]:
                nontriv += 1
        elif c["kind"] == "pd":
            if not c["errs"]:
                nontriv += 1
        cases.append(c)
    cases.sort(key=lambda c: (c["kind"], c.get("xs", []), c.get("ys", []), c.get("ds", [])))
    aux = aux_cases(q)
    # the spec's geometric-mean rule for powers of two (GeoOK) does not depend on the sample size:
    # scale it to "several hundred values of widely varying magnitude" (property quantifier)
    import random
    rnd = random.Random(ctx.seed)
    geo = []
    for n in (36, 70, 128, 300, 700):
        for spread in (0, 8, 40, 300):
            for base in (-300, -30, 0, 30, 300):
                ks = [base + rnd.randint(-spread, spread) for _ in range(n - 1)]
                last = base - (sum(ks) + base) % n          # make the sum divisible by n
                ks.append(last)
                if (sum(ks) % n) != 0 or max(abs(k) for k in ks) > 900:
                    continue
                rnd.shuffle(ks)
                geo.append({"kind": "geoscaled", "xs": ks, "min": min(ks), "max": max(ks), "salt": len(geo)})
    cases = cases + geo + big_cases(q, rnd) + conc_cases(q)
    for c in cases:
        if c["kind"] in ("big", "conc"):
            c["tail"] = tail
        c["salt"] = salt_of(c)
    allc = cases + aux
    for i, c in enumerate(allc):
        c["id"] = i
    smp = [c for c in cases if c["kind"] == "tt" and c["xs"] == [0, 2, 5] and c["ys"] == [2, 6, 6]]
    ctx.add_samples([{k: v for k, v in c.items() if k not in ("tail",)} for c in smp], 1)
    smp = [c for c in cases if c["kind"] == "desc" and c["xs"] == [3, 3, 3, 6]]
    ctx.add_samples([{k: v for k, v in c.items() if k not in ("tail", "one")} for c in smp], 1)
    conc = [c for c in allc if c["kind"] == "conc"]
    ctx.replay("stats", [c for c in allc if c["kind"] != "conc"], "replay of TLC-generated samples on internal/stats", timeout=2400)
    # schedule-dependent by nature: a deviation class is confirmed when it recurs in one of up to 3 re-runs
    ctx.replay("stats", conc, "goroutines querying their own samples at the same time (internal/stats)", timeout=1200, confirm="any")
    ctx.cov["distinct_nontrivial"] = nontriv
    ctx.cov["desc_multisets"] = counts["desc"]
    ctx.cov["desc_orders_run"] = orders
    ctx.cov["two_sample_pairs"] = counts["tt"]
    ctx.cov["paired_difference_multisets"] = counts["pd"]
    ctx.cov["large_sample_cases"] = sum(1 for c in cases if c["kind"] == "big")
    ctx.cov["concurrent_cases"] = sum(1 for c in cases if c["kind"] == "conc")
    ctx.cov["exhaustive"] = True
    ctx.cov["auxiliary"] = {
        "what": "harness-only relational probes of the clauses TLA+/TLC cannot express: TDist CDF in [0,1], monotone on a grid, "
                "F(-x)+F(x)=1, F(0)=1/2, agreement with Simpson integration of the density (1e-8), generic InvCDF(CDF(x)) = x (1e-6), "
                "and, far out in both tails, InvCDF(CDF(x)) within x(1 -+ d) on a ladder x = m 2^k (every doubling) as long as the "
                "distribution function separates x(1-d), x, x(1+d) by 1e-13, "
                "for degrees of freedom on a fixed grid 1..1e5 (incl. non-integers) and log-uniform random ones; NormalDist the same "
                "plus InvCDF(CDF(x)) = x (1e-8 sigma) and InvCDF(0), InvCDF(1/2), InvCDF(1); regularized incomplete beta "
                "I_x(a,b)+I_(1-x)(b,a)=1 (1e-9), in [0,1], monotone in x, no panic / non-termination for a = dof/2 up to 5e4 "
                "(each call under a watchdog); closed forms of the t CDF for 1 and 2 degrees of freedom wherever a replayed test has them",
        "cases": len(aux),
        "in_model": "nothing of these clauses; only the tail-selection algebra on an abstract symmetric distribution function",
        "ground_of_claim": False,
    }
    return ctx.finish(RULE, assumptions=[
        "samples are finite floats, unweighted (the statement does not mention weights); NaN is outside the domain",
        "GeoMean is checked on positive samples only (documented precondition 'xs must be positive')",
        "Variance of a single value is not checked (the n-1 definition is undefined there); an input that is both undersized and "
        "of zero variance (or mismatched and undersized) may be reported with either documented error; the pooled test with a single "
        "value on one side may return its statistic (as the code does) or ErrSampleSize",
        "descriptive statistics are compared at 1e-12 relative to the larger of the value and the data's scale (statement: 'within a "
        "few ulps of the data's scale'); t^2 and degrees of freedom at 1e-12 relative; relations between p-values at 1e-9",
        "hypothesised means are dyadic rationals so that they are exact floats",
    ], explanation=EXPLANATION)
