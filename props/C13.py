"""C13 - benchmath summaries and comparisons honour their statistical contracts (spec family Summaries)."""
import collections, json, os
import vlib

LEVEL = "model_checking"
TEXT = ("TLC checks, in exact integer/rational arithmetic, that what benchmath does (transcribed: the order-statistic search of the "
        "median interval, the mode scan, the U-test's two-sided rule, the FormatDelta/PctRangeString if-chains, medianCache under "
        "interleaved lookups) satisfies the contracts of the statement for every sample size 1..30 x confidence grid, every rank pattern "
        "of two samples with n1+n2 <= 6 (8 thorough), every small integer sample and the whole rendering grids; every input is then "
        "replayed on the real AssumeNothing/AssumeExact/AssumeNormal with seed-chosen concrete samples and metamorphic variants "
        "(shuffle, x2^k, x3, swap, increasing maps) and compared with the specification's tables. Exhaustive on those finite "
        "domains, sampled (harness-drawn samples of 9..70 values) beyond them; the normal model's summary is checked at EVERY sample "
        "size 1..70 x confidence grid (centre = exact mean, symmetric interval, Student-t coverage of the interval = reported "
        "confidence >= requested, by an independent quadrature of the t density), and its comparison p-value against Welch's "
        "(exact rational t and degrees of freedom, t tail by quadrature).")
NOTE = ("Trusted: TLC, the harness's concretisation of rank patterns and order statistics into float samples, float-vs-rational "
        "comparison at 1e-12, math/big, math.Lgamma and the tanh-sinh quadrature of the t density (agrees with the finite series of "
        "Abramowitz & Stegun 26.7.3/4 to 2e-13). Outside the model (harness-side numeric oracles): the t coverage of the normal "
        "model's interval (1e-8) and the Welch p-value (1e-9); auxiliary only: the normal "
        "approximations used above 30 (median interval) and 50/25 (U-test) samples. Rounding ties of the rendered percentages and confidence levels that coincide with a "
        "coverage value to the last ulp are outside the checked domain.")
TECHNIQUE = "TLA+ model checking (TLC) of contract vs transcription + replay of every generated input into benchmath (metamorphic variants, 8-goroutine cache orders)"
DESIGN_REF = "DESIGN.md section 4 C13"

RULE = ("(M) exhaustive TLC run of Summaries.tla: every (n<=30, level) for the median interval contract (ends bracket the median, "
        "coverage >= level, reported = exact binomial coverage, minimal sufficient n), every sorted sample over 6 values up to size 4 (6) "
        "for the exact/normal model, every rank pattern with n1+n2<=6 (8) for P (range, symmetry, exact permutation value when untied; "
        "brute force over all C(N,n1) assignments), threshold table, FormatDelta and PctRangeString decision tables (total, disjoint, "
        "if-chain = true row), medianCache under all interleavings of 2 (3) callers x 3 keys x 4 (5) lookups. "
        "(G) one replay case per input; cmp patterns once per assumption; each case runs 5-7 concrete variants x all thresholds; "
        "'normallarge': every n in 1..70 x level, four harness-drawn samples each (integers, few levels / constant, full mantissas, "
        "negative x 2^k), exact mean and variance in rationals, t coverage by quadrature. "
        "distinct_nontrivial = median cases whose interval is finite for the sample size + samples with differing values + rank patterns "
        "with at least two levels (x3 assumptions) + delta/range cases whose expected text is a percentage + cache orders that repeat a key "
        "or mix sizes.")


def replay_twice(ctx, cases, what):
    """Like ctx.replay, but a deviation is confirmed by running the WHOLE case list a second
    time in a fresh process: benchmath keeps process-wide state (medianCache), so a failing
    case is only reproducible under the same call history."""
    for i, c in enumerate(cases):
        c["id"] = i
    cp = ctx.write_ndjson("cases-summaries.ndjson", cases)

    def once(tag):
        vp = os.path.join(ctx.work, "verdicts-summaries-%s.ndjson" % tag)
        ctx.harness(["summaries", "replay", cp, vp])
        vs = ctx.read_ndjson(vp)
        if len(vs) != len(cases):
            raise vlib.Infra("harness returned %d verdicts for %d cases" % (len(vs), len(cases)))
        return vs
    v1 = once("1")
    ctx.cov["traces_validated_against_impl"] += len(v1)
    ctx.cov["evaluations"] += len(v1)
    bad = [v for v in v1 if not v.get("ok")]
    if bad:
        v2 = {v["id"]: v for v in once("2")}
        confirmed = []
        for v in bad:
            w = v2[v["id"]]
            if w.get("ok") or w.get("signature") != v.get("signature"):
                raise vlib.Infra("deviation of case %s (%s) did not reproduce on a second full run - no verdict" % (v["id"], v.get("signature")))
            v["case"] = cases[v["id"]]
            v["family"] = "summaries"
            confirmed.append(v)
        ctx.report(confirmed, what)
    return v1


def run(ctx):
    ctx.build()
    q = ctx.quick
    tier = "quick" if q else "thorough"
    # (M)
    jenv = {"JAVA_TOOL_OPTIONS": "-Xmx4g"}     # the models are small; do not claim a quarter of the machine per run
    ctx.tlc("Summaries.tla", "Summaries_mc_%s.cfg" % tier, timeout=2400, env=jenv)
    # as-built control: the named deviations must make TLC produce counterexamples
    if not q:
        r = ctx.tlc("Summaries.tla", "Summaries_asbuilt.cfg", timeout=1200, expect_ok=False, extra=("-continue",),
                    label="asbuilt-control", count=False, env=jenv)
        viol = set(m for m in ("AlphaOK", "ShownOK", "CmpRangeOK", "CmpSymmetricOK", "RangeOK")
                   if ("Invariant %s is violated" % m) in r.out)
        if len(viol) != 5:
            raise vlib.Infra("as-built configuration did not reproduce all counterexamples: %s" % sorted(viol))
        ctx.cov["asbuilt_counterexamples"] = sorted(viol)
    # (G)
    r = ctx.tlc("Summaries_gen.tla", "Summaries_gen_%s.cfg" % tier, timeout=2400, label="gen", env=jenv)
    raw = r.printed_json()
    grid = [o for o in raw if isinstance(o, dict) and o.get("tag") == "grid"]
    gen = [o for o in raw if isinstance(o, dict) and o.get("tag") == "case"]
    if len(grid) != 1 or len(gen) < 1000:
        raise vlib.Infra("generator produced %d cases / %d grid records" % (len(gen), len(grid)))
    grid = grid[0]
    kinds = collections.Counter(c["kind"] for c in gen)
    for k in ("none", "nonelarge", "normallarge", "sample", "cmp", "cmplarge", "delta", "range", "cacheorder"):
        if kinds[k] == 0:
            raise vlib.Infra("generator produced no %s cases" % k)
    gen.sort(key=lambda c: json.dumps(c, sort_keys=True))
    nonekey = {(c["n"], c["c"][0], c["c"][1]): c for c in gen if c["kind"] == "none"}
    cases = []
    nontriv = 0
    for c in gen:
        c.pop("tag", None)
        k = c["kind"]
        if k in ("cmp", "cmplarge"):
            for m in ("none", "normal", "exact"):
                d = dict(c); d["model"] = m; d["alphas"] = grid["alphas"]
                cases.append(d)
            if k == "cmplarge" or len(c["a"]) >= 2:
                nontriv += 3
            continue
        if k == "sample":
            c["confs"] = grid["confs"]
            nontriv += 1 if c["differ"] else 0
        elif k == "none":
            nontriv += 1 if c["minN"] <= c["n"] else 0
        elif k == "nonelarge":
            nontriv += 1
        elif k == "normallarge":
            nontriv += 1 if c["n"] >= 2 else 0
        elif k in ("delta", "range"):
            w = c["want"]
            nontriv += 1 if (w and w[-1] == "%" and len(w) > 2) else 0
        elif k == "cacheorder":
            c["keys"] = [nonekey[(x[0], x[1], x[2])] for x in {tuple(x) for x in c["calls"]}]
            ks = [tuple(x) for x in c["calls"]]
            nontriv += 1 if (len(set(ks)) < len(ks) or len({x[0] for x in ks}) > 1) else 0
        cases.append(c)
    for i, c in enumerate(cases):
        c["serial"] = i
    ctx.add_samples([next(c for c in cases if c["kind"] == "none" and c["n"] == 6 and c["c"] == [19, 20])], 1)
    ctx.add_samples([next(c for c in cases if c["kind"] == "cmp" and c["a"] == [0, 1] and c["b"] == [1, 1] and c["model"] == "none")], 1)
    ctx.add_samples([next(c for c in cases if c["kind"] == "range" and c["c"][0] < 0 and c["want"][-1] == "%" and len(c["want"]) > 2)], 1)
    verdicts = replay_twice(ctx, cases, "replay of Summaries_gen cases on benchmath")
    ctx.cov["distinct_nontrivial"] = nontriv
    ctx.cov["cases_by_kind"] = dict(collections.Counter(c["kind"] for c in cases))
    bad = collections.Counter(v.get("signature", "") for v in verdicts if not v.get("ok"))
    if bad:
        ctx.cov["deviation_signatures"] = dict(bad)
        vlib.log("deviations by signature: %s" % dict(bad))
    ctx.cov["exhaustive"] = True
    return ctx.finish(RULE, assumptions=[
        "samples are finite floats; the specification's samples are integer-valued (medians half-integers), concretised by seed-chosen increasing maps, x2^k and x3",
        "confidence levels on the rational grid of the cfg; levels that need more than 30 samples for a finite interval are outside the grid",
        "rendered percentages whose next decimal is an exact 5 (rounding mode not fixed by the property) are excluded",
        "for samples above the exact limits (median interval n>30; U-test >50 or >25 with ties) only the relational clauses are checked",
        "the Welch p-value and the t interval are numeric: checked against a harness-side oracle (exact rational statistic, quadrature of the t density), "
        "besides range, symmetry, invariance and (n, level)-consistency",
        "P equal to the threshold up to rounding (but not bit-equal) is not used to decide '~'",
    ])
